/-
  Ark.Proofs.CallbacksRelXchg — C08/C09 at world level for RELATION events, part 5: the events of
  `Exchange(e, add, rem, rels)` in a world WITH relation components, part 1: the equations and the
  transfer from the observer-free call (no invariant of the world needed).

  `World.exchange` (`exchangeCore`): after the table lookup, if `rem ≠ []`, ONE lock around the
  `OnRemoveComponents` round and — if a relation component is removed — the `OnRemoveRelations`
  round, both for the event instance `.remove oldMask newMask` (`newMask` = the mask after the
  COMPLETE exchange); then the move.  `Exchange` (`opExchange`): then the writes of the typed path,
  the `OnAddComponents` round and — if relation targets are given — the `OnAddRelations` round,
  both for `.add oldMask newMask`; the `Unsafe` path skips BOTH addition rounds when `add = []`.

  * `firingXRem`, `firingXRemRel`, `xRemRounds`, `lockAfterX2` — the removal part;
    `firingXAdd`, `firingXAddRel`, `xAddRounds` — the addition part.
  * `exchangeCore_rel_obs_eq`, `opExchange_rel_obs_eq` — the equations.
  * `exchangeCore_rel_transfer_panic` / `_ok`, `opExchange_rel_transfer_panic` / `_ok` — whatever
    the observer-free call does (any panic, success), the call with observers does, on the
    reframed world.

  Kernel-only proofs, core Lean only.
-/
import Ark.Proofs.CallbacksRelRemove
import Ark.Proofs.RelExchangeOp

set_option autoImplicit false

namespace Ark

open World Spec Ark.Props.C01World QueryExact

/-! ## 1. what the rounds append -/

/-- the `OnRemoveComponents` observers `Exchange` notifies: none if nothing is removed -/
def firingXRem (m : ObsMgr) (rem : List Comp) (ev : EvInst) : List Nat :=
  if rem.isEmpty then [] else firing m Ev.onRemoveComponents ev

/-- the `OnRemoveRelations` observers `Exchange` notifies: none unless something is removed and a
    relation is removed (`rr`) -/
def firingXRemRel (m : ObsMgr) (rem : List Comp) (rr : Bool) (ev : EvInst) : List Nat :=
  if rem.isEmpty then [] else firingRemRel m rr ev

/-- what the removal rounds of `Exchange` append to the log (newest first): the
    `OnRemoveComponents` observers selected for `ev`, run on `seen`; then the `OnRemoveRelations`
    observers selected for `ev` (if a relation is removed), run on `seen` with the records of the
    first round logged -/
def xRemRounds (rec : World → Nat → Ent → Probe → List LogEv) (m : ObsMgr) (e : Ent)
    (rem : List Comp) (rr : Bool) (ev : EvInst) (seen : World) : List LogEv :=
  notifyAll rec e (firingXRemRel m rem rr ev)
      (seen.addLog (notifyAll rec e (firingXRem m rem ev) seen))
    ++ notifyAll rec e (firingXRem m rem ev) seen

/-- the lock state after the removal block of `World.exchange`: untouched if nothing is removed;
    otherwise one `Lock()`/`Unlock()` cycle if there are `OnRemoveComponents` observers, or a
    relation is removed and there are `OnRemoveRelations` observers -/
def lockAfterX2 (w : World) (rem : List Comp) (rr : Bool) (l2 : Lock) : Lock :=
  if rem.isEmpty then w.locks else lockAfter2 w Ev.onRemoveComponents rr l2

/-- the `OnAddComponents` observers `Exchange` notifies: the `Unsafe` path skips the round when
    nothing is added -/
def firingXAdd (m : ObsMgr) (p : Path) (add : List Comp) (ev : EvInst) : List Nat :=
  if p = .unsafe_ ∧ add = [] then [] else firing m Ev.onAddComponents ev

/-- the `OnAddRelations` observers `Exchange` notifies: none if no relation target is given; the
    `Unsafe` path skips the round when nothing is added -/
def firingXAddRel (m : ObsMgr) (p : Path) (add : List Comp) (rels : List RelID) (ev : EvInst) :
    List Nat :=
  if p = .unsafe_ ∧ add = [] then [] else firingIfRels m rels ev

/-- what the addition rounds of `Exchange` append to the log (newest first) -/
def xAddRounds (rec : World → Nat → Ent → Probe → List LogEv) (m : ObsMgr) (p : Path) (e : Ent)
    (add : List Comp) (rels : List RelID) (ev : EvInst) (seen : World) : List LogEv :=
  notifyAll rec e (firingXAddRel m p add rels ev)
      (seen.addLog (notifyAll rec e (firingXAdd m p add ev) seen))
    ++ notifyAll rec e (firingXAdd m p add ev) seen

theorem xRemRounds_eq_remRounds (rec : World → Nat → Ent → Probe → List LogEv) (m : ObsMgr) (e : Ent)
    {rem : List Comp} (hne : rem ≠ []) (rr : Bool) (ev : EvInst) (seen : World) :
    xRemRounds rec m e rem rr ev seen = remRounds rec m e Ev.onRemoveComponents ev rr ev seen := by
  cases rem with
  | nil => exact absurd rfl hne
  | cons _ _ => rfl

theorem xRemRounds_nil (rec : World → Nat → Ent → Probe → List LogEv) (m : ObsMgr) (e : Ent)
    (rr : Bool) (ev : EvInst) (seen : World) : xRemRounds rec m e [] rr ev seen = [] := rfl

theorem xAddRounds_eq_addRounds (rec : World → Nat → Ent → Probe → List LogEv) (m : ObsMgr)
    (p : Path) (e : Ent) {add : List Comp} (h : p ≠ .unsafe_ ∨ add ≠ []) (rels : List RelID)
    (ev : EvInst) (seen : World) :
    xAddRounds rec m p e add rels ev seen = addRounds rec m e Ev.onAddComponents ev rels ev seen := by
  have : ¬ (p = .unsafe_ ∧ add = []) := by
    rintro ⟨h1, h2⟩
    rcases h with h | h
    · exact h h1
    · exact h h2
  simp only [xAddRounds, firingXAdd, firingXAddRel, this, if_false, addRounds]

theorem xAddRounds_unsafe_nil (rec : World → Nat → Ent → Probe → List LogEv) (m : ObsMgr) (e : Ent)
    (rels : List RelID) (ev : EvInst) (seen : World) :
    xAddRounds rec m .unsafe_ e [] rels ev seen = [] := rfl

section Ops

variable {run : ProbeRunner} {S : Probe → Prop} {rec : World → Nat → Ent → Probe → List LogEv}

theorem cbsOf_xRemRounds (hn : NoCb rec) (m : ObsMgr) (e : Ent) (rem : List Comp) (rr : Bool)
    (ev : EvInst) (seen : World) (lg : List LogEv) :
    cbsOf (xRemRounds rec m e rem rr ev seen ++ lg) =
      ((firingXRemRel m rem rr ev).map fun l => (l, e)).reverse ++
        (((firingXRem m rem ev).map fun l => (l, e)).reverse ++ cbsOf lg) := by
  unfold xRemRounds
  rw [List.append_assoc, cbsOf_round hn, cbsOf_round hn]

theorem cbsOf_xAddRounds (hn : NoCb rec) (m : ObsMgr) (p : Path) (e : Ent) (add : List Comp)
    (rels : List RelID) (ev : EvInst) (seen : World) (lg : List LogEv) :
    cbsOf (xAddRounds rec m p e add rels ev seen ++ lg) =
      ((firingXAddRel m p add rels ev).map fun l => (l, e)).reverse ++
        (((firingXAdd m p add ev).map fun l => (l, e)).reverse ++ cbsOf lg) := by
  unfold xAddRounds
  rw [List.append_assoc, cbsOf_round hn, cbsOf_round hn]

/-! ## 2. `World.exchange` with observers: the equation -/

set_option linter.unusedSimpArgs false in
/-- **`World.exchange` with observers** (equation, relations or not): after the table lookup
    (`w1`), if something is removed and there are `OnRemoveComponents` observers, or a relation is
    removed and there are `OnRemoveRelations` observers, the world is locked ONCE, the
    `OnRemoveComponents` observers the documented rule selects for
    `.remove oldMask newMask` are notified, then — if a relation is removed — the
    `OnRemoveRelations` observers selected for the same instance, all on the locked world with the
    entity still in its old row; the lock is released, the row is moved and the given targets are
    flagged. -/
theorem exchangeCore_rel_obs_eq (hro : ReadOnly run S rec) (e : Ent) (add rem : List Comp)
    (rels : List RelID) (w : World) (hs : ScriptsIn w.obs S) (hok : ObsOK w.obs)
    (hl : w.isLocked = false) (ha : w.alive e = true) (hne : ¬ (add = [] ∧ rem = []))
    {oldT row : Nat} (hix : w.index e.id = (oldT, row)) {t a : Nat} {m : Mask} {rr : Bool}
    {w1 : World}
    (hfoc : findOrCreateTable oldT (w.arch (w.tbl oldT).arch).mask add rem rels w
      = .ok (t, a, m, rr) w1)
    {l1 l2 : Lock} {b : Nat} (hL : LockCycle w.locks l1 b l2) :
    exchangeCore run e add rem rels w =
      .ok ((w.arch (w.tbl oldT).arch).mask,
          ((registerW (addMove w1 e oldT row t m) rels).arch a).mask)
        ((registerW (addMove w1 e oldT row t m) rels).reframe w.obs
          (xRemRounds rec w.obs e rem rr (.remove (w.arch (w.tbl oldT).arch).mask m)
            (w1.withLocks l1) ++ w.log)
          (lockAfterX2 w rem rr l2)) := by
  have hemp := isEmpty_and_false hne
  obtain ⟨hobs, hlog, hlocks⟩ : w1.obs = w.obs ∧ w1.log = w.log ∧ w1.locks = w.locks := by
    have := (frames_findOrCreateTable oldT (w.arch (w.tbl oldT).arch).mask add rem rels).state_frame w
    rw [hfoc] at this; exact this
  have hL1 : LockCycle w1.locks l1 b l2 := by rw [hlocks]; exact hL
  have hs1 : ScriptsIn w1.obs S := by rw [hobs]; exact hs
  have hok1 : ObsOK w1.obs := by rw [hobs]; exact hok
  have hfire : ∀ (evt : Nat), evt ≠ Ev.onCreateEntity ∧ evt ≠ Ev.onRemoveEntity →
      ∀ (x : World), x.obs = w1.obs →
      fireRemove run evt e (w.arch (w.tbl oldT).arch).mask m true x =
        .ok (!(firing w.obs evt (.remove (w.arch (w.tbl oldT).arch).mask m)).isEmpty) (x.addLog
          (notifyAll rec e (firing w.obs evt (.remove (w.arch (w.tbl oldT).arch).mask m)) x)) := by
    intro evt hevt x hx
    rw [fireRemove_readOnly hro x (by rw [hx]; exact hs1) (by rw [hx]; exact hok1) evt hevt, hx, hobs]
  have hun : ∀ (x : World), x.locks = l1 → World.unlock b x = .ok () (x.withLocks l2) :=
    fun x hx => unlock_of_cycle hL1 hx
  have hself : (registerW (addMove w1 e oldT row t m) rels).reframe w.obs w.log w.locks
      = registerW (addMove w1 e oldT row t m) rels := by
    have : (addMove w1 e oldT row t m).reframe w.obs w.log w.locks = addMove w1 e oldT row t m := by
      rw [← hobs, ← hlog, ← hlocks, ← addMove_reframe, reframe_self]
    show registerW ((addMove w1 e oldT row t m).reframe w.obs w.log w.locks) rels = _
    rw [this]
  have h1 := hfire Ev.onRemoveComponents (by decide) (w1.withLocks l1) rfl
  have h2a := hfire Ev.onRemoveRelations (by decide) (w1.withLocks l1) rfl
  have h2b := hfire Ev.onRemoveRelations (by decide) ((w1.withLocks l1).addLog
    (notifyAll rec e (firing w.obs Ev.onRemoveComponents
      (.remove (w.arch (w.tbl oldT).arch).mask m)) (w1.withLocks l1))) rfl
  have hfin : ∀ (lg : List LogEv) (lk : Lock),
      registerW (addMove (w1.reframe w1.obs lg lk) e oldT row t m) rels
        = (registerW (addMove w1 e oldT row t m) rels).reframe w.obs lg lk := by
    intro lg lk; rw [addMove_reframe, hobs]; rfl
  have hfinA : ∀ (lg : List LogEv) (lk : Lock),
      ((registerW (addMove (w1.reframe w1.obs lg lk) e oldT row t m) rels).arch a).mask
        = ((registerW (addMove w1 e oldT row t m) rels).arch a).mask := by
    intro lg lk; rw [hfin]; rfl
  have hF1 : w.obs.hasObservers Ev.onRemoveComponents = false →
      firing w.obs Ev.onRemoveComponents (.remove (w.arch (w.tbl oldT).arch).mask m) = [] :=
    fun h => firing_nil_of_no_observers (hok.agg _) h _
  have hF2 : w.obs.hasObservers Ev.onRemoveRelations = false →
      firing w.obs Ev.onRemoveRelations (.remove (w.arch (w.tbl oldT).arch).mask m) = [] :=
    fun h => firing_nil_of_no_observers (hok.agg _) h _
  unfold xRemRounds firingXRem firingXRemRel firingRemRel lockAfterX2 lockAfter2
  cases hre : rem.isEmpty with
  | true =>
    have hae : add.isEmpty = false := by rw [hre, Bool.and_true] at hemp; exact hemp
    simp only [exchangeCore, bind, M.bind, checkLocked_unlocked w hl, M.get, M.assert, ha, if_true,
      hre, hae, Bool.not_false, Bool.not_true, hix, hfoc, Bool.and_true,
      Bool.false_eq_true, if_false, moveRow_eq, registerTargets_eq, pure, M.pure, notifyAll,
      List.nil_append, addLog_nil, hself]
    rfl
  | false =>
    cases hc : w.obs.hasObservers Ev.onRemoveComponents <;> cases rr <;>
      cases hr : w.obs.hasObservers Ev.onRemoveRelations <;>
    simp only [exchangeCore, bind, M.bind, checkLocked_unlocked w hl, M.get, M.assert, ha, if_true,
      hemp, hre, Bool.not_false, hix, hfoc, hobs, hc, hr, Bool.false_and, Bool.true_and,
      Bool.and_false, Bool.and_true, Bool.or_false, Bool.or_true, Bool.false_or, Bool.true_or,
      Bool.false_eq_true, if_false, lock_of_cycle hL1, h1, h2a, h2b, moveRow_eq, registerTargets_eq,
      notifyAll, List.nil_append, List.append_nil, addLog_nil, hF1, hF2, pure, M.pure]
    all_goals first
      | (rw [hself]; rfl)
      | (rw [hun _ rfl]
         simp only [List.append_assoc]
         rw [← hlog]
         show Res.ok (_, ((registerW (addMove (w1.reframe w1.obs _ _) e oldT row t m) rels).arch a).mask)
           (registerW (addMove (w1.reframe w1.obs _ _) e oldT row t m) rels) = _
         rw [hfinA, hfin]
         rfl)

/-! ## 3. `Exchange` through the access paths: the equation -/

/-- `Exchange` after the `Alive` check of the `Unsafe` path (verbatim) -/
def xchgBody (run : ProbeRunner) (p : Path) (e : Ent) (add : List Comp) (vals : List (Comp × Val))
    (rem : List Comp) (rels : List RelID) : W Unit := do
  preCheck p add rels
  let (old, new) ← exchangeCore run e add rem rels
  if p != .unsafe_ then writeVals e vals
  if p != .unsafe_ || !add.isEmpty then
    fireAddIfHas run Ev.onAddComponents e old new
    if !rels.isEmpty then fireAddIfHas run Ev.onAddRelations e old new
  if p == .unsafe_ then writeVals e vals

theorem opExchange_eq_body (run : ProbeRunner) (p : Path) (e : Ent) (add : List Comp)
    (vals : List (Comp × Val)) (rem : List Comp) (rels : List RelID) (w : World)
    (h : p ≠ .unsafe_ ∨ w.alive e = true) :
    opExchange run p e add vals rem rels w = xchgBody run p e add vals rem rels w := by
  rcases h with hp | ha
  · cases p <;> simp [opExchange, xchgBody, bind, M.bind] at hp ⊢
  · cases p <;> simp [opExchange, xchgBody, bind, M.bind, M.get, M.assert, ha]

theorem opExchange_unsafe_dead (run : ProbeRunner) (e : Ent) (add : List Comp)
    (vals : List (Comp × Val)) (rem : List Comp) (rels : List RelID) (w : World)
    (ha : w.alive e = false) :
    opExchange run .unsafe_ e add vals rem rels w = .panic .deadEntity w := by
  simp [opExchange, bind, M.bind, M.get, M.assert, ha]

theorem xchgBody_pre_panic (run : ProbeRunner) (p : Path) (e : Ent) (add : List Comp)
    (vals : List (Comp × Val)) (rem : List Comp) (rels : List RelID) (w : World) {k : PanicKind}
    (hpre : preCheck p add rels w = .panic k w) :
    xchgBody run p e add vals rem rels w = .panic k w := by
  simp only [xchgBody, hpre, bind, M.bind]

theorem xchgBody_core_panic (run : ProbeRunner) (p : Path) (e : Ent) (add : List Comp)
    (vals : List (Comp × Val)) (rem : List Comp) (rels : List RelID) (w : World)
    (hpre : preCheck p add rels w = .ok () w) {k : PanicKind} {s : World}
    (hcore : exchangeCore run e add rem rels w = .panic k s) :
    xchgBody run p e add vals rem rels w = .panic k s := by
  simp only [xchgBody, hpre, bind, M.bind, hcore]

/-- without observers the body is the pre-validation, `World.exchange` and the writes -/
theorem xchgBody_of_core (run : ProbeRunner) (p : Path) (e : Ent) (add : List Comp)
    (vals : List (Comp × Val)) (rem : List Comp) (rels : List RelID) (w : World)
    (hpre : preCheck p add rels w = .ok () w) {old new : Mask} {w2 : World}
    (hcore : exchangeCore run e add rem rels w = .ok (old, new) w2)
    (hno : ∀ (evt : Nat), w2.obs.hasObservers evt = false) :
    xchgBody run p e add vals rem rels w = .ok () (writeValsW w2 e vals) := by
  have hno2 : ∀ (evt : Nat), (writeValsW w2 e vals).obs.hasObservers evt = false := hno
  cases hre : rels.isEmpty <;> cases hae : add.isEmpty <;> cases p <;>
  simp [xchgBody, hpre, bind, M.bind, hcore, writeVals_eq, fireAddIfHas_none,
    hno, hno2, hre, hae, pure, M.pure]

/-- **`Exchange` with observers** (equation), given the pre-validation and `World.exchange`
    (result `w2`, masks `old`, `new`): the writes of the typed path, then — unless the path is
    `Unsafe` and nothing is added — the `OnAddComponents` observers the documented rule selects for
    `.add old new` and, if relation targets are given, the `OnAddRelations` observers selected for
    the same instance, on the world after the change; then the writes of the `Unsafe` path. -/
theorem xchgBody_obs_eq (hro : ReadOnly run S rec) (p : Path) (e : Ent) (add : List Comp)
    (vals : List (Comp × Val)) (rem : List Comp) (rels : List RelID) (w : World)
    (hpre : preCheck p add rels w = .ok () w) {old new : Mask} {w2 : World}
    (hcore : exchangeCore run e add rem rels w = .ok (old, new) w2)
    (hs2 : ScriptsIn w2.obs S) (hok2 : ObsOK w2.obs) :
    xchgBody run p e add vals rem rels w = .ok () ((writeValsW w2 e vals).addLog
      (xAddRounds rec w2.obs p e add rels (.add old new) (seenAfter p w2 e vals))) := by
  have hfire : ∀ (evt : Nat), evt ≠ Ev.onCreateEntity ∧ evt ≠ Ev.onRemoveEntity →
      ∀ (x : World), x.obs = w2.obs →
      fireAddIfHas run evt e old new x = .ok () (x.addLog
        (notifyAll rec e (firing w2.obs evt (.add old new)) x)) := by
    intro evt hevt x hx
    rw [fireAddIfHas_readOnly hro x (by rw [hx]; exact hs2) (by rw [hx]; exact hok2) _ hevt, hx]
  have h1a := hfire Ev.onAddComponents (by decide) w2 rfl
  have h1b := hfire Ev.onAddComponents (by decide) (writeValsW w2 e vals) rfl
  have h2a := hfire Ev.onAddRelations (by decide)
    (w2.addLog (notifyAll rec e (firing w2.obs Ev.onAddComponents (.add old new)) w2)) rfl
  have h2b := hfire Ev.onAddRelations (by decide) ((writeValsW w2 e vals).addLog
    (notifyAll rec e (firing w2.obs Ev.onAddComponents (.add old new)) (writeValsW w2 e vals))) rfl
  unfold xAddRounds firingXAdd firingXAddRel firingIfRels
  cases rels <;> cases p <;> cases add <;>
  simp [xchgBody, hpre, bind, M.bind, hcore,
    writeVals_eq, h1a, h1b, h2a, h2b, seenAfter,
    writeValsW_addLog, notifyAll, pure, M.pure]

/-! ## 4. transfer from the observer-free call -/

theorem findOrCreateTable_of_noObs (oldT : Nat) (mask : Mask) (add rem : List Comp)
    (rels : List RelID) (w : World) :
    findOrCreateTable oldT mask add rem rels w
      = (findOrCreateTable oldT mask add rem rels w.noObs).mapS
          fun s => s.reframe w.obs w.log w.locks :=
  frames_findOrCreateTable oldT mask add rem rels w.noObs w.obs w.log w.locks

/-- **every rejection of the observer-free `World.exchange` is a rejection with observers**, with
    the same panic, on the same world (observers, log and lock put back): all checks and the table
    lookup precede the events -/
theorem exchangeCore_rel_transfer_panic (run run0 : ProbeRunner) (e : Ent) (add rem : List Comp)
    (rels : List RelID) (w : World) {k : PanicKind} {s : World}
    (h0 : exchangeCore run0 e add rem rels w.noObs = .panic k s) :
    exchangeCore run e add rem rels w = .panic k (s.reframe w.obs w.log w.locks) := by
  cases hl : w.isLocked with
  | true =>
    rw [exchangeCore_locked run0 w.noObs hl] at h0
    injection h0 with e1 e2; subst e1; subst e2
    exact exchangeCore_locked run w hl e add rem rels
  | false =>
  cases ha : w.alive e with
  | false =>
    rw [exchangeCore_dead run0 w.noObs hl e ha] at h0
    injection h0 with e1 e2; subst e1; subst e2
    exact exchangeCore_dead run w hl e ha add rem rels
  | true =>
  by_cases hne : add = [] ∧ rem = []
  · obtain ⟨rfl, rfl⟩ := hne
    rw [exchangeCore_noComponents run0 w.noObs hl e ha] at h0
    injection h0 with e1 e2; subst e1; subst e2
    exact exchangeCore_noComponents run w hl e ha rels
  · cases hix : w.index e.id with
    | mk oldT row =>
    have hfw := findOrCreateTable_of_noObs oldT (w.arch (w.tbl oldT).arch).mask add rem rels w
    cases hf : findOrCreateTable oldT (w.arch (w.tbl oldT).arch).mask add rem rels w.noObs with
    | panic k' s' =>
      rw [exchangeCore_rel_panic run0 e add rem rels w.noObs hl ha hne hix hf] at h0
      injection h0 with e1 e2; subst e1; subst e2
      rw [hf] at hfw
      exact exchangeCore_rel_panic run e add rem rels w hl ha hne hix hfw
    | ok r w1 =>
      obtain ⟨t, a, m, rr⟩ := r
      rw [exchangeCore_rel_eq run0 e add rem rels w.noObs hl ha hne hix hf
        (frames_noObs_hasObservers (frames_findOrCreateTable _ _ _ _ _) hf)] at h0
      cases h0

/-- **every accepted observer-free `World.exchange` is accepted with observers** (given a lock
    that hands out a bit), with the same masks returned: with `w1` the world (without observers)
    after the table lookup, `m` the mask the lookup returns and `rr` whether a relation is removed,
    the result is the observer-free result `w0` with the observers of `w` put back, the log
    extended by the removal rounds (`xRemRounds`, for `.remove (maskOf e) m`) run on `w1` LOCKED,
    and the lock state `lockAfterX2` -/
theorem exchangeCore_rel_transfer_ok (hro : ReadOnly run S rec) (run0 : ProbeRunner) (e : Ent)
    (add rem : List Comp) (rels : List RelID) (w : World) (hs : ScriptsIn w.obs S)
    (hok : ObsOK w.obs) {l1 l2 : Lock} {b : Nat} (hL : LockCycle w.locks l1 b l2)
    {old new : Mask} {w0 : World}
    (h0 : exchangeCore run0 e add rem rels w.noObs = .ok (old, new) w0) :
    ∃ (t a : Nat) (m : Mask) (rr : Bool) (w1 : World),
      findOrCreateTable (w.index e.id).1 (w.maskOf e) add rem rels w.noObs = .ok (t, a, m, rr) w1 ∧
      w0 = registerW (addMove w1 e (w.index e.id).1 (w.index e.id).2 t m) rels ∧
      old = w.maskOf e ∧ new = (w0.arch a).mask ∧
      (∀ (evt : Nat), w0.obs.hasObservers evt = false) ∧
      exchangeCore run e add rem rels w = .ok (old, new) (w0.reframe w.obs
        (xRemRounds rec w.obs e rem rr (.remove (w.maskOf e) m) (w1.reframe w.obs w.log l1) ++ w.log)
        (lockAfterX2 w rem rr l2)) := by
  cases hl : w.isLocked with
  | true => rw [exchangeCore_locked run0 w.noObs hl] at h0; cases h0
  | false =>
  cases ha : w.alive e with
  | false => rw [exchangeCore_dead run0 w.noObs hl e ha] at h0; cases h0
  | true =>
  by_cases hne : add = [] ∧ rem = []
  · obtain ⟨rfl, rfl⟩ := hne
    rw [exchangeCore_noComponents run0 w.noObs hl e ha] at h0; cases h0
  · cases hix : w.index e.id with
    | mk oldT row =>
    have hmo : w.maskOf e = (w.arch (w.tbl oldT).arch).mask := by simp only [maskOf, hix]
    simp only [hmo]
    have hfw := findOrCreateTable_of_noObs oldT (w.arch (w.tbl oldT).arch).mask add rem rels w
    cases hf : findOrCreateTable oldT (w.arch (w.tbl oldT).arch).mask add rem rels w.noObs with
    | panic k' s' =>
      rw [exchangeCore_rel_panic run0 e add rem rels w.noObs hl ha hne hix hf] at h0; cases h0
    | ok r w1 =>
      obtain ⟨t, a, m, rr⟩ := r
      have hno1 := frames_noObs_hasObservers (frames_findOrCreateTable _ _ _ _ _) hf
      rw [exchangeCore_rel_eq run0 e add rem rels w.noObs hl ha hne hix hf hno1] at h0
      injection h0 with e1 e2
      obtain ⟨e3, e4⟩ := Prod.mk.inj e1
      rw [hf, Res.mapS_ok] at hfw
      have hobs0 : w0.obs = w1.obs := by
        rw [← e2]
        exact (addMove_fields w1 e oldT row t m).2.2.2.obs
      refine ⟨t, a, m, rr, w1, rfl, e2.symm, e3.symm, by rw [← e4, e2], ?_, ?_⟩
      · intro evt; rw [hobs0]; exact hno1 evt
      · rw [exchangeCore_rel_obs_eq hro e add rem rels w hs hok hl ha hne hix hfw hL, addMove_reframe,
          ← e3, ← e4, ← e2]
        rfl

/-- **every rejection of the observer-free `Exchange` is a rejection with observers** (any path):
    the `Alive` check of the `Unsafe` path, the pre-validation of the typed path and every check of
    `World.exchange` precede the events -/
theorem opExchange_rel_transfer_panic (run run0 : ProbeRunner) (p : Path) (e : Ent)
    (add : List Comp) (vals : List (Comp × Val)) (rem : List Comp) (rels : List RelID) (w : World)
    {k : PanicKind} {s : World}
    (h0 : opExchange run0 p e add vals rem rels w.noObs = .panic k s) :
    opExchange run p e add vals rem rels w = .panic k (s.reframe w.obs w.log w.locks) := by
  by_cases hb : p ≠ .unsafe_ ∨ w.alive e = true
  · rw [opExchange_eq_body run0 p e add vals rem rels w.noObs hb] at h0
    rw [opExchange_eq_body run p e add vals rem rels w hb]
    rcases preCheck_of_noObs p add rels w with ⟨h1, h2⟩ | ⟨k', h1, h2⟩
    · cases hc : exchangeCore run0 e add rem rels w.noObs with
      | panic k' s' =>
        rw [xchgBody_core_panic run0 p e add vals rem rels w.noObs h1 hc] at h0
        injection h0 with e1 e2; subst e1; subst e2
        exact xchgBody_core_panic run p e add vals rem rels w h2
          (exchangeCore_rel_transfer_panic run run0 e add rem rels w hc)
      | ok r w2 =>
        obtain ⟨old, new⟩ := r
        have hno2 : ∀ (evt : Nat), w2.obs.hasObservers evt = false := by
          cases hl : w.isLocked with
          | true => rw [exchangeCore_locked run0 w.noObs hl] at hc; cases hc
          | false =>
          cases ha : w.alive e with
          | false => rw [exchangeCore_dead run0 w.noObs hl e ha] at hc; cases hc
          | true =>
          by_cases hne : add = [] ∧ rem = []
          · obtain ⟨rfl, rfl⟩ := hne
            rw [exchangeCore_noComponents run0 w.noObs hl e ha] at hc; cases hc
          · cases hix : w.index e.id with
            | mk oldT row =>
            cases hf : findOrCreateTable oldT (w.arch (w.tbl oldT).arch).mask add rem rels w.noObs with
            | panic k' s' =>
              rw [exchangeCore_rel_panic run0 e add rem rels w.noObs hl ha hne hix hf] at hc; cases hc
            | ok r w1 =>
              obtain ⟨t, a, m, rr⟩ := r
              have hno1 := frames_noObs_hasObservers (frames_findOrCreateTable _ _ _ _ _) hf
              rw [exchangeCore_rel_eq run0 e add rem rels w.noObs hl ha hne hix hf hno1] at hc
              injection hc with _ e2
              intro evt
              rw [← e2]
              show (addMove w1 e oldT row t m).obs.hasObservers evt = false
              rw [(addMove_fields w1 e oldT row t m).2.2.2.obs]
              exact hno1 evt
        rw [xchgBody_of_core run0 p e add vals rem rels w.noObs h1 hc hno2] at h0
        cases h0
    · rw [xchgBody_pre_panic run0 p e add vals rem rels w.noObs h1] at h0
      injection h0 with e1 e2; subst e1; subst e2
      exact xchgBody_pre_panic run p e add vals rem rels w h2
  · have hp : p = .unsafe_ := by
      cases p with
      | unsafe_ => rfl
      | map1 => exact absurd (Or.inl (by simp)) hb
      | typed => exact absurd (Or.inl (by simp)) hb
    have ha : w.alive e = false := by
      cases hh : w.alive e with
      | false => rfl
      | true => exact absurd (Or.inr hh) hb
    subst hp
    rw [opExchange_unsafe_dead run0 e add vals rem rels w.noObs ha] at h0
    injection h0 with e1 e2; subst e1; subst e2
    exact opExchange_unsafe_dead run e add vals rem rels w ha

/-- the log after the removal rounds of `Exchange` -/
def xchgLogB (rec : World → Nat → Ent → Probe → List LogEv) (w w1 : World) (e : Ent)
    (rem : List Comp) (rr : Bool) (old m : Mask) (l1 : Lock) : List LogEv :=
  xRemRounds rec w.obs e rem rr (.remove old m) (w1.reframe w.obs w.log l1) ++ w.log

/-- the world the addition rounds of `Exchange` run on: the observer-free result of
    `World.exchange` (`w2`), with the values written on the typed path (`seenAfter`), the observers
    of `w`, the log after the removal rounds and the final lock state -/
def xchgSeenA (rec : World → Nat → Ent → Probe → List LogEv) (w w1 w2 : World) (p : Path) (e : Ent)
    (vals : List (Comp × Val)) (rem : List Comp) (rr : Bool) (old m : Mask) (l1 l2 : Lock) : World :=
  (seenAfter p w2 e vals).reframe w.obs (xchgLogB rec w w1 e rem rr old m l1) (lockAfterX2 w rem rr l2)

/-- the result of `Exchange` with observers, given the observer-free worlds `w1` (after the table
    lookup) and `w2` (after `World.exchange`), the masks and the `relationRemoved` flag -/
def xchgResult (rec : World → Nat → Ent → Probe → List LogEv) (w w1 w2 : World) (p : Path) (e : Ent)
    (add : List Comp) (vals : List (Comp × Val)) (rem : List Comp) (rels : List RelID) (rr : Bool)
    (old m new : Mask) (l1 l2 : Lock) : World :=
  (writeValsW w2 e vals).reframe w.obs
    (xAddRounds rec w.obs p e add rels (.add old new)
        (xchgSeenA rec w w1 w2 p e vals rem rr old m l1 l2)
      ++ xchgLogB rec w w1 e rem rr old m l1)
    (lockAfterX2 w rem rr l2)

/-- **every accepted observer-free `Exchange` is accepted with observers** (any path; given a lock
    that hands out a bit).  With `w1` the observer-free world after the table lookup, `w2` the
    observer-free result of `World.exchange` (returned masks `old`, `new`), `m` the mask the lookup
    computes and `rr` its `relationRemoved` flag: the result is the observer-free result
    `w0 = writeValsW w2 e vals` with the observers of `w` put back, the lock state `lockAfterX2`
    and the log extended, in this order, by the removal rounds for `.remove old m` run on `w1`
    LOCKED and the addition rounds for `.add old new` run on `w2` (values written on the typed
    path) — `xchgResult`. -/
theorem opExchange_rel_transfer_ok (hro : ReadOnly run S rec) (run0 : ProbeRunner) (p : Path)
    (e : Ent) (add : List Comp) (vals : List (Comp × Val)) (rem : List Comp) (rels : List RelID)
    (w : World) (hs : ScriptsIn w.obs S) (hok : ObsOK w.obs)
    {l1 l2 : Lock} {b : Nat} (hL : LockCycle w.locks l1 b l2) {w0 : World}
    (h0 : opExchange run0 p e add vals rem rels w.noObs = .ok () w0) :
    ∃ (old new m : Mask) (t a : Nat) (rr : Bool) (w1 w2 : World),
      findOrCreateTable (w.index e.id).1 (w.maskOf e) add rem rels w.noObs = .ok (t, a, m, rr) w1 ∧
      exchangeCore run0 e add rem rels w.noObs = .ok (old, new) w2 ∧
      w2 = registerW (addMove w1 e (w.index e.id).1 (w.index e.id).2 t m) rels ∧
      old = w.maskOf e ∧ new = (w2.arch a).mask ∧
      w0 = writeValsW w2 e vals ∧
      opExchange run p e add vals rem rels w = .ok ()
        (xchgResult rec w w1 w2 p e add vals rem rels rr old m new l1 l2) := by
  by_cases hb : p ≠ .unsafe_ ∨ w.alive e = true
  · rw [opExchange_eq_body run0 p e add vals rem rels w.noObs hb] at h0
    rw [opExchange_eq_body run p e add vals rem rels w hb]
    rcases preCheck_of_noObs p add rels w with ⟨h1, h2⟩ | ⟨k', h1, h2⟩
    · cases hc : exchangeCore run0 e add rem rels w.noObs with
      | panic k' s' =>
        rw [xchgBody_core_panic run0 p e add vals rem rels w.noObs h1 hc] at h0; cases h0
      | ok r w2 =>
        obtain ⟨old, new⟩ := r
        obtain ⟨t, a, m, rr, w1, hf, hw2, hold, hnew, hno2, hcore⟩ :=
          exchangeCore_rel_transfer_ok hro run0 e add rem rels w hs hok hL hc
        rw [xchgBody_of_core run0 p e add vals rem rels w.noObs h1 hc hno2] at h0
        injection h0 with _ e2
        refine ⟨old, new, m, t, a, rr, w1, w2, hf, rfl, hw2, hold, hnew, e2.symm, ?_⟩
        rw [xchgBody_obs_eq hro p e add vals rem rels w h2 hcore hs hok, ← hold]
        unfold xchgResult xchgSeenA xchgLogB
        congr 1
        unfold seenAfter
        split <;> rfl
    · rw [xchgBody_pre_panic run0 p e add vals rem rels w.noObs h1] at h0; cases h0
  · have hp : p = .unsafe_ := by
      cases p with
      | unsafe_ => rfl
      | map1 => exact absurd (Or.inl (by simp)) hb
      | typed => exact absurd (Or.inl (by simp)) hb
    have ha : w.alive e = false := by
      cases hh : w.alive e with
      | false => rfl
      | true => exact absurd (Or.inr hh) hb
    subst hp
    rw [opExchange_unsafe_dead run0 e add vals rem rels w.noObs ha] at h0
    cases h0

end Ops

end Ark
