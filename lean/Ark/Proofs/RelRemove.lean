/-
  Ark.Proofs.RelRemove — C01 + C04 at world level: `Remove(e, ids…)` in a world WITH relations
  (`removeCore` / `opRemove`): the relations of the components that stay are kept, those of the
  removed relation components are dropped.

  * `findOrCreateTableRemove_eq_add_rel` — `findOrCreateTableRemove` is the mask walk followed by
    the lookup tail of `findOrCreateTableAdd` started at the root table with the kept relations;
  * `RelInv.findOrCreateTableAdd'` — `RelInv.findOrCreateTableAdd` with the hypothesis on the
    relation list reduced to "no component twice";
  * `RemRelPost` / `opRemove_rel_spec`, `opRemove_rel_total`.
  Kernel-only proofs, core Lean only.
-/
import Ark.Proofs.RelTotal

set_option autoImplicit false

namespace Ark

open World Ark.Props.C01World

namespace World

/-- `findOrCreateTableRemove` = mask walk, then the lookup tail of `findOrCreateTableAdd` from the
    root table (which lists no relation) with the relations of the old table that stay -/
theorem findOrCreateTableRemove_eq_add_rel (oldT : Nat) (startMask m : Mask) (rem : List Comp)
    (w : World) (hg : graphFindRemove startMask rem w = .ok m w)
    (hroot : (w.tbl 0).relIDs = []) :
    findOrCreateTableRemove oldT startMask rem w =
      match findOrCreateTableAdd 0 m [] ((w.tbl oldT).relIDs.filter fun r => m.get r.comp) w with
      | .ok r w' => .ok (r.1, r.2.1, r.2.2, (w.tbl oldT).relIDs.any fun r => !m.get r.comp) w'
      | .panic k w' => .panic k w' := by
  obtain ⟨a, w1, ha⟩ := findOrCreateArch_never_panics m w
  have ht : ∀ (t : Nat), w1.tbl t = w.tbl t := fun t => by
    simp only [tbl, findOrCreateArch_tables ha]
  have hrf : relsForAdd (w.tbl 0) ((w.tbl oldT).relIDs.filter fun r => m.get r.comp) =
      (w.tbl oldT).relIDs.filter fun r => m.get r.comp := by
    rw [relsForAdd_eq, hroot, List.nil_append]
  simp only [findOrCreateTableRemove, findOrCreateTableAdd, bind, M.bind, hg, graphFindAdd,
    graphFindAdd.go, ha, M.get, ht, hrf]
  cases hgt : getTable a ((w.tbl oldT).relIDs.filter fun r => m.get r.comp) w1 with
  | panic k s => rfl
  | ok r s =>
    cases r with
    | some t => rfl
    | none =>
      simp only
      cases hct : createTable a ((w.tbl oldT).relIDs.filter fun r => m.get r.comp) s with
      | panic k s2 => simp only [M.bind, hct]
      | ok t s2 => simp only [M.bind, hct, pure, M.pure]

end World

/-- `RelInv.findOrCreateTableAdd` (`Ark/Proofs/TargetsCreate.lean`) with the hypotheses on the
    relation list reduced to what its proof uses: the list handed to `getTable` / `createTable`
    names no component twice -/
theorem RelInv.findOrCreateTableAdd' {w w' : World} (hR : RelInv w) (hF : FlagsOK w)
    (hE : FreeEmpty w) {oldT : Nat} {startMask mask : Mask} {add : List Comp} {rels : List RelID}
    {t a : Nat}
    (hstart : ∀ (c : Nat), startMask.get c = true → c < w.kinds.length)
    (hreg : ∀ (c : Comp), c ∈ add → c < w.kinds.length)
    (hold : oldT < w.tables.length) (hofree : (w.tbl oldT).isFree = false)
    (hndall : (((w.tbl oldT).relIDs ++ rels).map (·.comp)).Nodup)
    (hok : World.findOrCreateTableAdd oldT startMask add rels w = .ok (t, a, mask) w') :
    mask = add.foldl Mask.set startMask ∧ AddedRel w w' oldT rels mask t a := by
  obtain ⟨hmask, foc, hrinv'⟩ := hR.sinv.findOrCreateTableAdd_of_ok_rinv hR.rinv hstart hreg hok
  have hu := findOrCreateTableAdd_untouched hok
  have hlen := findOrCreateTableAdd_tables_len hok
  refine ⟨hmask, ?_⟩
  have hg : graphFindAdd startMask add w = .ok (add.foldl Mask.set startMask) w := by
    rcases graphFindAdd_cases startMask add w with hg | ⟨hg, _⟩
    · exact hg
    · simp only [World.findOrCreateTableAdd, bind, M.bind, hg] at hok; cases hok
  obtain ⟨a1, w1, ha, hmid, hset, halt, hmask1, hpre, hlen1, ht, hk, he, hp, hc1, hcase⟩ :=
    hR.sinv.findOrCreateArch (add.foldl Mask.set startMask) (Mask.get_foldl_set_reg hstart hreg)
  obtain ⟨_, rfl, hbr⟩ := findOrCreateTableAdd_ok_inv hg ha hok
  have hu1 := findOrCreateArch_untouched ha
  have aux1 : RelAux w1 := hR.aux.findOrCreateArch ha
  have hold1 : w1.tbl oldT = w.tbl oldT := by simp only [tbl, ht]
  have hflag1 : FlagsOK w1 := by
    intro t0 T0 hT0 hf i hi hz
    rw [ht] at hT0; rw [hu1.isTarget]; exact hF t0 T0 hT0 hf i hi hz
  have hfree1 : FreeEmpty w1 := by
    intro t0 T0 hT0 hf; rw [ht] at hT0; exact hE t0 T0 hT0 hf
  have hrc1 : ∀ (c : Comp), w1.isRelComp c = w.isRelComp c := fun c => by
    simp only [World.isRelComp, hk]
  have hra1 : w.relationArchetypes.length ≤ w1.relationArchetypes.length := by
    rcases hcase with ⟨_, rfl⟩ | ⟨hf, _, _⟩
    · exact Nat.le_refl _
    · have hh := ha
      unfold World.findOrCreateArch at hh
      rw [hf] at hh
      rw [createArchetype_eq] at hh
      injection hh with _ h2
      subst h2
      rw [createArchetypeW_relationArchetypes]
      split
      · simp
      · exact Nat.le_refl _
  rw [hold1] at hbr
  have hOT := get_of_lt hold
  have hOex := hR.aux.rels oldT _ hOT hofree
  rcases hbr with ⟨hgt, rfl⟩ | ⟨hgt, hct⟩
  · -- an existing table
    refine
      { foc := foc, rel := ⟨foc.sinv, hrinv', aux1⟩, flags := hflag1.upTo rels, freeEmpty := hfree1,
        untouched := hu, relArchs := hra1, tgt := ?_, tkeep := fun _ => Or.inl (by rw [ht]),
        tablesLen := hlen }
    intro r hr hrc i hi
    have hTt := get_of_lt foc.tblLt
    have hcg := Table.colIdx_get hi
    have hrel : (w'.tbl t).isRel.getD i false = true := by
      obtain ⟨A, hA, e1, e2, _⟩ := foc.sinv.tblArch t _ hTt
      rw [e1] at hcg
      rw [e2, (foc.sinv.kindsOf _ A i r.comp hA hcg).1]
      rw [← hrc1] at hrc; exact hrc
    have hhas : (w'.arch a).hasRelations = true := by
      obtain ⟨A, hA, _, e2, _⟩ := foc.sinv.tblArch t _ hTt
      rw [foc.tblArch] at hA
      rw [arch_of_get hA]
      rw [e2] at hrel
      exact (foc.sinv.astruct _ A hA).hasRelations_of_rel hrel
    have hm := getTable_found hgt hhas
    rw [relsForAdd_eq] at hm
    exact (Table.matchesExact_yes hm).2 r hr i hi
  · -- a table created (or recycled)
    have hnr : (w1.arch a).hasRelations = false → (w1.arch a).tables.tables = [] := by
      intro hr
      rw [getTable_noRel _ hr] at hgt
      injection hgt with hgt _
      split at hgt
      · rename_i he
        exact List.isEmpty_iff.1 he
      · cases hgt
    have ct := hmid.createTable halt hnr hct
    rw [relsForAdd_eq] at ct hct
    have aux' : RelAux w' := aux1.created halt ct hct hmid hndall
    obtain ⟨hTt, hTa, hTr, hTf, hTg, hTi⟩ := ct.tbl
    have hu2 := createTable_untouched hct
    refine
      { foc := foc, rel := ⟨foc.sinv, hrinv', aux'⟩, flags := ?_, freeEmpty := hfree1.created ct,
        untouched := hu, relArchs := by rw [(createTable_frame hct).1]; exact hra1,
        tgt := ?_, tkeep := ?_, tablesLen := hlen }
    · apply (hflag1.upTo rels).created ct hu2.isTarget
      intro r hr hz
      rcases List.mem_append.1 hr with h1 | h1
      · left
        obtain ⟨i, _, h3, h4⟩ := hOex.sound r h1
        rw [← h4] at hz ⊢
        rw [hu1.isTarget]
        exact hF oldT _ hOT hofree i h3 hz
      · exact Or.inr ⟨r, h1, rfl⟩
    · intro r hr _ i hi
      have hex := aux'.rels t _ hTt hTf
      exact hex.col (ct.sinvMid.ids_nodup hTt) (by rw [hTr]; exact hr) hi
    · intro hlt
      rcases ct.kind with ⟨k1, _⟩ | ⟨_, _, _, k4, _⟩
      · rw [ht] at k1; omega
      · right
        have : w1.tbl t = w.tbl t := by simp only [tbl, ht]
        rw [← this]; exact k4


/-! ## `Remove(e, ids…)` in a world with relations -/

/-- What `Remove(e, ids…)` guarantees in a world with relations (`w` before, `w'` after). -/
structure RemRelPost (w : World) (fl : List Nat) (e : Ent) (ids : List Comp) (w' : World) :
    Prop where
  tinv : TInv w' fl
  pool : w'.pool = w.pool
  obs : w'.obs = w.obs
  locks : w'.locks = w.locks
  kinds : w'.kinds = w.kinds
  maxComps : w'.maxComps = w.maxComps
  relArchs : w'.relationArchetypes.length ≤ w.relationArchetypes.length + 1
  /-- the old components without the removed ones, ascending -/
  comps : ∀ (cs : List Comp), compsOf w e.id = some cs →
    compsOf w' e.id = some (Refine.sortedIds w.kinds.length (cs.filter fun c => decide (c ∉ ids)))
  /-- the components that stay keep their values -/
  kept : ∀ (c : Comp) (v : Val), valOf w e.id c = some v → c ∉ ids → valOf w' e.id c = some v
  /-- the relation components that stay keep their targets -/
  oldTargets : ∀ (c : Comp) (x : Ent), targetOf w e.id c = some x → c ∉ ids →
    targetOf w' e.id c = some x
  /-- every other entity keeps components, values and targets -/
  frame : ∀ (j : Nat), j ≠ e.id → SameEnt w w' j ∧ ∀ (c : Comp), targetOf w' j c = targetOf w j c
  tablesLen : w'.tables.length ≤ w.tables.length + 1
  entitiesLen : w'.entities.length = w.entities.length

/-- **C01 + C04, `Remove`**: `Remove(e, ids…)` through any path for a live entity `e`, `ids`
    non-empty, distinct, all of them components of `e` (relation components or not), no observers:
    it never fails, all invariants are kept, `e` has the old components without `ids`, the
    components that stay keep values and targets, no other entity changes. -/
theorem opRemove_rel_spec (run : ProbeRunner) (p : Path) {w : World} {fl : List Nat} (h : TInv w fl)
    (hl : w.isLocked = false) (hno : ∀ (evt : Nat), w.obs.hasObservers evt = false) {e : Ent}
    (h2 : 2 ≤ e.id) (hnf : e.id ∉ fl) (ha : w.alive e = true)
    (hsl : e.id < w.pool.ents.length) {ids : List Comp}
    (hne : ids ≠ []) (hnd : ids.Nodup)
    (hpres : ∀ (c : Comp), c ∈ ids → (w.maskOf e).get c = true)
    (hfew : w.tables.length < maxU32) (hrows : w.entities.length + 1 < 2 ^ 32) :
    ∃ (w' : World), opRemove run p e ids w = .ok () w' ∧ RemRelPost w fl e ids w' := by
  obtain ⟨oldT, row, he, htm, _⟩ := h.link.live_entry h2 hnf ha hsl
  have hix := index_of_get he
  have hI := h.link.idx
  obtain ⟨hT, hrow, hid⟩ := hI.indexed he htm
  have hlt := lt_of_get hT
  have hSS := h.rel.sinv
  have hS := hSS.toSInvMid
  have hTf : (w.tbl oldT).isFree = false := by
    cases hf : (w.tbl oldT).isFree with
    | false => rfl
    | true => have := h.freeEmpty oldT _ hT hf; omega
  obtain ⟨A, hA, i1, i2, i3, _⟩ := hS.tblArch oldT _ hT
  have hAe := arch_of_get hA
  have hTex := h.rel.aux.rels oldT _ hT hTf
  have hmo : w.maskOf e = (w.arch (w.tbl oldT).arch).mask := by simp only [maskOf, hix]
  have holdIds : ∀ (c : Comp), c ∈ (w.tbl oldT).ids ↔ A.mask.get c = true := by
    intro c; rw [i1]; exact hS.mem_comps hA c
  have hpres' : ∀ (c : Comp), c ∈ ids → (w.arch (w.tbl oldT).arch).mask.get c = true :=
    fun c hc => by rw [← hmo]; exact hpres c hc
  have hg := graphFindRemove_ok (w.arch (w.tbl oldT).arch).mask ids w hpres' hnd
  have hroot : (w.tbl 0).relIDs = [] :=
    hS.relIDs_nil (get_of_lt hSS.root.1) (by rw [hSS.root.2.1]; exact hS.root_noRel)
  have mget : ∀ (c : Comp), (ids.foldl Mask.clear (w.arch (w.tbl oldT).arch).mask).get c =
      (A.mask.get c && !decide (c ∈ ids)) := by
    intro c; rw [Mask.get_foldl_clear, hAe]
  have hmreg : ∀ (c : Nat), (ids.foldl Mask.clear (w.arch (w.tbl oldT).arch).mask).get c = true →
      c < w.kinds.length := by
    intro c hc
    rw [mget] at hc
    simp only [Bool.and_eq_true] at hc
    exact hS.maskReg _ A hA c hc.1
  have hkeptMem : ∀ (r : RelID),
      r ∈ ((w.tbl oldT).relIDs.filter fun r =>
        (ids.foldl Mask.clear (w.arch (w.tbl oldT).arch).mask).get r.comp) ↔
      r ∈ (w.tbl oldT).relIDs ∧
        (ids.foldl Mask.clear (w.arch (w.tbl oldT).arch).mask).get r.comp = true := by
    intro r; rw [List.mem_filter]
  -- the lookup succeeds
  obtain ⟨a, w1', ha', ht', hlook⟩ := h.rel.lookup_total hmreg
    (L := (w.tbl oldT).relIDs.filter fun r =>
      (ids.foldl Mask.clear (w.arch (w.tbl oldT).arch).mask).get r.comp)
    (fun r hr => ((hkeptMem r).1 hr).2)
    (by
      intro c hc hrel
      have hc' := hc
      rw [mget] at hc'
      simp only [Bool.and_eq_true] at hc'
      have hc0 : c ∈ (w.tbl oldT).ids := (holdIds c).2 hc'.1
      obtain ⟨j, hj⟩ := List.getElem?_of_mem hc0
      have hjr : (w.tbl oldT).isRel.getD j false = true := by
        have hj' := hj
        rw [i1] at hj'
        rw [i2, (hS.kindsOf _ A j c hA hj').1]; exact hrel
      exact List.mem_map.2 ⟨_, (hkeptMem _).2 ⟨hTex.complete j c hj hjr, hc⟩, rfl⟩)
    ((hTex.nodup).sublist (List.Sublist.map _ List.filter_sublist))
    (by
      intro r hr
      obtain ⟨i, k1, k2, k3⟩ := hTex.sound r ((hkeptMem r).1 hr).1
      refine ⟨hS.isRelComp_of_col hT k1 k2, ?_⟩
      rw [← k3]; exact h.rel.aux.targets oldT _ hT hTf i k2)
  have hrf : relsForAdd (w1'.tbl 0) ((w.tbl oldT).relIDs.filter fun r =>
      (ids.foldl Mask.clear (w.arch (w.tbl oldT).arch).mask).get r.comp) =
      (w.tbl oldT).relIDs.filter fun r =>
        (ids.foldl Mask.clear (w.arch (w.tbl oldT).arch).mask).get r.comp := by
    have : w1'.tbl 0 = w.tbl 0 := by simp only [tbl, ht']
    rw [this, relsForAdd_eq, hroot, List.nil_append]
  obtain ⟨t, w1, hadd⟩ : ∃ (t : Nat) (w1 : World),
      findOrCreateTableAdd 0 (ids.foldl Mask.clear (w.arch (w.tbl oldT).arch).mask) []
        ((w.tbl oldT).relIDs.filter fun r =>
          (ids.foldl Mask.clear (w.arch (w.tbl oldT).arch).mask).get r.comp) w =
        .ok (t, a, ids.foldl Mask.clear (w.arch (w.tbl oldT).arch).mask) w1 := by
    rcases hlook with ⟨t, hres⟩ | ⟨hres, t, w', hct⟩
    · exact ⟨t, w1', by
        simp only [World.findOrCreateTableAdd, bind, M.bind, graphFindAdd, graphFindAdd.go, ha',
          M.get, hrf, hres, pure, M.pure]⟩
    · exact ⟨t, w', by
        simp only [World.findOrCreateTableAdd, bind, M.bind, graphFindAdd, graphFindAdd.go, ha',
          M.get, hrf, hres, hct, pure, M.pure]⟩
  have hf : findOrCreateTableRemove oldT (w.arch (w.tbl oldT).arch).mask ids w =
      .ok (t, a, ids.foldl Mask.clear (w.arch (w.tbl oldT).arch).mask,
        (w.tbl oldT).relIDs.any fun r =>
          !(ids.foldl Mask.clear (w.arch (w.tbl oldT).arch).mask).get r.comp) w1 := by
    rw [findOrCreateTableRemove_eq_add_rel oldT _ _ ids w hg hroot, hadd]
  -- what the lookup guarantees
  obtain ⟨_, ar⟩ := h.rel.findOrCreateTableAdd' h.flags h.freeEmpty hmreg
    (fun c hc => by cases hc) hSS.root.1 hS.root_notFree
    (by
      rw [hroot, List.nil_append]
      exact (hTex.nodup).sublist (List.Sublist.map _ List.filter_sublist)) hadd
  have hra := findOrCreateTableAdd_relArchs hSS hmreg (fun c hc => by cases hc) hadd
  have foc := ar.foc
  have hu := ar.untouched
  have hne' : oldT ≠ t := by
    refine Ne.symm (foc.ne_old hSS hlt ?_)
    obtain ⟨c, hc⟩ := List.exists_mem_of_ne_nil ids hne
    intro heq
    have h1 := hpres' c hc
    rw [← heq, Mask.get_foldl_clear] at h1
    simp [hc] at h1
  have hI1 : IdxInv w1 := foc.idx hI
  have link1 : PLink w1 fl :=
    h.link.transfer hI1 foc.pool (IdxSame.of_eq foc.entities) (by rw [hu.isTarget])
      (by have := ar.tablesLen; omega)
  have he1 : w1.entities[e.id]? = some (oldT, row) := by rw [foc.entities]; exact he
  have hof1 : (w1.tbl oldT).isFree = false := by
    have := foc.others oldT hlt hne'
    rw [tbl_eq_of_get this]; exact hTf
  have htb1 : w1.tbl oldT = w.tbl oldT := tbl_eq_of_get (foc.others oldT hlt hne')
  have hb1 : (w1.tbl t).len + 1 < 2 ^ 32 := by
    have := hI1.rows_le t
    rw [foc.entities] at this; omega
  have hTt := get_of_lt foc.tblLt
  -- the kept relations were flagged before
  have hF1 : FlagsOKUpTo w1 [] := by
    intro t0 T0 hT0 hf0 i hi hz
    rcases ar.flags t0 T0 hT0 hf0 i hi hz with k | ⟨r, hr, k⟩
    · exact Or.inl k
    · left
      obtain ⟨j, _, k2, k3⟩ := hTex.sound r ((hkeptMem r).1 hr).1
      rw [← k, ← k3] at hz ⊢
      rw [hu.isTarget]
      exact h.flags oldT _ hT hTf j k2 hz
  have mt := movedTail (rels := []) (ids.foldl Mask.clear (w.arch (w.tbl oldT).arch).mask)
    ar.rel hF1 ar.freeEmpty link1 he1 htm hne' foc.tblLt foc.tblFree hof1 hb1
    (by intro r hr; cases hr)
  have hno1 : ∀ (evt : Nat), w1.obs.hasObservers evt = false := by
    intro evt; rw [hu.obs]; exact hno evt
  have hcore := removeCore_eq run e ids w hl ha hne hix hf hno1
  refine ⟨_, by rw [opRemove_eq run p e ids w ha]; exact hcore, ?_⟩
  have hntm : t ≠ maxU32 := by have := foc.tblLt; have := ar.tablesLen; omega
  have f1 := ar.frame hI h.freeEmpty
  have hzst : ∀ (c' : Comp) (i' j' : Nat), (w1.tbl oldT).colIdx c' = some i' →
      (w1.tbl t).colIdx c' = some j' →
      (w1.tbl t).zst.getD j' false = (w1.tbl oldT).zst.getD i' false := by
    intro c' i' j' k1 k2
    rw [foc.sinv.toSInvMid.tbl_zst hTt k2,
      foc.sinv.toSInvMid.tbl_zst (get_of_lt (Nat.lt_of_lt_of_le hlt foc.tablesLen)) k1]
  have hnewIds : ∀ (c : Comp), c ∈ (w1.tbl t).ids ↔ (A.mask.get c = true ∧ c ∉ ids) := by
    intro c
    rw [foc.tblIds, Mask.mem_toList, mget]
    simp only [Bool.and_eq_true, Bool.not_eq_true', decide_eq_false_iff_not]
    exact ⟨fun hh => hh.2, fun hh => ⟨hS.maskReg _ A hA c hh.1, hh⟩⟩
  exact
    { tinv := ⟨mt.rel, mt.flags, mt.freeEmpty, mt.link, by
        show (addMove w1 e oldT row t _).kinds.length ≤ (addMove w1 e oldT row t _).maxComps ∧
          (addMove w1 e oldT row t _).maxComps ≤ 256
        rw [(addMove_fields w1 e oldT row t _).2.1, (addMove_fields w1 e oldT row t _).2.2.2.maxComps,
          foc.kinds, hu.maxComps]
        exact h.kindsLe⟩
      pool := by rw [(addMove_fields w1 e oldT row t _).1, foc.pool]
      obs := by rw [(addMove_fields w1 e oldT row t _).2.2.2.obs, hu.obs]
      locks := by rw [(addMove_fields w1 e oldT row t _).2.2.2.locks, hu.locks]
      kinds := by rw [(addMove_fields w1 e oldT row t _).2.1, foc.kinds]
      maxComps := by rw [(addMove_fields w1 e oldT row t _).2.2.2.maxComps, hu.maxComps]
      relArchs := by rw [(addMove_more w1 e oldT row t _).1]; exact hra
      comps := by
        intro cs hcs
        have hcs' : cs = (w.tbl oldT).ids := by
          simp only [compsOf, he, htm, if_false, hT, Option.map_some] at hcs
          exact (Option.some.inj hcs).symm
        have hent := mt.entry
        have hlen3 : (addMove w1 e oldT row t
            (ids.foldl Mask.clear (w.arch (w.tbl oldT).arch).mask)).tables.length =
            w1.tables.length := mt.tablesLen
        have hT3 := get_of_lt (show t < (addMove w1 e oldT row t
          (ids.foldl Mask.clear (w.arch (w.tbl oldT).arch).mask)).tables.length by
            rw [hlen3]; exact foc.tblLt)
        have hent' : (addMove w1 e oldT row t
            (ids.foldl Mask.clear (w.arch (w.tbl oldT).arch).mask)).entities[e.id]? =
            some (t, (w1.tbl t).len) := hent
        simp only [compsOf, hent', hntm, if_false, hT3, Option.map_some]
        have hm := (mt.tmeta t foc.tblLt).ids
        have hm' : ((addMove w1 e oldT row t
            (ids.foldl Mask.clear (w.arch (w.tbl oldT).arch).mask)).tbl t).ids = (w1.tbl t).ids := hm
        rw [hm', foc.tblIds]
        congr 1
        apply Refine.toList_eq_sortedIds
        intro c _
        rw [mget, hcs', List.mem_filter, holdIds c]
        simp
      kept := by
        intro c v hv hnr
        have hcio : ∃ (i : Nat), (w.tbl oldT).colIdx c = some i := by
          simp only [valOf, he, htm, if_false, hT, Option.bind_some, Table.getComp] at hv
          cases hci : (w.tbl oldT).colIdx c with
          | none => rw [hci] at hv; cases hv
          | some i => exact ⟨i, rfl⟩
        obtain ⟨i, hci⟩ := hcio
        have hcold : c ∈ (w.tbl oldT).ids := colIdx_some_iff_mem.1 ⟨i, hci⟩
        have hmaskc : (ids.foldl Mask.clear (w.arch (w.tbl oldT).arch).mask).get c = true := by
          rw [mget, (holdIds c).1 hcold]; simp [hnr]
        have hcnew : (w1.tbl t).has c = true := by
          rw [Table.has_iff_mem, hnewIds]; exact ⟨(holdIds c).1 hcold, hnr⟩
        have hmv := move_keeps_values hI1
          (ids.foldl Mask.clear (w.arch (w.tbl oldT).arch).mask) hne' he1 htm foc.tblLt hntm hb1 hzst
          hcnew
        rw [if_pos ⟨hmaskc, by rw [htb1, Table.has_iff_mem]; exact hcold⟩] at hmv
        have hv1 : valOf w1 e.id c = some v := by rw [(f1 e.id).1.1 c]; exact hv
        rw [hmv, hv1]
      oldTargets := by
        intro c x hx hnr
        rw [targetOf_of_entry he htm hT] at hx
        simp only [Table.targetAt] at hx
        cases hci : (w.tbl oldT).colIdx c with
        | none => rw [hci] at hx; cases hx
        | some i =>
          rw [hci] at hx
          simp only [Option.bind_some] at hx
          split at hx
          · rename_i hir
            have hx' : (w.tbl oldT).targets.getD i Ent.zero = x := Option.some.inj hx
            have hmem := hTex.complete i c (Table.colIdx_get hci) hir
            rw [hx'] at hmem
            have hrcc : w.isRelComp c = true := hS.isRelComp_of_col hT (Table.colIdx_get hci) hir
            have hcold : c ∈ (w.tbl oldT).ids := colIdx_some_iff_mem.1 ⟨i, hci⟩
            have hmaskc : (ids.foldl Mask.clear (w.arch (w.tbl oldT).arch).mask).get c = true := by
              rw [mget, (holdIds c).1 hcold]; simp [hnr]
            have hcnew : c ∈ (w1.tbl t).ids := (hnewIds c).2 ⟨(holdIds c).1 hcold, hnr⟩
            obtain ⟨j, hj⟩ := colIdx_some_iff_mem.mpr hcnew
            obtain ⟨k2, k3⟩ := ar.tgt ⟨c, x⟩ (by
              rw [hroot, List.nil_append]; exact (hkeptMem _).2 ⟨hmem, hmaskc⟩) hrcc j hj
            have := mt.tgtSelf c
            rw [Table.targetAt_of_col hj k2, k3] at this
            exact this
          · cases hx
      frame := by
        intro j hj
        obtain ⟨s1, g1⟩ := f1 j
        obtain ⟨s2, g2⟩ := mt.frame j hj
        exact ⟨s1.trans s2, fun c => by rw [← g1 c]; exact g2 c⟩
      tablesLen := by
        have := mt.tablesLen
        have h3 : (addMove w1 e oldT row t
            (ids.foldl Mask.clear (w.arch (w.tbl oldT).arch).mask)).tables.length =
            w1.tables.length := this
        rw [h3]; exact ar.tablesLen
      entitiesLen := by
        rw [addMove_entities_len, foc.entities] }

end Ark
