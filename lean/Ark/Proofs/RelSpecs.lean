/-
  Ark.Proofs.RelSpecs — C01 + C04 at world level, for worlds WITH relations: what the
  `*_rel_spec` theorems of `Ark/Proofs/Targets*.lean` leave open and the refinement machine of
  `Ark/Proofs/RelRefine.lean` needs.

  * `NewRelMore`  / `opNewEntity_rel_more`   — an accepted `NewEntity(ids…, rels…)`: the new entity
    has exactly the components `ids`, each reads the value last written (zero if none), the pool made
    one `Get`, `maxComps` is kept, at most one relation archetype is created;
  * `AddRelMore`  / `opAdd_rel_more`         — an accepted `Add(e, ids…, rels…)`: exact component
    set, every old component reads the last value written to it (else its old value), every added
    one the last value written (else zero); pool, `maxComps`; at most one relation archetype;
  * `opSetRelations_more`, `opRemoveEntity_rel_more` — pool / `maxComps` / `relationArchetypes`
    across `SetRelations` and `RemoveEntity`;
  * `TInv.writeValsRel` / `opSet_rel_spec`, `opSet_rel_missing` — `Set` under `TInv`;
  * `registerComponent_rel_frame`; `TInv.targetOf_isSome_iff` (which components carry a target),
    `TInv.mask_iff_comps`;
  * rejections without effect: `opNewEntity_rel_dup`, `opAdd_rel_panic`, `opSetRelations_panic`,
    `setRelationsCore_missing` (a component that carries no target), `setRelationsCore_deadTarget`
    (a dead target, caught by `World.setRelations` itself — whatever the pre-validation of the
    path did).
  Kernel-only proofs, core Lean only.
-/
import Ark.Proofs.TargetsAdd
import Ark.Proofs.RelRejects

set_option autoImplicit false

namespace Ark

open World Ark.Props.C01World

/-! ## 0. `findOrCreateTableAdd` creates at most one relation archetype -/

namespace World

theorem findOrCreateTableAdd_relArchs {w w' : World} (hS : SInv w) {oldT : Nat}
    {startMask mask : Mask} {add : List Comp} {rels : List RelID} {t a : Nat}
    (hstart : ∀ (c : Nat), startMask.get c = true → c < w.kinds.length)
    (hreg : ∀ (c : Comp), c ∈ add → c < w.kinds.length)
    (hok : findOrCreateTableAdd oldT startMask add rels w = .ok (t, a, mask) w') :
    w'.relationArchetypes.length ≤ w.relationArchetypes.length + 1 := by
  have hg : graphFindAdd startMask add w = .ok (add.foldl Mask.set startMask) w := by
    rcases graphFindAdd_cases startMask add w with hg | ⟨hg, _⟩
    · exact hg
    · simp only [World.findOrCreateTableAdd, bind, M.bind, hg] at hok; cases hok
  obtain ⟨a1, w1, ha, _, _, _, _, _, _, _, _, _, _, _, hcase⟩ :=
    hS.findOrCreateArch (add.foldl Mask.set startMask) (Mask.get_foldl_set_reg hstart hreg)
  obtain ⟨_, _, hbr⟩ := findOrCreateTableAdd_ok_inv hg ha hok
  have hra1 : w1.relationArchetypes.length ≤ w.relationArchetypes.length + 1 := by
    rcases hcase with ⟨_, rfl⟩ | ⟨hf, _, _⟩
    · exact Nat.le_succ _
    · have hh := ha
      unfold World.findOrCreateArch at hh
      rw [hf] at hh
      rw [createArchetype_eq] at hh
      injection hh with _ h2
      subst h2
      rw [createArchetypeW_relationArchetypes]
      split
      · simp
      · exact Nat.le_succ _
  rcases hbr with ⟨_, rfl⟩ | ⟨_, hct⟩
  · exact hra1
  · rw [(createTable_frame hct).1]; exact hra1

end World

/-! ## 1. `NewEntity(ids…, rels…)`: components and values of the new entity -/

/-- what an accepted `NewEntity(ids…, rels…)` guarantees beyond `NewRelPost` -/
structure NewRelMore (w : World) (ids : List Comp) (vals : List (Comp × Val)) (e : Ent)
    (w' : World) : Prop where
  pool : w'.pool = (w.pool.get).1
  maxComps : w'.maxComps = w.maxComps
  /-- exactly the requested components -/
  comps : compsOf w' e.id = some ((Mask.ofList ids).toList w.kinds.length)
  /-- each reads the last value written to it, zero if none (always zero if zero-size) -/
  vals : ∀ (c : Comp), c ∈ ids →
    valOf w' e.id c = some (if (w.kinds.getD c {}).zst = true then 0 else applyVals 0 vals c)
  relArchs : w'.relationArchetypes.length ≤ w.relationArchetypes.length + 1

theorem opNewEntity_rel_more (run : ProbeRunner) (p : Path) {w : World} {fl : List Nat}
    (h : TInv w fl) (hl : w.isLocked = false) (hno : ∀ (evt : Nat), w.obs.hasObservers evt = false)
    {ids : List Comp} {vals : List (Comp × Val)} {rels : List RelID}
    (hreg : ∀ (c : Comp), c ∈ ids → c < w.kinds.length)
    (hnd : (rels.map (·.comp)).Nodup) (hin : ∀ (r : RelID), r ∈ rels → r.comp ∈ ids)
    (hfew : w.tables.length < maxU32) (hrows : w.entities.length + 1 < 2 ^ 32)
    {e : Ent} {w' : World} (hok : opNewEntity run p ids vals rels w = .ok e w') :
    NewRelMore w ids vals e w' := by
  have hpre : preCheck p ids rels w = .ok () w := by
    rcases preCheck_cases p ids rels w with h1 | ⟨k, h1⟩
    · exact h1
    · simp [opNewEntity, bind, M.bind, h1] at hok
  cases hf : findOrCreateTableAdd 0 Mask.empty ids rels w with
  | panic k s =>
    simp [opNewEntity, newEntityCore, bind, M.bind, hpre, checkLocked_unlocked w hl, hf] at hok
  | ok res w1 =>
    obtain ⟨t, a, m⟩ := res
    have hS := h.rel.sinv
    have hrel0 : (w.tbl 0).relIDs = [] :=
      hS.toSInvMid.relIDs_nil (get_of_lt hS.root.1) (by rw [hS.root.2.1]; exact hS.toSInvMid.root_noRel)
    obtain ⟨hmask, ar⟩ := h.rel.findOrCreateTableAdd h.flags h.freeEmpty
      (fun c hc => by simp at hc) hreg hS.root.1 hS.toSInvMid.root_notFree
      (fun r hr => by rw [hrel0] at hr; cases hr) hnd hin hf
    have hra := findOrCreateTableAdd_relArchs hS (fun c hc => by simp at hc) hreg hf
    have foc := ar.foc
    have hu := ar.untouched
    have hno1 : ∀ (evt : Nat), w1.obs.hasObservers evt = false := by
      intro evt; rw [hu.obs]; exact hno evt
    have heq := opNewEntity_rel_eq run p ids vals rels w hl hpre hf hno1
    rw [heq] at hok
    injection hok with he hw
    subst he; subst hw
    have hI1 : IdxInv w1 := foc.idx h.link.idx
    have hfew1 : w1.tables.length ≤ maxU32 := by have := ar.tablesLen; omega
    have link1 : PLink w1 fl :=
      h.link.transfer hI1 foc.pool (IdxSame.of_eq foc.entities) (by rw [hu.isTarget]) hfew1
    have hb : (w1.tbl t).len + 1 < 2 ^ 32 := by
      have := hI1.rows_le t
      rw [foc.entities] at this; omega
    have pp := link1.placed foc.tblLt false hb
    have ms2 := placedW_metaStep w1 t false
    have ms3 := registerW_metaStep (placedW w1 t false) rels
    have hentE : (placedW w1 t false).entities[(w1.pool.get).2.id]? = some (t, (w1.tbl t).len) := by
      rw [pp.lookup, if_pos rfl]
    have htm : t ≠ maxU32 := by have := foc.tblLt; omega
    have hI3 : IdxInv (registerW (placedW w1 t false) rels) := pp.link.idx.congr rfl rfl
    have hS3 : SInvMid (registerW (placedW w1 t false) rels) :=
      (foc.sinv.of_sameMeta (ms2.trans ms3).archetypes (ms2.trans ms3).kinds (ms2.trans ms3).len
        (ms2.trans ms3).tmeta).toSInvMid
    have hwf := write_frame hI3 (w1.pool.get).2 vals hentE htm
    have hframe3 : ∀ (j : Nat), SameEnt (placedW w1 t false) (registerW (placedW w1 t false) rels) j :=
      fun j => ⟨fun c => valOf_congr rfl rfl j c, compsOf_congr rfl rfl j⟩
    have hmem : ∀ (c : Comp), c ∈ ids → c ∈ (w1.tbl t).ids := by
      intro c hc
      rw [foc.tblIds, Mask.mem_toList, hmask, Mask.get_ofList_foldl]
      have h1 := hreg c hc
      have h256 : c < 256 := Nat.lt_of_lt_of_le h1 (Nat.le_trans h.kindsLe.1 h.kindsLe.2)
      exact ⟨h1, by simp [h256, hc]⟩
    refine
      { pool := by
          show (placedW w1 t false).pool = _
          rw [placedW_pool, foc.pool]
        maxComps := by
          show (placedW w1 t false).maxComps = w.maxComps
          rw [(placedW_fields w1 t false).2.2, hu.maxComps]
        comps := ?_
        vals := ?_
        relArchs := by
          show (placedW w1 t false).relationArchetypes.length ≤ _
          rw [ms2.relationArchetypes]; exact hra }
    · rw [hwf.2.2, (hframe3 _).2, pp.comps, foc.tblIds, hmask]; rfl
    · intro c hc
      have hz : valOf (registerW (placedW w1 t false) rels) (w1.pool.get).2.id c = some 0 := by
        rw [(hframe3 _).1]; exact pp.zero c (hmem c hc)
      rw [valOf_writeVals hI3 hS3 hentE htm vals hz]
      show some (if ((placedW w1 t false).kinds.getD c {}).zst = true then _ else _) = _
      rw [(placedW_fields w1 t false).1, foc.kinds]

/-! ## 2. `Add(e, ids…, rels…)`: exact components and values -/

/-- what an accepted `Add(e, ids…, rels…)` guarantees beyond `AddRelPost` -/
structure AddRelMore (w : World) (e : Ent) (ids : List Comp) (vals : List (Comp × Val))
    (w' : World) : Prop where
  pool : w'.pool = w.pool
  maxComps : w'.maxComps = w.maxComps
  /-- the added components were absent -/
  fresh : ∀ (c : Comp), c ∈ ids → valOf w e.id c = none
  nonempty : ids ≠ []
  /-- the old components plus the added ones, ascending -/
  comps : ∀ (cs : List Comp), compsOf w e.id = some cs →
    compsOf w' e.id = some (Refine.sortedIds w.kinds.length (cs ++ ids))
  /-- a component the entity had: its old value, overwritten by the last write to it (if any) -/
  kept : ∀ (c : Comp) (v : Val), valOf w e.id c = some v →
    valOf w' e.id c = some (if (w.kinds.getD c {}).zst = true then v else applyVals v vals c)
  /-- an added component: the last value written to it, zero if none (always zero if zero-size) -/
  added : ∀ (c : Comp), c ∈ ids →
    valOf w' e.id c = some (if (w.kinds.getD c {}).zst = true then 0 else applyVals 0 vals c)
  relArchs : w'.relationArchetypes.length ≤ w.relationArchetypes.length + 1

theorem opAdd_rel_more (run : ProbeRunner) (p : Path) {w : World} {fl : List Nat} (h : TInv w fl)
    (hl : w.isLocked = false) (hno : ∀ (evt : Nat), w.obs.hasObservers evt = false) {e : Ent}
    (h2 : 2 ≤ e.id) (hnf : e.id ∉ fl) (ha : w.alive e = true)
    (hsl : e.id < w.pool.ents.length) {ids : List Comp}
    {vals : List (Comp × Val)} {rels : List RelID}
    (hreg : ∀ (c : Comp), c ∈ ids → c < w.kinds.length)
    (hnd : (rels.map (·.comp)).Nodup) (hin : ∀ (r : RelID), r ∈ rels → r.comp ∈ ids)
    (hrc : ∀ (r : RelID), r ∈ rels → w.isRelComp r.comp = true)
    (htin : ∀ (r : RelID), r ∈ rels → r.target.id < w.pool.ents.length)
    (hfew : w.tables.length < maxU32) (hrows : w.entities.length + 1 < 2 ^ 32)
    {w' : World} (hok : opAdd run p e ids vals rels w = .ok () w') :
    AddRelMore w e ids vals w' := by
  obtain ⟨oldT, row, he, htm, _⟩ := h.link.live_entry h2 hnf ha hsl
  have hix := index_of_get he
  have hI := h.link.idx
  obtain ⟨hT, hrow, hid⟩ := hI.indexed he htm
  have hlt := lt_of_get hT
  have hS := h.rel.sinv.toSInvMid
  have hTf : (w.tbl oldT).isFree = false := by
    cases hf : (w.tbl oldT).isFree with
    | false => rfl
    | true => have := h.freeEmpty oldT _ hT hf; omega
  obtain ⟨A, hA, i1, i2, i3, _⟩ := hS.tblArch oldT _ hT
  have hAe := arch_of_get hA
  have hpre : preCheck (p.addCheck ids) ids rels w = .ok () w := by
    rcases preCheck_cases (p.addCheck ids) ids rels w with h1 | ⟨k, h1⟩
    · exact h1
    · cases p <;> simp [opAdd, bind, M.bind, M.get, M.assert, ha, h1] at hok
  have hemp : ids.isEmpty = false := by
    cases hi : ids.isEmpty with
    | false => rfl
    | true =>
      have : addCore e ids rels w = .panic .noComponents w := by
        simp [addCore, bind, M.bind, checkLocked_unlocked w hl, M.get, M.assert, ha, hi]
      cases p <;> simp [opAdd, hpre, bind, M.bind, M.get, M.assert, ha, this] at hok
  cases hf : findOrCreateTableAdd oldT (w.arch (w.tbl oldT).arch).mask ids rels w with
  | panic k s =>
    have : addCore e ids rels w = .panic k s := by
      simp [addCore, bind, M.bind, checkLocked_unlocked w hl, M.get, M.assert, ha, hemp, hix, hf]
    cases p <;> simp [opAdd, hpre, bind, M.bind, M.get, M.assert, ha, this] at hok
  | ok res w1 =>
    obtain ⟨newT, newA, mask⟩ := res
    have hstart : ∀ (c : Nat), (w.arch (w.tbl oldT).arch).mask.get c = true → c < w.kinds.length := by
      intro c hc; rw [hAe] at hc; exact hS.maskReg _ A hA c hc
    have hom : ∀ (r : RelID), r ∈ (w.tbl oldT).relIDs →
        (w.arch (w.tbl oldT).arch).mask.get r.comp = true := by
      intro r hr
      obtain ⟨i, hi, _⟩ := hS.relCols oldT _ hT r hr
      rw [hAe]
      exact (hS.mem_comps hA r.comp).1 (by rw [← i1]; exact List.mem_of_getElem? hi)
    obtain ⟨hmask, ar⟩ := h.rel.findOrCreateTableAdd h.flags h.freeEmpty hstart hreg hlt hTf hom
      hnd hin hf
    have hra := findOrCreateTableAdd_relArchs h.rel.sinv hstart hreg hf
    have foc := ar.foc
    have hu := ar.untouched
    have hnew := graphFindAdd_new (m' := mask) (w' := w) (by
      rcases graphFindAdd_cases (w.arch (w.tbl oldT).arch).mask ids w with hg | ⟨hg, _⟩
      · rw [hmask]; exact hg
      · simp only [World.findOrCreateTableAdd, bind, M.bind, hg] at hf; cases hf)
    have hne' : oldT ≠ newT := by
      refine Ne.symm (foc.ne_old h.rel.sinv hlt ?_)
      cases hids : ids with
      | nil => rw [hids] at hemp; cases hemp
      | cons c rest =>
        intro heq
        have hc : c ∈ ids := by rw [hids]; exact List.mem_cons_self
        have h1 := hnew c hc
        have h256 : c < 256 := Nat.lt_of_lt_of_le (hreg c hc) (Nat.le_trans h.kindsLe.1 h.kindsLe.2)
        rw [← heq, hmask, Mask.get_ofList_foldl] at h1
        simp [h256, hc] at h1
    have hI1 : IdxInv w1 := foc.idx hI
    have link1 : PLink w1 fl :=
      h.link.transfer hI1 foc.pool (IdxSame.of_eq foc.entities) (by rw [hu.isTarget])
        (by have := ar.tablesLen; omega)
    have he1 : w1.entities[e.id]? = some (oldT, row) := by rw [foc.entities]; exact he
    have hof1 : (w1.tbl oldT).isFree = false := by
      have := foc.others oldT hlt hne'
      rw [tbl_eq_of_get this]; exact hTf
    have htb1 : w1.tbl oldT = w.tbl oldT := tbl_eq_of_get (foc.others oldT hlt hne')
    have hb1 : (w1.tbl newT).len + 1 < 2 ^ 32 := by
      have := hI1.rows_le newT
      rw [foc.entities] at this; omega
    have hal1 : ∀ (x : Ent), w1.alive x = w.alive x := fun x => by simp only [World.alive, foc.pool]
    have hTt := get_of_lt foc.tblLt
    have hcolOf : ∀ (r : RelID), r ∈ (w.tbl oldT).relIDs ++ rels → w.isRelComp r.comp = true →
        ∃ (i : Nat), (w1.tbl newT).colIdx r.comp = some i ∧
        (w1.tbl newT).isRel.getD i false = true ∧ (w1.tbl newT).targets.getD i Ent.zero = r.target := by
      intro r hr hrcr
      have hc : r.comp ∈ (w1.tbl newT).ids := by
        rw [foc.tblIds, Mask.mem_toList, hmask, Mask.get_ofList_foldl]
        rcases List.mem_append.1 hr with k | k
        · have := hom r k
          exact ⟨hstart _ this, by rw [this]; rfl⟩
        · have h1 := hreg r.comp (hin r k)
          have h256 : r.comp < 256 := Nat.lt_of_lt_of_le h1 (Nat.le_trans h.kindsLe.1 h.kindsLe.2)
          exact ⟨h1, by simp [h256, hin r k]⟩
      obtain ⟨i, hi⟩ := colIdx_some_iff_mem.mpr hc
      exact ⟨i, hi, ar.tgt r hr hrcr i hi⟩
    have hvalid : ∀ (r : RelID), r ∈ rels → r.target.isZero = true ∨ w.alive r.target = true := by
      intro r hr
      obtain ⟨i, _, k2, k3⟩ := hcolOf r (List.mem_append_right _ hr) (hrc r hr)
      have := ar.rel.aux.targets newT _ hTt foc.tblFree i k2
      rw [k3, hal1] at this; exact this
    have mt := movedTail (rels := rels) mask ar.rel ar.flags ar.freeEmpty link1 he1 htm hne'
      foc.tblLt foc.tblFree hof1 hb1 (by
        intro r hr hz
        rcases hvalid r hr with k | k
        · rw [k] at hz; cases hz
        · have := h.link.lt_of_in (htin r hr)
          rw [hu.isTarget, h.link.tgtLen]; exact this)
    have hcore := addCore_rel_eq e ids rels w hl ha hemp hix hf
    have hno3 : ∀ (evt : Nat), (registerW (addMove w1 e oldT row newT mask) rels).obs.hasObservers evt
        = false := by
      intro evt; rw [mt.obs, hu.obs]; exact hno evt
    rw [opAdd_rel_eq run p e ids vals rels w ha hpre hcore hno3] at hok
    injection hok with _ hw
    subst hw
    have hntm : newT ≠ maxU32 := by have := foc.tblLt; have := ar.tablesLen; omega
    have ms4 := writeValsW_metaStep (registerW (addMove w1 e oldT row newT mask) rels) e vals
    have hwf := write_frame mt.idx2 e vals mt.entry hntm
    have hS3 : SInvMid (registerW (addMove w1 e oldT row newT mask) rels) := mt.rel.sinv.toSInvMid
    have f1 := ar.frame hI h.freeEmpty
    have hk3 : (registerW (addMove w1 e oldT row newT mask) rels).kinds = w.kinds := by
      rw [mt.kinds, foc.kinds]
    -- membership in the old / the new column list
    have holdIds : ∀ (c : Comp), c ∈ (w.tbl oldT).ids ↔ A.mask.get c = true := by
      intro c; rw [i1]; exact hS.mem_comps hA c
    have hzst : ∀ (c' : Comp) (i' j' : Nat), (w1.tbl oldT).colIdx c' = some i' →
        (w1.tbl newT).colIdx c' = some j' →
        (w1.tbl newT).zst.getD j' false = (w1.tbl oldT).zst.getD i' false := by
      intro c' i' j' k1 k2
      rw [foc.sinv.toSInvMid.tbl_zst hTt k2,
        foc.sinv.toSInvMid.tbl_zst (get_of_lt (Nat.lt_of_lt_of_le hlt foc.tablesLen)) k1]
    have hval3 : ∀ (c : Comp),
        valOf (registerW (addMove w1 e oldT row newT mask) rels) e.id c =
          valOf (addMove w1 e oldT row newT mask) e.id c := fun c => valOf_congr rfl rfl e.id c
    refine
      { pool := by
          show (addMove w1 e oldT row newT mask).pool = w.pool
          rw [(addMove_fields w1 e oldT row newT mask).1, foc.pool]
        maxComps := by
          show (registerW (addMove w1 e oldT row newT mask) rels).maxComps = w.maxComps
          rw [mt.maxComps, hu.maxComps]
        fresh := ?_
        nonempty := by intro hh; rw [hh] at hemp; cases hemp
        comps := ?_
        kept := ?_
        added := ?_
        relArchs := by
          show (addMove w1 e oldT row newT mask).relationArchetypes.length ≤ _
          rw [(addMove_more w1 e oldT row newT mask).1]; exact hra }
    · intro c hc
      have hm := hnew c hc
      rw [hAe] at hm
      have hnm : c ∉ (w.tbl oldT).ids := fun hh => by rw [(holdIds c).1 hh] at hm; cases hm
      exact valOf_none_of_comps
        (by simp only [compsOf, he, htm, if_false, hT, Option.map_some]) hnm
    · intro cs hcs
      have hcs' : cs = (w.tbl oldT).ids := by
        simp only [compsOf, he, htm, if_false, hT, Option.map_some] at hcs
        exact (Option.some.inj hcs).symm
      have hent4 : (writeValsW (registerW (addMove w1 e oldT row newT mask) rels) e vals).entities[e.id]? =
          some (newT, (w1.tbl newT).len) := mt.entry
      have hT4 := get_of_lt (show newT < (writeValsW (registerW (addMove w1 e oldT row newT mask) rels)
        e vals).tables.length by rw [ms4.len, mt.tablesLen]; exact foc.tblLt)
      simp only [compsOf, hent4, hntm, if_false, hT4, Option.map_some]
      rw [(ms4.tmeta newT (by rw [mt.tablesLen]; exact foc.tblLt)).ids,
        (mt.tmeta newT foc.tblLt).ids, foc.tblIds]
      congr 1
      apply Refine.toList_eq_sortedIds
      intro c hc
      rw [hmask, Mask.get_ofList_foldl, hAe, hcs', List.mem_append, holdIds c]
      have h256 : c < 256 := Nat.lt_of_lt_of_le hc (Nat.le_trans h.kindsLe.1 h.kindsLe.2)
      simp [h256]
    · intro c v hv
      have hcio : ∃ (i : Nat), (w.tbl oldT).colIdx c = some i := by
        simp only [valOf, he, htm, if_false, hT, Option.bind_some, Table.getComp] at hv
        cases hci : (w.tbl oldT).colIdx c with
        | none => rw [hci] at hv; cases hv
        | some i => exact ⟨i, rfl⟩
      obtain ⟨i, hci⟩ := hcio
      have hcold : c ∈ (w.tbl oldT).ids := colIdx_some_iff_mem.1 ⟨i, hci⟩
      have hmaskc : mask.get c = true := by
        rw [hmask, Mask.get_ofList_foldl, hAe, (holdIds c).1 hcold]; rfl
      have hcnew : (w1.tbl newT).has c = true := by
        rw [Table.has_iff_mem, foc.tblIds, Mask.mem_toList]
        exact ⟨hstart c (by rw [hAe]; exact (holdIds c).1 hcold), hmaskc⟩
      have hmv := move_keeps_values hI1 mask hne' he1 htm foc.tblLt hntm hb1 hzst hcnew
      rw [if_pos ⟨hmaskc, by rw [htb1, Table.has_iff_mem]; exact hcold⟩] at hmv
      have hv1 : valOf w1 e.id c = some v := by rw [(f1 e.id).1.1 c]; exact hv
      have hz : valOf (registerW (addMove w1 e oldT row newT mask) rels) e.id c = some v := by
        rw [hval3, hmv, hv1]
      rw [valOf_writeVals mt.idx2 hS3 mt.entry hntm vals hz, hk3]
    · intro c hc
      have hm := hnew c hc
      rw [hAe] at hm
      have hnm : c ∉ (w.tbl oldT).ids := fun hh => by rw [(holdIds c).1 hh] at hm; cases hm
      have h1 := hreg c hc
      have h256 : c < 256 := Nat.lt_of_lt_of_le h1 (Nat.le_trans h.kindsLe.1 h.kindsLe.2)
      have hcnew : (w1.tbl newT).has c = true := by
        rw [Table.has_iff_mem, foc.tblIds, Mask.mem_toList, hmask, Mask.get_ofList_foldl]
        exact ⟨h1, by simp [h256, hc]⟩
      have hmv := move_keeps_values hI1 mask hne' he1 htm foc.tblLt hntm hb1 hzst hcnew
      rw [if_neg (fun hh => hnm (by rw [← htb1]; exact Table.has_iff_mem.1 hh.2))] at hmv
      have hz : valOf (registerW (addMove w1 e oldT row newT mask) rels) e.id c = some 0 := by
        rw [hval3, hmv]
      rw [valOf_writeVals mt.idx2 hS3 mt.entry hntm vals hz, hk3]

/-! ## 3. `SetRelations`: pool, registry bound and relation archetypes are kept -/

/-- what an accepted `setRelations` keeps beyond `SetRelPost` -/
structure SetRelMore (w w' : World) : Prop where
  pool : w'.pool = w.pool
  maxComps : w'.maxComps = w.maxComps
  relArchs : w'.relationArchetypes = w.relationArchetypes

theorem setRelationsCore_more (run : ProbeRunner) {w : World} {fl : List Nat} (h : TInv w fl)
    (hl : w.isLocked = false) (hno : ∀ (evt : Nat), w.obs.hasObservers evt = false) {e : Ent}
    (h2 : 2 ≤ e.id) (hnf : e.id ∉ fl) (ha : w.alive e = true)
    (hsl : e.id < w.pool.ents.length) {rels : List RelID}
    (hne : rels.isEmpty = false) (hnd : (rels.map (·.comp)).Nodup)
    (hhas : ∀ (r : RelID), r ∈ rels → (targetOf w e.id r.comp).isSome = true)
    {w' : World} (hok : setRelationsCore run e rels w = .ok () w') : SetRelMore w w' := by
  obtain ⟨oldT, row, he, htm, _⟩ := h.link.live_entry h2 hnf ha hsl
  have hix := index_of_get he
  have hI := h.link.idx
  obtain ⟨hT, hrow, hid⟩ := hI.indexed he htm
  have hlt := lt_of_get hT
  have hS := h.rel.sinv.toSInvMid
  have hTf : (w.tbl oldT).isFree = false := by
    cases hf : (w.tbl oldT).isFree with
    | false => rfl
    | true => have := h.freeEmpty oldT _ hT hf; omega
  have hTex := h.rel.aux.rels oldT _ hT hTf
  have hcols : ∀ (r : RelID), r ∈ rels → ∃ (i : Nat), (w.tbl oldT).colIdx r.comp = some i ∧
      (w.tbl oldT).isRel.getD i false = true := by
    intro r hr
    obtain ⟨t, r', k, T, h1, _, h3, h4, h5⟩ := targetOf_isSome (hhas r hr)
    rw [he] at h1
    obtain ⟨rfl, rfl⟩ := Prod.mk.inj (Option.some.inj h1)
    rw [hT] at h3
    obtain rfl := Option.some.inj h3
    exact ⟨k, h4, h5⟩
  have hts : ∀ (r : RelID), r ∈ rels → ∀ (i : Nat), (w.tbl oldT).colIdx r.comp = some i →
      (setTargets (w.tbl oldT).colIdx rels (w.tbl oldT).targets).getD i Ent.zero = r.target := by
    intro r hr i hi
    apply setTargets_getD_eq
    · rw [hTex.tlen]; exact Table.colIdx_lt hi
    · intro r' hr' hc'
      have : r'.comp = r.comp := colIdx_inj hc' hi
      rw [eq_of_nodup_map (·.comp) rels hnd r' r hr' hr this]
    · exact Or.inl ⟨r, hr, hi⟩
  have hlen' : (setTargets (w.tbl oldT).colIdx rels (w.tbl oldT).targets).length =
      (w.tbl oldT).ids.length := by rw [setTargets_length, hTex.tlen]
  obtain ⟨ch, cm, hx, hfalse, htrue⟩ := getExchangeTargets_spec (w.tbl oldT) rels w hcols hnd
  cases ch with
  | false =>
    rw [setRelationsCore_unchanged run e rels w hl ha hne hix hx] at hok
    injection hok with _ hw
    subst hw
    exact ⟨rfl, rfl, rfl⟩
  | true =>
    simp only [if_true] at hx
    obtain ⟨r1, hr1, i1, hi1, hne1⟩ := htrue rfl
    have hi1r : (w.tbl oldT).isRel.getD i1 false = true := by
      obtain ⟨i, hi, hir⟩ := hcols r1 hr1
      rw [hi1] at hi
      obtain rfl := Option.some.inj hi
      exact hir
    have hrelA : (w.arch (w.tbl oldT).arch).hasRelations = true := by
      obtain ⟨A, hA, _, e2, _⟩ := hS.tblArch oldT _ hT
      rw [arch_of_get hA]
      exact (hS.astruct _ A hA).hasRelations_of_rel (by rw [← e2]; exact hi1r)
    cases hgo : getOrCreate (w.tbl oldT).arch
        (colRels (w.tbl oldT).ids (setTargets (w.tbl oldT).colIdx rels (w.tbl oldT).targets)
          (w.tbl oldT).isRel) w with
    | panic k s =>
      rw [setRelationsCore_panic_get run e rels w hl ha hne hix hx hgo] at hok
      cases hok
    | ok nt w1 =>
      obtain ⟨_, _, _, _, cg, _⟩ := relGet_of_ok (rels0 := rels) h.rel hI
        (h.flags.upTo rels) h.freeEmpty hlt rfl hTf hrelA hlen'
        ⟨i1, hi1r, by rw [hts r1 hr1 i1 hi1]; exact hne1⟩
        (by
          intro i hi hz
          rcases setTargets_getD_cases (w.tbl oldT).colIdx i Ent.zero rels (w.tbl oldT).targets with k | ⟨r, hr, k⟩
          · rw [k] at hz ⊢
            exact Or.inl (h.flags oldT _ hT hTf i hi hz)
          · exact Or.inr ⟨r, hr, k.symm⟩) hgo
      have hno1 : ∀ (evt : Nat), w1.obs.hasObservers evt = false := by
        intro evt; rw [cg.obs]; exact hno evt
      rw [setRelationsCore_changed run e rels w hl ha hne hix hx hgo hno1] at hok
      injection hok with _ hw
      subst hw
      obtain ⟨fp, _, _, fu⟩ := addMove_fields w1 e oldT row nt (w1.arch (w.tbl oldT).arch).mask
      obtain ⟨fra, _⟩ := addMove_more w1 e oldT row nt (w1.arch (w.tbl oldT).arch).mask
      refine ⟨?_, ?_, ?_⟩
      · show (addMove w1 e oldT row nt (w1.arch (w.tbl oldT).arch).mask).pool = w.pool
        rw [fp, cg.pool]
      · show (addMove w1 e oldT row nt (w1.arch (w.tbl oldT).arch).mask).maxComps = w.maxComps
        rw [fu.maxComps, cg.maxComps]
      · show (addMove w1 e oldT row nt (w1.arch (w.tbl oldT).arch).mask).relationArchetypes = _
        rw [fra, cg.relationArchetypes]

theorem opSetRelations_more (run : ProbeRunner) (p : Path) {w : World} {fl : List Nat}
    (h : TInv w fl) (hl : w.isLocked = false) (hno : ∀ (evt : Nat), w.obs.hasObservers evt = false)
    {e : Ent} (h2 : 2 ≤ e.id) (hnf : e.id ∉ fl) (ha : w.alive e = true)
    (hsl : e.id < w.pool.ents.length) {mapperIds : List Comp}
    {rels : List RelID} (hne : rels.isEmpty = false) (hnd : (rels.map (·.comp)).Nodup)
    (hhas : ∀ (r : RelID), r ∈ rels → (targetOf w e.id r.comp).isSome = true)
    {w' : World} (hok : opSetRelations run p e mapperIds rels w = .ok () w') :
    SetRelMore w w' := by
  have hpre : preCheck p.setRelCheck mapperIds rels w = .ok () w := by
    rcases preCheck_cases p.setRelCheck mapperIds rels w with h1 | ⟨k, h1⟩
    · exact h1
    · simp [opSetRelations, bind, M.bind, h1] at hok
  simp only [opSetRelations, bind, M.bind, hpre] at hok
  exact setRelationsCore_more run h hl hno h2 hnf ha hsl hne hnd hhas hok

/-! ## 4. `RemoveEntity`: one `Recycle`; registry bound and relation archetypes are kept -/

/-- what `RemoveEntity g` does to the fields `RemovedRelPost` does not mention -/
structure RemovedRelMore (w : World) (g : Ent) (w' : World) : Prop where
  pool : w'.pool = w.pool.recycle g
  maxComps : w'.maxComps = w.maxComps
  relArchs : w'.relationArchetypes = w.relationArchetypes

theorem opRemoveEntity_rel_more (run : ProbeRunner) {w : World} {fl : List Nat} (h : TInv w fl)
    (hl : w.isLocked = false) (hno : ∀ (evt : Nat), w.obs.hasObservers evt = false) {g : Ent}
    (h2 : 2 ≤ g.id) (hnf : g.id ∉ fl) (ha : w.alive g = true) (hsl : g.id < w.pool.ents.length)
    (hfew : w.tables.length + w.relationArchetypes.length + 1 ≤ maxU32)
    (hrows : 2 * w.entities.length < 2 ^ 32) {w' : World}
    (hok : opRemoveEntity run g w = .ok () w') : RemovedRelMore w g w' := by
  have hg0 : g.id ≠ 0 := by omega
  obtain ⟨t, row, hix, rl⟩ := h.link.removed h2 hnf ha hsl
  obtain ⟨fk, fa, fm⟩ := removeRowOf_fields w g t row
  obtain ⟨fra, fc⟩ := removeRowOf_more w g t row
  have hP := removeRowOf_pool w g t row
  have hTt := get_of_lt (lt_of_get (h.link.idx.indexed rl.entry rl.tne).1)
  have ms1 : MetaStep w (removeRowOf w g t row) :=
    MetaStep.of_set fa fk fra fc rl.tables (fun _ => Table.remove_sameMeta _ _)
  by_cases hfl : w.isTarget.getD g.id false = true
  · have hal1 : ∀ (x : Ent), w.alive x = true → x ≠ g →
        (removeRowOf w g t row).alive x = true ∧ x.id ≠ g.id := by
      intro x hx hne
      have hid : x.id ≠ g.id := fun e => hne (h.link.alive_inj hx ha e)
      exact ⟨by rw [rl.aliveFrame x hid]; exact hx, hid⟩
    have hfree1 : FreeEmpty (removeRowOf w g t row) :=
      h.freeEmpty.of_set rl.tables (fun hf => by
        have := h.freeEmpty t _ hTt (by rw [← (Table.remove_sameMeta _ _).isFree]; exact hf)
        rw [Table.remove_len, this])
    have hB1 : CleanBase g (removeRowOf w g t row) := by
      refine
        { idx := rl.link.idx
          sinv := h.rel.sinv.of_sameMeta ms1.archetypes ms1.kinds ms1.len ms1.tmeta
          tgts := ?_
          rels := h.rel.aux.rels.of_sameMeta ms1.len ms1.tmeta
          cacheRels := by intro e he; rw [fc] at he; exact h.rel.aux.cacheRels e he
          flags := h.flags.of_metaStep ms1 (fun i hi => by rw [removeRowOf_isTarget]; exact hi)
          freeEmpty := hfree1
          relArchs := by
            intro b B hB' hrel; rw [fa] at hB'; rw [fra]; exact h.rel.aux.relArchs b B hB' hrel }
      have hsat : TargetsSat (fun x => x.isZero = true ∨ w.alive x = true) (removeRowOf w g t row) :=
        ((targetsOK_iff w).1 h.rel.aux.targets).of_metaStep ms1
      refine hsat.mono ?_
      intro x hx
      rcases hx with h1 | h1
      · exact Or.inl h1
      · by_cases e : x = g
        · exact Or.inr (Or.inr e)
        · exact Or.inr (Or.inl (hal1 x h1 e))
    have hR1 : RInv (removeRowOf w g t row) :=
      h.rel.rinv.of_sameMeta ms1.archetypes ms1.len ms1.tmeta
    have hE1 : (removeRowOf w g t row).entities.length = w.entities.length := by
      rw [removeRowOf_entities, unplace_entities]; split <;> simp only [List.length_modify]
    rw [opRemoveEntity_eq_target run w g hl ha hix hno hfl] at hok
    have hfew1 : (removeRowOf w g t row).tables.length +
        (removeRowOf w g t row).relationArchetypes.length + 1 ≤ maxU32 := by
      rw [ms1.len, fra]; exact hfew
    obtain ⟨w2, hc, cl⟩ := cleanupArchetypes_spec hB1 hR1 hg0 hfew1 (by rw [hE1]; exact hrows)
    simp only [hc] at hok
    injection hok with _ hw
    subst hw
    exact ⟨by show w2.pool = _; rw [cl.frame.pool, hP],
      by show w2.maxComps = _; rw [cl.frame.maxComps, fm],
      by show w2.relationArchetypes = _; rw [cl.frame.relationArchetypes, fra]⟩
  · have hnt : w.isTarget.getD g.id false = false := by simpa using hfl
    rw [opRemoveEntity_eq run w g hl ha hix hno hnt] at hok
    injection hok with _ hw
    subst hw
    exact ⟨hP, fm, fra⟩

/-! ## 5. `Set` under `TInv` -/

/-- what `writeVals e vals` on a live entity guarantees in a world with relations -/
structure WriteRelPost (w : World) (fl : List Nat) (e : Ent) (vals : List (Comp × Val))
    (w' : World) : Prop where
  tinv : TInv w' fl
  pool : w'.pool = w.pool
  obs : w'.obs = w.obs
  locks : w'.locks = w.locks
  kinds : w'.kinds = w.kinds
  maxComps : w'.maxComps = w.maxComps
  relArchs : w'.relationArchetypes = w.relationArchetypes
  comps : compsOf w' e.id = compsOf w e.id
  /-- last write wins (zero-size components are not written) -/
  vals : ∀ (c : Comp) (v : Val), valOf w e.id c = some v →
    valOf w' e.id c = some (if (w.kinds.getD c {}).zst = true then v else applyVals v vals c)
  frame : ∀ (j : Nat), j ≠ e.id → SameEnt w w' j
  /-- no target changes -/
  targets : ∀ (j : Nat) (c : Comp), targetOf w' j c = targetOf w j c
  tablesLen : w'.tables.length = w.tables.length
  entitiesLen : w'.entities.length = w.entities.length

theorem TInv.writeValsRel {w : World} {fl : List Nat} (h : TInv w fl) {e : Ent} (h2 : 2 ≤ e.id)
    (hnf : e.id ∉ fl) (ha : w.alive e = true)
    (hsl : e.id < w.pool.ents.length) (vals : List (Comp × Val)) :
    WriteRelPost w fl e vals (writeValsW w e vals) := by
  obtain ⟨t, row, he, htm, _⟩ := h.link.live_entry h2 hnf ha hsl
  have hI := h.link.idx
  obtain ⟨hT, hrow, _⟩ := hI.indexed he htm
  have hlt := lt_of_get hT
  have hix := index_of_get he
  have ms := writeValsW_metaStep w e vals
  have hI' := hI.writeVals e vals he htm
  have hwf := write_frame hI e vals he htm
  have hfree : FreeEmpty (writeValsW w e vals) := by
    have hwr := writeVals_writeRel (w.tbl t) row vals hrow
    refine FreeEmpty.of_set (w := w) h.freeEmpty (t := t) (T' := _)
      (by simp only [writeValsW, hix]; rfl) ?_
    intro hf'
    rw [(writeFold_sameMeta _ _ _).isFree] at hf'
    rw [hwr.len]
    exact h.freeEmpty t _ hT hf'
  exact
    { tinv := ⟨h.rel.of_metaStep ms (fun x hx => hx), h.flags.of_metaStep ms (fun _ hi => hi),
        hfree, h.link.congr hI' rfl rfl rfl ms.len, h.kindsLe⟩
      pool := rfl, obs := rfl, locks := rfl, kinds := rfl, maxComps := rfl, relArchs := rfl
      comps := hwf.2.2
      vals := fun c v hv => valOf_writeVals hI h.rel.sinv.toSInvMid he htm vals hv
      frame := fun j hj => ⟨(hwf.1 j hj).1, (hwf.1 j hj).2⟩
      targets := fun j c => ms.targetOf rfl c
      tablesLen := ms.len
      entitiesLen := rfl }

/-- the table of a live entity has a column for `c` iff `c` is one of its components -/
theorem TInv.has_iff_comps {w : World} {fl : List Nat} (h : TInv w fl) {e : Ent} (h2 : 2 ≤ e.id)
    (hnf : e.id ∉ fl) (ha : w.alive e = true)
    (hsl : e.id < w.pool.ents.length) {cs : List Comp} (hcs : compsOf w e.id = some cs)
    (c : Comp) : (w.tbl (w.index e.id).1).has c = true ↔ c ∈ cs := by
  obtain ⟨t, row, he, htm, _⟩ := h.link.live_entry h2 hnf ha hsl
  obtain ⟨hT, _, _⟩ := h.link.idx.indexed he htm
  simp only [compsOf, he, htm, if_false, hT, Option.map_some] at hcs
  rw [index_of_get he, Table.has_iff_mem, Option.some.inj hcs]

/-- **`Set`** on a live entity that has all the components `ids`, in a world with relations -/
theorem opSet_rel_spec (run : ProbeRunner) {w : World} {fl : List Nat} (h : TInv w fl)
    (hno : ∀ (evt : Nat), w.obs.hasObservers evt = false) {e : Ent}
    (h2 : 2 ≤ e.id) (hnf : e.id ∉ fl) (ha : w.alive e = true)
    (hsl : e.id < w.pool.ents.length) {cs : List Comp}
    (hcs : compsOf w e.id = some cs) {ids : List Comp} (hhas : ∀ (c : Comp), c ∈ ids → c ∈ cs)
    (vals : List (Comp × Val)) :
    ∃ (w' : World), opSet run e ids vals w = .ok () w' ∧ WriteRelPost w fl e vals w' := by
  refine ⟨_, opSet_eq run w e ids vals ha ?_ (hno _), h.writeValsRel h2 hnf ha hsl vals⟩
  rw [List.all_eq_true]
  intro c hc
  exact (h.has_iff_comps h2 hnf ha hsl hcs c).mpr (hhas c hc)

/-- **rejection**: `Set` naming a component the entity lacks panics `missing`, state unchanged -/
theorem opSet_rel_missing (run : ProbeRunner) {w : World} {fl : List Nat} (h : TInv w fl) {e : Ent}
    (h2 : 2 ≤ e.id) (hnf : e.id ∉ fl) (ha : w.alive e = true)
    (hsl : e.id < w.pool.ents.length) {cs : List Comp}
    (hcs : compsOf w e.id = some cs) {ids : List Comp}
    (hmiss : ¬ ∀ (c : Comp), c ∈ ids → c ∈ cs) (vals : List (Comp × Val)) :
    opSet run e ids vals w = .panic .missing w := by
  apply opSet_missing run w e ids vals ha
  cases hall : (ids.all fun c => (w.tbl (w.index e.id).1).has c) with
  | false => rfl
  | true =>
    exfalso
    apply hmiss
    intro c hc
    exact (h.has_iff_comps h2 hnf ha hsl hcs c).mp (List.all_eq_true.mp hall c hc)

/-! ## 6. `registerComponent` is invisible to the entities -/

theorem registerComponent_rel_frame {w w' : World} {k : CompKind} {n : Nat}
    (hr : World.registerComponent k w = .ok n w') :
    (∀ (j : Nat), SameEnt w w' j ∧ ∀ (c : Comp), targetOf w' j c = targetOf w j c) ∧
    w'.maxComps = w.maxComps ∧ w'.relationArchetypes = w.relationArchetypes ∧
    w'.tables.length = w.tables.length ∧ w'.entities.length = w.entities.length := by
  obtain ⟨_, _, _, htab, hent, _, _⟩ := registerComponent_ok hr
  have hf : w'.maxComps = w.maxComps ∧ w'.relationArchetypes = w.relationArchetypes := by
    unfold World.registerComponent at hr
    simp only at hr
    split at hr
    · cases hr
    · split at hr
      · cases hr
      · injection hr with _ h2; subst h2
        exact ⟨rfl, rfl⟩
  refine ⟨fun j => ⟨⟨fun c => valOf_congr hent htab j c, compsOf_congr hent htab j⟩, fun c => ?_⟩,
    hf.1, hf.2, by rw [htab], by rw [hent]⟩
  simp only [targetOf, hent, htab]

/-! ## 7. which components carry a target; the mask of a live entity -/

/-- under the invariant, component `c` of the entity with ID `i` carries a relation target iff
    the entity has `c` and `c` is a relation component -/
theorem TInv.targetOf_isSome_iff {w : World} {fl : List Nat} (h : TInv w fl) {i : Nat}
    {cs : List Comp} (hcs : compsOf w i = some cs) (c : Comp) :
    (targetOf w i c).isSome = true ↔ c ∈ cs ∧ w.isRelComp c = true := by
  have hS := h.rel.sinv.toSInvMid
  unfold compsOf at hcs
  cases hx : w.entities[i]? with
  | none => rw [hx] at hcs; cases hcs
  | some pr =>
    obtain ⟨t, r⟩ := pr
    rw [hx] at hcs
    simp only at hcs
    by_cases htm : t = maxU32
    · rw [if_pos htm] at hcs; cases hcs
    · rw [if_neg htm] at hcs
      cases hT : w.tables[t]? with
      | none => rw [hT] at hcs; cases hcs
      | some T =>
        rw [hT] at hcs
        simp only [Option.map_some, Option.some.injEq] at hcs
        subst hcs
        rw [targetOf_of_entry hx htm hT]
        constructor
        · intro hs
          simp only [Table.targetAt] at hs
          cases hc : T.colIdx c with
          | none => rw [hc] at hs; cases hs
          | some k =>
            rw [hc] at hs
            simp only [Option.bind_some] at hs
            split at hs
            · rename_i hk
              exact ⟨colIdx_some_iff_mem.1 ⟨k, hc⟩, hS.isRelComp_of_col hT (Table.colIdx_get hc) hk⟩
            · cases hs
        · rintro ⟨hm, hr⟩
          obtain ⟨k, hc⟩ := colIdx_some_iff_mem.mpr hm
          obtain ⟨A, hA, e1, e2, _⟩ := hS.tblArch t T hT
          have hk : T.isRel.getD k false = true := by
            have hg := Table.colIdx_get hc
            rw [e1] at hg
            rw [e2, (hS.kindsOf _ A k c hA hg).1]
            exact hr
          rw [Table.targetAt_of_col hc hk]; rfl

/-- the mask of a live entity is its component set -/
theorem TInv.mask_iff_comps {w : World} {fl : List Nat} (h : TInv w fl) {e : Ent} (h2 : 2 ≤ e.id)
    (hnf : e.id ∉ fl) (ha : w.alive e = true)
    (hsl : e.id < w.pool.ents.length) {cs : List Comp} (hcs : compsOf w e.id = some cs)
    (c : Comp) : (w.maskOf e).get c = true ↔ c ∈ cs := by
  obtain ⟨t, row, he, htm, _⟩ := h.link.live_entry h2 hnf ha hsl
  obtain ⟨hT, _, _⟩ := h.link.idx.indexed he htm
  have hS := h.rel.sinv.toSInvMid
  obtain ⟨A, hA, e1, _⟩ := hS.tblArch t _ hT
  simp only [compsOf, he, htm, if_false, hT, Option.map_some] at hcs
  have hm : w.maskOf e = A.mask := by simp only [maskOf, index_of_get he, arch_of_get hA]
  rw [hm, ← Option.some.inj hcs, e1]
  exact (hS.mem_comps hA c).symm

/-! ## 8. rejected calls (the world comes back unchanged) -/

namespace World

/-- `NewEntity` with a component listed twice is refused, through any path, whatever the
    relations -/
theorem opNewEntity_rel_dup (run : ProbeRunner) (p : Path) (ids : List Comp)
    (vals : List (Comp × Val)) (rels : List RelID) (w : World) (hl : w.isLocked = false)
    (hb : ∀ (c : Comp), c ∈ ids → c < 256) (hd : ¬ ids.Nodup) :
    ∃ (k : PanicKind), opNewEntity run p ids vals rels w = .panic k w := by
  rcases preCheck_cases p ids rels w with h1 | ⟨k, h1⟩
  · have hrej := findOrCreateTableAdd_reject' 0 Mask.empty ids rels w hb (fun hh => hd hh.1)
    exact ⟨.alreadyHas, by
      simp [opNewEntity, newEntityCore, h1, bind, M.bind, checkLocked_unlocked w hl, hrej]⟩
  · exact ⟨k, by simp [opNewEntity, bind, M.bind, h1]⟩

/-- a panic of `World.add` that leaves the world unchanged is a panic of `Add` that leaves the
    world unchanged (any path, any relations) -/
theorem opAdd_rel_panic (run : ProbeRunner) (p : Path) (e : Ent) (ids : List Comp)
    (vals : List (Comp × Val)) (rels : List RelID) (w : World) {k : PanicKind}
    (hcore : addCore e ids rels w = .panic k w) :
    ∃ (k' : PanicKind), opAdd run p e ids vals rels w = .panic k' w := by
  cases ha : w.alive e with
  | false =>
    rcases preCheck_cases (p.addCheck ids) ids rels w with h1 | ⟨k1, h1⟩
    · cases p <;> simp [opAdd, bind, M.bind, M.get, M.assert, ha, h1, hcore]
    · cases p <;> simp [opAdd, bind, M.bind, M.get, M.assert, ha, h1]
  | true =>
    rcases preCheck_cases (p.addCheck ids) ids rels w with h1 | ⟨k1, h1⟩
    · exact ⟨k, by cases p <;> simp [opAdd, bind, M.bind, M.get, M.assert, ha, h1, hcore]⟩
    · exact ⟨k1, by cases p <;> simp [opAdd, bind, M.bind, M.get, M.assert, ha, h1]⟩

/-- a relation the pre-validation of path `p` refuses for its component: not a relation
    component, or — not through `Map[T]` — not among `ids` -/
def BadRelComp (w : World) (p : Path) (ids : List Comp) (r : RelID) : Prop :=
  w.isRelComp r.comp = false ∨ (p ≠ .map1 ∧ r.comp ∉ ids)

theorem relVerdict_isSome_of_bad {w : World} {p : Path} {ids : List Comp} {r : RelID}
    (hb : BadRelComp w p ids r) : (relVerdict w (checkMask p ids) r).isSome = true := by
  cases hv : relVerdict w (checkMask p ids) r with
  | some k => rfl
  | none =>
    obtain ⟨_, h2, h3⟩ := relVerdict_none_iff.mp hv
    rcases hb with hb | ⟨hp, hb⟩
    · rw [h2] at hb; cases hb
    · have hm : checkMask p ids = some (Mask.ofList ids) := by
        cases p <;> first | rfl | exact absurd rfl hp
      have := h3 _ hm
      rw [Mask.get_ofList] at this
      simp [hb] at this

/-- **rejection** (since the repair of the `Unsafe` API: on every path but for the membership
    check `Map[T]` lacks): `NewEntity` with a relation on a non-relation component or on a
    component that is not added is refused before anything is touched — in any world -/
theorem opNewEntity_rel_badRel (run : ProbeRunner) (p : Path) (ids : List Comp)
    (vals : List (Comp × Val)) (rels : List RelID) (w : World)
    (hbad : ∃ (r : RelID), r ∈ rels ∧ BadRelComp w p ids r) :
    ∃ (k : PanicKind), opNewEntity run p ids vals rels w = .panic k w := by
  obtain ⟨r, hr, hb⟩ := hbad
  have hs := relsVerdict_isSome hr (relVerdict_isSome_of_bad hb)
  cases hv : relsVerdict w (checkMask p ids) rels with
  | none => rw [hv] at hs; cases hs
  | some k => exact ⟨k, opNewEntity_refused run p ids vals rels w hv⟩

/-- **rejection**: `Add` with a relation on a non-relation component or on a component that is
    not added is refused with the world unchanged (by the pre-validation; through `Unsafe` with no
    components, where the membership check is skipped, by `World.add`: `noComponents`) -/
theorem opAdd_rel_badRel (run : ProbeRunner) (p : Path) (e : Ent) (ids : List Comp)
    (vals : List (Comp × Val)) (rels : List RelID) (w : World) (hl : w.isLocked = false)
    (hbad : ∃ (r : RelID), r ∈ rels ∧ BadRelComp w p ids r) :
    ∃ (k : PanicKind), opAdd run p e ids vals rels w = .panic k w := by
  by_cases ha : p = .typed ∨ w.alive e = true
  case neg =>
    have hp : p ≠ .typed := fun h => ha (Or.inl h)
    have hd : w.alive e = false := by
      cases h : w.alive e with
      | false => rfl
      | true => exact absurd (Or.inr h) ha
    exact ⟨_, opAdd_dead_first run p hp e ids vals rels w hd⟩
  cases hv : relsVerdict w (checkMask (p.addCheck ids) ids) rels with
  | some k => exact ⟨k, opAdd_refused run p e ids vals rels w ha hv⟩
  | none =>
    -- only `Unsafe` with no components lets such a list pass
    obtain ⟨r, hr, hb⟩ := hbad
    rcases Path.addCheck_cases p ids with hc | ⟨hp, hids, _⟩
    · rw [hc] at hv
      have hs := relsVerdict_isSome hr (relVerdict_isSome_of_bad hb)
      rw [hv] at hs; cases hs
    · subst hp; subst hids
      have hal : w.alive e = true := by rcases ha with h | h; cases h; exact h
      exact opAdd_rel_panic run .unsafe_ e [] vals rels w (addCore_noComponents w hl e hal rels)

/-- a panic of `World.setRelations` that leaves the world unchanged is a panic of `SetRelations`
    that leaves the world unchanged -/
theorem opSetRelations_panic (run : ProbeRunner) (p : Path) (e : Ent) (mapperIds : List Comp)
    (rels : List RelID) (w : World) {k : PanicKind}
    (hcore : setRelationsCore run e rels w = .panic k w) :
    ∃ (k' : PanicKind), opSetRelations run p e mapperIds rels w = .panic k' w := by
  rcases preCheck_cases p.setRelCheck mapperIds rels w with h1 | ⟨k1, h1⟩
  · exact ⟨k, by simp only [opSetRelations, bind, M.bind, h1, hcore]⟩
  · exact ⟨k1, by simp only [opSetRelations, bind, M.bind, h1]⟩

/-- the scan of `getExchangeTargets` refuses a relation that names no relation column of the
    table, without effect -/
theorem getExchangeTargets_go_bad (T : Table) (w : World) : ∀ (rels : List RelID) (ts : List Ent)
    (ch : Bool) (cm : Mask) (seen : List Comp),
    (∃ (r : RelID), r ∈ rels ∧ ¬ ∃ (i : Nat), T.colIdx r.comp = some i ∧
      T.isRel.getD i false = true) →
    ∃ (k : PanicKind), getExchangeTargets.go T w ts ch cm seen rels = .panic k w
  | [], _, _, _, _, h => by obtain ⟨r, hr, _⟩ := h; cases hr
  | r :: rest, ts, ch, cm, seen, h => by
    simp only [getExchangeTargets.go]
    cases hs : seen.contains r.comp with
    | true => exact ⟨_, rfl⟩
    | false =>
      simp only [Bool.false_eq_true, if_false]
      cases hc : T.colIdx r.comp with
      | none => exact ⟨_, rfl⟩
      | some i =>
        simp only
        cases hi : T.isRel.getD i false with
        | false => exact ⟨_, rfl⟩
        | true =>
          have hrest : ∃ (r' : RelID), r' ∈ rest ∧ ¬ ∃ (i : Nat), T.colIdx r'.comp = some i ∧
              T.isRel.getD i false = true := by
            obtain ⟨r', hr', hbad⟩ := h
            rcases List.mem_cons.1 hr' with rfl | hm
            · exact absurd ⟨i, hc, hi⟩ hbad
            · exact ⟨r', hm, hbad⟩
          simp only [Bool.not_true, Bool.false_eq_true, if_false]
          split
          · exact getExchangeTargets_go_bad T w rest _ _ _ _ hrest
          · exact getExchangeTargets_go_bad T w rest _ _ _ _ hrest

theorem getExchangeTargets_bad (T : Table) (rels : List RelID) (w : World)
    (h : ∃ (r : RelID), r ∈ rels ∧ ¬ ∃ (i : Nat), T.colIdx r.comp = some i ∧
      T.isRel.getD i false = true) :
    ∃ (k : PanicKind), getExchangeTargets T rels w = .panic k w := by
  obtain ⟨k, hk⟩ := getExchangeTargets_go_bad T w rels T.targets false Mask.empty [] h
  exact ⟨k, by unfold getExchangeTargets; rw [hk]⟩

end World

/-- **rejection**: `setRelations` naming a component that carries no target for the entity is
    refused, the world unchanged -/
theorem setRelationsCore_missing (run : ProbeRunner) {w : World} {fl : List Nat} (h : TInv w fl)
    (hl : w.isLocked = false) {e : Ent} (h2 : 2 ≤ e.id) (hnf : e.id ∉ fl) (ha : w.alive e = true)
    (hsl : e.id < w.pool.ents.length)
    {rels : List RelID} (hne : rels.isEmpty = false)
    (hbad : ∃ (r : RelID), r ∈ rels ∧ targetOf w e.id r.comp = none) :
    ∃ (k : PanicKind), setRelationsCore run e rels w = .panic k w := by
  obtain ⟨oldT, row, he, htm, _⟩ := h.link.live_entry h2 hnf ha hsl
  have hix := index_of_get he
  obtain ⟨hT, _, _⟩ := h.link.idx.indexed he htm
  obtain ⟨r, hr, hnone⟩ := hbad
  obtain ⟨k, hk⟩ := getExchangeTargets_bad (w.tbl oldT) rels w ⟨r, hr, by
    rintro ⟨i, hc, hi⟩
    rw [targetOf_of_entry he htm hT, Table.targetAt_of_col hc hi] at hnone
    cases hnone⟩
  exact ⟨k, setRelationsCore_panic_x run e rels w hl ha hne hix hk⟩

/-- `getOrCreate` on a relation list that is not valid panics without effect -/
theorem World.getOrCreate_panic_state {a : Nat} {rels : List RelID} {w s : World} {k : PanicKind}
    (h : getOrCreate a rels w = .panic k s) (hnv : ¬ RelsValid w rels) : s = w := by
  simp only [getOrCreate, bind, M.bind] at h
  cases hg : getTable a rels w with
  | panic k' s' =>
    rw [hg] at h
    simp only at h
    injection h with _ e2
    have := getTable_state a rels w
    rw [hg] at this
    rw [← e2]; exact this
  | ok r s' =>
    have hs := getTable_ok_state hg
    subst hs
    rw [hg] at h
    cases r with
    | some t => simp only [pure, M.pure] at h; cases h
    | none =>
      simp only at h
      rw [createTable_eq] at h
      split at h
      · injection h with _ e2; exact e2.symm
      · split at h
        · injection h with _ e2; exact e2.symm
        · injection h with _ e2; exact e2.symm

/-- **rejection**: `setRelations` naming a dead target — on relation components the live entity
    has, none twice — is refused with the world unchanged (by `World.setRelations` itself:
    independent of the pre-validation of the access path; before the repair of the `Unsafe` API
    this was what covered `Unsafe.SetRelations`, which did not pre-validate) -/
theorem setRelationsCore_deadTarget (run : ProbeRunner) {w : World} {fl : List Nat} (h : TInv w fl)
    (hl : w.isLocked = false) {e : Ent} (h2 : 2 ≤ e.id) (hnf : e.id ∉ fl) (ha : w.alive e = true)
    (hsl : e.id < w.pool.ents.length)
    {rels : List RelID} (hne : rels.isEmpty = false) (hnd : (rels.map (·.comp)).Nodup)
    (hhas : ∀ (r : RelID), r ∈ rels → (targetOf w e.id r.comp).isSome = true)
    (hd : ∃ (r : RelID), r ∈ rels ∧ r.target.isZero = false ∧ w.alive r.target = false) :
    ∃ (k : PanicKind), setRelationsCore run e rels w = .panic k w := by
  obtain ⟨oldT, row, he, htm, _⟩ := h.link.live_entry h2 hnf ha hsl
  have hix := index_of_get he
  have hI := h.link.idx
  obtain ⟨hT, hrow, hid⟩ := hI.indexed he htm
  have hlt := lt_of_get hT
  have hS := h.rel.sinv.toSInvMid
  have hTf : (w.tbl oldT).isFree = false := by
    cases hf : (w.tbl oldT).isFree with
    | false => rfl
    | true => have := h.freeEmpty oldT _ hT hf; omega
  have hTex := h.rel.aux.rels oldT _ hT hTf
  have hcols : ∀ (r : RelID), r ∈ rels → ∃ (i : Nat), (w.tbl oldT).colIdx r.comp = some i ∧
      (w.tbl oldT).isRel.getD i false = true := by
    intro r hr
    obtain ⟨t, r', k, T, h1, _, h3, h4, h5⟩ := targetOf_isSome (hhas r hr)
    rw [he] at h1
    obtain ⟨rfl, rfl⟩ := Prod.mk.inj (Option.some.inj h1)
    rw [hT] at h3
    obtain rfl := Option.some.inj h3
    exact ⟨k, h4, h5⟩
  have hts : ∀ (r : RelID), r ∈ rels → ∀ (i : Nat), (w.tbl oldT).colIdx r.comp = some i →
      (setTargets (w.tbl oldT).colIdx rels (w.tbl oldT).targets).getD i Ent.zero = r.target := by
    intro r hr i hi
    apply setTargets_getD_eq
    · rw [hTex.tlen]; exact Table.colIdx_lt hi
    · intro r' hr' hc'
      have : r'.comp = r.comp := colIdx_inj hc' hi
      rw [eq_of_nodup_map (·.comp) rels hnd r' r hr' hr this]
    · exact Or.inl ⟨r, hr, hi⟩
  have hlen' : (setTargets (w.tbl oldT).colIdx rels (w.tbl oldT).targets).length =
      (w.tbl oldT).ids.length := by rw [setTargets_length, hTex.tlen]
  obtain ⟨rd, hrd, hdz, hda⟩ := hd
  obtain ⟨id, hid', hidr⟩ := hcols rd hrd
  obtain ⟨ch, cm, hx, hfalse, htrue⟩ := getExchangeTargets_spec (w.tbl oldT) rels w hcols hnd
  cases ch with
  | false =>
    -- the dead target would already be stored in the entity's table
    exfalso
    have heq := hfalse rfl
    have := h.rel.aux.targets oldT _ hT hTf id hidr
    rw [← heq, hts rd hrd id hid'] at this
    rcases this with k | k
    · rw [hdz] at k; cases k
    · rw [hda] at k; cases k
  | true =>
    simp only [if_true] at hx
    obtain ⟨r1, hr1, i1, hi1, hne1⟩ := htrue rfl
    have hi1r : (w.tbl oldT).isRel.getD i1 false = true := by
      obtain ⟨i, hi, hir⟩ := hcols r1 hr1
      rw [hi1] at hi
      obtain rfl := Option.some.inj hi
      exact hir
    have hrelA : (w.arch (w.tbl oldT).arch).hasRelations = true := by
      obtain ⟨A, hA, _, e2, _⟩ := hS.tblArch oldT _ hT
      rw [arch_of_get hA]
      exact (hS.astruct _ A hA).hasRelations_of_rel (by rw [← e2]; exact hi1r)
    cases hgo : getOrCreate (w.tbl oldT).arch
        (colRels (w.tbl oldT).ids (setTargets (w.tbl oldT).colIdx rels (w.tbl oldT).targets)
          (w.tbl oldT).isRel) w with
    | panic k s =>
      have hnv : ¬ RelsValid w (colRels (w.tbl oldT).ids
          (setTargets (w.tbl oldT).colIdx rels (w.tbl oldT).targets) (w.tbl oldT).isRel) := by
        intro hv
        obtain ⟨_, _, _, f4⟩ := colRels_facts
          (ts := setTargets (w.tbl oldT).colIdx rels (w.tbl oldT).targets) (hS.ids_nodup hT) hlen'
          (hS.isRel_len hT)
        have hmem := f4 id rd.comp (Table.colIdx_get hid') hidr
        rw [hts rd hrd id hid'] at hmem
        rcases (hv _ hmem).2 with k' | k'
        · rw [hdz] at k'; cases k'
        · rw [hda] at k'; cases k'
      have hs := getOrCreate_panic_state hgo hnv
      subst hs
      exact ⟨k, setRelationsCore_panic_get run e rels s hl ha hne hix hx hgo⟩
    | ok nt w1 =>
      exfalso
      obtain ⟨_, _, _, _, _, hvalid⟩ := relGet_of_ok (rels0 := rels) h.rel hI
        (h.flags.upTo rels) h.freeEmpty hlt rfl hTf hrelA hlen'
        ⟨i1, hi1r, by rw [hts r1 hr1 i1 hi1]; exact hne1⟩
        (by
          intro i hi hz
          rcases setTargets_getD_cases (w.tbl oldT).colIdx i Ent.zero rels (w.tbl oldT).targets with k | ⟨r, hr, k⟩
          · rw [k] at hz ⊢
            exact Or.inl (h.flags oldT _ hT hTf i hi hz)
          · exact Or.inr ⟨r, hr, k.symm⟩) hgo
      have := hvalid id hidr
      rw [hts rd hrd id hid'] at this
      rcases this with k | k
      · rw [hdz] at k; cases k
      · rw [hda] at k; cases k

end Ark
