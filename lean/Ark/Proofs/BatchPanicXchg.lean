/-
  Ark.Proofs.BatchPanicXchg — C07 + C10 for the batch operations, part 3: the add / remove /
  exchange batches over relation tables (`exchangeBatch` with relation targets; the invariant
  `TInv`), and what holds of the lock WITHOUT any invariant.

  * `exchangeBatch_lookup_panic_lock`, `setRelationsBatch_lookup_panic_lock` — for ANY unlocked
    world (no invariant; observers, callback, relations allowed): when the lookup loop panics, the
    batch panics with that class and that state, whose lock, observers and log are the ones before
    the call (the repair of defect D27: the lock is taken after the loop; `frames_findLoopX`,
    `frames_prepLoop`: the loop neither reads nor writes these fields);
  * `XFrame w w'` — lock, observers, log, pool, entity index, flags, registry unchanged; every
    entity reads the same components, values and relation targets;
  * `xchgLookup_any` — `findOrCreateTable` on a non-free table under the loop invariant `LookSt`,
    WHATEVER the arguments (the added components registered): if it returns, the invariant is kept
    and the world extended (`LExt`); if it panics — in the mask walk, in `getTable`, in the
    argument checks of `createTable` — the world is `XFrame` (the archetype `findOrCreateArch` may
    have created for the new mask remains, WITHOUT a table: the structural invariant `SInv` need
    not hold in that world, only `SInvMid`);
  * `findLoopX_any`, `exchangeBatch_rel_panic_frame`, `opExchangeBatch_rel_panic_unlocked` — on an
    unlocked world satisfying `TInv`, without observers, uncached filter, with or without
    callback: if the call panics, the world is NOT locked, the lock state is the one before the
    call, every entity has the components, values and targets it had.

  Kernel-only proofs, core Lean only.
-/
import Ark.Proofs.RelExchangeBatchSpec
import Ark.Proofs.BatchPanicRel
import Ark.Proofs.BatchPanic

set_option autoImplicit false

namespace Ark

open World Ark.Props.C01World QueryRel

namespace World

/-! ## A. a panic of the lookup loop: the lock state is the one before the call (any world) -/

/-- **`exchangeBatch`, any unlocked world, any arguments** (observers, callback and relations
    allowed, no invariant assumed): a panic of the lookup loop is the batch's panic; the state it
    leaves has the lock, the observers and the log of the world before the call — the world is not
    locked and no callback has run -/
theorem exchangeBatch_lookup_panic_lock (run : ProbeRunner) (fo : FilterObj) (extra : List RelID)
    (add rem : List Comp) (rels : List RelID) (vals : Option (List (Comp × Val))) (w : World)
    (hl : w.isLocked = false) (hne : (add.isEmpty && rem.isEmpty) = false) {ts : List Nat}
    (hts : getBatchTables fo extra w = .ok ts w) {k : PanicKind} {w1 : World}
    (hfind : findLoopX add rem rels ts (false, []) w = .panic k w1) :
    exchangeBatch run fo extra add rem rels vals w = .panic k w1 ∧
    w1.locks = w.locks ∧ w1.isLocked = false ∧ w1.obs = w.obs ∧ w1.log = w.log := by
  have hs := (frames_findLoopX add rem rels ts (false, [])).state_frame w
  rw [hfind] at hs
  simp only [Res.state] at hs
  refine ⟨exchangeBatch_rel_findLoop_panic run fo extra add rem rels vals w hl hne hts hfind,
    hs.2.2, ?_, hs.1, hs.2.1⟩
  show w1.locks.isLocked = false
  rw [hs.2.2]; exact hl

/-- **`setRelationsBatch`, any unlocked world, any arguments**: likewise -/
theorem setRelationsBatch_lookup_panic_lock (run : ProbeRunner) (fo : FilterObj)
    (extra : List RelID) (rels : List RelID) (withFn : Bool) (w : World)
    (hl : w.isLocked = false) (hne : rels.isEmpty = false) {ts : List Nat}
    (hts : getBatchTables fo extra w = .ok ts w) {k : PanicKind} {w1 : World}
    (hprep : prepLoop rels ts [] w = .panic k w1) :
    setRelationsBatch run fo extra rels withFn w = .panic k w1 ∧
    w1.locks = w.locks ∧ w1.isLocked = false ∧ w1.obs = w.obs ∧ w1.log = w.log := by
  have hs := (frames_prepLoop rels ts []).state_frame w
  rw [hprep] at hs
  simp only [Res.state] at hs
  refine ⟨setRelationsBatch_prepLoop_panic run fo extra rels withFn w hl hne hts hprep,
    hs.2.2, ?_, hs.1, hs.2.1⟩
  show w1.locks.isLocked = false
  rw [hs.2.2]; exact hl

end World

/-! ## B. the exchange batch over relation tables -/

/-- nothing an entity reads has changed, and neither have lock, observers, log, pool, flags -/
structure XFrame (w w' : World) : Prop where
  locks : w'.locks = w.locks
  obs : w'.obs = w.obs
  log : w'.log = w.log
  pool : w'.pool = w.pool
  entities : w'.entities = w.entities
  isTarget : w'.isTarget = w.isTarget
  kinds : w'.kinds = w.kinds
  frame : ∀ (j : Nat), SameEnt w w' j ∧ ∀ (c : Comp), targetOf w' j c = targetOf w j c

theorem XFrame.refl (w : World) : XFrame w w :=
  ⟨rfl, rfl, rfl, rfl, rfl, rfl, rfl, fun _ => ⟨⟨fun _ => rfl, rfl⟩, fun _ => rfl⟩⟩

theorem XFrame.trans {a b c : World} (h1 : XFrame a b) (h2 : XFrame b c) : XFrame a c :=
  ⟨h2.locks.trans h1.locks, h2.obs.trans h1.obs, h2.log.trans h1.log, h2.pool.trans h1.pool,
    h2.entities.trans h1.entities, h2.isTarget.trans h1.isTarget, h2.kinds.trans h1.kinds,
    fun j => ⟨(h1.frame j).1.trans (h2.frame j).1,
      fun c => ((h2.frame j).2 c).trans ((h1.frame j).2 c)⟩⟩

theorem XFrame.of_lext {w w' : World} (e : LExt w w') (hlog : w'.log = w.log) : XFrame w w' :=
  ⟨e.untouched.locks, e.untouched.obs, hlog, e.pool, e.entities, e.untouched.isTarget, e.kinds,
    e.frame⟩

/-- the same tables and the same entity index: the same reading of every entity -/
theorem XFrame.of_tables {w w' : World} (hI : IdxInv w) (ht : w'.tables = w.tables)
    (he : w'.entities = w.entities) (hp : w'.pool = w.pool) (hu : Untouched w w')
    (hk : w'.kinds = w.kinds) (hlog : w'.log = w.log) : XFrame w w' :=
  ⟨hu.locks, hu.obs, hlog, hp, he, hu.isTarget, hk,
    frame_of_rows hI he (fun t T hT _ => ⟨T, by rw [ht]; exact hT, rfl, rfl, rfl, rfl⟩)⟩

/-- the invariant of the lookup loop of `exchangeBatch` over relation tables (what `MoveSt` says
    without the pool link, which the lookups do not touch) -/
structure LookSt (w : World) (rels : List RelID) : Prop where
  rel : RelInv w
  flags : FlagsOKUpTo w rels
  freeEmpty : FreeEmpty w
  idx : IdxInv w

theorem TInv.lookSt {w : World} {fl : List Nat} (h : TInv w fl) (rels : List RelID) :
    LookSt w rels := ⟨h.rel, h.flags.upTo rels, h.freeEmpty, h.link.idx⟩

namespace World

theorem mem_xchgRels {old : Table} {m : Mask} {rem : List Comp} {rels : List RelID} {r : RelID}
    (h : r ∈ xchgRels old m rem rels) : r ∈ old.relIDs ∨ r ∈ rels := by
  unfold xchgRels at h
  split at h
  · rcases List.mem_append.1 h with k | k
    · exact Or.inl (List.mem_filter.1 k).1
    · exact Or.inr k
  · rw [relsForAdd_eq] at h
    exact List.mem_append.1 h

/-- **one table lookup of the batch over relation tables, whatever the arguments** (the added
    components registered): if `findOrCreateTable` returns, the loop invariant is kept and the world
    is extended by at most one table; if it panics, nothing an entity reads has changed, and lock,
    observers, log, pool and flags are the same -/
theorem xchgLookup_any {w : World} {rels : List RelID} (h : LookSt w rels)
    (hk256 : w.kinds.length ≤ 256) {oldT : Nat} (hlt : oldT < w.tables.length)
    (hTf : (w.tbl oldT).isFree = false) {add rem : List Comp}
    (hreg : ∀ (c : Comp), c ∈ add → c < w.kinds.length) :
    match findOrCreateTable oldT (tmask w oldT) add rem rels w with
    | .ok _ w1 => LookSt w1 rels ∧ LExt w w1 ∧ w1.log = w.log
    | .panic _ w1 => XFrame w w1 := by
  have hR := h.rel
  have hF := h.flags
  have hE := h.freeEmpty
  have hT := get_of_lt hlt
  have hSS := hR.sinv
  have hS := hSS.toSInvMid
  obtain ⟨A, hA, i1, i2, i3, _⟩ := hS.tblArch oldT _ hT
  have hAe := arch_of_get hA
  have hTex := hR.aux.rels oldT _ hT hTf
  have htm : tmask w oldT = A.mask := by simp only [tmask, hAe]
  have hb256 : ∀ (c : Comp), c ∈ add → c < 256 := fun c hc => Nat.lt_of_lt_of_le (hreg c hc) hk256
  by_cases hc : rem.Nodup ∧ (∀ (c : Comp), c ∈ rem → (tmask w oldT).get c = true) ∧ add.Nodup ∧
      ∀ (c : Comp), c ∈ add → (tmask w oldT).get c = false
  case neg =>
    obtain ⟨k, _, hk⟩ := graphFind_bad (tmask w oldT) add rem w hb256 hc
    rw [findOrCreateTable_graphFind_panic hk]
    exact XFrame.refl w
  case pos =>
    obtain ⟨hrnd, hpres, hand, hnew⟩ := hc
    have hg := graphFind_ok (tmask w oldT) add rem w hb256 hrnd hpres hand hnew
    obtain ⟨m, hm⟩ : ∃ (m : Mask), m = xmask add rem (tmask w oldT) := ⟨_, rfl⟩
    have hg' : graphFind (tmask w oldT) (tmask w oldT) add rem w = .ok m w := by rw [hm]; exact hg
    have hmreg : ∀ (c : Nat), m.get c = true → c < w.kinds.length := by
      intro c hc
      rw [hm, xmask_get, htm] at hc
      simp only [Bool.or_eq_true, Bool.and_eq_true, Bool.not_eq_true', decide_eq_false_iff_not,
        decide_eq_true_eq] at hc
      rcases hc with k | k
      · exact hS.maskReg _ A hA c k.1
      · exact hreg c k.2
    have hroot : (w.tbl 0).relIDs = [] :=
      hS.relIDs_nil (get_of_lt hSS.root.1) (by rw [hSS.root.2.1]; exact hS.root_noRel)
    generalize hLdef : xchgRels (w.tbl oldT) m rem rels = L
    have hLmem : ∀ (r : RelID), r ∈ L → r ∈ (w.tbl oldT).relIDs ∨ r ∈ rels := by
      intro r hr; rw [← hLdef] at hr; exact mem_xchgRels hr
    have heq := findOrCreateTable_eq_add_rel oldT _ _ add rem rels w hg' hroot
    rw [hLdef] at heq
    rw [heq]
    -- the archetype of the new mask
    obtain ⟨a, w1', ha, hmid, _, halt, _, _, _, ht, hk, he, hp, _, _⟩ := hSS.findOrCreateArch m hmreg
    have hu1 := findOrCreateArch_untouched ha
    have hlog1 := findOrCreateArch_log ha
    have aux1 : RelAux w1' := hR.aux.findOrCreateArch ha
    have hrf : relsForAdd (w1'.tbl 0) L = L := by
      have : w1'.tbl 0 = w.tbl 0 := by simp only [tbl, ht]
      rw [this, relsForAdd_eq, hroot, List.nil_append]
    have hg0 : graphFindAdd m [] w = .ok m w := rfl
    cases hadd : findOrCreateTableAdd 0 m [] L w with
    | panic k w1 =>
      simp only
      -- the panic is the one of `getTable` or of the argument checks of `createTable`
      have hw1 : w1 = w1' := by
        simp only [findOrCreateTableAdd, bind, M.bind, graphFindAdd, graphFindAdd.go, ha, M.get,
          hrf] at hadd
        have hst := getTable_state a L w1'
        cases hgt : getTable a L w1' with
        | panic k1 s =>
          rw [hgt] at hadd hst
          simp only [Res.state] at hst
          injection hadd with _ hw
          rw [← hw, hst]
        | ok r s =>
          rw [hgt] at hadd hst
          simp only [Res.state] at hst
          subst hst
          cases r with
          | some t => simp only [pure, M.pure] at hadd; cases hadd
          | none =>
            simp only at hadd
            have hnr : (s.arch a).hasRelations = false → (s.arch a).tables.tables = [] := by
              intro hr
              rw [getTable_noRel _ hr] at hgt
              injection hgt with hgt _
              split at hgt
              · rename_i he'
                exact List.isEmpty_iff.1 he'
              · cases hgt
            cases hct : createTable a L s with
            | ok t s2 => simp only [M.bind, hct, pure, M.pure] at hadd; cases hadd
            | panic k2 s2 =>
              simp only [M.bind, hct] at hadd
              injection hadd with _ hw
              rw [← hw]
              rw [createTable_eq] at hct
              split at hct
              · injection hct with _ hw2; exact hw2.symm
              · rename_i hlen
                split at hct
                · injection hct with _ hw2; exact hw2.symm
                · rename_i hchk
                  split at hct
                  · rename_i hv
                    exfalso
                    obtain ⟨hnd, hcol⟩ := (checkRelList_nil_eq_none_iff _ _).1 hchk
                    obtain ⟨nt, w2, hct2, _⟩ := hmid.createTable_total aux1.cacheRels halt hnr
                      (by omega) hcol hnd hv
                    rw [createTable_eq, if_neg hlen, hchk] at hct2
                    simp only [if_pos hv] at hct2
                    rw [hct2] at hct
                    cases hct
                  · injection hct with _ hw2; exact hw2.symm
      subst hw1
      exact XFrame.of_tables h.idx ht he hp hu1 hk hlog1
    | ok x w1 =>
      obtain ⟨t, a', m'⟩ := x
      simp only
      obtain ⟨rfl, rfl, hbr⟩ := findOrCreateTableAdd_ok_inv hg0 ha hadd
      obtain ⟨_, foc, hrinv'⟩ := hSS.findOrCreateTableAdd_of_ok_rinv hR.rinv hmreg
        (fun c hc => by cases hc) hadd
      have hu := findOrCreateTableAdd_untouched hadd
      have hlogw : w1.log = w.log := findOrCreateTableAdd_log hadd
      rw [hrf] at hbr
      rcases hbr with ⟨_, rfl⟩ | ⟨hgt, hct⟩
      · -- an existing table: only the archetype may be new
        have hflag1 : FlagsOKUpTo w1 rels := by
          intro t0 T0 hT0 hf i hi hz
          rw [ht] at hT0; rw [hu1.isTarget]; exact hF t0 T0 hT0 hf i hi hz
        have hfree1 : FreeEmpty w1 := by
          intro t0 T0 hT0 hf; rw [ht] at hT0; exact hE t0 T0 hT0 hf
        refine ⟨⟨⟨foc.sinv, hrinv', aux1⟩, hflag1, hfree1, foc.idx h.idx⟩, ?_, hlogw⟩
        exact
          { keepT := fun t0 _ _ => by rw [ht]
            masks := foc.masks, tablesLen := foc.tablesLen, archsLen := foc.archsLen
            entities := foc.entities, pool := foc.pool, kinds := foc.kinds, untouched := hu1
            frame := frame_of_rows h.idx foc.entities
              (fun t0 T hT0 _ => ⟨T, by rw [ht]; exact hT0, rfl, rfl, rfl, rfl⟩) }
      · -- a table created (or recycled): `createTable` has checked the relation list
        have hndL : (L.map (·.comp)).Nodup := createTable_ok_nodup hct
        obtain ⟨_, ar⟩ := hR.findOrCreateTableAddU hF hE (rels0 := rels) hmreg
          (fun c hc => by cases hc)
          (by rw [hroot, List.nil_append]; exact hndL)
          (by
            intro r hr hz
            rw [hroot, List.nil_append] at hr
            rcases hLmem r hr with k | k
            · obtain ⟨j, _, k2, k3⟩ := hTex.sound r k
              rw [← k3] at hz ⊢
              exact hF oldT _ hT hTf j k2 hz
            · exact Or.inr ⟨r, k, rfl⟩) hadd
        refine ⟨⟨ar.rel, ar.flags, ar.freeEmpty, ar.foc.idx h.idx⟩, ?_, hlogw⟩
        exact
          { keepT := by
              intro t0 ht0 hf0
              by_cases h0 : t0 = t
              · subst h0
                rcases ar.tkeep ht0 with k | k
                · exact k
                · rw [hf0] at k; cases k
              · exact ar.foc.others t0 ht0 h0
            masks := ar.foc.masks, tablesLen := ar.foc.tablesLen, archsLen := ar.foc.archsLen
            entities := ar.foc.entities, pool := ar.foc.pool, kinds := ar.foc.kinds
            untouched := ar.untouched
            frame := ar.frame h.idx hE }

/-- the outcome of (a part of) the lookup loop started in `w` -/
def XOutcome (rels : List RelID) (w : World) {α : Type} : Res World α → Prop
  | .ok _ w1 => LookSt w1 rels ∧ XFrame w w1
  | .panic _ w1 => XFrame w w1

theorem XOutcome.trans_left {rels : List RelID} {w w' : World} {α : Type} {r : Res World α}
    (f : XFrame w w') (o : XOutcome rels w' r) : XOutcome rels w r := by
  cases r with
  | ok a s => exact ⟨o.1, f.trans o.2⟩
  | panic k s => exact f.trans o

theorem XOutcome.state {rels : List RelID} {w : World} {α : Type} {r : Res World α}
    (o : XOutcome rels w r) : XFrame w r.state := by
  cases r with
  | ok a s => exact o.2
  | panic k s => exact o

/-- **the lookup loop over relation tables, whatever its outcome**: if it completes, the loop
    invariant holds; in every case nothing an entity reads has changed and lock, observers, log,
    pool and flags are the same -/
theorem findLoopX_any {add rem : List Comp} {rels : List RelID} :
    ∀ (ts : List Nat) (s : Bool × List BatchTable) (w : World), LookSt w rels →
    w.kinds.length ≤ 256 → (∀ (c : Comp), c ∈ add → c < w.kinds.length) →
    XOutcome rels w (findLoopX add rem rels ts s w)
  | [], _, w, h, _, _ => ⟨h, XFrame.refl w⟩
  | t :: ts, s, w, h, hk256, hreg => by
    simp only [findLoopX]
    split
    · exact findLoopX_any ts s w h hk256 hreg
    · rename_i hlen
      have hrows : (w.tbl t).len ≠ 0 := by simpa using hlen
      have hlt : t < w.tables.length := tbl_len_pos_lt (r := 0) (by omega)
      have hTf : (w.tbl t).isFree = false := by
        cases hf : (w.tbl t).isFree with
        | false => rfl
        | true => exact absurd (h.freeEmpty t _ (get_of_lt hlt) hf) hrows
      have key := xchgLookup_any h hk256 hlt hTf (add := add) (rem := rem) hreg
      have hdef : findOrCreateTable t (w.arch (w.tbl t).arch).mask add rem rels w =
          findOrCreateTable t (tmask w t) add rem rels w := rfl
      rw [hdef]
      cases hf : findOrCreateTable t (tmask w t) add rem rels w with
      | panic k w1 =>
        rw [hf] at key
        exact key
      | ok x w1 =>
        rw [hf] at key
        obtain ⟨h1, e1, hlog1⟩ := key
        simp only
        exact XOutcome.trans_left (XFrame.of_lext e1 hlog1)
          (findLoopX_any ts _ w1 h1 (by rw [e1.kinds]; exact hk256)
            (fun c hc => by rw [e1.kinds]; exact hreg c hc))

/-! ### the batch once the lookup loop has passed -/

/-- one iteration of the move loop of `exchangeBatch` with relations, with or without callback -/
def moveStepXF (rels : List RelID) (vals : Option (List (Comp × Val))) (w : World)
    (b : BatchTable) : World :=
  match vals with
  | some vs => batchFnW (moveStepX rels w b) b.newT (w.tbl b.newT).len (w.tbl b.oldT).len vs
  | none => moveStepX rels w b

theorem moveStepXF_obs (rels : List RelID) (vals : Option (List (Comp × Val))) (w : World)
    (b : BatchTable) : (moveStepXF rels vals w b).obs = w.obs := by
  cases vals with
  | none => exact moveStepX_obs rels w b
  | some vs => simp only [moveStepXF, batchFnW_obs, moveStepX_obs]

theorem moveStepXF_locks (rels : List RelID) (vals : Option (List (Comp × Val))) (w : World)
    (b : BatchTable) : (moveStepXF rels vals w b).locks = w.locks := by
  cases vals with
  | none => exact moveStepX_locks rels w b
  | some vs => simp only [moveStepXF, batchFnW_locks, moveStepX_locks]

theorem foldl_moveStepXF_obs (rels : List RelID) (vals : Option (List (Comp × Val))) :
    ∀ (bts : List BatchTable) (w : World), (bts.foldl (moveStepXF rels vals) w).obs = w.obs
  | [], _ => rfl
  | b :: bts, w => by rw [List.foldl_cons, foldl_moveStepXF_obs rels vals bts, moveStepXF_obs]

theorem foldl_moveStepXF_locks (rels : List RelID) (vals : Option (List (Comp × Val))) :
    ∀ (bts : List BatchTable) (w : World), (bts.foldl (moveStepXF rels vals) w).locks = w.locks
  | [], _ => rfl
  | b :: bts, w => by rw [List.foldl_cons, foldl_moveStepXF_locks rels vals bts, moveStepXF_locks]

theorem loop2XF_some (rels : List RelID) (vs : List (Comp × Val)) (bts : List BatchTable)
    (s : List BatchTable) (w : World) :
    ∃ s', (forIn bts s (fun (b : BatchTable) (__s : List BatchTable) => (do
      let __x ← exchangeTable b.oldT b.newT rels
      batchFn b.newT __x.fst __x.snd vs
      pure (ForInStep.yield
        (__s ++ [{ oldT := b.oldT, newT := b.newT, start := __x.fst, len := __x.snd }]))
      : W (ForInStep (List BatchTable)))) : W (List BatchTable)) w =
      .ok s' (bts.foldl (moveStepXF rels (some vs)) w) :=
  forIn_fold_exists (moveStepXF rels (some vs)) _ (fun b s w =>
    ⟨s ++ [BatchTable.mk b.oldT b.newT (w.tbl b.newT).len (w.tbl b.oldT).len],
      by simp only [M.bind_apply, exchangeTable_rel_eq, batchFn_eq, M.pure_apply, moveStepXF,
        moveStepX]⟩) bts s w

/-- **`exchangeBatch` with relations once the lookup loop has passed** (no observers; with or
    without callback): `registerTargets`, `Lock`, the move loop (a pure function), `Unlock` -/
theorem exchangeBatch_rel_after_find (run : ProbeRunner) (fo : FilterObj) (extra : List RelID)
    (add rem : List Comp) (rels : List RelID) (vals : Option (List (Comp × Val))) (w : World)
    (hl : w.isLocked = false) (hne : (add.isEmpty && rem.isEmpty) = false) {ts : List Nat}
    (hts : getBatchTables fo extra w = .ok ts w)
    {rr : Bool} {bts : List BatchTable} {w1 : World}
    (hfind : findLoopX add rem rels ts (false, []) w = .ok (rr, bts) w1)
    {l' : Lock} {b : Nat} (hlk : w1.locks.lock = some (l', b))
    (hno : ∀ (evt : Nat), w1.obs.hasObservers evt = false) :
    exchangeBatch run fo extra add rem rels vals w =
      unlock b (bts.foldl (moveStepXF rels vals) { registerW w1 rels with locks := l' }) := by
  cases vals with
  | none => exact exchangeBatch_rel_eq_planFirst run fo extra add rem rels w hl hne hts hfind hlk hno
  | some vs =>
    have hlk' : (registerW w1 rels).locks.lock = some (l', b) := hlk
    have hno1 : ∀ (evt : Nat),
        ({ registerW w1 rels with locks := l' } : World).obs.hasObservers evt = false := hno
    have hno2 : ∀ (evt : Nat),
        (bts.foldl (moveStepXF rels (some vs)) { registerW w1 rels with locks := l' }).obs.hasObservers evt
          = false := by
      intro evt; rw [foldl_moveStepXF_obs]; exact hno evt
    obtain ⟨s2, h2⟩ := loop2XF_some rels vs bts [] { registerW w1 rels with locks := l' }
    cases hr : rem.isEmpty <;> cases ha : add.isEmpty <;> rw [hr, ha] at hne <;>
    first
    | exact absurd hne (by decide)
    | (unfold exchangeBatch
       simp only [M.bind_apply, checkLocked_unlocked w hl, M.assert_apply, hr, ha, Bool.and_self,
        Bool.and_false, Bool.false_and, Bool.not_false, Bool.not_true, if_true, hts,
        forIn_findLoopX, hfind, registerTargets_eq, lock_ok hlk', M.get_apply, hno1,
        Bool.false_eq_true, if_false, h2, Bool.and_false, hno2])

end World

/-- **a rejected add / remove / exchange batch over relation tables** (with or without callback)
    on an unlocked world satisfying `TInv`, without observers, uncached filter, the added
    components registered: whatever makes `exchangeBatch` panic, the world it leaves is `XFrame` —
    the LOCK is the one before the call (the repair of defect D27), observers and log are the
    same (no callback ran), every entity reads the same components, values and relation targets,
    pool and flags are unchanged -/
theorem exchangeBatch_rel_panic_frame (run : ProbeRunner) {w : World} {fl : List Nat}
    (h : TInv w fl) (hl : w.isLocked = false) (hL : LockFree w.locks)
    (hno : ∀ (evt : Nat), w.obs.hasObservers evt = false) (fo : FilterObj) (extra : List RelID)
    (hc : fo.cache = none) {add rem : List Comp} (rels : List RelID)
    (hreg : ∀ (c : Comp), c ∈ add → c < w.kinds.length)
    (vals : Option (List (Comp × Val))) {k : PanicKind} {w' : World}
    (hp : exchangeBatch run fo extra add rem rels vals w = .panic k w') : XFrame w w' := by
  have hk256 : w.kinds.length ≤ 256 := by have := h.kindsLe; omega
  cases hneB : (add.isEmpty && rem.isEmpty) with
  | true =>
    have : exchangeBatch run fo extra add rem rels vals w = .panic .noComponents w := by
      unfold exchangeBatch
      simp only [M.bind_apply, checkLocked_unlocked w hl, M.assert_apply, hneB, Bool.not_true,
        Bool.false_eq_true, if_false]
    rw [this] at hp
    injection hp with _ hw
    subst hw
    exact XFrame.refl w
  | false =>
    have e1 := getBatchTables_uncached fo extra w hc
    cases hx : w.getCacheTables fo.filter (fo.rels ++ extra) with
    | none =>
      rw [hx] at e1
      have : exchangeBatch run fo extra add rem rels vals w = .panic .runtime w := by
        unfold exchangeBatch
        simp only [M.bind_apply, checkLocked_unlocked w hl, M.assert_apply, hneB, Bool.not_false,
          if_true, e1]
      rw [this] at hp
      injection hp with _ hw
      subst hw
      exact XFrame.refl w
    | some ts =>
      rw [hx] at e1
      have hany := findLoopX_any (add := add) (rem := rem) ts (false, []) w (h.lookSt rels) hk256 hreg
      cases hf : findLoopX add rem rels ts (false, []) w with
      | panic k1 w1 =>
        rw [exchangeBatch_rel_findLoop_panic run fo extra add rem rels vals w hl hneB e1 hf] at hp
        injection hp with _ hw
        subst hw
        rw [hf] at hany
        exact hany
      | ok x w1 =>
        exfalso
        obtain ⟨rr, bts⟩ := x
        rw [hf] at hany
        obtain ⟨_, f1⟩ := hany
        obtain ⟨l', b, l'', k1, _, k3, _, _⟩ := hL.cycle
        have hlk1 : w1.locks.lock = some (l', b) := by rw [f1.locks]; exact k1
        have hno1 : ∀ (evt : Nat), w1.obs.hasObservers evt = false := by
          intro evt; rw [f1.obs]; exact hno evt
        rw [exchangeBatch_rel_after_find run fo extra add rem rels vals w hl hneB e1 hf hlk1 hno1,
          unlock_ok (by rw [foldl_moveStepXF_locks]; exact k3)] at hp
        cases hp

/-- **C07 + C10 for `AddBatch` / `RemoveBatch` / `ExchangeBatch` and their `…Fn` forms over
    relation tables** (`TInv`; no observers; uncached filter; the added components registered):
    if the call panics — in the pre-validation of the relation arguments, in the entry checks, or
    in the lookup loop (a component already present / missing, a relation target not specified, a
    relation component named twice, …) — then the world is NOT locked, its lock state is exactly
    the one before the call, every entity has the components, values and relation targets it had,
    every handle is as alive as it was; pool, flags, observers and log are the same. -/
theorem opExchangeBatch_rel_panic_unlocked (run : ProbeRunner) (p : Path) {w : World}
    {fl : List Nat} (h : TInv w fl) (hl : w.isLocked = false) (hL : LockFree w.locks)
    (hno : ∀ (evt : Nat), w.obs.hasObservers evt = false) (fo : FilterObj) (extra : List RelID)
    (hc : fo.cache = none) {add rem : List Comp} (rels : List RelID)
    (hreg : ∀ (c : Comp), c ∈ add → c < w.kinds.length)
    (vals : Option (List (Comp × Val))) {k : PanicKind} {w' : World}
    (hp : opExchangeBatch run p fo extra add rem rels vals w = .panic k w') :
    w'.isLocked = false ∧ w'.locks = w.locks ∧
    (∀ (j : Nat), SameEnt w w' j ∧ ∀ (c : Comp), targetOf w' j c = targetOf w j c) ∧
    (∀ (x : Ent), w'.alive x = w.alive x) ∧ XFrame w w' := by
  have key : XFrame w w' := by
    unfold opExchangeBatch at hp
    simp only [bind, M.bind] at hp
    rw [preCheck_eq] at hp
    cases hv : relsVerdict w (checkMask p add) rels with
    | none =>
      rw [hv] at hp
      exact exchangeBatch_rel_panic_frame run h hl hL hno fo extra hc rels hreg vals hp
    | some k1 =>
      rw [hv] at hp
      injection hp with _ hw
      subst hw
      exact XFrame.refl w
  refine ⟨?_, key.locks, key.frame, fun x => by simp only [World.alive, key.pool], key⟩
  show w'.locks.isLocked = false
  rw [key.locks]; exact hl

end Ark
