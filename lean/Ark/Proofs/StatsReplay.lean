/-
  Ark.Proofs.StatsReplay — property C19 over whole histories, part 3: **no operation reads the
  statistics object**, hence a world that replays a history without its `Stats()` calls is — up
  to `w.stats` — the world the history with the calls reaches, and the incrementally updated
  statistics equal those of the replaying world asked once.

  * `World.setStats`, `liftS`, `Indep m` — `m (w.setStats st) = liftS st (m w)`: the monadic
    action `m` neither reads nor writes `w.stats`; closure under `pure`, `bind`, reading the
    world, `forM'`.
  * `Indep` of the storage primitives (`graphFindAdd`, `graphFindRemove`, `graphFind`,
    `findOrCreateArch`, `getTable`, `createTable`) and of the three table lookups; of
    `registerComponent`; commutation of the row-level steps, `shrinkPure`, `resetW`, `defFilter`,
    `opFilterRegister`, `opFilterUnregister` with `setStats`.
  * `exec_setStats` — every successful operation of the entity machine (all eleven) commutes
    with `setStats`; `step_setStats`, `step2_setStats`.
  * `replay` — the headline: for every history `ops` of the machine with `Stats()` calls, the
    state reached is the state reached by `ops` without its `Stats()` calls, with another
    statistics object; `replay_stats` — `Stats()` after `ops` returns the fresh statistics of the
    replaying world.

  Kernel-only proofs, core Lean only.
-/
import Ark.Proofs.StatsHist

set_option autoImplicit false

namespace Ark

open World

/-! ## 1. actions that do not look at the statistics object -/

namespace World

/-- the world with another statistics object -/
def setStats (w : World) (st : WorldStats) : World := { w with stats := st }

@[simp] theorem setStats_setStats (w : World) (a b : WorldStats) :
    (w.setStats a).setStats b = w.setStats b := rfl

theorem setStats_self (w : World) : w.setStats w.stats = w := rfl

end World

/-- replace the statistics object of the state a result carries -/
def liftS {α : Type} (st : WorldStats) : Res World α → Res World α
  | .ok a w => .ok a (w.setStats st)
  | .panic k w => .panic k (w.setStats st)

/-- the action neither reads nor writes `w.stats` -/
def Indep {α : Type} (m : W α) : Prop :=
  ∀ (w : World) (st : WorldStats), m (w.setStats st) = liftS st (m w)

namespace Indep

variable {α β : Type}

theorem pure (a : α) : Indep (Pure.pure a : W α) := fun _ _ => rfl

theorem bind {m : W α} {f : α → W β} (hm : Indep m) (hf : ∀ (a : α), Indep (f a)) :
    Indep (m >>= f) := by
  intro w st
  rw [M.bind_apply, hm w st, M.bind_apply]
  cases m w with
  | ok a w' => exact hf a w' st
  | panic k w' => rfl

/-- `do let w ← get; f w`, where `f` reads fields other than `stats` -/
theorem get_bind {f : World → W β} (hr : ∀ (w : World) (st : WorldStats), f (w.setStats st) = f w)
    (hf : ∀ (w : World), Indep (f w)) : Indep (M.get >>= f) := by
  intro w st
  show f (w.setStats st) (w.setStats st) = liftS st (f w w)
  rw [hr]; exact hf w w st

theorem modify {g : World → World}
    (hg : ∀ (w : World) (st : WorldStats), g (w.setStats st) = (g w).setStats st) :
    Indep (M.modify g) := fun w st => by
  show Res.ok () (g (w.setStats st)) = Res.ok () ((g w).setStats st)
  rw [hg]

theorem assert (c : Bool) (k : PanicKind) : Indep (M.assert c k : W Unit) := fun w st => by
  show (if c then Res.ok () (w.setStats st) else .panic k (w.setStats st)) =
    liftS st (if c then Res.ok () w else .panic k w)
  cases c <;> rfl

theorem forM' {γ : Type} {g : γ → W Unit} (hg : ∀ (x : γ), Indep (g x)) :
    ∀ (l : List γ), Indep (M.forM' l g)
  | [] => pure ()
  | x :: l => by
    show Indep (g x >>= fun _ => M.forM' l g)
    exact bind (hg x) fun _ => forM' hg l

/-- an `ok` result on `w` gives the corresponding result on `w.setStats st` -/
theorem ok {m : W α} (h : Indep m) {w w' : World} {a : α} (hm : m w = .ok a w')
    (st : WorldStats) : m (w.setStats st) = .ok a (w'.setStats st) := by
  rw [h w st, hm]; rfl

theorem panic {m : W α} (h : Indep m) {w w' : World} {k : PanicKind} (hm : m w = .panic k w')
    (st : WorldStats) : m (w.setStats st) = .panic k (w'.setStats st) := by
  rw [h w st, hm]; rfl

end Indep

/-! ## 2. the storage primitives -/

namespace World

theorem indep_checkLocked : Indep checkLocked := fun w st => by
  show (if w.isLocked then Res.panic .locked (w.setStats st) else .ok () (w.setStats st)) =
    liftS st (if w.isLocked then Res.panic .locked w else .ok () w)
  cases w.isLocked <;> rfl

theorem indep_checkRelationComponent (c : Comp) : Indep (checkRelationComponent c) := fun w st => by
  show (if w.isRelComp c then Res.ok () (w.setStats st) else .panic .notRelation (w.setStats st)) =
    liftS st (if w.isRelComp c then Res.ok () w else .panic .notRelation w)
  cases w.isRelComp c <;> rfl

theorem indep_checkRelationTarget (t : Ent) : Indep (checkRelationTarget t) := fun w st => by
  show (if (!t.isZero && !w.alive t) then Res.panic .deadTarget (w.setStats st)
      else .ok () (w.setStats st)) =
    liftS st (if (!t.isZero && !w.alive t) then Res.panic .deadTarget w else .ok () w)
  cases (!t.isZero && !w.alive t) <;> rfl

theorem indep_relCheck (r : RelID) : Indep (relCheck r) :=
  Indep.bind (indep_checkRelationComponent r.comp) fun _ => indep_checkRelationTarget r.target

theorem graphFindAdd_go_setStats (w : World) (st : WorldStats) : ∀ (add : List Comp) (m : Mask),
    graphFindAdd.go (w.setStats st) m add = liftS st (graphFindAdd.go w m add)
  | [], _ => rfl
  | c :: rest, m => by
    simp only [graphFindAdd.go]
    split
    · rfl
    · exact graphFindAdd_go_setStats w st rest _

theorem indep_graphFindAdd (mask : Mask) (add : List Comp) : Indep (graphFindAdd mask add) :=
  fun w st => graphFindAdd_go_setStats w st add mask

theorem graphFindRemove_go_setStats (w : World) (st : WorldStats) : ∀ (rem : List Comp) (m : Mask),
    graphFindRemove.go (w.setStats st) m rem = liftS st (graphFindRemove.go w m rem)
  | [], _ => rfl
  | c :: rest, m => by
    simp only [graphFindRemove.go]
    split
    · rfl
    · exact graphFindRemove_go_setStats w st rest _

theorem indep_graphFindRemove (mask : Mask) (rem : List Comp) : Indep (graphFindRemove mask rem) :=
  fun w st => graphFindRemove_go_setStats w st rem mask

theorem graphFind_go_setStats (start : Mask) (w : World) (st : WorldStats) :
    ∀ (add : List Comp) (m : Mask),
      graphFind.go start (w.setStats st) m add = liftS st (graphFind.go start w m add)
  | [], _ => rfl
  | c :: rest, m => by
    simp only [graphFind.go]
    split
    · rfl
    · split
      · rfl
      · exact graphFind_go_setStats start w st rest _

theorem indep_graphFind (start mask : Mask) (add rem : List Comp) :
    Indep (graphFind start mask add rem) := fun w st => by
  simp only [graphFind]
  rw [indep_graphFindRemove mask rem w st]
  cases graphFindRemove mask rem w with
  | panic k w1 => rfl
  | ok m w1 => exact graphFind_go_setStats start w1 st add m

theorem caStep_setStats (id : Nat) (w : World) (st : WorldStats) (c : Comp) :
    caStep id (w.setStats st) c = (caStep id w c).setStats st := rfl

theorem foldl_caStep_setStats (id : Nat) (st : WorldStats) : ∀ (l : List Comp) (w : World),
    l.foldl (caStep id) (w.setStats st) = (l.foldl (caStep id) w).setStats st
  | [], _ => rfl
  | c :: l, w => by
    rw [List.foldl_cons, List.foldl_cons, caStep_setStats]
    exact foldl_caStep_setStats id st l _

/-- `createArchetypeW` with its reads of the world made parameters -/
def caW (n : Nat) (l : List Comp) (A : Archetype) (c : Bool) (w : World) : World :=
  let w2 := l.foldl (caStep n) { w with archetypes := w.archetypes ++ [A] }
  if c then { w2 with relationArchetypes := w2.relationArchetypes ++ [n] } else w2

theorem createArchetypeW_eq_caW (w : World) (mask : Mask) :
    createArchetypeW w mask = caW w.archetypes.length (mask.toList w.kinds.length) (newArch w mask)
      (newArch w mask).hasRelations w := rfl

theorem caW_setStats (n : Nat) (l : List Comp) (A : Archetype) (c : Bool) (w : World)
    (st : WorldStats) : caW n l A c (w.setStats st) = (caW n l A c w).setStats st := by
  unfold caW
  have h2 : ({ w.setStats st with archetypes := (w.setStats st).archetypes ++ [A] } : World) =
      ({ w with archetypes := w.archetypes ++ [A] } : World).setStats st := rfl
  simp only [h2, foldl_caStep_setStats]
  cases c <;> rfl

theorem createArchetypeW_setStats (w : World) (st : WorldStats) (mask : Mask) :
    createArchetypeW (w.setStats st) mask = (createArchetypeW w mask).setStats st := by
  rw [createArchetypeW_eq_caW, createArchetypeW_eq_caW]
  exact caW_setStats _ _ _ _ w st

theorem indep_findOrCreateArch (mask : Mask) : Indep (findOrCreateArch mask) := fun w st => by
  unfold findOrCreateArch
  have h1 : (w.setStats st).findArch mask = w.findArch mask := rfl
  rw [h1]
  cases w.findArch mask with
  | some a => rfl
  | none =>
    show createArchetype mask (w.setStats st) = liftS st (createArchetype mask w)
    rw [createArchetype_eq, createArchetype_eq, createArchetypeW_setStats]
    rfl

theorem getTable_go_setStats (w : World) (st : WorldStats) (rels : List RelID) :
    ∀ (ts : List Nat), getTable.go rels (w.setStats st) ts = liftS st (getTable.go rels w ts)
  | [] => rfl
  | t :: rest => by
    simp only [getTable.go]
    have h : (w.setStats st).tbl t = w.tbl t := rfl
    rw [h]
    split
    · rfl
    · exact getTable_go_setStats w st rels rest
    · rfl
    · rfl

theorem indep_getTable (a : Nat) (rels : List RelID) : Indep (getTable a rels) := fun w st => by
  unfold getTable
  have h : (w.setStats st).arch a = w.arch a := rfl
  simp only [h]
  split
  · rfl
  · split
    · rfl
    · split
      · rfl
      · split
        · rfl
        · split
          · rfl
          · split
            · rfl
            · split
              · rfl
              · exact getTable_go_setStats w st _ _

theorem cacheAddTable_setStats (w : World) (st : WorldStats) (T : Table) :
    (w.setStats st).cacheAddTable T = (w.cacheAddTable T).map fun w' => w'.setStats st := by
  unfold cacheAddTable
  have h1 : (w.setStats st).arch T.arch = w.arch T.arch := rfl
  have h2 : (w.setStats st).cache = w.cache := rfl
  simp only [h1, h2]
  split <;> rfl

theorem createTableS_setStats (w : World) (st : WorldStats) (a : Nat) (rels : List RelID) :
    createTableS (w.setStats st) a rels =
      ((createTableS w a rels).1.setStats st, (createTableS w a rels).2) := by
  unfold createTableS
  have h : (w.setStats st).arch a = w.arch a := rfl
  rw [h]
  split <;> rfl

theorem relPanic_setStats (w : World) (st : WorldStats) (rels : List RelID) :
    relPanic (w.setStats st) rels = relPanic w rels := by
  unfold relPanic
  rw [Indep.forM' indep_relCheck rels w st]
  cases M.forM' rels relCheck w <;> rfl

theorem indep_createTable (a : Nat) (rels : List RelID) : Indep (createTable a rels) :=
  fun w st => by
  rw [createTable_eq, createTable_eq]
  have h : (w.setStats st).arch a = w.arch a := rfl
  have hv : RelsValid (w.setStats st) rels ↔ RelsValid w rels := Iff.rfl
  rw [h]
  split
  · rfl
  · split
    · rfl
    · by_cases hr : RelsValid w rels
      · rw [if_pos (hv.mpr hr), if_pos hr, createTableS_setStats]
        unfold ctFinish
        simp only
        have ht : ((createTableS w a rels).1.setStats st).tbl (createTableS w a rels).2 =
            (createTableS w a rels).1.tbl (createTableS w a rels).2 := rfl
        rw [ht, cacheAddTable_setStats]
        cases (createTableS w a rels).1.cacheAddTable
          ((createTableS w a rels).1.tbl (createTableS w a rels).2) <;> rfl
      · rw [if_neg (fun hh => hr (hv.mp hh)), if_neg hr, relPanic_setStats]
        rfl

/-! ### the three lookups -/

theorem indep_findOrCreateTableAdd (oldT : Nat) (startMask : Mask) (add : List Comp)
    (rels : List RelID) : Indep (findOrCreateTableAdd oldT startMask add rels) := by
  unfold findOrCreateTableAdd
  refine Indep.bind (indep_graphFindAdd _ _) fun mask => ?_
  refine Indep.bind (indep_findOrCreateArch _) fun a => ?_
  refine Indep.get_bind (fun _ _ => rfl) fun w0 => ?_
  refine Indep.bind (indep_getTable _ _) fun r => ?_
  cases r with
  | some t => exact Indep.pure _
  | none => exact Indep.bind (indep_createTable _ _) fun t => Indep.pure _

theorem indep_findOrCreateTableRemove (oldT : Nat) (startMask : Mask) (rem : List Comp) :
    Indep (findOrCreateTableRemove oldT startMask rem) := by
  unfold findOrCreateTableRemove
  refine Indep.bind (indep_graphFindRemove _ _) fun mask => ?_
  refine Indep.bind (indep_findOrCreateArch _) fun a => ?_
  refine Indep.get_bind (fun _ _ => rfl) fun w0 => ?_
  refine Indep.bind (indep_getTable _ _) fun r => ?_
  cases r with
  | some t => exact Indep.pure _
  | none => exact Indep.bind (indep_createTable _ _) fun t => Indep.pure _

theorem indep_findOrCreateTable (oldT : Nat) (startMask : Mask) (add rem : List Comp)
    (rels : List RelID) : Indep (findOrCreateTable oldT startMask add rem rels) := by
  unfold findOrCreateTable
  refine Indep.bind (indep_graphFind _ _ _ _) fun mask => ?_
  refine Indep.bind (indep_findOrCreateArch _) fun a => ?_
  refine Indep.get_bind (fun _ _ => rfl) fun w0 => ?_
  split <;> dsimp only <;>
  · refine Indep.bind (indep_getTable _ _) fun r => ?_
    cases r with
    | some t => exact Indep.pure _
    | none => exact Indep.bind (indep_createTable _ _) fun t => Indep.pure _

theorem indep_registerComponent (k : CompKind) : Indep (registerComponent k) := fun w st => by
  unfold registerComponent
  have h1 : (w.setStats st).kinds = w.kinds := rfl
  have h2 : (w.setStats st).maxComps = w.maxComps := rfl
  have h3 : (w.setStats st).isLocked = w.isLocked := rfl
  simp only [h1, h2, h3]
  split
  · rfl
  · split <;> rfl

/-! ## 3. row-level steps, `Shrink`, `Reset` -/

theorem placedW_setStats (w : World) (st : WorldStats) (t : Nat) (rt : Bool) :
    placedW (w.setStats st) t rt = (placedW w t rt).setStats st := by
  unfold placedW World.setStats World.setTbl World.tbl
  dsimp only
  split <;> rfl

theorem writeValsW_setStats (w : World) (st : WorldStats) (e : Ent) (vals : List (Comp × Val)) :
    writeValsW (w.setStats st) e vals = (writeValsW w e vals).setStats st := rfl

theorem addMove_setStats (w : World) (st : WorldStats) (e : Ent) (oldT row newT : Nat)
    (keep : Mask) :
    addMove (w.setStats st) e oldT row newT keep = (addMove w e oldT row newT keep).setStats st := by
  unfold addMove moveRowW World.setStats World.modTbl World.setTbl World.tbl
  dsimp only
  split <;> rfl

theorem removeRowOf_setStats (w : World) (st : WorldStats) (e : Ent) (t row : Nat) :
    removeRowOf (w.setStats st) e t row = (removeRowOf w e t row).setStats st := by
  unfold removeRowOf World.setStats World.setTbl World.tbl
  dsimp only
  split <;> rfl

theorem copiedW_setStats (w : World) (st : WorldStats) (t row idx : Nat) :
    copiedW (w.setStats st) t row idx = (copiedW w t row idx).setStats st := rfl

theorem shrinkStep_setStats (w : World) (st : WorldStats) (t : Nat) :
    shrinkStep (w.setStats st) t = ((shrinkStep w t).1.setStats st, (shrinkStep w t).2) := by
  unfold shrinkStep
  have h1 : (w.setStats st).tbl t = w.tbl t := rfl
  have h2 : (w.setStats st).initCap = w.initCap := rfl
  have h3 : (w.setStats st).initCapRel = w.initCapRel := rfl
  simp only [h1, h2, h3]
  split
  · rfl
  · split <;> rfl

theorem shrinkLoop_setStats (bounded : Bool) (st : WorldStats) :
    ∀ (ts : List Nat) (w : World) (s : Bool × Nat),
      shrinkLoop bounded ts (w.setStats st) s =
        ((shrinkLoop bounded ts w s).1.setStats st, (shrinkLoop bounded ts w s).2)
  | [], _, _ => rfl
  | t :: ts, w, s => by
    simp only [shrinkLoop, shrinkStep_setStats]
    split
    · rfl
    · exact shrinkLoop_setStats bounded st ts _ _

theorem hasWork_setStats (w : World) (st : WorldStats) (t : Nat) :
    (w.setStats st).hasWork t = w.hasWork t := rfl

theorem shrinkPure_setStats (w : World) (st : WorldStats) (bounded : Bool) :
    shrinkPure (w.setStats st) bounded =
      ((shrinkPure w bounded).1.setStats st, (shrinkPure w bounded).2) := by
  unfold shrinkPure
  have h1 : (w.setStats st).tables = w.tables := rfl
  simp only [h1, shrinkLoop_setStats]
  rfl

theorem cacheReset_setStats (w : World) (st : WorldStats) :
    (w.setStats st).cacheReset = w.cacheReset.setStats st := by
  unfold cacheReset
  have h1 : (w.setStats st).cache = w.cache := rfl
  simp only [h1]
  split <;> rfl

theorem resetPre_setStats (w : World) (st : WorldStats) :
    resetPre (w.setStats st) = (resetPre w).setStats st := by
  unfold resetPre
  dsimp only
  rw [show ({ w.setStats st with entities := (w.setStats st).entities.take 2, pool := (w.setStats st).pool.reset, isTarget := (w.setStats st).isTarget.take 2 } : World) = ({ w with entities := w.entities.take 2, pool := w.pool.reset, isTarget := w.isTarget.take 2 } : World).setStats st from rfl]
  rw [cacheReset_setStats]
  rfl

theorem foldl_modTbl_setStats (f : Table → Table) (st : WorldStats) :
    ∀ (ts : List Nat) (w : World),
      ts.foldl (fun (w : World) t => w.modTbl t f) (w.setStats st) =
        (ts.foldl (fun (w : World) t => w.modTbl t f) w).setStats st
  | [], _ => rfl
  | t :: ts, w => by
    rw [List.foldl_cons, List.foldl_cons]
    exact foldl_modTbl_setStats f st ts (w.modTbl t f)

theorem resetArchW_setStats (w : World) (st : WorldStats) (a : Nat) :
    resetArchW (w.setStats st) a = (resetArchW w a).setStats st := by
  unfold resetArchW
  have h1 : (w.setStats st).arch a = w.arch a := rfl
  simp only [h1]
  split
  · rfl
  · rw [foldl_modTbl_setStats]; rfl

theorem resetLoop_setStats (st : WorldStats) (n : Nat) (w : World) :
    resetLoop (w.setStats st) n = (resetLoop w n).setStats st := by
  unfold resetLoop
  generalize List.range n = l
  induction l generalizing w with
  | nil => rfl
  | cons a l ih => rw [List.foldl_cons, List.foldl_cons, resetArchW_setStats, ih]

theorem resetW_setStats (w : World) (st : WorldStats) :
    resetW (w.setStats st) = (resetW w).setStats st := by
  unfold resetW
  rw [resetPre_setStats]
  have h : ((resetPre w).setStats st).archetypes = (resetPre w).archetypes := rfl
  rw [h, resetLoop_setStats]
  rfl

/-! ## 4. the filter operations -/

theorem indep_preCheckTyped (m : Mask) (rels : List RelID) : Indep (preCheckTyped m rels) := by
  unfold preCheckTyped
  exact Indep.forM' (fun r => Indep.bind (indep_checkRelationTarget _) fun _ =>
    Indep.bind (indep_checkRelationComponent _) fun _ => Indep.assert _ _) rels

/-- the part of `cache.register` after the ID was taken from the pool -/
def crBody (f : Filter) (rels : List RelID) (id : Nat) (w : World) : Res World Nat :=
  match w.getCacheTables f rels with
  | none => .panic .runtime w
  | some ts =>
    .ok id { w with cache := { w.cache with
      filters := w.cache.filters ++ [{ id, filter := f, rels, tables := TableIDs.ofList ts }],
      indices := AL.insert w.cache.indices id w.cache.filters.length } }

theorem cacheRegister_eq_crBody (f : Filter) (rels : List RelID) (w : World) :
    cacheRegister f rels w = crBody f rels w.cache.pool.get.2
      { w with cache := { w.cache with pool := w.cache.pool.get.1 } } := rfl

theorem crBody_setStats (f : Filter) (rels : List RelID) (id : Nat) (w : World)
    (st : WorldStats) : crBody f rels id (w.setStats st) = liftS st (crBody f rels id w) := by
  unfold crBody
  have h : (w.setStats st).getCacheTables f rels = w.getCacheTables f rels := rfl
  rw [h]
  cases w.getCacheTables f rels <;> rfl

theorem indep_cacheRegister (f : Filter) (rels : List RelID) : Indep (cacheRegister f rels) :=
  fun w st => by
  rw [cacheRegister_eq_crBody, cacheRegister_eq_crBody]
  exact crBody_setStats f rels w.cache.pool.get.2
    ({ w with cache := { w.cache with pool := w.cache.pool.get.1 } } : World) st

theorem indep_cacheUnregister (id : Nat) : Indep (cacheUnregister id) := fun w st => by
  unfold cacheUnregister World.setStats
  dsimp only
  split <;> rfl

theorem indep_opFilterRegister (f : Nat) : Indep (opFilterRegister f) := by
  unfold opFilterRegister
  refine Indep.get_bind (fun _ _ => rfl) fun w0 => ?_
  refine Indep.bind (Indep.assert _ _) fun _ => ?_
  refine Indep.bind (indep_cacheRegister _ _) fun id => ?_
  exact Indep.modify fun _ _ => rfl

theorem indep_opFilterUnregister (f : Nat) : Indep (opFilterUnregister f) := by
  unfold opFilterUnregister
  refine Indep.get_bind (fun _ _ => rfl) fun w0 => ?_
  dsimp only
  split
  · exact fun _ _ => rfl
  · exact Indep.bind (indep_cacheUnregister _) fun _ => Indep.modify fun _ _ => rfl

end World

theorem CacheHist.defFilter_setStats (f : Nat) (fo : FilterObj) (w : World) (st : WorldStats) :
    CacheHist.defFilter f fo (w.setStats st) = (CacheHist.defFilter f fo w).setStats st := by
  unfold CacheHist.defFilter
  have hI : Indep (if fo.typed then preCheckTyped fo.filter.mask fo.rels else pure ()) := by
    split
    · exact indep_preCheckTyped _ _
    · exact Indep.pure ()
  rw [hI w st]
  cases (if fo.typed then preCheckTyped fo.filter.mask fo.rels else pure ()) w <;> rfl

theorem CacheHist.guardF_setStats (w : World) (st : WorldStats) (fo : FilterObj) :
    CacheHist.guardF (w.setStats st) fo = CacheHist.guardF w fo := rfl

/-! ## 5. every successful operation of the entity machine commutes with `setStats` -/

open Refine in
/-- **No operation of the entity machine reads the statistics object**: a successful operation
    (all eleven) succeeds on the world with another statistics object too, returns the same
    handle, and leaves the same world up to `stats`. -/
theorem exec_setStats (run : ProbeRunner) {s : Refine.St} {fl : List Nat} (H : Refine.HInv s fl)
    {op : Refine.Op} (hg : Refine.guard s op = true) {r : Option Ent} {w' : World}
    (hex : Refine.exec run s.w op = .ok r w') (st : WorldStats) :
    Refine.exec run (s.w.setStats st) op = .ok r (w'.setStats st) := by
  have hl := H.unlocked
  have hl' : (s.w.setStats st).isLocked = false := hl
  have hc := H.cinv
  have hnoS : ∀ (w1 : World), (∀ (evt : Nat), w1.obs.hasObservers evt = false) →
      ∀ (evt : Nat), (w1.setStats st).obs.hasObservers evt = false := fun _ h => h
  have live : ∀ (e : Ent), e ∈ s.issued → s.w.alive e = true →
      ∃ (oldT row : Nat), s.w.index e.id = (oldT, row) ∧ oldT < s.w.tables.length ∧
        (s.w.tbl oldT).arch < s.w.archetypes.length := by
    intro e hi ha
    obtain ⟨cs, _, hm⟩ := H.find_of_alive hi ha
    obtain ⟨_, _, h2, hnf, _, hsl⟩ := H.live_facts hm
    obtain ⟨oldT, row, hentry, htm, _⟩ :=
      hc.live_entry h2 hnf ha (List.getElem?_eq_some_iff.mp hsl).1
    obtain ⟨hTlt, _, _, halt, _, _⟩ := hc.table_of_entry hentry htm
    exact ⟨oldT, row, index_of_get hentry, hTlt, halt⟩
  cases op with
  | reg size z =>
    cases hr : World.registerComponent { isRel := false, zst := z, size := size } s.w with
    | panic k w1 => simp only [exec, hr] at hex; cases hex
    | ok n w1 =>
      simp only [exec, hr] at hex
      injection hex with h1 h2
      subst h1; subst h2
      simp only [exec, (indep_registerComponent _).ok hr st]
  | new p ids vals =>
    cases hfoc : findOrCreateTableAdd 0 Mask.empty ids [] s.w with
    | panic k w1 =>
      simp only [exec, opNewEntity_foc_panic run p ids vals s.w hl hfoc] at hex; cases hex
    | ok r1 w1 =>
      obtain ⟨t, a, m⟩ := r1
      have hu := findOrCreateTableAdd_untouched hfoc
      have hno1 : ∀ (evt : Nat), w1.obs.hasObservers evt = false := by
        rw [hu.obs]; exact hc.noObs
      have heq := opNewEntity_eq run p ids vals s.w hl hfoc hno1
      simp only [exec, heq] at hex
      injection hex with h1 h2
      subst h1; subst h2
      have hfoc' := (indep_findOrCreateTableAdd 0 Mask.empty ids []).ok hfoc st
      have heq' := opNewEntity_eq run p ids vals (s.w.setStats st) hl' hfoc' (hnoS w1 hno1)
      simp only [exec, heq', placedW_setStats, writeValsW_setStats]
      rfl
  | new0 =>
    simp only [exec, opNewEntity0_eq run s.w hl (hc.noObs _)] at hex
    injection hex with h1 h2
    subst h1; subst h2
    simp only [exec, opNewEntity0_eq run (s.w.setStats st) hl' (hc.noObs _), placedW_setStats]
    rfl
  | add p e ids vals =>
    have hg' : e ∈ s.issued ∧ ∀ c ∈ ids, c < s.ss.zst.length := by
      simpa only [Refine.guard, Bool.and_eq_true, List.all_eq_true, decide_eq_true_eq] using hg
    obtain ⟨hi, _⟩ := hg'
    cases ha : s.w.alive e with
    | false =>
      simp only [exec, opAdd_dead_any run p e ids vals s.w hl ha] at hex; cases hex
    | true =>
      have ha' : (s.w.setStats st).alive e = true := ha
      obtain ⟨oldT, row, hix, _, halt⟩ := live e hi ha
      have hix' : (s.w.setStats st).index e.id = (oldT, row) := hix
      cases hcore : addCore e ids [] s.w with
      | panic k w1 =>
        simp only [exec, opAdd_panic run p e ids vals s.w ha hcore] at hex; cases hex
      | ok r1 w2 =>
        obtain ⟨old, new⟩ := r1
        by_cases hne : ids = []
        · subst hne
          rw [addCore_noComponents s.w hl e ha []] at hcore; cases hcore
        · cases hfoc : findOrCreateTableAdd oldT (s.w.arch (s.w.tbl oldT).arch).mask ids [] s.w with
          | panic k w1 =>
            rw [addCore_foc_panic e ids s.w hl ha hne hix hfoc] at hcore; cases hcore
          | ok r2 w1 =>
            obtain ⟨t, a, m⟩ := r2
            have hu := findOrCreateTableAdd_untouched hfoc
            have hcore0 := addCore_eq e ids s.w hl ha hne hix hfoc
            have hno2 : ∀ (evt : Nat), (addMove w1 e oldT row t m).obs.hasObservers evt = false := by
              rw [(Quiet.addMove w1 e oldT row t m).obs, hu.obs]; exact hc.noObs
            have heq := opAdd_eq run p e ids vals s.w ha hcore0 hno2
            simp only [exec, heq] at hex
            injection hex with h1 h2
            subst h1; subst h2
            have hfoc' := (indep_findOrCreateTableAdd oldT _ ids []).ok hfoc st
            have hcore' := addCore_eq e ids (s.w.setStats st) hl' ha' hne hix' hfoc'
            have heq' := opAdd_eq run p e ids vals (s.w.setStats st) ha' hcore'
              (by rw [addMove_setStats]; exact hnoS _ hno2)
            simp only [exec, heq', addMove_setStats, writeValsW_setStats]
  | rem p e ids =>
    have hi : e ∈ s.issued := by simpa only [Refine.guard, decide_eq_true_eq] using hg
    cases ha : s.w.alive e with
    | false =>
      simp only [exec, opRemove_dead_any run p e ids s.w hl ha] at hex; cases hex
    | true =>
      have ha' : (s.w.setStats st).alive e = true := ha
      obtain ⟨oldT, row, hix, hTlt, halt⟩ := live e hi ha
      have hix' : (s.w.setStats st).index e.id = (oldT, row) := hix
      simp only [exec, opRemove_eq run p e ids s.w ha] at hex
      by_cases hne : ids = []
      · subst hne
        rw [removeCore_noComponents run s.w hl e ha] at hex; cases hex
      · cases hfoc : findOrCreateTableRemove oldT (s.w.arch (s.w.tbl oldT).arch).mask ids s.w with
        | panic k w1 =>
          rw [removeCore_foc_panic run e ids s.w hl ha hne hix hfoc] at hex; cases hex
        | ok r2 w1 =>
          obtain ⟨t, a, m, rr⟩ := r2
          have hu : Untouched s.w w1 := by
            by_cases hgood : ids.Nodup ∧
                ∀ (c : Comp), c ∈ ids → (s.w.arch (s.w.tbl oldT).arch).mask.get c = true
            · have hgr := graphFindRemove_ok _ ids s.w hgood.2 hgood.1
              have hrel0 : (s.w.tbl oldT).relIDs = [] := hc.relIDs_nil hTlt
              have hfoc2 := hfoc
              rw [findOrCreateTableRemove_eq_add oldT _ _ ids s.w hgr hrel0] at hfoc2
              cases hadd : findOrCreateTableAdd oldT
                  (ids.foldl Mask.clear (s.w.arch (s.w.tbl oldT).arch).mask) [] [] s.w with
              | panic k w3 => rw [hadd] at hfoc2; cases hfoc2
              | ok r3 w3 =>
                rw [hadd] at hfoc2
                injection hfoc2 with _ h3
                subst h3
                exact findOrCreateTableAdd_untouched hadd
            · rw [findOrCreateTableRemove_reject oldT _ ids s.w hgood] at hfoc; cases hfoc
          have hno1 : ∀ (evt : Nat), w1.obs.hasObservers evt = false := by
            rw [hu.obs]; exact hc.noObs
          rw [removeCore_eq run e ids s.w hl ha hne hix hfoc hno1] at hex
          injection hex with h1 h2
          subst h1; subst h2
          have hfoc' := (indep_findOrCreateTableRemove oldT _ ids).ok hfoc st
          simp only [exec, opRemove_eq run p e ids (s.w.setStats st) ha',
            removeCore_eq run e ids (s.w.setStats st) hl' ha' hne hix' hfoc' (hnoS w1 hno1),
            addMove_setStats]
  | xchg p e add rem vals =>
    have hg' : e ∈ s.issued ∧ ∀ c ∈ add, c < s.ss.zst.length := by
      simpa only [Refine.guard, Bool.and_eq_true, List.all_eq_true, decide_eq_true_eq] using hg
    obtain ⟨hi, hreg⟩ := hg'
    have hreg' : ∀ (c : Comp), c ∈ add → c < s.w.kinds.length := by rw [← H.zlen]; exact hreg
    have hb256 : ∀ (c : Comp), c ∈ add → c < 256 := fun c hcc => hc.reg_lt_256 (hreg' c hcc)
    cases ha : s.w.alive e with
    | false =>
      simp only [exec, opExchange_dead_any run p e add vals rem s.w hl ha] at hex; cases hex
    | true =>
      have ha' : (s.w.setStats st).alive e = true := ha
      obtain ⟨oldT, row, hix, hTlt, halt⟩ := live e hi ha
      have hix' : (s.w.setStats st).index e.id = (oldT, row) := hix
      cases hcore : exchangeCore run e add rem [] s.w with
      | panic k w1 =>
        simp only [exec, opExchange_panic run p e add vals rem s.w ha hcore] at hex; cases hex
      | ok r1 w2 =>
        obtain ⟨old, new⟩ := r1
        by_cases hne : add = [] ∧ rem = []
        · obtain ⟨h1, h2⟩ := hne
          subst h1; subst h2
          rw [exchangeCore_noComponents run s.w hl e ha []] at hcore; cases hcore
        · cases hfoc : findOrCreateTable oldT (s.w.arch (s.w.tbl oldT).arch).mask add rem [] s.w with
          | panic k w1 =>
            rw [exchangeCore_foc_panic run e add rem s.w hl ha hne hix hfoc] at hcore; cases hcore
          | ok r2 w1 =>
            obtain ⟨t, a, m, rr⟩ := r2
            have hu : Untouched s.w w1 := by
              by_cases hgood : rem.Nodup ∧
                  (∀ (c : Comp), c ∈ rem → (s.w.arch (s.w.tbl oldT).arch).mask.get c = true) ∧
                  add.Nodup ∧
                  ∀ (c : Comp), c ∈ add → (s.w.arch (s.w.tbl oldT).arch).mask.get c = false
              · have hgr := graphFind_ok _ add rem s.w hb256 hgood.1 hgood.2.1 hgood.2.2.1
                  hgood.2.2.2
                have hrel0 : (s.w.tbl oldT).relIDs = [] := hc.relIDs_nil hTlt
                have hfoc2 := hfoc
                rw [findOrCreateTable_eq_add oldT _ _ add rem s.w hgr hrel0] at hfoc2
                cases hadd : findOrCreateTableAdd oldT
                    (add.foldl Mask.set (rem.foldl Mask.clear (s.w.arch (s.w.tbl oldT).arch).mask))
                    [] [] s.w with
                | panic k w3 => rw [hadd] at hfoc2; cases hfoc2
                | ok r3 w3 =>
                  rw [hadd] at hfoc2
                  injection hfoc2 with _ h3
                  subst h3
                  exact findOrCreateTableAdd_untouched hadd
              · obtain ⟨k, _, hbad⟩ := graphFind_bad _ add rem s.w hb256 hgood
                simp only [findOrCreateTable, bind, M.bind, hbad] at hfoc
                cases hfoc
            have hno1 : ∀ (evt : Nat), w1.obs.hasObservers evt = false := by
              rw [hu.obs]; exact hc.noObs
            have hcore0 := exchangeCore_eq run e add rem s.w hl ha hne hix hfoc hno1
            have hno2 : ∀ (evt : Nat), (addMove w1 e oldT row t m).obs.hasObservers evt = false := by
              rw [(Quiet.addMove w1 e oldT row t m).obs]; exact hno1
            have heq := opExchange_eq run p e add vals rem s.w ha hcore0 hno2
            simp only [exec, heq] at hex
            injection hex with h1 h2
            subst h1; subst h2
            have hfoc' := (indep_findOrCreateTable oldT _ add rem []).ok hfoc st
            have hcore' := exchangeCore_eq run e add rem (s.w.setStats st) hl' ha' hne hix' hfoc'
              (hnoS w1 hno1)
            have heq' := opExchange_eq run p e add vals rem (s.w.setStats st) ha' hcore'
              (by rw [addMove_setStats]; exact hnoS _ hno2)
            simp only [exec, heq', addMove_setStats, writeValsW_setStats]
  | set e vals =>
    cases ha : s.w.alive e with
    | false =>
      simp only [exec, World.opSet_dead run s.w e ha (keys vals) vals] at hex; cases hex
    | true =>
      have ha' : (s.w.setStats st).alive e = true := ha
      cases hhas : ((keys vals).all fun c => (s.w.tbl (s.w.index e.id).1).has c) with
      | false =>
        simp only [exec, opSet_missing run s.w e (keys vals) vals ha hhas] at hex; cases hex
      | true =>
        simp only [exec, opSet_eq run s.w e (keys vals) vals ha hhas (hc.noObs _)] at hex
        injection hex with h1 h2
        subst h1; subst h2
        have hhas' : ((keys vals).all fun c =>
            ((s.w.setStats st).tbl ((s.w.setStats st).index e.id).1).has c) = true := hhas
        simp only [exec, opSet_eq run (s.w.setStats st) e (keys vals) vals ha' hhas' (hc.noObs _),
          writeValsW_setStats]
  | del e =>
    have hi : e ∈ s.issued := by simpa only [Refine.guard, decide_eq_true_eq] using hg
    cases ha : s.w.alive e with
    | false =>
      simp only [exec, opRemoveEntity_dead run s.w hl e ha] at hex; cases hex
    | true =>
      have ha' : (s.w.setStats st).alive e = true := ha
      obtain ⟨t, row, hix, _, _⟩ := live e hi ha
      have hix' : (s.w.setStats st).index e.id = (t, row) := hix
      simp only [exec, opRemoveEntity_eq run s.w e hl ha hix hc.noObs (hc.noTargets _)] at hex
      injection hex with h1 h2
      subst h1; subst h2
      simp only [exec, opRemoveEntity_eq run (s.w.setStats st) e hl' ha' hix' hc.noObs
        (hc.noTargets _), removeRowOf_setStats]
  | copy e =>
    have hi : e ∈ s.issued := by simpa only [Refine.guard, decide_eq_true_eq] using hg
    cases ha : s.w.alive e with
    | false =>
      simp only [exec, opCopyEntity_dead run s.w hl e ha] at hex; cases hex
    | true =>
      have ha' : (s.w.setStats st).alive e = true := ha
      obtain ⟨t, row, hix, _, _⟩ := live e hi ha
      have hix' : (s.w.setStats st).index e.id = (t, row) := hix
      simp only [exec, opCopyEntity_eq run s.w e hl ha hix hc.noObs] at hex
      injection hex with h1 h2
      subst h1; subst h2
      simp only [exec, opCopyEntity_eq run (s.w.setStats st) e hl' ha' hix' hc.noObs,
        placedW_setStats, copiedW_setStats]
      rfl
  | shrink bounded =>
    simp only [exec, opShrink_eq bounded s.w hl] at hex
    injection hex with h1 h2
    subst h1; subst h2
    simp only [exec, opShrink_eq bounded (s.w.setStats st) hl', shrinkPure_setStats]
  | reset =>
    simp only [exec, opReset_eq s.w hl] at hex
    injection hex with h1 h2
    subst h1; subst h2
    simp only [exec, opReset_eq (s.w.setStats st) hl', resetW_setStats]

/-! ## 6. steps of the machines -/

theorem liftS_state {α : Type} (st : WorldStats) (r : Res World α) :
    (liftS st r).state = r.state.setStats st := by
  cases r <;> rfl

namespace Refine

/-- the machine state with another statistics object -/
def St.setStats (s : St) (st : WorldStats) : St := ⟨s.w.setStats st, s.issued, s.ss⟩

/-- **every step of the entity machine commutes with `setStats`** -/
theorem step_setStats (run : ProbeRunner) {s : St} {fl : List Nat} (H : HInv s fl)
    (hfew : s.w.tables.length < maxU32) (hent : s.w.entities.length + 1 < 2 ^ 32) (op : Op)
    (st : WorldStats) : step run (s.setStats st) op = (step run s op).setStats st := by
  have hgeq : guard (s.setStats st) op = guard s op := rfl
  by_cases hg : guard s op = true
  case neg =>
    have h1 : step run s op = s := by rw [step, if_neg hg]
    have h2 : step run (s.setStats st) op = s.setStats st := by
      rw [step, if_neg (by rw [hgeq]; exact hg)]
    rw [h1, h2]
  have hg' : guard (s.setStats st) op = true := by rw [hgeq]; exact hg
  obtain ⟨_, _, _, g4, g5, _⟩ := step_goal run H hfew hent op
  rw [step_of_guard hg, step_of_guard hg']
  rcases Classical.em (pre s.ss op) with hp | hnp
  · obtain ⟨r, w', hex⟩ := g5 hg hp
    have hex' : exec run (s.setStats st).w op = .ok r (w'.setStats st) :=
      exec_setStats run H hg hex st
    rw [hex, hex']
    rfl
  · obtain ⟨k, hex⟩ := g4 hg hnp
    obtain ⟨_, _, _, g4', _, _⟩ := step_goal run (H.setStats st) hfew hent op
    obtain ⟨k', hex'⟩ := g4' hg' hnp
    have hex'' : exec run (s.setStats st).w op = .panic k' (s.w.setStats st) := hex'
    rw [hex, hex'']
    rfl

end Refine

namespace StatsHist

open Refine CacheHist

/-- **every step of the machine with filters commutes with `setStats`** -/
theorem step2_setStats (run : ProbeRunner) {s : St} {fl : List Nat} (H : HInv2 s fl)
    (hfew : s.w.tables.length < maxU32) (hent : s.w.entities.length + 1 < 2 ^ 32) (op : Op2)
    (st : WorldStats) : step2 run (s.setStats st) op = (step2 run s op).setStats st := by
  cases op with
  | base op => exact step_setStats run H.base hfew hent op st
  | fdef f fo =>
    show (if guardF (s.w.setStats st) fo = true then
        { s.setStats st with w := defFilter f fo (s.w.setStats st) } else s.setStats st) =
      (if guardF s.w fo = true then { s with w := defFilter f fo s.w } else s).setStats st
    rw [guardF_setStats, defFilter_setStats]
    split <;> rfl
  | freg f =>
    show ({ s.setStats st with w := (opFilterRegister f (s.w.setStats st)).state } : St) = _
    rw [indep_opFilterRegister f s.w st, liftS_state]
    rfl
  | funreg f =>
    show ({ s.setStats st with w := (opFilterUnregister f (s.w.setStats st)).state } : St) = _
    rw [indep_opFilterUnregister f s.w st, liftS_state]
    rfl

/-! ## 7. replay -/

/-- the history without its `Stats()` calls -/
def strip : List Op3 → List Op2
  | [] => []
  | .op o :: rest => o :: strip rest
  | .stats :: rest => strip rest

theorem strip_length_le : ∀ (ops : List Op3), (strip ops).length ≤ ops.length
  | [] => Nat.le_refl _
  | .op _ :: rest => by simp only [strip, List.length_cons]; have := strip_length_le rest; omega
  | .stats :: rest => by simp only [strip, List.length_cons]; have := strip_length_le rest; omega

/-- a `Stats()` step only replaces the statistics object -/
theorem step3_stats_eq (run : ProbeRunner) (s : St) :
    step3 run s .stats = s.setStats (s.w.statsUpdate s.w.stats) := rfl

theorem run_replay (run : ProbeRunner) : ∀ (ops : List Op3) (s : St) (fl : List Nat) (st : WorldStats),
    HInv2 s fl → s.w.tables.length + ops.length ≤ maxU32 →
    s.w.entities.length + ops.length < 2 ^ 32 →
    ∃ (st' : WorldStats),
      runOps3 run (s.setStats st) ops = (runOps2 run s (strip ops)).setStats st' := by
  intro ops
  induction ops with
  | nil => intro s fl st _ _ _; exact ⟨st, rfl⟩
  | cons op ops ih =>
    intro s fl st H hb1 hb2
    simp only [List.length_cons] at hb1 hb2
    cases op with
    | stats =>
      show ∃ (st' : WorldStats), runOps3 run (step3 run (s.setStats st) .stats) ops = _
      rw [step3_stats_eq]
      exact ih s fl _ H (by omega) (by omega)
    | op o =>
      show ∃ (st' : WorldStats), runOps3 run (step2 run (s.setStats st) o) ops =
        (runOps2 run (step2 run s o) (strip ops)).setStats st'
      rw [step2_setStats run H (by omega) (by omega) o st]
      obtain ⟨⟨fl1, h1⟩, g1, g2⟩ := step2_inv run H (by omega) (by omega) o
      exact ih _ fl1 st h1 (by omega) (by omega)

/-- **replay**: the state reached by a history with `Stats()` calls is the state reached by the
    same history without them, with another statistics object -/
theorem replay (run : ProbeRunner) (cap rel : Nat) (ops : List Op3)
    (hlen : ops.length < 2 ^ 32 - 2) :
    ∃ (st : WorldStats),
      reach3 run cap rel ops = (reach2 run cap rel (strip ops)).setStats st := by
  have h := run_replay run ops (St.init cap rel) [] {} (hinv2_init cap rel)
    (by show 1 + ops.length ≤ maxU32; simp only [maxU32]; omega)
    (by show 2 + ops.length < 2 ^ 32; omega)
  exact h

/-- the replaying world was never asked: its statistics object is the initial, empty one -/
theorem reach2_stats_empty (run : ProbeRunner) (cap rel : Nat) (ops : List Op2)
    (hlen : ops.length < 2 ^ 32 - 2) : (reach2 run cap rel ops).w.stats = {} := by
  have : ∀ (ops : List Op2) (s : St) (fl : List Nat), HInv2 s fl →
      s.w.tables.length + ops.length ≤ maxU32 → s.w.entities.length + ops.length < 2 ^ 32 →
      (runOps2 run s ops).w.stats = s.w.stats := by
    intro ops
    induction ops with
    | nil => intro s fl _ _ _; rfl
    | cons op ops ih =>
      intro s fl H hb1 hb2
      simp only [List.length_cons] at hb1 hb2
      obtain ⟨⟨fl1, h1⟩, g1, g2⟩ := step2_inv run H (by omega) (by omega) op
      have := ih (step2 run s op) fl1 h1 (by omega) (by omega)
      show (runOps2 run (step2 run s op) ops).w.stats = _
      rw [this]
      exact (step2_sstep run H (by omega) (by omega) op).stats
  exact this ops (St.init cap rel) [] (hinv2_init cap rel)
    (by show 1 + ops.length ≤ maxU32; simp only [maxU32]; omega)
    (by show 2 + ops.length < 2 ^ 32; omega)

/-- **incremental = replay**: `Stats()` after a history with interleaved `Stats()` calls returns
    what `Stats()` returns in a world that replays the history without those calls and is asked
    once — namely the fresh statistics of the replaying world. -/
theorem replay_stats (run : ProbeRunner) (cap rel : Nat) (ops : List Op3)
    (hlen : ops.length < 2 ^ 32 - 2) :
    opStats (reach3 run cap rel ops).w =
      .ok (statsFresh (reach2 run cap rel (strip ops)).w)
        ((reach2 run cap rel (strip ops)).w.setStats
          (statsFresh (reach2 run cap rel (strip ops)).w)) ∧
    opStats (reach2 run cap rel (strip ops)).w =
      .ok (statsFresh (reach2 run cap rel (strip ops)).w)
        ((reach2 run cap rel (strip ops)).w.setStats
          (statsFresh (reach2 run cap rel (strip ops)).w)) ∧
    (reach2 run cap rel (strip ops)).w.stats = {} := by
  obtain ⟨st, hr⟩ := replay run cap rel ops hlen
  have hlen2 : (strip ops).length < 2 ^ 32 - 2 := by
    have := strip_length_le ops; omega
  have hemp := reach2_stats_empty run cap rel (strip ops) hlen2
  have h1 := reach3_opStats run cap rel ops hlen
  rw [hr] at h1
  have h2 := opStats_eq (reach2 run cap rel (strip ops)).w
    (by rw [hemp]; exact compatible_empty _)
  exact ⟨by rw [hr]; exact h1, h2, hemp⟩

end StatsHist

end Ark
