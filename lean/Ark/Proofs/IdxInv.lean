/-
  Ark.Proofs.IdxInv — the entity index ↔ rows invariant (I2 of the design) and its
  preservation by the row-moving primitives of storage.go / world_internal.go.
  Kernel-only proofs, core Lean only.

  Recorded hypotheses: table growth stays below `2^32` rows (as in Ark.Proofs.Table); where an
  entity is taken from the pool, "not indexed to a table" is used in the form
  `w.tables.length ≤ t'` (implied by `t' = maxU32` when the world has at most `maxU32` tables).
-/
import Ark.Model.World
import Ark.Proofs.Table

namespace Ark

namespace Table

/-! ### table facts used below: `id` is never touched, writes keep the rows -/

theorem extend_id (t : Table) (n : Nat) : (t.extend n).id = t.id := by
  simp only [extend]; split <;> rfl

theorem alloc_id (t : Table) (n : Nat) : (t.alloc n).id = t.id := extend_id t n

theorem add_id (t : Table) (e : Ent) : (t.add e).1.id = t.id := extend_id t 1

theorem add_ids (t : Table) (e : Ent) : (t.add e).1.ids = t.ids := extend_ids t 1

theorem add_zst (t : Table) (e : Ent) : (t.add e).1.zst = t.zst := extend_zst t 1

theorem remove_id (t : Table) (i : Nat) : (t.remove i).1.id = t.id := rfl

theorem remove_ids (t : Table) (i : Nat) : (t.remove i).1.ids = t.ids := rfl

theorem reset_id (t : Table) : t.reset.id = t.id := rfl

theorem addAll_id (t src : Table) (n : Nat) : (t.addAll src n).id = t.id := extend_id t n

/-- `T'` arises from `T` by writes into row `row` only. -/
structure WriteRel (row : Nat) (T T' : Table) : Prop where
  id : T'.id = T.id
  len : T'.len = T.len
  cap : T'.cap = T.cap
  ents : T'.ents = T.ents
  ids : T'.ids = T.ids
  zst : T'.zst = T.zst
  shape : T.Shape → T'.Shape
  other : ∀ i r : Nat, r ≠ row → T'.cell i r = T.cell i r

theorem WriteRel.refl (row : Nat) (T : Table) : WriteRel row T T :=
  ⟨rfl, rfl, rfl, rfl, rfl, rfl, fun h => h, fun _ _ _ => rfl⟩

theorem WriteRel.trans {row : Nat} {A B C : Table} (h1 : WriteRel row A B) (h2 : WriteRel row B C) :
    WriteRel row A C :=
  ⟨h2.id.trans h1.id, h2.len.trans h1.len, h2.cap.trans h1.cap, h2.ents.trans h1.ents,
    h2.ids.trans h1.ids, h2.zst.trans h1.zst, fun h => h2.shape (h1.shape h),
    fun i r hr => (h2.other i r hr).trans (h1.other i r hr)⟩

theorem WriteRel.getEntity {row : Nat} {T T' : Table} (h : WriteRel row T T') (r : Nat) :
    T'.getEntity r = T.getEntity r := by
  simp only [Table.getEntity, h.ents]

theorem WriteRel.colIdx {row : Nat} {T T' : Table} (h : WriteRel row T T') (c : Comp) :
    T'.colIdx c = T.colIdx c := by
  simp only [Table.colIdx, h.ids]

theorem setCell_writeRel (T : Table) (col row : Nat) (v : Val) (hrow : row < T.len) :
    WriteRel row T (T.setCell col row v) := by
  cases hz : T.zst.getD col false with
  | true => rw [setCell_zst T col row v hz]; exact WriteRel.refl row T
  | false =>
    refine ⟨?_, ?_, ?_, ?_, ?_, ?_, fun h => setCell_shape h col row v hrow,
      fun i r hr => setCell_cell_ne T col row v i r (Or.inr hr)⟩ <;>
    rw [setCell_nz T col row v hz]

theorem setComp_writeRel (T : Table) (c : Comp) (row : Nat) (v : Val) (hrow : row < T.len) :
    WriteRel row T (T.setComp c row v) := by
  simp only [setComp]
  split
  · exact setCell_writeRel T _ row v hrow
  · exact WriteRel.refl row T

/-- a fold of row-`row` writes is a row-`row` write -/
theorem foldl_writeRel {α : Type} (row : Nat) (f : Table → α → Table)
    (hf : ∀ (T : Table) (x : α), row < T.len → WriteRel row T (f T x)) :
    ∀ (l : List α) (T : Table), row < T.len → WriteRel row T (l.foldl f T)
  | [], T, _ => WriteRel.refl row T
  | x :: l, T, h =>
    (hf T x h).trans (foldl_writeRel row f hf l (f T x) (by rw [(hf T x h).len]; exact h))

end Table

/-- **I2** — the entity index and the entity columns of the tables describe the same relation. -/
structure IdxInv (w : World) : Prop where
  /-- every table has the shape invariant -/
  shape : ∀ (t : Nat) (T : Table), w.tables[t]? = some T → T.Shape
  /-- the `id` stored in a table is its position -/
  tid : ∀ (t : Nat) (T : Table), w.tables[t]? = some T → T.id = t
  /-- rows → index: the entity in row `r` of table `t` is indexed at `(t, r)` -/
  rowIdx : ∀ (t : Nat) (T : Table) (r : Nat), w.tables[t]? = some T → r < T.len →
    w.entities[(T.getEntity r).id]? = some (t, r)
  /-- index → rows: an indexed ID sits in that row -/
  idxRow : ∀ (i t r : Nat), w.entities[i]? = some (t, r) → t ≠ maxU32 →
    ∃ T, w.tables[t]? = some T ∧ r < T.len ∧ (T.getEntity r).id = i

namespace World

/-! ### accessor lemmas -/

theorem tbl_of_get {w : World} {t : Nat} {T : Table} (h : w.tables[t]? = some T) : w.tbl t = T := by
  simp [tbl, List.getD_eq_getElem?_getD, h]

theorem get_of_lt {w : World} {t : Nat} (h : t < w.tables.length) :
    w.tables[t]? = some (w.tbl t) := by
  simp [tbl, List.getD_eq_getElem?_getD, List.getElem?_eq_getElem h]

theorem lt_of_get {w : World} {t : Nat} {T : Table} (h : w.tables[t]? = some T) :
    t < w.tables.length := by
  rcases Nat.lt_or_ge t w.tables.length with h1 | h1
  · exact h1
  · rw [List.getElem?_eq_none h1] at h; cases h

@[simp] theorem setTbl_tables (w : World) (t : Nat) (T : Table) :
    (w.setTbl t T).tables = w.tables.set t T := rfl

@[simp] theorem setTbl_entities (w : World) (t : Nat) (T : Table) :
    (w.setTbl t T).entities = w.entities := rfl

@[simp] theorem modTbl_entities (w : World) (t : Nat) (f : Table → Table) :
    (w.modTbl t f).entities = w.entities := rfl

theorem modTbl_tables (w : World) (t : Nat) (f : Table → Table) :
    (w.modTbl t f).tables = w.tables.set t (f (w.tbl t)) := rfl

theorem setTbl_get_self {w : World} {t : Nat} (T : Table) (h : t < w.tables.length) :
    (w.setTbl t T).tables[t]? = some T := by
  simp [List.getElem?_set_self h]

theorem setTbl_get_ne (w : World) {t t' : Nat} (T : Table) (h : t ≠ t') :
    (w.setTbl t T).tables[t']? = w.tables[t']? := by
  simp [List.getElem?_set_ne h]

theorem setTbl_tbl_self {w : World} {t : Nat} (T : Table) (h : t < w.tables.length) :
    (w.setTbl t T).tbl t = T := tbl_of_get (setTbl_get_self T h)

theorem setTbl_tbl_ne (w : World) {t t' : Nat} (T : Table) (h : t ≠ t') :
    (w.setTbl t T).tbl t' = w.tbl t' := by
  simp [tbl, List.getD_eq_getElem?_getD, List.getElem?_set_ne h]

/-- looking a table up after `setTbl` -/
theorem setTbl_get (w : World) (t t' : Nat) (T T' : Table)
    (h : (w.setTbl t T).tables[t']? = some T') :
    (t' = t ∧ T' = T ∧ t < w.tables.length) ∨ (t' ≠ t ∧ w.tables[t']? = some T') := by
  by_cases heq : t' = t
  · subst heq
    have hlt : t' < w.tables.length := by
      have := lt_of_get h; simpa using this
    rw [setTbl_get_self T hlt] at h
    exact Or.inl ⟨rfl, (Option.some.inj h).symm, hlt⟩
  · rw [setTbl_get_ne w T (Ne.symm heq)] at h
    exact Or.inr ⟨heq, h⟩

end World

namespace IdxInv

open World

/-- the invariant mentions only the index and the tables -/
theorem congr {w w' : World} (h : IdxInv w) (he : w'.entities = w.entities)
    (ht : w'.tables = w.tables) : IdxInv w' where
  shape := by rw [ht]; exact h.shape
  tid := by rw [ht]; exact h.tid
  rowIdx := by rw [ht, he]; exact h.rowIdx
  idxRow := by rw [ht, he]; exact h.idxRow

/-- two live rows holding the same entity ID are the same row -/
theorem row_inj {w : World} (h : IdxInv w) {t t' r r' : Nat} {T T' : Table}
    (hT : w.tables[t]? = some T) (hT' : w.tables[t']? = some T') (hr : r < T.len)
    (hr' : r' < T'.len) (hid : (T.getEntity r).id = (T'.getEntity r').id) : t = t' ∧ r = r' := by
  have h1 := h.rowIdx t T r hT hr
  have h2 := h.rowIdx t' T' r' hT' hr'
  rw [hid, h2] at h1
  have := Option.some.inj h1
  exact ⟨(Prod.mk.inj this).1.symm, (Prod.mk.inj this).2.symm⟩

/-- an entity indexed to a table: the table, the row bound and the handle's ID -/
theorem indexed {w : World} (h : IdxInv w) {i t r : Nat} (hi : w.entities[i]? = some (t, r))
    (ht : t ≠ maxU32) :
    w.tables[t]? = some (w.tbl t) ∧ r < (w.tbl t).len ∧ ((w.tbl t).getEntity r).id = i := by
  obtain ⟨T, hT, hr, hid⟩ := h.idxRow i t r hi ht
  rw [tbl_of_get hT]; exact ⟨hT, hr, hid⟩

/-! ### 1. the initial world -/

theorem init (cap relCap : Nat) (maxComps : Nat) : IdxInv (World.init cap relCap maxComps) where
  shape := by
    intro t T hT
    have : (World.init cap relCap maxComps).tables = [Table.new 0 0 [] [] [] cap [] []] := rfl
    rw [this] at hT
    cases t with
    | zero => cases hT; exact Table.new_shape 0 0 [] [] [] cap [] [] rfl
    | succ n => simp at hT
  tid := by
    intro t T hT
    have : (World.init cap relCap maxComps).tables = [Table.new 0 0 [] [] [] cap [] []] := rfl
    rw [this] at hT
    cases t with
    | zero => cases hT; rfl
    | succ n => simp at hT
  rowIdx := by
    intro t T r hT hr
    have : (World.init cap relCap maxComps).tables = [Table.new 0 0 [] [] [] cap [] []] := rfl
    rw [this] at hT
    cases t with
    | zero => cases hT; exact absurd hr (Nat.not_lt_zero _)
    | succ n => simp at hT
  idxRow := by
    intro i t r hi ht
    have : (World.init cap relCap maxComps).entities = [(maxU32, 0), (maxU32, 0)] := rfl
    rw [this] at hi
    match i, hi with
    | 0, hi => cases hi; exact absurd rfl ht
    | 1, hi => cases hi; exact absurd rfl ht
    | n + 2, hi => simp at hi

/-! ### 2a. table-level changes that keep the rows -/

/-- replacing a table by one with the same `id`, `len` and live entity column (and the shape
    invariant) keeps I2 — `setCell`, `setComp`, `writeVals`, `recycle`, `shrink`, … -/
theorem of_same_rows {w : World} (h : IdxInv w) (t : Nat) (T' : Table) (hS : T'.Shape)
    (hid : T'.id = (w.tbl t).id) (hlen : T'.len = (w.tbl t).len)
    (hent : ∀ r : Nat, r < T'.len → T'.getEntity r = (w.tbl t).getEntity r) :
    IdxInv (w.setTbl t T') where
  shape := by
    intro t1 T1 hT1
    rcases setTbl_get w t t1 T' T1 hT1 with ⟨_, rfl, _⟩ | ⟨_, h1⟩
    · exact hS
    · exact h.shape t1 T1 h1
  tid := by
    intro t1 T1 hT1
    rcases setTbl_get w t t1 T' T1 hT1 with ⟨rfl, rfl, hlt⟩ | ⟨_, h1⟩
    · rw [hid]; exact h.tid t1 _ (get_of_lt hlt)
    · exact h.tid t1 T1 h1
  rowIdx := by
    intro t1 T1 r hT1 hr
    rcases setTbl_get w t t1 T' T1 hT1 with ⟨rfl, rfl, hlt⟩ | ⟨_, h1⟩
    · rw [hent r hr]
      exact h.rowIdx t1 _ r (get_of_lt hlt) (by rw [← hlen]; exact hr)
    · exact h.rowIdx t1 T1 r h1 hr
  idxRow := by
    intro i t1 r hi ht1
    obtain ⟨T, hT, hr, hidr⟩ := h.idxRow i t1 r hi ht1
    by_cases heq : t1 = t
    · subst heq
      have hT0 := tbl_of_get hT
      refine ⟨T', setTbl_get_self T' (lt_of_get hT), by rw [hlen, hT0]; exact hr, ?_⟩
      rw [hent r (by rw [hlen, hT0]; exact hr), hT0]; exact hidr
    · exact ⟨T, by rw [setTbl_get_ne w T' (Ne.symm heq)]; exact hT, hr, hidr⟩

theorem of_same_rows_mod {w : World} (h : IdxInv w) (t : Nat) (f : Table → Table)
    (hS : (f (w.tbl t)).Shape) (hid : (f (w.tbl t)).id = (w.tbl t).id)
    (hlen : (f (w.tbl t)).len = (w.tbl t).len)
    (hent : ∀ r : Nat, r < (f (w.tbl t)).len → (f (w.tbl t)).getEntity r = (w.tbl t).getEntity r) :
    IdxInv (w.modTbl t f) :=
  of_same_rows h t (f (w.tbl t)) hS hid hlen hent

/-! ### `writeVals` -/

end IdxInv

namespace World

/-- the state change of `writeVals` -/
def writeValsW (w : World) (e : Ent) (vals : List (Comp × Val)) : World :=
  w.modTbl (w.index e.id).1 fun T =>
    vals.foldl (fun T (cv : Comp × Val) => T.setComp cv.1 (w.index e.id).2 cv.2) T

theorem writeVals_eq (e : Ent) (vals : List (Comp × Val)) (w : World) :
    writeVals e vals w = .ok () (writeValsW w e vals) := rfl

theorem index_of_get {w : World} {i t r : Nat} (h : w.entities[i]? = some (t, r)) :
    w.index i = (t, r) := by
  simp [index, List.getD_eq_getElem?_getD, h]

/-- the table produced by `writeVals` is a row-`row` write of the entity's table -/
theorem writeVals_writeRel (T : Table) (row : Nat) (vals : List (Comp × Val)) (hrow : row < T.len) :
    Table.WriteRel row T
      (vals.foldl (fun T (cv : Comp × Val) => T.setComp cv.1 row cv.2) T) :=
  Table.foldl_writeRel row _ (fun T cv h => Table.setComp_writeRel T cv.1 row cv.2 h) vals T hrow

end World

namespace IdxInv

open World

/-- `writeVals` on an indexed entity keeps I2 -/
theorem writeVals {w : World} (h : IdxInv w) (e : Ent) (vals : List (Comp × Val)) {t row : Nat}
    (he : w.entities[e.id]? = some (t, row)) (ht : t ≠ maxU32) :
    IdxInv (writeValsW w e vals) := by
  obtain ⟨hT, hrow, _⟩ := h.indexed he ht
  have hix := index_of_get he
  simp only [writeValsW, hix]
  have hw := writeVals_writeRel (w.tbl t) row vals hrow
  exact of_same_rows_mod h t _ (hw.shape (h.shape t _ hT)) hw.id hw.len (fun r _ => hw.getEntity r)

/-! ### 2b. a new empty table -/

theorem append_table {w : World} (h : IdxInv w) (T : Table) (hS : T.Shape)
    (hid : T.id = w.tables.length) (hlen : T.len = 0) :
    IdxInv { w with tables := w.tables ++ [T] } where
  shape := by
    intro t1 T1 hT1
    change (w.tables ++ [T])[t1]? = some T1 at hT1
    rcases Nat.lt_or_ge t1 w.tables.length with hlt | hge
    · rw [List.getElem?_append_left hlt] at hT1; exact h.shape t1 T1 hT1
    · rw [List.getElem?_append_right hge] at hT1
      have : T1 = T := by
        cases hk : t1 - w.tables.length with
        | zero => rw [hk] at hT1; exact (Option.some.inj hT1).symm
        | succ n => rw [hk] at hT1; simp at hT1
      rw [this]; exact hS
  tid := by
    intro t1 T1 hT1
    change (w.tables ++ [T])[t1]? = some T1 at hT1
    rcases Nat.lt_or_ge t1 w.tables.length with hlt | hge
    · rw [List.getElem?_append_left hlt] at hT1; exact h.tid t1 T1 hT1
    · rw [List.getElem?_append_right hge] at hT1
      cases hk : t1 - w.tables.length with
      | zero =>
        rw [hk] at hT1
        have : T1 = T := (Option.some.inj hT1).symm
        rw [this, hid]; omega
      | succ n => rw [hk] at hT1; simp at hT1
  rowIdx := by
    intro t1 T1 r hT1 hr
    change (w.tables ++ [T])[t1]? = some T1 at hT1
    rcases Nat.lt_or_ge t1 w.tables.length with hlt | hge
    · rw [List.getElem?_append_left hlt] at hT1; exact h.rowIdx t1 T1 r hT1 hr
    · rw [List.getElem?_append_right hge] at hT1
      cases hk : t1 - w.tables.length with
      | zero =>
        rw [hk] at hT1
        have : T1 = T := (Option.some.inj hT1).symm
        rw [this, hlen] at hr; exact absurd hr (Nat.not_lt_zero _)
      | succ n => rw [hk] at hT1; simp at hT1
  idxRow := by
    intro i t1 r hi ht1
    obtain ⟨T1, hT1, hr, hidr⟩ := h.idxRow i t1 r hi ht1
    exact ⟨T1, by
      show (w.tables ++ [T])[t1]? = some T1
      rw [List.getElem?_append_left (lt_of_get hT1)]; exact hT1, hr, hidr⟩

/-- what `createTable` appends -/
theorem append_new_table {w : World} (h : IdxInv w) (arch : Nat) (ids : List Comp)
    (isRel zst : List Bool) (cap : Nat) (targets : List Ent) (relIDs : List RelID)
    (hz : zst.length = ids.length) :
    IdxInv { w with tables := w.tables ++
      [Table.new w.tables.length arch ids isRel zst cap targets relIDs] } :=
  append_table h _ (Table.new_shape _ arch ids isRel zst cap targets relIDs hz) rfl rfl

end IdxInv

/-! ### 2e. the removal block of `opRemoveEntity` -/

namespace World

/-- the removal block of `opRemoveEntity` (a verbatim copy of the `M.modify` argument) -/
def removeRowOf (w : World) (e : Ent) (t row : Nat) : World :=
    let (T', swapped) := (w.tbl t).remove row
    let w := w.setTbl t T'
    let w := { w with pool := w.pool.recycle e }
    let w := if swapped then
        let se := T'.getEntity row
        { w with entities := w.entities.modify se.id fun (tt, _) => (tt, row) }
      else w
    { w with entities := w.entities.modify e.id fun (_, r) => (maxU32, r) }

/-- the same without the pool change: swap-remove the row, re-index the swapped entity,
    un-index `e` -/
def unplace (w : World) (e : Ent) (t row : Nat) : World :=
    let (T', swapped) := (w.tbl t).remove row
    let w := w.setTbl t T'
    let w := if swapped then
        let se := T'.getEntity row
        { w with entities := w.entities.modify se.id fun (tt, _) => (tt, row) }
      else w
    { w with entities := w.entities.modify e.id fun (_, r) => (maxU32, r) }

theorem unplace_tables (w : World) (e : Ent) (t row : Nat) :
    (unplace w e t row).tables = w.tables.set t ((w.tbl t).remove row).1 := by
  simp only [unplace]; split <;> rfl

theorem removeRowOf_tables (w : World) (e : Ent) (t row : Nat) :
    (removeRowOf w e t row).tables = (unplace w e t row).tables := by
  simp only [unplace, removeRowOf]; split <;> rfl

theorem removeRowOf_entities (w : World) (e : Ent) (t row : Nat) :
    (removeRowOf w e t row).entities = (unplace w e t row).entities := by
  simp only [unplace, removeRowOf]; split <;> rfl

theorem unplace_entities (w : World) (e : Ent) (t row : Nat) :
    (unplace w e t row).entities =
      (if (row != (w.tbl t).len - 1) = true then
          w.entities.modify (((w.tbl t).remove row).1.getEntity row).id fun (tt, _) => (tt, row)
        else w.entities).modify e.id fun (_, r) => (maxU32, r) := by
  simp only [unplace, Table.remove_snd]
  by_cases hb : (row != (w.tbl t).len - 1) = true
  · simp only [hb, if_true]; rfl
  · simp only [hb]; rfl

/-- the index after the removal block -/
theorem unplace_lookup {w : World} (h : IdxInv w) {e : Ent} {t row : Nat}
    (he : w.entities[e.id]? = some (t, row)) (ht : t ≠ maxU32) (i : Nat) :
    (unplace w e t row).entities[i]? =
      if i = e.id then some (maxU32, row)
      else if row ≠ (w.tbl t).len - 1 ∧ i = ((w.tbl t).getEntity ((w.tbl t).len - 1)).id then
        some (t, row)
      else w.entities[i]? := by
  obtain ⟨hT, hrow, hid⟩ := h.indexed he ht
  have hS := h.shape t _ hT
  rw [unplace_entities]
  by_cases hsw : row = (w.tbl t).len - 1
  · have hb : ¬ ((row != (w.tbl t).len - 1) = true) := by simp [hsw]
    rw [if_neg hb, List.getElem?_modify]
    by_cases hi : i = e.id
    · subst hi; simp [he]
    · have : ¬ (e.id = i) := fun hh => hi hh.symm
      simp only [this, hi, if_false]
      rw [if_neg (fun hh => hh.1 hsw)]
      cases w.entities[i]? <;> rfl
  · have hb : (row != (w.tbl t).len - 1) = true := by simp [hsw]
    have hse : ((w.tbl t).remove row).1.getEntity row =
        (w.tbl t).getEntity ((w.tbl t).len - 1) := by
      rw [Table.remove_getEntity hS row hrow row (by omega), if_pos rfl]
    have hsi := h.rowIdx t _ ((w.tbl t).len - 1) hT (by omega)
    have hne : ((w.tbl t).getEntity ((w.tbl t).len - 1)).id ≠ e.id := by
      intro heq; rw [heq, he] at hsi
      exact hsw (Prod.mk.inj (Option.some.inj hsi)).2
    rw [if_pos hb, hse, List.getElem?_modify, List.getElem?_modify]
    by_cases hi : i = e.id
    · subst hi; simp [he, hne]
    · have : ¬ (e.id = i) := fun hh => hi hh.symm
      simp only [this, hi, if_false]
      by_cases hi2 : i = ((w.tbl t).getEntity ((w.tbl t).len - 1)).id
      · subst hi2; simp [hsi, hsw]
      · have : ¬ (((w.tbl t).getEntity ((w.tbl t).len - 1)).id = i) := fun hh => hi2 hh.symm
        simp only [this, hi2, and_false, if_false]
        cases w.entities[i]? <;> rfl

end World

namespace IdxInv

open World

/-- I2 after the removal block (pool-free form) -/
theorem unplace {w : World} (h : IdxInv w) {e : Ent} {t row : Nat}
    (he : w.entities[e.id]? = some (t, row)) (ht : t ≠ maxU32) :
    IdxInv (World.unplace w e t row) := by
  obtain ⟨hT, hrow, hid⟩ := h.indexed he ht
  have hS := h.shape t _ hT
  have hlt := lt_of_get hT
  have hL := unplace_lookup h he ht
  -- tables of the result
  have hget : ∀ (t1 : Nat) (T1 : Table), (World.unplace w e t row).tables[t1]? = some T1 →
      (t1 = t ∧ T1 = ((w.tbl t).remove row).1) ∨ (t1 ≠ t ∧ w.tables[t1]? = some T1) := by
    intro t1 T1 h1
    rw [unplace_tables] at h1
    rcases setTbl_get w t t1 _ T1 h1 with ⟨a, b, _⟩ | ⟨a, b⟩
    · exact Or.inl ⟨a, b⟩
    · exact Or.inr ⟨a, b⟩
  have hse := h.rowIdx t _ ((w.tbl t).len - 1) hT (by omega)
  refine ⟨?_, ?_, ?_, ?_⟩
  · intro t1 T1 h1
    rcases hget t1 T1 h1 with ⟨_, rfl⟩ | ⟨_, h2⟩
    · exact Table.remove_shape hS row hrow
    · exact h.shape t1 T1 h2
  · intro t1 T1 h1
    rcases hget t1 T1 h1 with ⟨rfl, rfl⟩ | ⟨_, h2⟩
    · rw [Table.remove_id]; exact h.tid t1 _ hT
    · exact h.tid t1 T1 h2
  · intro t1 T1 r h1 hr
    rcases hget t1 T1 h1 with ⟨rfl, rfl⟩ | ⟨hne, h2⟩
    · rw [Table.remove_len] at hr
      rw [Table.remove_getEntity hS row hrow r hr, hL]
      by_cases hrr : r = row
      · subst hrr
        rw [if_pos rfl]
        have hne : ((w.tbl t1).getEntity ((w.tbl t1).len - 1)).id ≠ e.id := by
          intro heq; rw [heq, he] at hse
          have := (Prod.mk.inj (Option.some.inj hse)).2; omega
        rw [if_neg hne, if_pos ⟨by omega, rfl⟩]
      · rw [if_neg hrr]
        have hx := h.rowIdx t1 _ r hT (by omega)
        have hne1 : ((w.tbl t1).getEntity r).id ≠ e.id := by
          intro heq; rw [heq, he] at hx
          exact hrr (Prod.mk.inj (Option.some.inj hx)).2.symm
        have hne2 : ((w.tbl t1).getEntity r).id ≠
            ((w.tbl t1).getEntity ((w.tbl t1).len - 1)).id := by
          intro heq; rw [heq, hse] at hx
          have := (Prod.mk.inj (Option.some.inj hx)).2; omega
        rw [if_neg hne1, if_neg (fun hh => hne2 hh.2)]; exact hx
    · have hx := h.rowIdx t1 T1 r h2 hr
      rw [hL]
      have hne1 : (T1.getEntity r).id ≠ e.id := by
        intro heq; rw [heq, he] at hx
        exact hne (Prod.mk.inj (Option.some.inj hx)).1.symm
      have hne2 : (T1.getEntity r).id ≠ ((w.tbl t).getEntity ((w.tbl t).len - 1)).id := by
        intro heq; rw [heq, hse] at hx
        exact hne (Prod.mk.inj (Option.some.inj hx)).1.symm
      rw [if_neg hne1, if_neg (fun hh => hne2 hh.2)]; exact hx
  · intro i t1 r1 hi ht1
    rw [hL] at hi
    have hTnew : (World.unplace w e t row).tables[t]? = some ((w.tbl t).remove row).1 := by
      rw [unplace_tables]; exact List.getElem?_set_self hlt
    by_cases hie : i = e.id
    · rw [if_pos hie] at hi
      exact absurd (Prod.mk.inj (Option.some.inj hi)).1.symm ht1
    · rw [if_neg hie] at hi
      by_cases hsw : row ≠ (w.tbl t).len - 1 ∧ i = ((w.tbl t).getEntity ((w.tbl t).len - 1)).id
      · rw [if_pos hsw] at hi
        obtain ⟨rfl, rfl⟩ := Prod.mk.inj (Option.some.inj hi)
        refine ⟨_, hTnew, by rw [Table.remove_len]; omega, ?_⟩
        rw [Table.remove_getEntity hS _ hrow _ (by omega), if_pos rfl]; exact hsw.2.symm
      · rw [if_neg hsw] at hi
        obtain ⟨T1, hT1, hr1, hid1⟩ := h.idxRow i t1 r1 hi ht1
        by_cases htt : t1 = t
        · subst htt
          have hTe := tbl_of_get hT1
          subst hTe
          have hr_ne : r1 ≠ row := by
            intro heq; subst heq; exact hie (hid1.symm.trans hid)
          have hr_lt : r1 < (w.tbl t1).len - 1 := by
            rcases Nat.lt_or_ge r1 ((w.tbl t1).len - 1) with hh | hh
            · exact hh
            · have hr1e : r1 = (w.tbl t1).len - 1 := by omega
              exfalso
              by_cases hrl : row = (w.tbl t1).len - 1
              · exact hr_ne (hr1e.trans hrl.symm)
              · exact hsw ⟨hrl, by rw [← hr1e]; exact hid1.symm⟩
          refine ⟨_, hTnew, by rw [Table.remove_len]; exact hr_lt, ?_⟩
          rw [Table.remove_getEntity hS _ hrow _ hr_lt, if_neg hr_ne]; exact hid1
        · refine ⟨T1, ?_, hr1, hid1⟩
          rw [unplace_tables, List.getElem?_set_ne (Ne.symm htt)]; exact hT1

/-- **2e** I2 after the removal block of `opRemoveEntity` -/
theorem removeRowOf {w : World} (h : IdxInv w) {e : Ent} {t row : Nat}
    (he : w.entities[e.id]? = some (t, row)) (ht : t ≠ maxU32) :
    IdxInv (World.removeRowOf w e t row) :=
  (h.unplace he ht).congr (removeRowOf_entities w e t row) (removeRowOf_tables w e t row)

end IdxInv

/-! ### 2c. `placeNew` -/

namespace World

/-- the index/table part of `placeNew` for the handle `e`: add `e` to table `t`, index it -/
def place (w : World) (e : Ent) (t : Nat) : World :=
  if e.id == w.entities.length then
    { (w.setTbl t ((w.tbl t).add e).1) with entities := w.entities ++ [(t, (w.tbl t).len)] }
  else
    { (w.setTbl t ((w.tbl t).add e).1) with entities := w.entities.set e.id (t, (w.tbl t).len) }

theorem place_tables (w : World) (e : Ent) (t : Nat) :
    (place w e t).tables = w.tables.set t ((w.tbl t).add e).1 := by
  simp only [place]; split <;> rfl

theorem place_entities (w : World) (e : Ent) (t : Nat) :
    (place w e t).entities =
      if e.id = w.entities.length then w.entities ++ [(t, (w.tbl t).len)]
      else w.entities.set e.id (t, (w.tbl t).len) := by
  simp only [place]
  by_cases hb : e.id = w.entities.length
  · simp only [hb, beq_self_eq_true, if_true]
  · have : (e.id == w.entities.length) = false := by simpa using hb
    simp only [this, hb, if_false]; rfl

theorem place_lookup (w : World) (e : Ent) (t : Nat) (hle : e.id ≤ w.entities.length) (i : Nat) :
    (place w e t).entities[i]? =
      if i = e.id then some (t, (w.tbl t).len) else w.entities[i]? := by
  rw [place_entities]
  by_cases hb : e.id = w.entities.length
  · rw [if_pos hb]
    by_cases hi : i = e.id
    · rw [if_pos hi, hi, hb]; exact List.getElem?_concat_length
    · rw [if_neg hi]
      rcases Nat.lt_or_ge i w.entities.length with h1 | h1
      · exact List.getElem?_append_left h1
      · rw [List.getElem?_eq_none h1, List.getElem?_eq_none]
        simp only [List.length_append, List.length_singleton]; omega
  · rw [if_neg hb]
    by_cases hi : i = e.id
    · rw [if_pos hi, hi]; exact List.getElem?_set_self (by omega)
    · rw [if_neg hi]; exact List.getElem?_set_ne (fun hh => hi hh.symm)

theorem placeNew_ok (t : Nat) (rt : Bool) (w : World) :
    ∃ w', placeNew t rt w = .ok ((w.pool.get).2, (w.tbl t).len) w' ∧
      w'.entities = (place w (w.pool.get).2 t).entities ∧
      w'.tables = (place w (w.pool.get).2 t).tables ∧ w'.pool = (w.pool.get).1 := by
  simp only [placeNew, place]
  cases hb : ((w.pool.get).2.id == w.entities.length)
  · have hb' : ((w.pool.get).2.id == (w.setTbl t ((w.tbl t).add (w.pool.get).2).1).entities.length)
        = false := hb
    simp only [hb', Bool.false_eq_true, if_false]
    exact ⟨_, rfl, rfl, rfl, rfl⟩
  · have hb' : ((w.pool.get).2.id == (w.setTbl t ((w.tbl t).add (w.pool.get).2).1).entities.length)
        = true := hb
    simp only [hb', if_true]
    exact ⟨_, rfl, rfl, rfl, rfl⟩

end World

namespace IdxInv

open World

/-- adding a handle whose ID is not indexed to an existing table, and indexing it -/
theorem place {w : World} (h : IdxInv w) (e : Ent) {t : Nat} (hlt : t < w.tables.length)
    (hb : (w.tbl t).len + 1 < 2 ^ 32) (hle : e.id ≤ w.entities.length)
    (hfresh : ∀ (t1 : Nat) (T1 : Table) (r : Nat), w.tables[t1]? = some T1 → r < T1.len →
      (T1.getEntity r).id ≠ e.id) :
    IdxInv (World.place w e t) := by
  have hT := get_of_lt hlt
  have hS := h.shape t _ hT
  have hL := place_lookup w e t hle
  have hget : ∀ (t1 : Nat) (T1 : Table), (World.place w e t).tables[t1]? = some T1 →
      (t1 = t ∧ T1 = ((w.tbl t).add e).1) ∨ (t1 ≠ t ∧ w.tables[t1]? = some T1) := by
    intro t1 T1 h1
    rw [place_tables] at h1
    rcases setTbl_get w t t1 _ T1 h1 with ⟨a, b, _⟩ | ⟨a, b⟩
    · exact Or.inl ⟨a, b⟩
    · exact Or.inr ⟨a, b⟩
  have hTnew : (World.place w e t).tables[t]? = some ((w.tbl t).add e).1 := by
    rw [place_tables]; exact List.getElem?_set_self hlt
  refine ⟨?_, ?_, ?_, ?_⟩
  · intro t1 T1 h1
    rcases hget t1 T1 h1 with ⟨_, rfl⟩ | ⟨_, h2⟩
    · exact Table.add_shape hS e hb
    · exact h.shape t1 T1 h2
  · intro t1 T1 h1
    rcases hget t1 T1 h1 with ⟨rfl, rfl⟩ | ⟨_, h2⟩
    · rw [Table.add_id]; exact h.tid t1 _ hT
    · exact h.tid t1 T1 h2
  · intro t1 T1 r h1 hr
    rcases hget t1 T1 h1 with ⟨rfl, rfl⟩ | ⟨hne, h2⟩
    · rw [Table.add_fst_len] at hr
      rw [hL]
      by_cases hrl : r < (w.tbl t1).len
      · rw [Table.add_getEntity_lt _ e r hrl, if_neg (hfresh t1 _ r hT hrl)]
        exact h.rowIdx t1 _ r hT hrl
      · have hre : r = (w.tbl t1).len := by omega
        have := Table.add_getEntity_new hS e hb
        rw [Table.add_snd] at this
        rw [hre, this, if_pos rfl]
    · rw [hL, if_neg (hfresh t1 T1 r h2 hr)]; exact h.rowIdx t1 T1 r h2 hr
  · intro i t1 r1 hi ht1
    rw [hL] at hi
    by_cases hie : i = e.id
    · rw [if_pos hie] at hi
      obtain ⟨rfl, rfl⟩ := Prod.mk.inj (Option.some.inj hi)
      refine ⟨_, hTnew, by rw [Table.add_fst_len]; omega, ?_⟩
      have := Table.add_getEntity_new hS e hb
      rw [Table.add_snd] at this
      rw [this, hie]
    · rw [if_neg hie] at hi
      obtain ⟨T1, hT1, hr1, hid1⟩ := h.idxRow i t1 r1 hi ht1
      by_cases htt : t1 = t
      · subst htt
        have hTe := tbl_of_get hT1
        subst hTe
        refine ⟨_, hTnew, by rw [Table.add_fst_len]; omega, ?_⟩
        rw [Table.add_getEntity_lt _ e r1 hr1]; exact hid1
      · refine ⟨T1, ?_, hr1, hid1⟩
        rw [place_tables, List.getElem?_set_ne (Ne.symm htt)]; exact hT1

/-- an ID that is not indexed to an existing table occurs in no live row -/
theorem fresh_of_free {w : World} (h : IdxInv w) (i : Nat)
    (hfree : ∀ t' r' : Nat, w.entities[i]? = some (t', r') → w.tables.length ≤ t') :
    ∀ (t1 : Nat) (T1 : Table) (r : Nat), w.tables[t1]? = some T1 → r < T1.len →
      (T1.getEntity r).id ≠ i := by
  intro t1 T1 r h1 hr heq
  have hx := h.rowIdx t1 T1 r h1 hr
  rw [heq] at hx
  have := hfree t1 r hx
  have := lt_of_get h1
  omega

/-- **2c** `placeNew` keeps I2 when the pool hands out a handle whose ID is not indexed to a
    table (hypotheses as they follow from the pool invariant). -/
theorem placeNew {w : World} (h : IdxInv w) {t : Nat} (rt : Bool) (hlt : t < w.tables.length)
    (hb : (w.tbl t).len + 1 < 2 ^ 32) (hnt : w.tables.length ≤ maxU32)
    (hle : (w.pool.get).2.id ≤ w.entities.length)
    (hfree : ∀ t' r' : Nat, w.entities[(w.pool.get).2.id]? = some (t', r') → t' = maxU32) :
    ∃ w', World.placeNew t rt w = .ok ((w.pool.get).2, (w.tbl t).len) w' ∧ IdxInv w' := by
  obtain ⟨w', hok, he, ht, _⟩ := placeNew_ok t rt w
  refine ⟨w', hok, (h.place (w.pool.get).2 hlt hb hle (h.fresh_of_free _ ?_)).congr he ht⟩
  intro t' r' hx
  rw [hfree t' r' hx]; exact hnt

end IdxInv

/-! ### 2d. `add` + `moveRow` (the tail of `addCore`/`removeCore`/`exchangeCore`/`setRelationsCore`) -/

namespace World

/-- the component copy of `moveRow` (row `row` of `O` into row `newIndex` of `N`) -/
def copyRow (O : Table) (row newIndex : Nat) (keep : Mask) (N : Table) : Table :=
  O.ids.foldl (fun N c =>
    if keep.get c then
      match O.getComp c row with
      | some v => N.setComp c newIndex v
      | none => N
    else N) N

/-- the state change of `moveRow` (the `M.modify` argument, with the copy loop named
    `copyRow`; `moveRow_eq` is by `rfl`) -/
def moveRowW (w : World) (e : Ent) (oldT row newT newIndex : Nat) (keep : Mask) : World :=
  let O := w.tbl oldT
  let w := w.modTbl newT (copyRow O row newIndex keep)
  let (O', swapped) := (w.tbl oldT).remove row
  let w := w.setTbl oldT O'
  let w := if swapped then
      let se := O'.getEntity row
      { w with entities := w.entities.modify se.id fun (t, _) => (t, row) }
    else w
  { w with entities := w.entities.set e.id (newT, newIndex) }

theorem moveRow_eq (e : Ent) (oldT row newT newIndex : Nat) (keep : Mask) (w : World) :
    moveRow e oldT row newT newIndex keep w = .ok () (moveRowW w e oldT row newT newIndex keep) :=
  rfl

/-- the composite "add `e` to `newT`, then `moveRow`" -/
def addMove (w : World) (e : Ent) (oldT row newT : Nat) (keep : Mask) : World :=
  moveRowW (w.setTbl newT ((w.tbl newT).add e).1) e oldT row newT ((w.tbl newT).add e).2 keep

/-- `addMove` is what the model runs -/
theorem addMove_eq (e : Ent) (oldT row newT : Nat) (keep : Mask) (w : World) :
    (((fun w => let (N, i) := (w.tbl newT).add e; Res.ok i (w.setTbl newT N) : W Nat) >>=
      fun newIndex => moveRow e oldT row newT newIndex keep) w) =
      .ok () (addMove w e oldT row newT keep) := rfl

theorem copyRow_writeRel (O : Table) (row newIndex : Nat) (keep : Mask) (N : Table)
    (h : newIndex < N.len) : Table.WriteRel newIndex N (copyRow O row newIndex keep N) := by
  apply Table.foldl_writeRel newIndex _ _ O.ids N h
  intro T c hT
  split
  · split
    · exact Table.setComp_writeRel T c newIndex _ hT
    · exact Table.WriteRel.refl _ T
  · exact Table.WriteRel.refl _ T

theorem moveRowW_tables (w : World) (e : Ent) (oldT row newT newIndex : Nat) (keep : Mask) :
    (moveRowW w e oldT row newT newIndex keep).tables =
      (w.modTbl newT (copyRow (w.tbl oldT) row newIndex keep)).tables.set oldT
        (((w.modTbl newT (copyRow (w.tbl oldT) row newIndex keep)).tbl oldT).remove row).1 := by
  simp only [moveRowW]; split <;> rfl

theorem moveRowW_entities (w : World) (e : Ent) (oldT row newT newIndex : Nat) (keep : Mask) :
    (moveRowW w e oldT row newT newIndex keep).entities =
      (if (row != ((w.modTbl newT (copyRow (w.tbl oldT) row newIndex keep)).tbl oldT).len - 1) = true
        then w.entities.modify
          ((((w.modTbl newT (copyRow (w.tbl oldT) row newIndex keep)).tbl oldT).remove row).1.getEntity
            row).id fun (t, _) => (t, row)
        else w.entities).set e.id (newT, newIndex) := by
  simp only [moveRowW, Table.remove_snd]
  by_cases hb : (row != ((w.modTbl newT (copyRow (w.tbl oldT) row newIndex keep)).tbl oldT).len - 1)
      = true
  · simp only [hb, if_true]; rfl
  · simp only [hb]; rfl

theorem modTbl_tbl_ne (w : World) {t t' : Nat} (f : Table → Table) (h : t ≠ t') :
    (w.modTbl t f).tbl t' = w.tbl t' := setTbl_tbl_ne w _ h

theorem modTbl_tbl_self {w : World} {t : Nat} (f : Table → Table) (h : t < w.tables.length) :
    (w.modTbl t f).tbl t = f (w.tbl t) := setTbl_tbl_self _ h

/-- `addMove` as: removal block on the old table, `place` into the new table, copy -/
theorem addMove_decomp (w : World) (e : Ent) (oldT row newT : Nat) (keep : Mask)
    (hne : oldT ≠ newT) (hnl : newT < w.tables.length) (hel : e.id < w.entities.length) :
    (addMove w e oldT row newT keep).tables =
      ((place (unplace w e oldT row) e newT).setTbl newT
        (copyRow (w.tbl oldT) row (w.tbl newT).len keep ((w.tbl newT).add e).1)).tables ∧
    (addMove w e oldT row newT keep).entities =
      ((place (unplace w e oldT row) e newT).setTbl newT
        (copyRow (w.tbl oldT) row (w.tbl newT).len keep ((w.tbl newT).add e).1)).entities := by
  have hune : (unplace w e oldT row).tbl newT = w.tbl newT := by
    simp only [tbl, unplace_tables, List.getD_eq_getElem?_getD, List.getElem?_set_ne hne]
  have h1 : (w.setTbl newT ((w.tbl newT).add e).1).tbl oldT = w.tbl oldT :=
    setTbl_tbl_ne w _ (Ne.symm hne)
  have h2 : (w.setTbl newT ((w.tbl newT).add e).1).tbl newT = ((w.tbl newT).add e).1 :=
    setTbl_tbl_self _ hnl
  have h3 : ∀ f, ((w.setTbl newT ((w.tbl newT).add e).1).modTbl newT f).tbl oldT = w.tbl oldT := by
    intro f; rw [modTbl_tbl_ne _ f (Ne.symm hne), h1]
  constructor
  · rw [addMove, moveRowW_tables, h3, h1, modTbl_tables, h2]
    simp only [setTbl_tables, place_tables, unplace_tables, hune, Table.add_snd, List.set_set]
    exact List.set_comm _ _ (Ne.symm hne)
  · rw [addMove, moveRowW_entities, h3]
    simp only [setTbl_entities, place_entities, unplace_entities, hune, Table.add_snd,
      List.length_modify]
    have key : ∀ (A : List (Nat × Nat)) (f : Nat × Nat → Nat × Nat) (v : Nat × Nat),
        A.length = w.entities.length →
        A.set e.id v = (if e.id = A.length then A.modify e.id f ++ [v]
          else (A.modify e.id f).set e.id v) := by
      intro A f v hA
      rw [if_neg (by omega)]
      apply List.ext_getElem?
      intro i
      by_cases hi : e.id = i
      · subst hi
        rw [List.getElem?_set_self (by omega),
          List.getElem?_set_self (by rw [List.length_modify]; omega)]
      · rw [List.getElem?_set_ne hi, List.getElem?_set_ne hi, List.getElem?_modify_ne _ _ hi]
    refine key _ _ _ ?_
    split <;> simp only [List.length_modify]

end World

namespace IdxInv

open World

/-- after the removal block no live row holds `e.id` -/
theorem unplace_fresh {w : World} (h : IdxInv w) {e : Ent} {t row : Nat}
    (he : w.entities[e.id]? = some (t, row)) (ht : t ≠ maxU32) :
    ∀ (t1 : Nat) (T1 : Table) (r : Nat), (World.unplace w e t row).tables[t1]? = some T1 →
      r < T1.len → (T1.getEntity r).id ≠ e.id := by
  intro t1 T1 r h1 hr heq
  have hu := h.unplace he ht
  have hx := hu.rowIdx t1 T1 r h1 hr
  rw [heq, unplace_lookup h he ht, if_pos rfl] at hx
  obtain ⟨rfl, rfl⟩ := Prod.mk.inj (Option.some.inj hx)
  -- the table `maxU32` (if there is one) is untouched
  rw [unplace_tables, List.getElem?_set_ne ht] at h1
  have hy := h.rowIdx maxU32 T1 row h1 hr
  rw [heq, he] at hy
  exact ht (Prod.mk.inj (Option.some.inj hy)).1

/-- **2d** I2 is preserved by "add `e` to `newT`, then `moveRow`". -/
theorem addMove {w : World} (h : IdxInv w) {e : Ent} {oldT row newT : Nat} (keep : Mask)
    (hne : oldT ≠ newT) (he : w.entities[e.id]? = some (oldT, row)) (ht : oldT ≠ maxU32)
    (hnl : newT < w.tables.length) (hb : (w.tbl newT).len + 1 < 2 ^ 32) :
    IdxInv (World.addMove w e oldT row newT keep) := by
  have hel : e.id < w.entities.length := by
    rcases Nat.lt_or_ge e.id w.entities.length with h1 | h1
    · exact h1
    · rw [List.getElem?_eq_none h1] at he; cases he
  have hune : (World.unplace w e oldT row).tbl newT = w.tbl newT := by
    simp only [tbl, unplace_tables, List.getD_eq_getElem?_getD, List.getElem?_set_ne hne]
  have hulen : (World.unplace w e oldT row).tables.length = w.tables.length := by
    rw [unplace_tables, List.length_set]
  have huel : (World.unplace w e oldT row).entities.length = w.entities.length := by
    rw [unplace_entities]; split <;> simp only [List.length_modify]
  have h1 := h.unplace he ht
  have h2 := h1.place e (t := newT) (by rw [hulen]; exact hnl) (by rw [hune]; exact hb)
    (by rw [huel]; omega) (h.unplace_fresh he ht)
  have hpl : (World.place (World.unplace w e oldT row) e newT).tbl newT = ((w.tbl newT).add e).1 := by
    have : (World.place (World.unplace w e oldT row) e newT).tables[newT]? =
        some ((w.tbl newT).add e).1 := by
      rw [place_tables, hune]; exact List.getElem?_set_self (by rw [hulen]; exact hnl)
    exact tbl_of_get this
  have hw := copyRow_writeRel (w.tbl oldT) row (w.tbl newT).len keep ((w.tbl newT).add e).1
    (by rw [Table.add_fst_len]; omega)
  have hS : ((w.tbl newT).add e).1.Shape := Table.add_shape (h.shape newT _ (get_of_lt hnl)) e hb
  have h3 := h2.of_same_rows newT
    (copyRow (w.tbl oldT) row (w.tbl newT).len keep ((w.tbl newT).add e).1) (hw.shape hS)
    (by rw [hpl]; exact hw.id) (by rw [hpl]; exact hw.len) (fun r _ => by rw [hpl]; exact hw.getEntity r)
  obtain ⟨e1, e2⟩ := addMove_decomp w e oldT row newT keep hne hnl hel
  exact h3.congr e2 e1

/-- the intermediate facts of the decomposition of `addMove` (used by the frame theorems) -/
theorem addMove_steps {w : World} (h : IdxInv w) {e : Ent} {oldT row newT : Nat} (keep : Mask)
    (hne : oldT ≠ newT) (he : w.entities[e.id]? = some (oldT, row)) (ht : oldT ≠ maxU32)
    (hnl : newT < w.tables.length) (hb : (w.tbl newT).len + 1 < 2 ^ 32) :
    IdxInv (World.unplace w e oldT row) ∧
    IdxInv (World.place (World.unplace w e oldT row) e newT) ∧
    e.id ≤ (World.unplace w e oldT row).entities.length ∧
    (World.place (World.unplace w e oldT row) e newT).tbl newT = ((w.tbl newT).add e).1 ∧
    ((w.tbl newT).add e).1.Shape ∧
    ((w.tbl newT).add e).1.getEntity (w.tbl newT).len = e ∧
    Table.WriteRel (w.tbl newT).len ((w.tbl newT).add e).1
      (copyRow (w.tbl oldT) row (w.tbl newT).len keep ((w.tbl newT).add e).1) ∧
    (World.unplace w e oldT row).tbl newT = w.tbl newT := by
  have hel : e.id < w.entities.length := by
    rcases Nat.lt_or_ge e.id w.entities.length with h1 | h1
    · exact h1
    · rw [List.getElem?_eq_none h1] at he; cases he
  have hune : (World.unplace w e oldT row).tbl newT = w.tbl newT := by
    simp only [tbl, unplace_tables, List.getD_eq_getElem?_getD, List.getElem?_set_ne hne]
  have hulen : (World.unplace w e oldT row).tables.length = w.tables.length := by
    rw [unplace_tables, List.length_set]
  have huel : (World.unplace w e oldT row).entities.length = w.entities.length := by
    rw [unplace_entities]; split <;> simp only [List.length_modify]
  have h1 := h.unplace he ht
  have h2 := h1.place e (t := newT) (by rw [hulen]; exact hnl) (by rw [hune]; exact hb)
    (by rw [huel]; omega) (h.unplace_fresh he ht)
  have hpl : (World.place (World.unplace w e oldT row) e newT).tbl newT = ((w.tbl newT).add e).1 := by
    have : (World.place (World.unplace w e oldT row) e newT).tables[newT]? =
        some ((w.tbl newT).add e).1 := by
      rw [place_tables, hune]; exact List.getElem?_set_self (by rw [hulen]; exact hnl)
    exact tbl_of_get this
  have hw := copyRow_writeRel (w.tbl oldT) row (w.tbl newT).len keep ((w.tbl newT).add e).1
    (by rw [Table.add_fst_len]; omega)
  have hS0 := h.shape newT _ (get_of_lt hnl)
  have hS : ((w.tbl newT).add e).1.Shape := Table.add_shape hS0 e hb
  have hge := Table.add_getEntity_new hS0 e hb
  rw [Table.add_snd] at hge
  exact ⟨h1, h2, by rw [huel]; omega, hpl, hS, hge, hw, hune⟩

end IdxInv

/-! ### 2f. `moveEntities` -/

/-- folding `set` over `range n`: positions not hit are unchanged -/
theorem foldl_set_miss {α : Type} (f : Nat → Nat) (g : Nat → α) (i : Nat) :
    ∀ (n : Nat) (E : List α), (∀ k : Nat, k < n → f k ≠ i) →
      ((List.range n).foldl (fun E k => E.set (f k) (g k)) E)[i]? = E[i]?
  | 0, E, _ => rfl
  | n + 1, E, h => by
    rw [List.range_succ, List.foldl_append]
    simp only [List.foldl_cons, List.foldl_nil]
    rw [List.getElem?_set_ne (h n (Nat.lt_succ_self n))]
    exact foldl_set_miss f g i n E (fun k hk => h k (Nat.lt_succ_of_lt hk))

theorem foldl_set_length {α : Type} (f : Nat → Nat) (g : Nat → α) :
    ∀ (n : Nat) (E : List α),
      ((List.range n).foldl (fun E k => E.set (f k) (g k)) E).length = E.length
  | 0, E => rfl
  | n + 1, E => by
    rw [List.range_succ, List.foldl_append]
    simp only [List.foldl_cons, List.foldl_nil, List.length_set]
    exact foldl_set_length f g n E

/-- folding `set` over `range n`: a position hit exactly once holds that value -/
theorem foldl_set_hit {α : Type} (f : Nat → Nat) (g : Nat → α) (i k : Nat) :
    ∀ (n : Nat) (E : List α), k < n → f k = i → (∀ k' : Nat, k' < n → k' ≠ k → f k' ≠ i) →
      i < E.length → ((List.range n).foldl (fun E k => E.set (f k) (g k)) E)[i]? = some (g k)
  | 0, _, hk, _, _, _ => absurd hk (Nat.not_lt_zero _)
  | n + 1, E, hk, hf, hinj, hi => by
    rw [List.range_succ, List.foldl_append]
    simp only [List.foldl_cons, List.foldl_nil]
    by_cases hkn : k = n
    · subst hkn
      rw [hf]
      exact List.getElem?_set_self (by rw [foldl_set_length]; exact hi)
    · rw [List.getElem?_set_ne (hinj n (Nat.lt_succ_self n) (fun hh => hkn hh.symm))]
      exact foldl_set_hit f g i k n E (by omega) hf
        (fun k' hk' hne => hinj k' (Nat.lt_succ_of_lt hk') hne) hi

namespace World

/-- the state change of `moveEntities` (verbatim) -/
def moveEntitiesW (w : World) (src dst : Nat) (count : Nat) : World :=
  let oldLen := (w.tbl dst).len
  let w := w.modTbl dst fun D => D.addAll (w.tbl src) count
  let newLen := (w.tbl dst).len
  let w := (List.range (newLen - oldLen)).foldl (fun (w : World) k =>
    let i := oldLen + k
    let e := (w.tbl dst).getEntity i
    { w with entities := w.entities.set e.id (dst, i) }) w
  w.modTbl src Table.reset

theorem moveEntities_eq (src dst count : Nat) (w : World) :
    moveEntities src dst count w = .ok () (moveEntitiesW w src dst count) := rfl

/-- a fold of index writes that reads only the tables -/
theorem foldl_index_writes (TS : List Table) (F : World → Nat → World) (f : Nat → Nat)
    (g : Nat → Nat × Nat)
    (hF : ∀ (w : World) (k : Nat), w.tables = TS →
      (F w k).tables = TS ∧ (F w k).entities = w.entities.set (f k) (g k)) :
    ∀ (l : List Nat) (w : World), w.tables = TS →
      (l.foldl F w).tables = TS ∧
      (l.foldl F w).entities = l.foldl (fun E k => E.set (f k) (g k)) w.entities
  | [], w, h => ⟨h, rfl⟩
  | k :: l, w, h => by
    obtain ⟨h1, h2⟩ := hF w k h
    obtain ⟨h3, h4⟩ := foldl_index_writes TS F f g hF l (F w k) h1
    simp only [List.foldl_cons]
    exact ⟨h3, by rw [h4, h2]⟩

theorem tbl_congr {w : World} {TS : List Table} (h : w.tables = TS) (t : Nat) :
    w.tbl t = TS.getD t default := by
  simp only [tbl, h]

/-- one iteration of the index loop of `moveEntities` -/
def idxStep (dst base : Nat) (w : World) (k : Nat) : World :=
  { w with entities := w.entities.set ((w.tbl dst).getEntity (base + k)).id (dst, base + k) }

theorem moveEntitiesW_spec (w : World) (src dst count : Nat) (hne : src ≠ dst)
    (hd : dst < w.tables.length) :
    (moveEntitiesW w src dst count).tables =
      (w.tables.set dst ((w.tbl dst).addAll (w.tbl src) count)).set src (w.tbl src).reset ∧
    (moveEntitiesW w src dst count).entities =
      (List.range count).foldl (fun E k => E.set
        (((w.tbl dst).addAll (w.tbl src) count).getEntity ((w.tbl dst).len + k)).id
        (dst, (w.tbl dst).len + k)) w.entities := by
  have h1 : (w.modTbl dst fun D => D.addAll (w.tbl src) count).tbl dst =
      (w.tbl dst).addAll (w.tbl src) count := modTbl_tbl_self _ hd
  have hfold := foldl_index_writes
    (w.tables.set dst ((w.tbl dst).addAll (w.tbl src) count))
    (idxStep dst (w.tbl dst).len)
    (fun k => (((w.tbl dst).addAll (w.tbl src) count).getEntity ((w.tbl dst).len + k)).id)
    (fun k => (dst, (w.tbl dst).len + k))
    (by
      intro w' k hw'
      refine ⟨hw', ?_⟩
      have : w'.tbl dst = (w.tbl dst).addAll (w.tbl src) count := by
        apply tbl_of_get; rw [hw']; exact List.getElem?_set_self hd
      show w'.entities.set _ _ = _
      rw [this])
    (List.range count) (w.modTbl dst fun D => D.addAll (w.tbl src) count) rfl
  have hn : ((w.modTbl dst fun D => D.addAll (w.tbl src) count).tbl dst).len - (w.tbl dst).len
      = count := by rw [h1, Table.addAll_len]; omega
  have hdef : moveEntitiesW w src dst count =
      ((List.range (((w.modTbl dst fun D => D.addAll (w.tbl src) count).tbl dst).len - (w.tbl dst).len)).foldl
        (idxStep dst (w.tbl dst).len) (w.modTbl dst fun D => D.addAll (w.tbl src) count)).modTbl src
          Table.reset := rfl
  rw [hdef, hn]
  obtain ⟨ht, he⟩ := hfold
  constructor
  · rw [modTbl_tables, ht]
    have : ((List.range count).foldl (idxStep dst (w.tbl dst).len)
        (w.modTbl dst fun D => D.addAll (w.tbl src) count)).tbl src = w.tbl src := by
      rw [tbl_congr ht]
      simp only [tbl, List.getD_eq_getElem?_getD, List.getElem?_set_ne (Ne.symm hne)]
    rw [this]
  · rw [modTbl_entities, he]; rfl

end World

namespace IdxInv

open World

/-- **2f** `moveEntities src dst count` for `src ≠ dst`, `count` = all rows of `src`, same
    column layout. -/
theorem moveEntities {w : World} (h : IdxInv w) {src dst count : Nat} (hne : src ≠ dst)
    (hs : src < w.tables.length) (hd : dst < w.tables.length) (hc : count = (w.tbl src).len)
    (hids : (w.tbl src).ids = (w.tbl dst).ids) (hzst : (w.tbl src).zst = (w.tbl dst).zst)
    (hb : (w.tbl dst).len + count < 2 ^ 32) :
    IdxInv (moveEntitiesW w src dst count) := by
  obtain ⟨hTS, hE⟩ := moveEntitiesW_spec w src dst count hne hd
  have hS := get_of_lt hs
  have hD := get_of_lt hd
  have hSs := h.shape src _ hS
  have hDs := h.shape dst _ hD
  have hcle : count ≤ (w.tbl src).len := by omega
  -- the handles written by the loop
  have hf : ∀ k : Nat, k < count →
      ((w.tbl dst).addAll (w.tbl src) count).getEntity ((w.tbl dst).len + k) =
        (w.tbl src).getEntity k := by
    intro k hk
    rw [Table.addAll_getEntity hDs hSs count hcle hb _ (by omega), if_neg (by omega)]
    congr 1; omega
  have hsrcIdx : ∀ k : Nat, k < count →
      w.entities[((w.tbl src).getEntity k).id]? = some (src, k) :=
    fun k hk => h.rowIdx src _ k hS (by omega)
  -- index lookups after the move
  have hL1 : ∀ k : Nat, k < count →
      (moveEntitiesW w src dst count).entities[((w.tbl src).getEntity k).id]? =
        some (dst, (w.tbl dst).len + k) := by
    intro k hk
    rw [hE]
    apply foldl_set_hit _ (fun k => (dst, (w.tbl dst).len + k)) _ k count _ hk
      (by rw [hf k hk])
    · intro k' hk' hkk heq
      rw [hf k' hk'] at heq
      exact hkk (h.row_inj hS hS (by omega) (by omega) heq).2
    · have := hsrcIdx k hk
      rcases Nat.lt_or_ge ((w.tbl src).getEntity k).id w.entities.length with h1 | h1
      · exact h1
      · rw [List.getElem?_eq_none h1] at this; cases this
  have hL2 : ∀ i : Nat, (∀ k : Nat, k < count → ((w.tbl src).getEntity k).id ≠ i) →
      (moveEntitiesW w src dst count).entities[i]? = w.entities[i]? := by
    intro i hi
    rw [hE]
    apply foldl_set_miss
    intro k hk
    rw [hf k hk]; exact hi k hk
  have hget : ∀ (t1 : Nat) (T1 : Table), (moveEntitiesW w src dst count).tables[t1]? = some T1 →
      (t1 = src ∧ T1 = (w.tbl src).reset) ∨
      (t1 = dst ∧ T1 = (w.tbl dst).addAll (w.tbl src) count) ∨
      (t1 ≠ src ∧ t1 ≠ dst ∧ w.tables[t1]? = some T1) := by
    intro t1 T1 h1
    rw [hTS] at h1
    by_cases h2 : t1 = src
    · subst h2
      rw [List.getElem?_set_self (by rw [List.length_set]; exact hs)] at h1
      exact Or.inl ⟨rfl, (Option.some.inj h1).symm⟩
    · rw [List.getElem?_set_ne (Ne.symm h2)] at h1
      by_cases h3 : t1 = dst
      · subst h3
        rw [List.getElem?_set_self hd] at h1
        exact Or.inr (Or.inl ⟨rfl, (Option.some.inj h1).symm⟩)
      · rw [List.getElem?_set_ne (Ne.symm h3)] at h1
        exact Or.inr (Or.inr ⟨h2, h3, h1⟩)
  have hDnew : (moveEntitiesW w src dst count).tables[dst]? =
      some ((w.tbl dst).addAll (w.tbl src) count) := by
    rw [hTS, List.getElem?_set_ne hne]; exact List.getElem?_set_self hd
  -- a row outside `src` does not hold a moved ID
  have hother : ∀ (t1 : Nat) (T1 : Table) (r : Nat), w.tables[t1]? = some T1 → r < T1.len →
      t1 ≠ src → ∀ k : Nat, k < count → ((w.tbl src).getEntity k).id ≠ (T1.getEntity r).id := by
    intro t1 T1 r h1 hr h2 k hk heq
    exact h2 (h.row_inj hS h1 (by omega) hr heq).1.symm
  refine ⟨?_, ?_, ?_, ?_⟩
  · intro t1 T1 h1
    rcases hget t1 T1 h1 with ⟨_, rfl⟩ | ⟨_, rfl⟩ | ⟨_, _, h2⟩
    · exact Table.reset_shape hSs
    · exact Table.addAll_shape hDs hSs hids hzst count hcle hb
    · exact h.shape t1 T1 h2
  · intro t1 T1 h1
    rcases hget t1 T1 h1 with ⟨rfl, rfl⟩ | ⟨rfl, rfl⟩ | ⟨_, _, h2⟩
    · rw [Table.reset_id]; exact h.tid t1 _ hS
    · rw [Table.addAll_id]; exact h.tid t1 _ hD
    · exact h.tid t1 T1 h2
  · intro t1 T1 r h1 hr
    rcases hget t1 T1 h1 with ⟨rfl, rfl⟩ | ⟨rfl, rfl⟩ | ⟨h2, _, h3⟩
    · rw [Table.reset_len] at hr; exact absurd hr (Nat.not_lt_zero _)
    · rw [Table.addAll_len] at hr
      rw [Table.addAll_getEntity hDs hSs count hcle hb r hr]
      by_cases hrl : r < (w.tbl t1).len
      · rw [if_pos hrl, hL2 _ (hother t1 _ r hD hrl (Ne.symm hne))]
        exact h.rowIdx t1 _ r hD hrl
      · rw [if_neg hrl, hL1 _ (by omega)]
        congr 2; omega
    · rw [hL2 _ (hother t1 T1 r h3 hr h2)]; exact h.rowIdx t1 T1 r h3 hr
  · intro i t1 r1 hi ht1
    by_cases hex : ∃ k : Nat, k < count ∧ ((w.tbl src).getEntity k).id = i
    · obtain ⟨k, hk, rfl⟩ := hex
      rw [hL1 k hk] at hi
      obtain ⟨rfl, rfl⟩ := Prod.mk.inj (Option.some.inj hi)
      refine ⟨_, hDnew, by rw [Table.addAll_len]; omega, ?_⟩
      rw [hf k hk]
    · have hno : ∀ k : Nat, k < count → ((w.tbl src).getEntity k).id ≠ i :=
        fun k hk heq => hex ⟨k, hk, heq⟩
      rw [hL2 i hno] at hi
      obtain ⟨T1, hT1, hr1, hid1⟩ := h.idxRow i t1 r1 hi ht1
      have hts : t1 ≠ src := by
        intro heq; subst heq
        have := tbl_of_get hT1; subst this
        exact hno r1 (by omega) hid1
      by_cases htd : t1 = dst
      · subst htd
        have := tbl_of_get hT1; subst this
        refine ⟨_, hDnew, by rw [Table.addAll_len]; omega, ?_⟩
        rw [Table.addAll_getEntity hDs hSs count hcle hb r1 (by omega), if_pos hr1]; exact hid1
      · refine ⟨T1, ?_, hr1, hid1⟩
        rw [hTS, List.getElem?_set_ne (Ne.symm hts), List.getElem?_set_ne (Ne.symm htd)]
        exact hT1

end IdxInv

/-! ### 2g. `createEntities` -/

namespace World

/-- one iteration of the loop of `createEntities` (verbatim) -/
def createStep (t start : Nat) (w : World) (i : Nat) : World :=
    let idx := start + i
    let (pool, e) := w.pool.get
    let w := { (w.modTbl t fun T => { T with ents := T.ents.set idx e }) with pool }
    if e.id == w.entities.length then
      { w with entities := w.entities ++ [(t, idx)], isTarget := w.isTarget ++ [false] }
    else
      { w with entities := w.entities.set e.id (t, idx), isTarget := w.isTarget.set e.id false }

/-- the state after `k` iterations of the loop of `createEntities t count` -/
def createPrefix (w : World) (t count k : Nat) : World :=
  (List.range k).foldl (createStep t (w.tbl t).len) (w.modTbl t fun T => T.alloc count)

/-- the state change of `createEntities` -/
def createEntitiesW (w : World) (t count : Nat) : World := createPrefix w t count count

theorem createEntities_eq (t count : Nat) (w : World) :
    createEntities t count w = .ok () (createEntitiesW w t count) := rfl

theorem createPrefix_succ (w : World) (t count k : Nat) :
    createPrefix w t count (k + 1) =
      createStep t (w.tbl t).len (createPrefix w t count k) k := by
  simp only [createPrefix, List.range_succ, List.foldl_append, List.foldl_cons, List.foldl_nil]

/-- what the pool must guarantee about the handle it hands out next: its ID is at most one past
    the index, and it is not indexed to a table -/
def PoolFresh (w : World) : Prop :=
  (w.pool.get).2.id ≤ w.entities.length ∧
  ∀ t' r' : Nat, w.entities[(w.pool.get).2.id]? = some (t', r') → t' = maxU32

theorem createStep_tables (t start : Nat) (w : World) (k : Nat) :
    (createStep t start w k).tables =
      w.tables.set t { w.tbl t with ents := (w.tbl t).ents.set (start + k) (w.pool.get).2 } := by
  simp only [createStep]
  split <;> rfl

theorem createStep_entities (t start : Nat) (w : World) (k : Nat) :
    (createStep t start w k).entities =
      if (w.pool.get).2.id = w.entities.length then w.entities ++ [(t, start + k)]
      else w.entities.set (w.pool.get).2.id (t, start + k) := by
  simp only [createStep]
  by_cases hb : (w.pool.get).2.id = w.entities.length
  · have hb' : ((w.pool.get).2.id == w.entities.length) = true := by simpa using hb
    rw [if_pos hb]
    split
    · rfl
    · rename_i hc; exact absurd hb' hc
  · have hb' : ((w.pool.get).2.id == w.entities.length) = false := by simpa using hb
    rw [if_neg hb]
    split
    · rename_i hc
      have hc' : ((w.pool.get).2.id == w.entities.length) = true := hc
      rw [hb'] at hc'; cases hc'
    · rfl

/-- table `t` cut back to `n` rows -/
def truncT (T : Table) (n : Nat) : Table := { T with len := n }

/-- the world with table `t` cut back to `n` rows -/
def trunc (w : World) (t n : Nat) : World := w.setTbl t (truncT (w.tbl t) n)

theorem truncT_add (T : Table) (n : Nat) (e : Ent) (hcap : n + 1 ≤ T.cap) :
    ((truncT T n).add e).1 = truncT { T with ents := T.ents.set n e } (n + 1) := by
  have : (truncT T n).cap ≥ (truncT T n).len + 1 := hcap
  simp only [Table.add, Table.alloc, Table.extend, this, if_true]
  rfl

theorem set_tbl_self (w : World) (t : Nat) : w.tables.set t (w.tbl t) = w.tables := by
  apply List.ext_getElem?
  intro i
  by_cases hi : t = i
  · subst hi
    rcases Nat.lt_or_ge t w.tables.length with h1 | h1
    · rw [List.getElem?_set_self h1, get_of_lt h1]
    · rw [List.getElem?_eq_none h1, List.getElem?_eq_none (by rw [List.length_set]; exact h1)]
  · rw [List.getElem?_set_ne hi]

end World

namespace IdxInv

open World

/-- loop invariant of `createEntities`: I2 holds for the world whose table `t` is cut back to
    the rows already filled; the table has its final length and enough capacity. -/
structure CreateInv (t n total : Nat) (w : World) : Prop where
  inv : IdxInv (World.trunc w t n)
  lt : t < w.tables.length
  len : (w.tbl t).len = total
  cap : total ≤ (w.tbl t).cap

theorem createStep_inv {t start k total : Nat} {w : World} (hk : start + k < total)
    (hb : total < 2 ^ 32) (hnt : w.tables.length ≤ maxU32)
    (hJ : CreateInv t (start + k) total w) (hp : PoolFresh w) :
    CreateInv t (start + (k + 1)) total (createStep t start w k) := by
  obtain ⟨hinv, hlt, hlen, hcap⟩ := hJ
  have htl : (World.trunc w t (start + k)).tables.length = w.tables.length := by
    simp only [World.trunc, setTbl_tables, List.length_set]
  have httbl : (World.trunc w t (start + k)).tbl t = truncT (w.tbl t) (start + k) :=
    setTbl_tbl_self _ hlt
  have hpl := hinv.place (w.pool.get).2 (t := t) (by rw [htl]; exact hlt)
    (by rw [httbl]; show start + k + 1 < 2 ^ 32; omega) hp.1
    (hinv.fresh_of_free _ (by
      intro t' r' hx
      rw [htl, hp.2 t' r' hx]; exact hnt))
  have hnewtbl : (createStep t start w k).tbl t =
      { w.tbl t with ents := (w.tbl t).ents.set (start + k) (w.pool.get).2 } := by
    apply tbl_of_get; rw [createStep_tables]; exact List.getElem?_set_self hlt
  refine ⟨hpl.congr ?_ ?_, ?_, ?_, ?_⟩
  · -- entities
    show (createStep t start w k).entities = _
    rw [place_entities, httbl, createStep_entities]
    rfl
  · -- tables
    simp only [World.trunc, setTbl_tables, place_tables, List.set_set]
    rw [hnewtbl, createStep_tables, List.set_set, setTbl_tbl_self _ hlt,
      truncT_add _ _ _ (by show start + k + 1 ≤ (w.tbl t).cap; omega)]
    rfl
  · rw [createStep_tables, List.length_set]; exact hlt
  · rw [hnewtbl]; exact hlen
  · rw [hnewtbl]; exact hcap

/-- **2g** `createEntities t count` keeps I2, provided the pool hands out a fresh handle at
    every iteration (`PoolFresh` of the state reached: ID at most one past the index and not
    indexed to a table — so in particular the handles are pairwise distinct). -/
theorem createEntities {w : World} (h : IdxInv w) {t count : Nat} (hlt : t < w.tables.length)
    (hnt : w.tables.length ≤ maxU32) (hb : (w.tbl t).len + count < 2 ^ 32)
    (hp : ∀ k : Nat, k < count → PoolFresh (createPrefix w t count k)) :
    IdxInv (createEntitiesW w t count) := by
  have hT := get_of_lt hlt
  have hS := h.shape t _ hT
  have hlenk : ∀ k : Nat, (createPrefix w t count k).tables.length = w.tables.length := by
    intro k
    induction k with
    | zero => simp only [createPrefix, List.range_zero, List.foldl_nil, modTbl_tables, List.length_set]
    | succ k ih => rw [createPrefix_succ, createStep_tables, List.length_set, ih]
  have hJ : ∀ k : Nat, k ≤ count →
      CreateInv t ((w.tbl t).len + k) ((w.tbl t).len + count) (createPrefix w t count k) := by
    intro k
    induction k with
    | zero =>
      intro _
      have h0 : createPrefix w t count 0 = w.modTbl t fun T => T.alloc count := rfl
      have htb : (w.modTbl t fun T => T.alloc count).tbl t = (w.tbl t).alloc count :=
        modTbl_tbl_self _ hlt
      have hSa := Table.alloc_shape hS count hb
      refine ⟨?_, ?_, ?_, ?_⟩
      · rw [h0]
        have hS' : (truncT ((w.tbl t).alloc count) ((w.tbl t).len + 0)).Shape := by
          have he := Table.extend_shape hS count hb
          exact
            { len_le := by
                show (w.tbl t).len + 0 ≤ ((w.tbl t).extend count).cap
                have := Table.extend_cap_ge (w.tbl t) count hb; omega
              ents_len := he.ents_len
              cols_len := he.cols_len
              zst_len := he.zst_len
              col_len := he.col_len
              zero_tail := by
                intro col hcol r hr
                have hr' : (w.tbl t).len + 0 ≤ r := hr
                exact he.zero_tail col hcol r (by rw [Table.extend_len]; omega)
              zst_zero := he.zst_zero }
        have := h.of_same_rows t (truncT ((w.tbl t).alloc count) ((w.tbl t).len + 0)) hS'
          (Table.alloc_id _ _) (Nat.add_zero _)
          (fun r hr => Table.extend_getEntity_lt (w.tbl t) count r (by
            have : r < (w.tbl t).len + 0 := hr
            omega))
        refine this.congr rfl ?_
        simp only [World.trunc, setTbl_tables, modTbl_tables, List.set_set]
        rw [htb]
      · rw [h0, modTbl_tables, List.length_set]; exact hlt
      · rw [h0, htb, Table.alloc_len]
      · rw [h0, htb]
        have := hSa.len_le
        rw [Table.alloc_len] at this; exact this
    | succ k ih =>
      intro hk
      rw [createPrefix_succ]
      exact createStep_inv (by omega) hb (by rw [hlenk]; exact hnt) (ih (by omega)) (hp k (by omega))
  obtain ⟨hinv, _, hlen, _⟩ := hJ count (Nat.le_refl _)
  refine hinv.congr rfl ?_
  show (createPrefix w t count count).tables = _
  simp only [World.trunc, setTbl_tables]
  have : truncT ((createPrefix w t count count).tbl t) ((w.tbl t).len + count) =
      (createPrefix w t count count).tbl t := by
    rw [← hlen]; rfl
  rw [this, set_tbl_self]

end IdxInv

end Ark
