/-
  Ark.Proofs.BatchRelSetSpec — C06 + C04 with relations, part 8: `setRelationsBatch` against
  `setRelations` applied to every selected entity.

  * `SetRelAllPost w fl es rels w'` — what assigning the relations `rels` to the entities `es`
    guarantees: `TInv` kept, every entity keeps liveness, components and values, the entities of
    `es` have the targets named and keep their other targets, nobody else's targets change;
  * `setRelationsBatch_rel_spec` — the batch never fails for a valid call and satisfies it for the
    entities in the rows of the selected tables; tables whose targets do not change are skipped;
  * `setRelSeq_post` — so does `setRelations` applied to these entities one by one, in any order;
  * `SetRelAllPost.obs_eq`, `setRelationsBatch_eq_singles` — batch = singles (observationally).
  Kernel-only proofs, core Lean only.
-/
import Ark.Proofs.BatchRelSet
import Ark.Proofs.BatchRelHist

set_option autoImplicit false

namespace Ark

open World Ark.Props.C01World QueryRel

/-! ## 1. the postcondition -/

/-- the observable outcome of assigning the relations `rels` to the entities `es` -/
structure SetRelAllPost (w : World) (fl : List Nat) (es : List Ent) (rels : List RelID)
    (w' : World) : Prop where
  tinv : TInv w' fl
  aliveSame : ∀ (x : Ent), w'.alive x = w.alive x
  /-- everybody keeps components and values -/
  same : ∀ (j : Nat), SameEnt w w' j
  /-- the entities of `es` have the targets named … -/
  targets : ∀ (e : Ent), e ∈ es → ∀ (r : RelID), r ∈ rels → targetOf w' e.id r.comp = some r.target
  /-- … and keep their other targets -/
  otherTargets : ∀ (e : Ent), e ∈ es → ∀ (c : Comp), (∀ (r : RelID), r ∈ rels → r.comp ≠ c) →
    targetOf w' e.id c = targetOf w e.id c
  /-- nobody else's targets change -/
  frame : ∀ (j : Nat), j ∉ es.map (·.id) → ∀ (c : Comp), targetOf w' j c = targetOf w j c
  obs : w'.obs = w.obs
  unlocked : w'.isLocked = w.isLocked
  kinds : w'.kinds = w.kinds
  entitiesLen : w'.entities.length = w.entities.length
  qk : QKeep w w'

theorem qkeep_withLocks (w : World) (l : Lock) : QKeep w ({ w with locks := l } : World) :=
  ⟨fun h => h, fun h => h.of_frame ⟨rfl, rfl, rfl, fun _ => rfl⟩, fun h => h⟩

/-- a relation the filter requires names a relation column of every table the filter matches -/
theorem relCols_of_typed {w : World} (hS : SInvMid w) {f : Filter} {rels : List RelID}
    (hr : RelsTyped w f rels) {t : Nat} (hlt : t < w.tables.length)
    (hm : f.matchesMask (w.arch (w.tbl t).arch).mask = true) : RelCols (w.tbl t) rels := by
  intro r hrm
  obtain ⟨i, hi, hi2⟩ := col_of_required hS (get_of_lt hlt) hm (hr r hrm).2
  exact ⟨i, hi, by rw [hi2]; exact (hr r hrm).1⟩

/-! ## 2. the batch -/

/-- **C06 + C04, `setRelationsBatch`**: on an unlocked world without observers satisfying `TInv`,
    for an uncached filter with typed relation constraints, a non-empty assignment `rels` naming
    no component twice, only relation columns of the non-empty tables the filter selects
    (`hcols`; implied by `RelsTyped w fo.filter rels`: `relCols_of_typed`), and only zero or
    alive targets: the batch never fails; `TInv` is kept; every entity keeps liveness, components and
    values; the selected entities have the targets named and keep their other targets; nobody
    else's targets change. -/
theorem setRelationsBatch_rel_spec (run : ProbeRunner) {w : World} {fl : List Nat} (h : TInv w fl)
    (hl : w.isLocked = false) (hno : ∀ (evt : Nat), w.obs.hasObservers evt = false)
    (fo : FilterObj) (extra : List RelID) (hc : fo.cache = none)
    (hr : RelsTyped w fo.filter (fo.rels ++ extra)) {rels : List RelID}
    (hne : rels.isEmpty = false) (hnd : (rels.map (·.comp)).Nodup)
    (hcols : ∀ (t : Nat), t < w.tables.length → TblMatch w fo.filter (fo.rels ++ extra) t →
      (w.tbl t).len ≠ 0 → RelCols (w.tbl t) rels)
    (hval : ∀ (r : RelID), r ∈ rels → r.target.isZero = true ∨ w.alive r.target = true)
    (htin : ∀ (r : RelID), r ∈ rels → r.target.id < w.pool.ents.length)
    {l1 l2 : Lock} {b : Nat} (hcyc : QueryExact.LockCycle w.locks l1 b l2) (hl2 : l2.isLocked = false)
    (hfew : 2 * w.tables.length ≤ maxU32) (hrows : 2 * w.entities.length < 2 ^ 32) :
    ∃ (ts : List Nat) (w' : World), getBatchTables fo extra w = .ok ts w ∧
      setRelationsBatch run fo extra rels false w = .ok () w' ∧
      SetRelAllPost w fl (ts.flatMap (rowsOf w)) rels w' ∧ w'.locks = l2 := by
  -- the locked world
  have h0 : TInv ({ w with locks := l1 } : World) fl := h.withLocks l1
  obtain ⟨ts, hts0, S0, hok0, hnf0⟩ := getBatchTables_rel h0 fo extra hc hr
  have hsame : getBatchTables fo extra w = .ok ts w := by
    have e1 := getBatchTables_uncached fo extra w hc
    have e0 := getBatchTables_uncached fo extra ({ w with locks := l1 } : World) hc
    rw [e0] at hts0
    have hg : ({ w with locks := l1 } : World).getCacheTables fo.filter (fo.rels ++ extra) =
        w.getCacheTables fo.filter (fo.rels ++ extra) := rfl
    rw [hg] at hts0
    rw [e1]
    cases hx : w.getCacheTables fo.filter (fo.rels ++ extra) with
    | none => rw [hx] at hts0; cases hts0
    | some l =>
      rw [hx] at hts0
      injection hts0 with e _
      rw [e]
  have S : TableSet w ts := ⟨S0.nodup, S0.lt⟩
  have hsel : ∀ (t : Nat), t ∈ ts → t < ({ w with locks := l1 } : World).tables.length ∧
      (({ w with locks := l1 } : World).tbl t).isFree = false ∧
      ((({ w with locks := l1 } : World).tbl t).len ≠ 0 →
        RelCols (({ w with locks := l1 } : World).tbl t) rels) := by
    intro t ht
    exact ⟨S0.lt t ht, hnf0 t ht, fun hlen => hcols t (S0.lt t ht) (hok0.sound t ht).2 hlen⟩
  have hinit : PrepInv rels ({ w with locks := l1 } : World) [] [] ({ w with locks := l1 } : World) :=
    { rel := h0.rel, idx := h0.link.idx, flags := h0.flags.upTo rels, freeEmpty := h0.freeEmpty
      qk := QKeep.refl _, entities := rfl, pool := rfl, isTarget := rfl, kinds := rfl, obs := rfl
      locks := rfl, maxComps := rfl, keepT := fun _ _ _ => rfl, tablesLe := Nat.le_refl _
      lenB := Nat.le_refl _, frame := fun _ => ⟨⟨fun _ => rfl, rfl⟩, fun _ => rfl⟩
      moves := fun _ hm => by cases hm
      srcNodup := List.nodup_nil
      srcDone := fun _ hm => by cases hm
      covered := fun _ hm => by cases hm }
  obtain ⟨moves, w1, hprep, hP⟩ := prepLoop_spec h0.freeEmpty hnd hval ts [] [] _ hinit S0.nodup
    (fun _ _ hm => by cases hm) hsel
  rw [List.nil_append] at hP
  have hno1 : ∀ (evt : Nat), w1.obs.hasObservers evt = false := by
    intro evt; rw [hP.obs]; exact hno evt
  have heq := setRelationsBatch_eq run fo extra rels w hl hne hcyc.lock hts0 hprep hno1
  -- the number of moves
  have hmlen : moves.length ≤ w.tables.length := by
    have := BatchRel.nodup_length_le_of_lt hP.srcNodup (n := w.tables.length) (by
      intro i hi
      obtain ⟨mv, hm, rfl⟩ := List.mem_map.1 hi
      exact (hP.moves mv hm).srcLt)
    rwa [List.length_map] at this
  have hfew1 : w1.tables.length ≤ maxU32 := by
    have := hP.lenB
    have : ({ w with locks := l1 } : World).tables.length = w.tables.length := rfl
    omega
  have hrows1 : 2 * w1.entities.length < 2 ^ 32 := by rw [hP.entities]; exact hrows
  have hM := moveLoop_spec hnd h0.rel.aux.rels h0.freeEmpty hP.keepT hP.idx hfew1 hrows1 moves
    hP.moves hP.srcNodup moves [] w1 rfl
    { idx := hP.idx, ms := MetaStep.refl w1, qk := QKeep.refl w1, freeEmpty := hP.freeEmpty
      pool := rfl, isTarget := rfl, obs := rfl, locks := rfl, maxComps := rfl
      idxSame := IdxSame.refl w1, same := fun _ => ⟨fun _ => rfl, rfl⟩
      srcKeep := fun _ _ => rfl
      entKeep := fun _ _ _ hj _ => hj
      tgtKeep := fun _ _ _ => rfl
      tgtMoved := fun _ _ _ _ _ hm => by cases hm }
  -- the final world
  have hlocks : (registerW (moves.foldl moveStepR w1) rels).locks.unlock b = some l2 := by
    show (moves.foldl moveStepR w1).locks.unlock b = some l2
    rw [hM.locks, hP.locks]; exact hcyc.unlock
  rw [unlock_ok hlocks] at heq
  refine ⟨ts, _, hsame, heq, ?_, rfl⟩
  have hal2 : ∀ (x : Ent), (moves.foldl moveStepR w1).alive x = w.alive x := by
    intro x
    show (moves.foldl moveStepR w1).pool.alive x = w.pool.alive x
    rw [hM.pool, hP.pool]
  have hvalid : ∀ (r : RelID), r ∈ rels → r.target.isZero = false →
      r.target.id < (moves.foldl moveStepR w1).isTarget.length := by
    intro r hr hz
    rcases hval r hr with k | k
    · rw [k] at hz; cases hz
    · rw [hM.isTarget, hP.isTarget]
      show r.target.id < w.isTarget.length
      rw [h.link.tgtLen]; exact h.link.lt_of_in (htin r hr)
  have link1 : PLink w1 fl := h0.link.transfer hP.idx hP.pool (IdxSame.of_eq hP.entities)
    (by rw [hP.isTarget]) hfew1
  have link2 : PLink (moves.foldl moveStepR w1) fl :=
    link1.transfer hM.idx hM.pool hM.idxSame (by rw [hM.isTarget]) (by rw [hM.ms.len]; exact hfew1)
  have rel2 : RelInv (moves.foldl moveStepR w1) :=
    hP.rel.of_metaStep hM.ms (fun x hx => by
      show (moves.foldl moveStepR w1).pool.alive x = true
      rw [hM.pool]; exact hx)
  have flags2 : FlagsOK (registerW (moves.foldl moveStepR w1) rels) :=
    (hP.flags.of_metaStep hM.ms (fun i hi => by rw [hM.isTarget]; exact hi)).register hvalid
  have htinv : TInv ({ registerW (moves.foldl moveStepR w1) rels with locks := l2 } : World) fl :=
    { rel := rel2.of_sameMeta rfl rfl rfl rfl rfl (fun _ _ => Table.SameMeta.refl _) (fun _ ha => ha)
      flags := flags2
      freeEmpty := hM.freeEmpty
      link := link2.congr (hM.idx.congr rfl rfl) rfl rfl (flagFold_length rels _) rfl
      kindsLe := by
        show (moves.foldl moveStepR w1).kinds.length ≤ (moves.foldl moveStepR w1).maxComps ∧
          (moves.foldl moveStepR w1).maxComps ≤ 256
        rw [hM.ms.kinds, hM.maxComps, hP.kinds, hP.maxComps]; exact h.kindsLe }
  -- entries of the selected entities
  have hentry : ∀ (e : Ent), e ∈ ts.flatMap (rowsOf w) → ∃ (t r : Nat), t ∈ ts ∧
      r < (w.tbl t).len ∧ w.entities[e.id]? = some (t, r) := by
    intro e he
    obtain ⟨t, r, ht, hr', rfl⟩ := mem_rows.mp he
    exact ⟨t, r, ht, hr', (h.link.row_live_id (S0.lt t ht) hr').2.2⟩
  have htm : ∀ (t : Nat), t < w.tables.length → t ≠ maxU32 := by
    intro t ht; have := h.link.fewTables; omega
  -- the targets of an entity of table `t ∈ ts`
  have hsel2 : ∀ (j t r : Nat), t ∈ ts → r < (w.tbl t).len → w.entities[j]? = some (t, r) →
      (∀ (r' : RelID), r' ∈ rels →
        targetOf (moves.foldl moveStepR w1) j r'.comp = some r'.target) ∧
      ∀ (c : Comp), (∀ (r' : RelID), r' ∈ rels → r'.comp ≠ c) →
        targetOf (moves.foldl moveStepR w1) j c = targetOf w j c := by
    intro j t r ht hrl hj
    have hlt := S0.lt t ht
    have hT := get_of_lt hlt
    have hne0 : (w.tbl t).len ≠ 0 := by omega
    have hcols : RelCols (w.tbl t) rels := (hsel t ht).2.2 hne0
    have htl : (w.tbl t).targets.length = (w.tbl t).ids.length :=
      (h.rel.aux.rels t _ hT (hnf0 t ht)).tlen
    have hj1 : w1.entities[j]? = some (t, r) := by rw [hP.entities]; exact hj
    have hw : ∀ (c : Comp), targetOf w j c = (w.tbl t).targetAt c :=
      fun c => targetOf_of_entry hj (htm t hlt) hT c
    by_cases hex : ∃ (mv : RelMove), mv ∈ moves ∧ mv.oldT = t
    · obtain ⟨mv, hm, he⟩ := hex
      have hmv := hP.moves mv hm
      have hmoved := hM.tgtMoved j t r hj1 mv hm he
      have hold : ({ w with locks := l1 } : World).tbl mv.oldT = w.tbl t := by rw [he]; rfl
      have hdI := hmv.dstIds; have hdR := hmv.dstIsRel; have hdT := hmv.dstTgt
      rw [hold] at hdI hdR hdT
      constructor
      · intro r' hr'
        obtain ⟨i, hi, hir⟩ := hcols r' hr'
        rw [hmoved, Table.targetAt_of_col (by simpa only [Table.colIdx, hdI] using hi)
          (by rw [hdR]; exact hir), hdT i hir, editT_named htl hnd hr' hi]
      · intro c hc
        rw [hmoved, hw]
        simp only [Table.targetAt, Table.colIdx, hdI, hdR]
        split
        · simp only [Option.bind_some]
          split
          · rename_i hlt' hir
            rw [hdT _ hir, editT_kept hc (by simp only [Table.colIdx, hlt', if_true])]
          · rfl
        · rfl
    · have hkeep : ∀ (c : Comp), targetOf (moves.foldl moveStepR w1) j c = targetOf w j c := by
        intro c
        rw [hM.tgtKeep j (fun t' r' hj' mv hm he => by
          rw [hj1] at hj'
          obtain ⟨rfl, _⟩ := Prod.mk.inj (Option.some.inj hj')
          exact hex ⟨mv, hm, he⟩) c, (hP.frame j).2 c]
        rfl
      refine ⟨fun r' hr' => ?_, fun c _ => hkeep c⟩
      rcases hP.covered t ht hne0 with ⟨mv, hm, he⟩ | hun
      · exact absurd ⟨mv, hm, he⟩ hex
      · obtain ⟨i, hi, hir⟩ := hcols r' hr'
        have hun' : editT (w.tbl t) rels = (w.tbl t).targets := hun
        rw [hkeep, hw, Table.targetAt_of_col hi hir, ← hun', editT_named htl hnd hr' hi]
  exact
    { tinv := htinv
      aliveSame := hal2
      same := fun j => ((hP.frame j).1.trans (hM.same j)).congr rfl rfl
      targets := by
        intro e he r' hr'
        obtain ⟨t, r, ht, hrl, hj⟩ := hentry e he
        exact (hsel2 e.id t r ht hrl hj).1 r' hr'
      otherTargets := by
        intro e he c hc
        obtain ⟨t, r, ht, hrl, hj⟩ := hentry e he
        exact (hsel2 e.id t r ht hrl hj).2 c hc
      frame := by
        intro j hj c
        show targetOf (moves.foldl moveStepR w1) j c = targetOf w j c
        rw [hM.tgtKeep j (fun t' r' hj' mv hm he => by
          rw [hP.entities] at hj'
          have hj'' : w.entities[j]? = some (t', r') := hj'
          have hts' : t' ∈ ts := he ▸ hP.srcDone mv hm
          exact hj ((mem_rows_ids_iff' h.link.idx S hj'' (htm t' (S0.lt t' hts'))).mpr hts')) c,
          (hP.frame j).2 c]
        rfl
      obs := by
        show (moves.foldl moveStepR w1).obs = w.obs
        rw [hM.obs, hP.obs]
      unlocked := by
        show l2.isLocked = w.locks.isLocked
        rw [hl2]; exact hl.symm
      kinds := by
        show (moves.foldl moveStepR w1).kinds = w.kinds
        rw [hM.ms.kinds, hP.kinds]
      entitiesLen := by
        show (moves.foldl moveStepR w1).entities.length = w.entities.length
        rw [hM.idxSame.len, hP.entities]
      qk := ((((qkeep_withLocks w l1).trans hP.qk).trans hM.qk).trans (registerW_qkeep _ rels)).trans
        (qkeep_withLocks _ l2) }

/-! ## 3. the singles -/

/-- `setRelations e rels` applied to the handles `l`, in order -/
def setRelSeq (run : ProbeRunner) (l : List Ent) (rels : List RelID) : W Unit :=
  M.forM' l (fun e => setRelationsCore run e rels)

/-- **the singles**: `setRelations` applied, in any order, to alive handles with distinct IDs
    that have the relation components named -/
theorem setRelSeq_post (run : ProbeRunner) {rels : List RelID} (hne : rels.isEmpty = false)
    (hnd : (rels.map (·.comp)).Nodup) : ∀ (l : List Ent) {w : World} {fl : List Nat},
    TInv w fl → w.isLocked = false → (∀ (evt : Nat), w.obs.hasObservers evt = false) →
    (∀ (e : Ent), e ∈ l → 2 ≤ e.id ∧ e.id ∉ fl ∧ w.alive e = true ∧
      ∀ (r : RelID), r ∈ rels → (targetOf w e.id r.comp).isSome = true) →
    (∀ (e : Ent), e ∈ l → e.id < w.pool.ents.length) →
    (l.map (·.id)).Nodup →
    (∀ (r : RelID), r ∈ rels → r.target.isZero = true ∨ w.alive r.target = true) →
    (∀ (r : RelID), r ∈ rels → r.target.id < w.pool.ents.length) →
    w.tables.length + l.length < maxU32 → w.entities.length + 1 < 2 ^ 32 →
    ∃ (w'' : World), setRelSeq run l rels w = .ok () w'' ∧ SetRelAllPost w fl l rels w''
  | [], w, fl, h, _, _, _, _, _, _, _, _, _ =>
    ⟨w, rfl,
      { tinv := h, aliveSame := fun _ => rfl, same := fun _ => ⟨fun _ => rfl, rfl⟩
        targets := by intro e he; cases he
        otherTargets := by intro e he; cases he
        frame := fun _ _ _ => rfl
        obs := rfl, unlocked := rfl, kinds := rfl, entitiesLen := rfl, qk := QKeep.refl w }⟩
  | e :: l, w, fl, h, hl, hno, hlive, hlin, hndi, hval, htin, hfew, hrows => by
    obtain ⟨h2, hnf, ha, hhas⟩ := hlive e List.mem_cons_self
    have hsl := hlin e List.mem_cons_self
    have hnd' : e.id ∉ l.map (·.id) ∧ (l.map (·.id)).Nodup := by
      rw [List.map_cons] at hndi; exact List.nodup_cons.mp hndi
    have hfew1 : w.tables.length < maxU32 := by simp only [List.length_cons] at hfew; omega
    obtain ⟨w1, hok⟩ := setRelationsCore_total run h hl hno h2 hnf ha hsl hne hnd hhas hval
    have sp := setRelationsCore_spec run h hl hno h2 hnf ha hsl hne hnd hhas htin hfew1 hrows hok
    have q1 := setRelationsCore_qkeep run h hl hno h2 hnf ha hsl hne hnd hhas hrows hok
    have hplen : w1.pool.ents.length = w.pool.ents.length := by
      rw [← sp.tinv.link.lenEq, sp.entitiesLen, h.link.lenEq]
    have hne' : ∀ (e' : Ent), e' ∈ l → e'.id ≠ e.id := by
      intro e' he' heq
      exact hnd'.1 (heq ▸ List.mem_map_of_mem he')
    have hlive1 : ∀ (e' : Ent), e' ∈ l → 2 ≤ e'.id ∧ e'.id ∉ fl ∧ w1.alive e' = true ∧
        ∀ (r : RelID), r ∈ rels → (targetOf w1 e'.id r.comp).isSome = true := by
      intro e' he'
      obtain ⟨a, b, c, d⟩ := hlive e' (List.mem_cons_of_mem _ he')
      refine ⟨a, b, by rw [sp.aliveSame]; exact c, fun r hr => ?_⟩
      rw [(sp.frame e'.id (hne' e' he')).2 r.comp]; exact d r hr
    obtain ⟨w'', hrest, ip⟩ := setRelSeq_post run hne hnd l sp.tinv
      (by show w1.locks.isLocked = false; rw [sp.locks]; exact hl)
      (fun evt => by rw [sp.obs]; exact hno evt) hlive1
      (fun e' he' => by rw [hplen]; exact hlin e' (List.mem_cons_of_mem _ he')) hnd'.2
      (fun r hr => by rw [sp.aliveSame]; exact hval r hr)
      (fun r hr => by rw [hplen]; exact htin r hr)
      (by have := sp.tablesLen; simp only [List.length_cons] at hfew; omega)
      (by rw [sp.entitiesLen]; exact hrows)
    refine ⟨w'', ?_, ?_⟩
    · simp only [setRelSeq, M.forM', bind, M.bind, hok]
      exact hrest
    · exact
        { tinv := ip.tinv
          aliveSame := fun x => (ip.aliveSame x).trans (sp.aliveSame x)
          same := by
            intro j
            by_cases hj : j = e.id
            · rw [hj]; exact sp.self.trans (ip.same e.id)
            · exact (sp.frame j hj).1.trans (ip.same j)
          targets := by
            intro e' he' r hr
            rcases List.mem_cons.mp he' with rfl | he'
            · rw [ip.frame e'.id hnd'.1]; exact sp.targets r hr
            · exact ip.targets e' he' r hr
          otherTargets := by
            intro e' he' c hc
            rcases List.mem_cons.mp he' with rfl | he'
            · rw [ip.frame e'.id hnd'.1]; exact sp.otherTargets c hc
            · rw [ip.otherTargets e' he' c hc]; exact (sp.frame e'.id (hne' e' he')).2 c
          frame := by
            intro j hj c
            simp only [List.map_cons, List.mem_cons, not_or] at hj
            rw [ip.frame j hj.2 c]; exact (sp.frame j hj.1).2 c
          obs := ip.obs.trans sp.obs
          unlocked := by
            rw [ip.unlocked]
            show w1.locks.isLocked = w.locks.isLocked
            rw [sp.locks]
          kinds := ip.kinds.trans sp.kinds
          entitiesLen := ip.entitiesLen.trans sp.entitiesLen
          qk := q1.trans ip.qk }

/-! ## 4. batch = singles -/

/-- two worlds obtained from `w` by assigning the same relations to the same entities (by the
    batch or one by one, in whatever order) are observationally equal: same liveness of every
    handle, same components, values and relation targets of every ID -/
theorem SetRelAllPost.obs_eq {w w' w'' : World} {fl : List Nat} {es es' : List Ent}
    {rels : List RelID} (p' : SetRelAllPost w fl es rels w') (p'' : SetRelAllPost w fl es' rels w'')
    (hmem : ∀ (e : Ent), e ∈ es ↔ e ∈ es') :
    (∀ (x : Ent), w'.alive x = w''.alive x) ∧
    (∀ (i : Nat) (c : Comp), valOf w' i c = valOf w'' i c) ∧
    (∀ (i : Nat), compsOf w' i = compsOf w'' i) ∧
    (∀ (i : Nat) (c : Comp), targetOf w' i c = targetOf w'' i c) ∧
    w'.isLocked = w''.isLocked ∧ w'.kinds = w''.kinds := by
  have hids : ∀ (i : Nat), i ∈ es.map (·.id) ↔ i ∈ es'.map (·.id) := by
    intro i
    simp only [List.mem_map]
    exact ⟨fun ⟨e, he, hi⟩ => ⟨e, (hmem e).mp he, hi⟩, fun ⟨e, he, hi⟩ => ⟨e, (hmem e).mpr he, hi⟩⟩
  refine ⟨fun x => by rw [p'.aliveSame, p''.aliveSame],
    fun i c => by rw [(p'.same i).1 c, (p''.same i).1 c],
    fun i => by rw [(p'.same i).2, (p''.same i).2], ?_,
    by rw [p'.unlocked, p''.unlocked], by rw [p'.kinds, p''.kinds]⟩
  intro i c
  by_cases hx : i ∈ es.map (·.id)
  · obtain ⟨e, he, hi⟩ := List.mem_map.mp hx
    subst hi
    by_cases hc : ∃ (r : RelID), r ∈ rels ∧ r.comp = c
    · obtain ⟨r, hr, rfl⟩ := hc
      rw [p'.targets e he r hr, p''.targets e ((hmem e).mp he) r hr]
    · have hc' : ∀ (r : RelID), r ∈ rels → r.comp ≠ c := fun r hr he' => hc ⟨r, hr, he'⟩
      rw [p'.otherTargets e he c hc', p''.otherTargets e ((hmem e).mp he) c hc']
  · rw [p'.frame i hx c, p''.frame i (fun hh => hx ((hids _).mpr hh)) c]

/-- **C06 + C04, `setRelationsBatch` = the fold of `setRelations`**: for a valid call (see
    `setRelationsBatch_rel_spec`) on a world whose rows hold alive handles, the batch selects
    exactly the alive entities that match; the batch and `setRelations` applied to these handles
    one by one in ANY order both succeed, both satisfy `SetRelAllPost`, and give the same
    liveness, components, values and relation targets for every ID. -/
theorem setRelationsBatch_eq_singles (run : ProbeRunner) {w : World} {fl : List Nat} (h : TInv w fl)
    (hR : RowsAlive w) (hl : w.isLocked = false)
    (hno : ∀ (evt : Nat), w.obs.hasObservers evt = false)
    (fo : FilterObj) (extra : List RelID) (hc : fo.cache = none)
    (hr : RelsTyped w fo.filter (fo.rels ++ extra)) {rels : List RelID}
    (hne : rels.isEmpty = false) (hnd : (rels.map (·.comp)).Nodup)
    (hcols : ∀ (t : Nat), t < w.tables.length → TblMatch w fo.filter (fo.rels ++ extra) t →
      (w.tbl t).len ≠ 0 → RelCols (w.tbl t) rels)
    (hval : ∀ (r : RelID), r ∈ rels → r.target.isZero = true ∨ w.alive r.target = true)
    (htin : ∀ (r : RelID), r ∈ rels → r.target.id < w.pool.ents.length)
    {l1 l2 : Lock} {b : Nat} (hcyc : QueryExact.LockCycle w.locks l1 b l2) (hl2 : l2.isLocked = false)
    (hfew : 2 * w.tables.length ≤ maxU32) (hrows : 2 * w.entities.length < 2 ^ 32) :
    ∃ (ts : List Nat) (w' : World), getBatchTables fo extra w = .ok ts w ∧
      (∀ (e : Ent), e ∈ ts.flatMap (rowsOf w) ↔
        w.alive e = true ∧ EntMatches w fo.filter (fo.rels ++ extra) e.id) ∧
      setRelationsBatch run fo extra rels false w = .ok () w' ∧
      SetRelAllPost w fl (ts.flatMap (rowsOf w)) rels w' ∧
      ∀ (es' : List Ent), es'.Perm (ts.flatMap (rowsOf w)) →
        w.tables.length + es'.length < maxU32 →
        ∃ (w'' : World), setRelSeq run es' rels w = .ok () w'' ∧ SetRelAllPost w fl es' rels w'' ∧
          (∀ (x : Ent), w'.alive x = w''.alive x) ∧
          (∀ (i : Nat) (c : Comp), valOf w' i c = valOf w'' i c) ∧
          (∀ (i : Nat), compsOf w' i = compsOf w'' i) ∧
          (∀ (i : Nat) (c : Comp), targetOf w' i c = targetOf w'' i c) ∧
          w'.isLocked = w''.isLocked := by
  obtain ⟨ts, w', hts, hb, pb, _⟩ := setRelationsBatch_rel_spec run h hl hno fo extra hc hr hne hnd hcols
    hval htin hcyc hl2 hfew hrows
  obtain ⟨ts2, hts2, S, hok, _⟩ := getBatchTables_rel h fo extra hc hr
  rw [hts] at hts2
  injection hts2 with e1 _
  subst e1
  have hsel := mem_rows_iff_matches h hR hok
  refine ⟨ts, w', hts, hsel, hb, pb, ?_⟩
  intro es' hperm hfew'
  have u := removeTablesW_link h.link hR S
  have hlive : ∀ (e : Ent), e ∈ es' → 2 ≤ e.id ∧ e.id ∉ fl ∧ w.alive e = true ∧
      ∀ (r : RelID), r ∈ rels → (targetOf w e.id r.comp).isSome = true := by
    intro e he
    have he' := hperm.mem_iff.mp he
    refine ⟨(u.live e he').1, (u.live e he').2.1, (u.live e he').2.2.1, fun r hrr => ?_⟩
    obtain ⟨t, r0, ht, hr0, rfl⟩ := mem_rows.mp he'
    have hlt := S.lt t ht
    have hx := (h.link.row_live_id hlt hr0).2.2
    have htm : t ≠ maxU32 := by have := h.link.fewTables; omega
    obtain ⟨i, hi, hir⟩ := hcols t hlt (hok.sound t ht).2 (by omega) r hrr
    rw [targetOf_of_entry hx htm (get_of_lt hlt), Table.targetAt_of_col hi hir]; rfl
  have hndi : (es'.map (·.id)).Nodup := (hperm.map (·.id)).nodup_iff.mpr u.idsNodup
  have hlin : ∀ (e : Ent), e ∈ es' → e.id < w.pool.ents.length := by
    intro e he
    obtain ⟨t, r, _, hx⟩ := (u.live e (hperm.mem_iff.mp he)).2.2.2
    rw [← h.link.lenEq]; exact (List.getElem?_eq_some_iff.mp hx).1
  obtain ⟨w'', hs, ps⟩ := setRelSeq_post run hne hnd es' h hl hno hlive hlin hndi hval htin hfew'
    (by omega)
  obtain ⟨o1, o2, o3, o4, o5, _⟩ := pb.obs_eq ps (fun e => hperm.mem_iff.symm)
  exact ⟨w'', hs, ps, o1, o2, o3, o4, o5⟩

end Ark
