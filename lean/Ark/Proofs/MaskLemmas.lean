/-
  Ark.Proofs.MaskLemmas — the set-level view of `Mask` (BitVec 256): every operation is
  characterised by what it does to `get`.  Kernel-only.
-/
import Ark.Model.Mask

namespace Ark
namespace Mask

@[simp] theorem get_empty (c : Nat) : empty.get c = false := by
  simp [empty, get]

theorem get_ge (m : Mask) (c : Nat) (h : 256 ≤ c) : m.get c = false := by
  simp only [get]
  exact BitVec.getLsbD_of_ge m c h

theorem get_bit (b c : Nat) : (bit b).get c = (decide (c < 256) && decide (c = b)) := by
  simp only [bit, get, BitVec.getLsbD_shiftLeft, BitVec.getLsbD_one]
  by_cases h1 : c < 256
  · by_cases h2 : c = b
    · subst h2; simp [h1]
    · by_cases h3 : c < b
      · simp [h1, h2, h3]
      · have : c - b ≠ 0 := by omega
        simp [h1, h2, h3, this]
  · simp [h1]

theorem get_set (m : Mask) (b c : Nat) :
    (m.set b).get c = (m.get c || (decide (c < 256) && decide (c = b))) := by
  simp only [set, get, BitVec.getLsbD_or]
  rw [show (bit b).getLsbD c = (bit b).get c from rfl, get_bit]

theorem get_clear (m : Mask) (b c : Nat) :
    (m.clear b).get c = (m.get c && !(decide (c = b))) := by
  simp only [clear, get, BitVec.getLsbD_and, BitVec.getLsbD_not]
  rw [show (bit b).getLsbD c = (bit b).get c from rfl, get_bit]
  by_cases h1 : c < 256
  · by_cases h2 : c = b
    · subst h2; simp [h1]
    · simp [h1, h2]
  · have : m.getLsbD c = false := BitVec.getLsbD_of_ge m c (by omega)
    simp [h1, this]

theorem get_or (a b : Mask) (c : Nat) : (a.or b).get c = (a.get c || b.get c) := by
  simp [or, get, BitVec.getLsbD_or]

theorem get_not (a : Mask) (c : Nat) : a.not.get c = (decide (c < 256) && !a.get c) := by
  simp [not, get, BitVec.getLsbD_not]

/-- extensionality through `get` -/
theorem ext_get (a b : Mask) (h : ∀ c, c < 256 → a.get c = b.get c) : a = b := by
  apply BitVec.eq_of_getLsbD_eq
  intro i hi
  exact h i hi

theorem isZero_iff (m : Mask) : m.isZero = true ↔ ∀ c, m.get c = false := by
  simp only [isZero, beq_iff_eq]
  constructor
  · intro h c; subst h; simp [get]
  · intro h
    apply ext_get
    intro c _
    rw [h c]; simp [get]

/-- `b.Contains(o)` ⇔ `o ⊆ b`. -/
theorem contains_iff (b o : Mask) : b.contains o = true ↔ ∀ c, o.get c = true → b.get c = true := by
  simp only [contains, beq_iff_eq]
  constructor
  · intro h c hc
    have : (b &&& o).getLsbD c = o.getLsbD c := by rw [h]
    simp only [BitVec.getLsbD_and] at this
    simp only [get] at hc ⊢
    rw [hc] at this
    simpa using this
  · intro h
    apply BitVec.eq_of_getLsbD_eq
    intro i _
    simp only [BitVec.getLsbD_and]
    cases ho : o.getLsbD i with
    | false => simp
    | true => have := h i ho; simp only [get] at this; simp [this]

/-- `b.ContainsAny(o)` ⇔ `b ∩ o ≠ ∅`. -/
theorem containsAny_iff (b o : Mask) : b.containsAny o = true ↔ ∃ c, b.get c = true ∧ o.get c = true := by
  simp only [containsAny, bne_iff_ne, ne_eq]
  constructor
  · intro h
    apply Classical.byContradiction
    intro hne
    apply h
    apply BitVec.eq_of_getLsbD_eq
    intro i _
    simp only [BitVec.getLsbD_and]
    cases hb : b.getLsbD i with
    | false => simp
    | true =>
      cases ho : o.getLsbD i with
      | false => simp
      | true => exact absurd ⟨i, hb, ho⟩ hne
  · rintro ⟨c, hb, ho⟩ h
    have : (b &&& o).getLsbD c = (0#256).getLsbD c := by rw [h]
    simp only [BitVec.getLsbD_and, get] at this hb ho
    rw [hb, ho] at this
    simp at this

theorem containsAny_false_iff (b o : Mask) :
    b.containsAny o = false ↔ ∀ c, b.get c = true → o.get c = false := by
  rw [← Bool.not_eq_true, containsAny_iff]
  constructor
  · intro h c hb
    cases ho : o.get c with
    | false => rfl
    | true => exact absurd ⟨c, hb, ho⟩ h
  · rintro h ⟨c, hb, ho⟩
    rw [h c hb] at ho; cases ho

theorem get_ofList_foldl (cs : List Nat) (m : Mask) (c : Nat) :
    (cs.foldl set m).get c = (m.get c || (decide (c < 256) && decide (c ∈ cs))) := by
  induction cs generalizing m with
  | nil => simp
  | cons x xs ih =>
    simp only [List.foldl_cons, ih, get_set, List.mem_cons]
    by_cases h1 : c < 256
    · by_cases h2 : c = x
      · subst h2; simp [h1]
      · by_cases h3 : c ∈ xs <;> simp [h1, h2, h3]
    · simp [h1]

theorem get_ofList (cs : List Nat) (c : Nat) :
    (ofList cs).get c = (decide (c < 256) && decide (c ∈ cs)) := by
  simp [ofList, get_ofList_foldl]

theorem mem_toList (m : Mask) (n c : Nat) : c ∈ m.toList n ↔ c < n ∧ m.get c = true := by
  simp [toList, List.mem_filter, List.mem_range]

end Mask

namespace Filter

/-- `filter.matches` at the set level: all required components present, no excluded one. -/
theorem matchesMask_iff (f : Filter) (m : Mask) :
    f.matchesMask m = true ↔
      (∀ c, f.mask.get c = true → m.get c = true) ∧
      (f.hasWithout = true → ∀ c, m.get c = true → f.without.get c = false) := by
  simp only [matchesMask, Bool.and_eq_true, Bool.or_eq_true, Bool.not_eq_true', Mask.contains_iff]
  constructor
  · rintro ⟨h1, h2⟩
    refine ⟨h1, fun hw => ?_⟩
    rcases h2 with h2 | h2
    · rw [hw] at h2; cases h2
    · exact (Mask.containsAny_false_iff _ _).mp h2
  · rintro ⟨h1, h2⟩
    refine ⟨h1, ?_⟩
    cases hw : f.hasWithout with
    | false => left; rfl
    | true => right; exact (Mask.containsAny_false_iff _ _).mpr (h2 hw)

/-- `Exclusive`: matches exactly the masks equal to the filter's mask. -/
theorem exclusive_matches_iff (f : Filter) (m : Mask) :
    f.exclusive.matchesMask m = true ↔ m = f.mask := by
  rw [matchesMask_iff]
  simp only [exclusive, Mask.get_not]
  constructor
  · rintro ⟨h1, h2⟩
    apply Mask.ext_get
    intro c hc
    cases hm : m.get c with
    | true =>
      have := h2 trivial c hm
      simp [hc] at this
      exact this.symm
    | false =>
      cases hf : f.mask.get c with
      | false => rfl
      | true => rw [h1 c hf] at hm; cases hm
  · rintro rfl
    refine ⟨fun _ h => h, fun _ c hc => ?_⟩
    simp [hc]

end Filter
end Ark
