/-
  Ark.Proofs.BatchExchange — C06 at world level, part 3: `exchangeBatch` (the add / remove /
  exchange batches) — pure form of the operation and the effect of moving one table.

  Since the repair of defect D27 the batch takes the world lock only AFTER the lookup loop
  (`findLoop`): `exchangeBatch_eq_planFirst` is the operation in the order in which it runs
  (table selection, lookup loop, `Lock`, move loop, `Unlock`).  The lookup loop and the table
  selection neither read nor write the lock (`frames_findLoop`, `frames_getBatchTables`), so the
  batch is ALSO what it was before the repair on every run that passes the lookup loop —
  `exchangeBatch_eq`: `Lock`, table selection, lookup loop, move loop, `Unlock` — which is the
  form the specifications downstream are proved from.  The two orders differ exactly when the
  lookup loop panics (`exchangeBatch_findLoop_panic`: the world is left with the lock as it was).
-/
import Ark.Proofs.BatchRemove
import Ark.Proofs.CallbacksFrame
set_option autoImplicit false
namespace Ark
open World Ark.Props.C01World
namespace World

/-! ## 1. `exchangeTable`, `exchangeBatch` as pure functions -/

/-- re-index row `i` of the source table `O` to row `start + i` of `newT` -/
def exIdxStep (O : Table) (newT start : Nat) (w : World) (i : Nat) : World :=
  { w with entities := w.entities.set (O.getEntity i).id (newT, start + i) }

/-- the state change of `exchangeTable oldT newT []` -/
def exchangeTableW (w : World) (oldT newT : Nat) : World :=
  let O := w.tbl oldT
  let mask := (w.arch (w.tbl newT).arch).mask
  let start := (w.tbl newT).len
  let count := O.len
  let w1 := (List.range count).foldl (exIdxStep O newT start) w
  let w2 := w1.modTbl newT fun N => N.addAllEntities O count
  let w3 := w2.modTbl newT fun N =>
    O.ids.foldl (fun N c => if mask.get c then N.copyToEnd c O count else N) N
  w3.modTbl oldT Table.reset

theorem exchangeTable_eq (oldT newT : Nat) (w : World) :
    exchangeTable oldT newT [] w = .ok ((w.tbl newT).len, (w.tbl oldT).len) (exchangeTableW w oldT newT) :=
  rfl

/-- one iteration of the second loop of `exchangeBatch`: move the table, run the callback on the
    moved rows -/
def moveStep (vals : Option (List (Comp × Val))) (w : World) (b : BatchTable) : World :=
  match vals with
  | some vs => batchFnW (exchangeTableW w b.oldT b.newT) b.newT (w.tbl b.newT).len (w.tbl b.oldT).len vs
  | none => exchangeTableW w b.oldT b.newT

/-- the first loop of `exchangeBatch`: look up / create the destination of every non-empty
    selected table -/
def findLoop (add rem : List Comp) : List Nat → Bool × List BatchTable → W (Bool × List BatchTable)
  | [], s => pure s
  | t :: ts, s => fun w =>
    if ((w.tbl t).len == 0) = true then findLoop add rem ts s w
    else
      match findOrCreateTable t (w.arch (w.tbl t).arch).mask add rem [] w with
      | .ok x w' =>
        findLoop add rem ts
          (if x.2.2.2 = true then (true, s.2 ++ [{ oldT := t, newT := x.1, len := (w.tbl t).len }])
            else (s.1, s.2 ++ [{ oldT := t, newT := x.1, len := (w.tbl t).len }])) w'
      | .panic k w' => .panic k w'

/-- a `for` loop whose body always continues and is a pure state update (the loop variable may
    change) runs to completion -/
theorem forIn_fold_exists {σ α : Type} (f : World → α → World) (g : α → σ → W (ForInStep σ))
    (hg : ∀ (a : α) (s : σ) (w : World), ∃ s', g a s w = .ok (ForInStep.yield s') (f w a)) :
    ∀ (l : List α) (s : σ) (w : World), ∃ s', (forIn l s g : W σ) w = .ok s' (l.foldl f w)
  | [], s, w => ⟨s, rfl⟩
  | a :: l, s, w => by
    obtain ⟨s1, h1⟩ := hg a s w
    obtain ⟨s2, h2⟩ := forIn_fold_exists f g hg l s1 (f w a)
    exact ⟨s2, by rw [List.forIn_cons, M.bind_apply, h1]; exact h2⟩

theorem exchangeTableW_obs (w : World) (oldT newT : Nat) : (exchangeTableW w oldT newT).obs = w.obs :=
  foldl_keep' (·.obs) (exIdxStep (w.tbl oldT) newT (w.tbl newT).len) (fun _ _ => rfl) _ _

theorem exchangeTableW_locks (w : World) (oldT newT : Nat) :
    (exchangeTableW w oldT newT).locks = w.locks :=
  foldl_keep' (·.locks) (exIdxStep (w.tbl oldT) newT (w.tbl newT).len) (fun _ _ => rfl) _ _

theorem moveStep_obs (vals : Option (List (Comp × Val))) (w : World) (b : BatchTable) :
    (moveStep vals w b).obs = w.obs := by
  cases vals with
  | none => exact exchangeTableW_obs w _ _
  | some vs => simp only [moveStep, batchFnW_obs, exchangeTableW_obs]

theorem moveStep_locks (vals : Option (List (Comp × Val))) (w : World) (b : BatchTable) :
    (moveStep vals w b).locks = w.locks := by
  cases vals with
  | none => exact exchangeTableW_locks w _ _
  | some vs => simp only [moveStep, batchFnW_locks, exchangeTableW_locks]

theorem foldl_moveStep_obs (vals : Option (List (Comp × Val))) :
    ∀ (bts : List BatchTable) (w : World), (bts.foldl (moveStep vals) w).obs = w.obs
  | [], _ => rfl
  | b :: bts, w => by rw [List.foldl_cons, foldl_moveStep_obs vals bts, moveStep_obs]

theorem foldl_moveStep_locks (vals : Option (List (Comp × Val))) :
    ∀ (bts : List BatchTable) (w : World), (bts.foldl (moveStep vals) w).locks = w.locks
  | [], _ => rfl
  | b :: bts, w => by rw [List.foldl_cons, foldl_moveStep_locks vals bts, moveStep_locks]

/-- the first loop of `exchangeBatch` is `findLoop` -/
theorem forIn_findLoop (add rem : List Comp) : ∀ (ts : List Nat) (s : Bool × List BatchTable)
    (w : World),
    (forIn ts s (fun t (__s : Bool × List BatchTable) => (do
      let w ← (M.get : W World)
      if ((w.tbl t).len == 0) = true then pure (ForInStep.yield (__s.fst, __s.snd))
      else do
        let __x ← findOrCreateTable t (w.arch (w.tbl t).arch).mask add rem []
        if __x.2.2.snd = true then
          pure (ForInStep.yield (true, __s.snd ++ [{ oldT := t, newT := __x.fst, len := (w.tbl t).len }]))
        else
          pure (ForInStep.yield (__s.fst, __s.snd ++ [{ oldT := t, newT := __x.fst, len := (w.tbl t).len }]))
      : W (ForInStep (Bool × List BatchTable)))) : W (Bool × List BatchTable)) w =
    findLoop add rem ts s w
  | [], _, _ => rfl
  | t :: ts, s, w => by
    rw [List.forIn_cons, M.bind_apply, M.bind_apply, M.get_apply]
    simp only [findLoop]
    cases h0 : ((w.tbl t).len == 0) with
    | true =>
      simp only [if_true, M.pure_apply]
      exact forIn_findLoop add rem ts _ w
    | false =>
      simp only [Bool.false_eq_true, if_false, M.bind_apply]
      cases hf : findOrCreateTable t (w.arch (w.tbl t).arch).mask add rem [] w with
      | panic k w' => rfl
      | ok x w' =>
        simp only
        cases hx : x.2.2.2 with
        | true =>
          simp only [if_true, M.pure_apply]
          exact forIn_findLoop add rem ts _ w'
        | false =>
          simp only [Bool.false_eq_true, if_false, M.pure_apply]
          exact forIn_findLoop add rem ts _ w'

theorem loop2_none (bts : List BatchTable) (s : List BatchTable) (w : World) :
    ∃ s', (forIn bts s (fun (b : BatchTable) (__s : List BatchTable) => (do
      let __x ← exchangeTable b.oldT b.newT []
      pure (ForInStep.yield
        (__s ++ [{ oldT := b.oldT, newT := b.newT, start := __x.fst, len := __x.snd }]))
      : W (ForInStep (List BatchTable)))) : W (List BatchTable)) w =
      .ok s' (bts.foldl (moveStep none) w) :=
  forIn_fold_exists (moveStep none) _ (fun b s w =>
    ⟨s ++ [BatchTable.mk b.oldT b.newT (w.tbl b.newT).len (w.tbl b.oldT).len],
      by simp only [M.bind_apply, exchangeTable_eq, M.pure_apply, moveStep]⟩) bts s w

theorem loop2_some (vs : List (Comp × Val)) (bts : List BatchTable) (s : List BatchTable) (w : World) :
    ∃ s', (forIn bts s (fun (b : BatchTable) (__s : List BatchTable) => (do
      let __x ← exchangeTable b.oldT b.newT []
      batchFn b.newT __x.fst __x.snd vs
      pure (ForInStep.yield
        (__s ++ [{ oldT := b.oldT, newT := b.newT, start := __x.fst, len := __x.snd }]))
      : W (ForInStep (List BatchTable)))) : W (List BatchTable)) w =
      .ok s' (bts.foldl (moveStep (some vs)) w) :=
  forIn_fold_exists (moveStep (some vs)) _ (fun b s w =>
    ⟨s ++ [BatchTable.mk b.oldT b.newT (w.tbl b.newT).len (w.tbl b.oldT).len],
      by simp only [M.bind_apply, exchangeTable_eq, batchFn_eq, M.pure_apply, moveStep]⟩) bts s w

/-- registering no target changes nothing (the registration `exchangeBatch` performs after the
    lookup loop, in a world without relations) -/
theorem registerTargets_nil_apply (w : World) : registerTargets [] w = .ok () w := rfl

/-- the lookup loop neither reads nor writes observers, log and lock -/
theorem frames_findLoop (add rem : List Comp) : ∀ (ts : List Nat) (s : Bool × List BatchTable),
    Frames (findLoop add rem ts s)
  | [], s => Frames.pure s
  | t :: ts, s => by
    intro w o lg lk
    simp only [findLoop]
    have h1 : (w.reframe o lg lk).tbl t = w.tbl t := rfl
    have h2 : ∀ a, (w.reframe o lg lk).arch a = w.arch a := fun _ => rfl
    rw [h1, h2]
    split
    · exact frames_findLoop add rem ts s w o lg lk
    · rw [frames_findOrCreateTable t _ add rem [] w o lg lk]
      cases findOrCreateTable t (w.arch (w.tbl t).arch).mask add rem [] w with
      | panic k s' => rfl
      | ok x w' => exact frames_findLoop add rem ts _ w' o lg lk

/-- without observers, `exchangeBatch` (no relations) is — in the order in which it runs since the
    repair of defect D27 —: the table selection, the lookup loop, (`registerTargets []`: nothing
    to register without relations,) `Lock`, the move loop (with the callback), `Unlock` -/
theorem exchangeBatch_eq_planFirst (run : ProbeRunner) (fo : FilterObj) (extra : List RelID)
    (add rem : List Comp) (vals : Option (List (Comp × Val))) (w : World) (hl : w.isLocked = false)
    (hne : (add.isEmpty && rem.isEmpty) = false) {ts : List Nat}
    (hts : getBatchTables fo extra w = .ok ts w)
    {rr : Bool} {bts : List BatchTable} {w1 : World}
    (hfind : findLoop add rem ts (false, []) w = .ok (rr, bts) w1)
    {l' : Lock} {b : Nat} (hlk : w1.locks.lock = some (l', b))
    (hno : ∀ evt : Nat, w1.obs.hasObservers evt = false) :
    exchangeBatch run fo extra add rem [] vals w =
      unlock b (bts.foldl (moveStep vals) { w1 with locks := l' }) := by
  have hno1 : ∀ evt : Nat, ({ w1 with locks := l' } : World).obs.hasObservers evt = false := hno
  have hno2 : ∀ evt : Nat,
      (bts.foldl (moveStep vals) { w1 with locks := l' }).obs.hasObservers evt = false := by
    intro evt; rw [foldl_moveStep_obs]; exact hno evt
  cases vals with
  | none =>
    obtain ⟨s2, h2⟩ := loop2_none bts [] { w1 with locks := l' }
    cases hr : rem.isEmpty <;> cases ha : add.isEmpty <;> rw [hr, ha] at hne <;>
    first
    | exact absurd hne (by decide)
    | (unfold exchangeBatch
       simp only [M.bind_apply, checkLocked_unlocked w hl, M.assert_apply, hr, ha, Bool.and_self,
        Bool.and_false, Bool.false_and, Bool.not_false, Bool.not_true, if_true, hts,
        forIn_findLoop, hfind, registerTargets_nil_apply, lock_ok hlk, M.get_apply, hno1, Bool.false_eq_true, if_false, h2,
        hno2])
  | some vs =>
    obtain ⟨s2, h2⟩ := loop2_some vs bts [] { w1 with locks := l' }
    cases hr : rem.isEmpty <;> cases ha : add.isEmpty <;> rw [hr, ha] at hne <;>
    first
    | exact absurd hne (by decide)
    | (unfold exchangeBatch
       simp only [M.bind_apply, checkLocked_unlocked w hl, M.assert_apply, hr, ha, Bool.and_self,
        Bool.and_false, Bool.false_and, Bool.not_false, Bool.not_true, if_true, hts,
        forIn_findLoop, hfind, registerTargets_nil_apply, lock_ok hlk, M.get_apply, hno1, Bool.false_eq_true, if_false, h2,
        hno2])

/-- when the lookup loop panics, `exchangeBatch` panics with the same class and the same state:
    the lock has not been taken (the repair of defect D27) -/
theorem exchangeBatch_findLoop_panic (run : ProbeRunner) (fo : FilterObj) (extra : List RelID)
    (add rem : List Comp) (vals : Option (List (Comp × Val))) (w : World) (hl : w.isLocked = false)
    (hne : (add.isEmpty && rem.isEmpty) = false) {ts : List Nat}
    (hts : getBatchTables fo extra w = .ok ts w) {k : PanicKind} {w1 : World}
    (hfind : findLoop add rem ts (false, []) w = .panic k w1) :
    exchangeBatch run fo extra add rem [] vals w = .panic k w1 := by
  cases hr : rem.isEmpty <;> cases ha : add.isEmpty <;> rw [hr, ha] at hne <;>
  first
  | exact absurd hne (by decide)
  | (unfold exchangeBatch
     simp only [M.bind_apply, checkLocked_unlocked w hl, M.assert_apply, hr, ha, Bool.and_self,
      Bool.and_false, Bool.false_and, Bool.not_false, Bool.not_true, if_true, hts,
      forIn_findLoop, hfind])

/-- without observers, `exchangeBatch` (no relations) is: `Lock`, the table selection, the lookup
    loop, the move loop (with the callback), `Unlock` — the order before the repair of defect D27;
    still an equation of the repaired operation, because the table selection and the lookup loop
    neither read nor write the lock (`exchangeBatch_eq_planFirst` is the order in which the
    operation runs) -/
theorem exchangeBatch_eq (run : ProbeRunner) (fo : FilterObj) (extra : List RelID)
    (add rem : List Comp) (vals : Option (List (Comp × Val))) (w : World) (hl : w.isLocked = false)
    (hne : (add.isEmpty && rem.isEmpty) = false) {l' : Lock} {b : Nat}
    (hlk : w.locks.lock = some (l', b)) {ts : List Nat}
    (hts : getBatchTables fo extra { w with locks := l' } = .ok ts { w with locks := l' })
    {rr : Bool} {bts : List BatchTable} {w1 : World}
    (hfind : findLoop add rem ts (false, []) { w with locks := l' } = .ok (rr, bts) w1)
    (hno : ∀ evt : Nat, w1.obs.hasObservers evt = false) :
    exchangeBatch run fo extra add rem [] vals w = unlock b (bts.foldl (moveStep vals) w1) := by
  have hts' : getBatchTables fo extra w = .ok ts w :=
    ((frames_getBatchTables fo extra).of_reframe_ok (w := w) (o := w.obs) (lg := w.log) (lk := l')
      hts).1
  obtain ⟨hfind', hw1⟩ := (frames_findLoop add rem ts (false, [])).of_reframe_ok
    (w := w) (o := w.obs) (lg := w.log) (lk := l') hfind
  have hlocks : (w1.reframe w.obs w.log w.locks).locks.lock = some (l', b) := hlk
  have hobs : w1.obs = w.obs := congrArg (·.obs) hw1
  have hno' : ∀ evt : Nat, (w1.reframe w.obs w.log w.locks).obs.hasObservers evt = false :=
    fun evt => by rw [← hobs]; exact hno evt
  have := exchangeBatch_eq_planFirst run fo extra add rem vals w hl hne hts' hfind' hlocks hno'
  rw [this]
  have e : ({ w1.reframe w.obs w.log w.locks with locks := l' } : World) = w1 := hw1.symm
  rw [e]

end World

/-! ## 2. moving one table: columns, index -/

namespace Table

/-- the column copies of `exchangeTable`: every component of `O` that the new mask keeps is copied
    to the last `count` rows of `N` -/
def copyCols (O : Table) (mask : Mask) (count : Nat) (l : List Comp) (N : Table) : Table :=
  l.foldl (fun N c => if mask.get c then N.copyToEnd c O count else N) N

theorem copyToEnd_sameMeta (t : Table) (c : Comp) (src : Table) (count : Nat) :
    SameMeta t (t.copyToEnd c src count) := by
  simp only [copyToEnd]
  split
  · split
    · exact SameMeta.refl t
    · exact ⟨rfl, rfl, rfl, rfl, rfl, rfl, rfl, rfl⟩
  · exact SameMeta.refl t

theorem copyToEnd_len (t : Table) (c : Comp) (src : Table) (count : Nat) :
    (t.copyToEnd c src count).len = t.len := by
  simp only [copyToEnd]
  split
  · split <;> rfl
  · rfl

theorem copyToEnd_ents (t : Table) (c : Comp) (src : Table) (count : Nat) :
    (t.copyToEnd c src count).ents = t.ents := by
  simp only [copyToEnd]
  split
  · split <;> rfl
  · rfl

theorem copyToEnd_cap (t : Table) (c : Comp) (src : Table) (count : Nat) :
    (t.copyToEnd c src count).cap = t.cap := by
  simp only [copyToEnd]
  split
  · split <;> rfl
  · rfl

/-- what the column copies keep -/
structure CopyRel (N N' : Table) : Prop where
  sm : SameMeta N N'
  len : N'.len = N.len
  ents : N'.ents = N.ents
  cap : N'.cap = N.cap

theorem CopyRel.refl (N : Table) : CopyRel N N := ⟨SameMeta.refl N, rfl, rfl, rfl⟩

theorem CopyRel.trans {A B C : Table} (h1 : CopyRel A B) (h2 : CopyRel B C) : CopyRel A C :=
  ⟨h1.sm.trans h2.sm, h2.len.trans h1.len, h2.ents.trans h1.ents, h2.cap.trans h1.cap⟩

theorem copyCols_rel (O : Table) (mask : Mask) (count : Nat) : ∀ (l : List Comp) (N : Table),
    CopyRel N (copyCols O mask count l N)
  | [], N => CopyRel.refl N
  | c :: l, N => by
    show CopyRel N (copyCols O mask count l (if mask.get c then N.copyToEnd c O count else N))
    refine CopyRel.trans ?_ (copyCols_rel O mask count l _)
    split
    · exact ⟨copyToEnd_sameMeta _ _ _ _, copyToEnd_len _ _ _ _, copyToEnd_ents _ _ _ _,
        copyToEnd_cap _ _ _ _⟩
    · exact CopyRel.refl N

theorem copyCols_shape {O : Table} (hO : O.Shape) (mask : Mask) {count : Nat} (hcs : count ≤ O.len) :
    ∀ (l : List Comp) {N : Table}, N.Shape → count ≤ N.len → (copyCols O mask count l N).Shape
  | [], _, h, _ => h
  | c :: l, N, h, hct => by
    show (copyCols O mask count l (if mask.get c then N.copyToEnd c O count else N)).Shape
    split
    · exact copyCols_shape hO mask hcs l (copyToEnd_shape h hO c count hct hcs)
        (by rw [copyToEnd_len]; exact hct)
    · exact copyCols_shape hO mask hcs l h hct

theorem copyToEnd_cell_other {t src : Table} (h : t.Shape) (hs : src.Shape) (c : Comp) (count : Nat)
    (hct : count ≤ t.len) (hcs : count ≤ src.len) (k r : Nat) (hk : t.colIdx c ≠ some k) :
    (t.copyToEnd c src count).cell k r = t.cell k r := by
  cases hi : t.colIdx c with
  | none => simp only [copyToEnd, hi]
  | some i =>
    cases hj : src.colIdx c with
    | none => simp only [copyToEnd, hi, hj]
    | some j =>
      cases hz : t.zst.getD i false with
      | true => simp only [copyToEnd, hi, hj, hz, if_true]
      | false =>
        rw [copyToEnd_cell h hs c count hct hcs hi hj hz, if_neg]
        intro hh
        exact hk (by rw [hi, hh.1])

theorem copyToEnd_cell_zst {t src : Table} (c : Comp) (count : Nat) {i : Nat}
    (hi : t.colIdx c = some i) (hz : t.zst.getD i false = true) :
    t.copyToEnd c src count = t := by
  cases hj : src.colIdx c with
  | none => simp only [copyToEnd, hi, hj]
  | some j => simp only [copyToEnd, hi, hj, hz, if_true]

/-- the cells of a column of `N` whose component `O` has too, after the column copies -/
theorem copyCols_cell {O : Table} (hO : O.Shape) (mask : Mask) {count : Nat} (hcs : count ≤ O.len)
    {c : Comp} {j : Nat} (hj : O.colIdx c = some j) : ∀ (l : List Comp) {N : Table}, N.Shape →
    count ≤ N.len → ∀ {k : Nat}, N.colIdx c = some k → N.zst.getD k false = false → ∀ r : Nat,
    (copyCols O mask count l N).cell k r =
      if (c ∈ l ∧ mask.get c = true) ∧ N.len - count ≤ r ∧ r < N.len then
        O.cell j (r - (N.len - count))
      else N.cell k r
  | [], N, _, _, k, _, _, r => by simp [copyCols]
  | c' :: l, N, hN, hct, k, hk, hz, r => by
    show (copyCols O mask count l (if mask.get c' then N.copyToEnd c' O count else N)).cell k r = _
    by_cases hm : mask.get c' = true
    · rw [if_pos hm]
      have hN1 := copyToEnd_shape hN hO c' count hct hcs
      have hrel : CopyRel N (N.copyToEnd c' O count) :=
        ⟨copyToEnd_sameMeta _ _ _ _, copyToEnd_len _ _ _ _, copyToEnd_ents _ _ _ _,
          copyToEnd_cap _ _ _ _⟩
      have hk1 : (N.copyToEnd c' O count).colIdx c = some k := by
        simp only [colIdx, hrel.sm.ids]; exact hk
      rw [copyCols_cell hO mask hcs hj l hN1 (by rw [hrel.len]; exact hct) hk1
        (by rw [hrel.sm.zst]; exact hz) r, hrel.len]
      by_cases hcc : c' = c
      · subst hcc
        rw [copyToEnd_cell hN hO c' count hct hcs hk hj hz]
        by_cases hr : N.len - count ≤ r ∧ r < N.len
        · rw [if_pos (⟨⟨List.mem_cons_self, hm⟩, hr⟩ : (c' ∈ c' :: l ∧ mask.get c' = true) ∧ _),
            if_pos (⟨rfl, hr⟩ : k = k ∧ _)]
          split <;> rfl
        · rw [if_neg (fun hh => hr hh.2), if_neg (fun hh => hr hh.2), if_neg (fun hh => hr hh.2)]
      · rw [copyToEnd_cell_other hN hO c' count hct hcs k r (by
          intro hh
          have h1 := colIdx_get hh
          have h2 := colIdx_get hk
          rw [h1] at h2
          exact hcc (Option.some.inj h2))]
        have : (c ∈ c' :: l ∧ mask.get c = true) ↔ (c ∈ l ∧ mask.get c = true) := by
          simp only [List.mem_cons]
          constructor
          · rintro ⟨h1 | h1, h2⟩
            · exact absurd h1.symm hcc
            · exact ⟨h1, h2⟩
          · rintro ⟨h1, h2⟩; exact ⟨Or.inr h1, h2⟩
        simp only [this]
    · rw [if_neg hm]
      rw [copyCols_cell hO mask hcs hj l hN hct hk hz r]
      by_cases hcc : c' = c
      · subst hcc
        rw [if_neg (fun hh => hm hh.1.2), if_neg (fun hh => hm hh.1.2)]
      · have : (c ∈ c' :: l ∧ mask.get c = true) ↔ (c ∈ l ∧ mask.get c = true) := by
          simp only [List.mem_cons]
          constructor
          · rintro ⟨h1 | h1, h2⟩
            · exact absurd h1.symm hcc
            · exact ⟨h1, h2⟩
          · rintro ⟨h1, h2⟩; exact ⟨Or.inr h1, h2⟩
        simp only [this]

/-- a column of `N` whose component `O` lacks (or a zero-size column) is not touched -/
theorem copyCols_cell_keep {O : Table} (hO : O.Shape) (mask : Mask) {count : Nat} (hcs : count ≤ O.len)
    {c : Comp} : ∀ (l : List Comp) {N : Table}, N.Shape → count ≤ N.len → ∀ {k : Nat},
    N.colIdx c = some k → (O.colIdx c = none ∨ N.zst.getD k false = true) → ∀ r : Nat,
    (copyCols O mask count l N).cell k r = N.cell k r
  | [], _, _, _, _, _, _, _ => rfl
  | c' :: l, N, hN, hct, k, hk, hor, r => by
    show (copyCols O mask count l (if mask.get c' then N.copyToEnd c' O count else N)).cell k r = _
    by_cases hm : mask.get c' = true
    · rw [if_pos hm]
      have hN1 := copyToEnd_shape hN hO c' count hct hcs
      have hrel : CopyRel N (N.copyToEnd c' O count) :=
        ⟨copyToEnd_sameMeta _ _ _ _, copyToEnd_len _ _ _ _, copyToEnd_ents _ _ _ _,
          copyToEnd_cap _ _ _ _⟩
      have hk1 : (N.copyToEnd c' O count).colIdx c = some k := by
        simp only [colIdx, hrel.sm.ids]; exact hk
      rw [copyCols_cell_keep hO mask hcs l hN1 (by rw [hrel.len]; exact hct) hk1
        (by rw [hrel.sm.zst]; exact hor) r]
      by_cases hcc : c' = c
      · subst hcc
        rcases hor with h1 | h1
        · simp only [copyToEnd, hk, h1]
        · rw [copyToEnd_cell_zst c' count hk h1]
      · exact copyToEnd_cell_other hN hO c' count hct hcs k r (by
          intro hh
          have h1 := colIdx_get hh
          have h2 := colIdx_get hk
          rw [h1] at h2
          exact hcc (Option.some.inj h2))
    · rw [if_neg hm]
      exact copyCols_cell_keep hO mask hcs l hN hct hk hor r

end Table

namespace World

/-- the destination table after `exchangeTable oldT newT` -/
def movedTable (w : World) (oldT newT : Nat) : Table :=
  Table.copyCols (w.tbl oldT) (w.arch (w.tbl newT).arch).mask (w.tbl oldT).len (w.tbl oldT).ids
    ((w.tbl newT).addAllEntities (w.tbl oldT) (w.tbl oldT).len)

theorem foldl_exIdxStep (O : Table) (newT start : Nat) : ∀ (l : List Nat) (w : World),
    (l.foldl (exIdxStep O newT start) w).tables = w.tables ∧
    (l.foldl (exIdxStep O newT start) w).archetypes = w.archetypes ∧
    (l.foldl (exIdxStep O newT start) w).entities =
      l.foldl (fun E k => E.set (O.getEntity k).id (newT, start + k)) w.entities
  | [], _ => ⟨rfl, rfl, rfl⟩
  | k :: l, w => by
    obtain ⟨h1, h2, h3⟩ := foldl_exIdxStep O newT start l (exIdxStep O newT start w k)
    simp only [List.foldl_cons]
    exact ⟨h1, h2, h3⟩

/-- `exchangeTable` in closed form: the tables and the index afterwards -/
theorem exchangeTableW_spec (w : World) {oldT newT : Nat} (hne : oldT ≠ newT)
    (hn : newT < w.tables.length) :
    (exchangeTableW w oldT newT).tables =
      (w.tables.set newT (movedTable w oldT newT)).set oldT (w.tbl oldT).reset ∧
    (exchangeTableW w oldT newT).entities =
      (List.range (w.tbl oldT).len).foldl
        (fun E k => E.set ((w.tbl oldT).getEntity k).id (newT, (w.tbl newT).len + k)) w.entities := by
  obtain ⟨h1, h2, h3⟩ := foldl_exIdxStep (w.tbl oldT) newT (w.tbl newT).len
    (List.range (w.tbl oldT).len) w
  generalize hW1 : (List.range (w.tbl oldT).len).foldl (exIdxStep (w.tbl oldT) newT (w.tbl newT).len) w
    = W1 at h1 h2 h3
  have hdef : exchangeTableW w oldT newT =
      ((W1.modTbl newT fun N => N.addAllEntities (w.tbl oldT) (w.tbl oldT).len).modTbl newT
        fun N => Table.copyCols (w.tbl oldT) (w.arch (w.tbl newT).arch).mask (w.tbl oldT).len
          (w.tbl oldT).ids N).modTbl oldT Table.reset := by
    rw [← hW1]; rfl
  have hn1 : newT < W1.tables.length := by rw [h1]; exact hn
  have e1 : W1.tbl newT = w.tbl newT := by simp only [tbl, h1]
  have e2 : (W1.modTbl newT fun N => N.addAllEntities (w.tbl oldT) (w.tbl oldT).len).tbl newT =
      (w.tbl newT).addAllEntities (w.tbl oldT) (w.tbl oldT).len := by
    rw [modTbl_tbl_self _ hn1, e1]
  constructor
  · rw [hdef, modTbl_tables, modTbl_tables, modTbl_tables, e2, h1, List.set_set]
    have e3 : ((W1.modTbl newT fun N => N.addAllEntities (w.tbl oldT) (w.tbl oldT).len).modTbl newT
        fun N => Table.copyCols (w.tbl oldT) (w.arch (w.tbl newT).arch).mask (w.tbl oldT).len
          (w.tbl oldT).ids N).tbl oldT = w.tbl oldT := by
      rw [modTbl_tbl_ne _ _ (Ne.symm hne), modTbl_tbl_ne _ _ (Ne.symm hne)]
      simp only [tbl, h1]
    rw [e3]
    rfl
  · rw [hdef]
    show W1.entities = _
    exact h3

/-- what moving all rows of `src` behind the rows of `dst` does to the index -/
structure RowsMoved (w w' : World) (src dst : Nat) (D' : Table) : Prop where
  tables : w'.tables = (w.tables.set dst D').set src (w.tbl src).reset
  moved : ∀ k : Nat, k < (w.tbl src).len →
    w'.entities[((w.tbl src).getEntity k).id]? = some (dst, (w.tbl dst).len + k)
  others : ∀ i : Nat, (∀ k : Nat, k < (w.tbl src).len → ((w.tbl src).getEntity k).id ≠ i) →
    w'.entities[i]? = w.entities[i]?
  entitiesLen : w'.entities.length = w.entities.length

/-- the index lookups after a fold of index writes for the rows of `src` -/
theorem rowsMoved_of_fold {w w' : World} (h : IdxInv w) {src dst : Nat} (hs : src < w.tables.length)
    {D' : Table} (hT : w'.tables = (w.tables.set dst D').set src (w.tbl src).reset)
    (hE : w'.entities = (List.range (w.tbl src).len).foldl
      (fun E k => E.set ((w.tbl src).getEntity k).id (dst, (w.tbl dst).len + k)) w.entities) :
    RowsMoved w w' src dst D' := by
  have hS := get_of_lt hs
  refine ⟨hT, ?_, ?_, by rw [hE, foldl_set_length]⟩
  · intro k hk
    rw [hE]
    apply foldl_set_hit _ (fun k => (dst, (w.tbl dst).len + k)) _ k _ _ hk rfl
    · intro k' hk' hkk heq
      exact hkk (h.row_inj hS hS hk' hk heq).2
    · have := h.rowIdx src _ k hS hk
      rcases Nat.lt_or_ge ((w.tbl src).getEntity k).id w.entities.length with h1 | h1
      · exact h1
      · rw [List.getElem?_eq_none h1] at this; cases this
  · intro i hi
    rw [hE]
    exact foldl_set_miss _ _ i _ _ hi

/-- **I2 is kept by moving all rows of a table behind the rows of another** (whatever is done to
    the component columns) -/
theorem IdxInv.rowsMoved {w w' : World} (h : IdxInv w) {src dst : Nat} (hne : src ≠ dst)
    (hs : src < w.tables.length) (hd : dst < w.tables.length) {D' : Table} (hDS : D'.Shape)
    (hDid : D'.id = (w.tbl dst).id) (hDlen : D'.len = (w.tbl dst).len + (w.tbl src).len)
    (hDent : ∀ r : Nat, r < D'.len → D'.getEntity r =
      if r < (w.tbl dst).len then (w.tbl dst).getEntity r
      else (w.tbl src).getEntity (r - (w.tbl dst).len))
    (m : RowsMoved w w' src dst D') : IdxInv w' := by
  have hS := get_of_lt hs
  have hD := get_of_lt hd
  have hSs := h.shape src _ hS
  have hTS := m.tables
  have hget : ∀ (t1 : Nat) (T1 : Table), w'.tables[t1]? = some T1 →
      (t1 = src ∧ T1 = (w.tbl src).reset) ∨ (t1 = dst ∧ T1 = D') ∨
      (t1 ≠ src ∧ t1 ≠ dst ∧ w.tables[t1]? = some T1) := by
    intro t1 T1 h1
    rw [hTS] at h1
    by_cases h2 : t1 = src
    · subst h2
      rw [List.getElem?_set_self (by rw [List.length_set]; exact hs)] at h1
      exact Or.inl ⟨rfl, (Option.some.inj h1).symm⟩
    · rw [List.getElem?_set_ne (Ne.symm h2)] at h1
      by_cases h3 : t1 = dst
      · subst h3
        rw [List.getElem?_set_self hd] at h1
        exact Or.inr (Or.inl ⟨rfl, (Option.some.inj h1).symm⟩)
      · rw [List.getElem?_set_ne (Ne.symm h3)] at h1
        exact Or.inr (Or.inr ⟨h2, h3, h1⟩)
  have hDnew : w'.tables[dst]? = some D' := by
    rw [hTS, List.getElem?_set_ne hne]; exact List.getElem?_set_self hd
  have hother : ∀ (t1 : Nat) (T1 : Table) (r : Nat), w.tables[t1]? = some T1 → r < T1.len →
      t1 ≠ src → ∀ k : Nat, k < (w.tbl src).len →
      ((w.tbl src).getEntity k).id ≠ (T1.getEntity r).id := by
    intro t1 T1 r h1 hr h2 k hk heq
    exact h2 (h.row_inj hS h1 hk hr heq).1.symm
  refine ⟨?_, ?_, ?_, ?_⟩
  · intro t1 T1 h1
    rcases hget t1 T1 h1 with ⟨_, rfl⟩ | ⟨_, rfl⟩ | ⟨_, _, h2⟩
    · exact Table.reset_shape hSs
    · exact hDS
    · exact h.shape t1 T1 h2
  · intro t1 T1 h1
    rcases hget t1 T1 h1 with ⟨rfl, rfl⟩ | ⟨rfl, rfl⟩ | ⟨_, _, h2⟩
    · rw [Table.reset_id]; exact h.tid t1 _ hS
    · rw [hDid]; exact h.tid t1 _ hD
    · exact h.tid t1 T1 h2
  · intro t1 T1 r h1 hr
    rcases hget t1 T1 h1 with ⟨rfl, rfl⟩ | ⟨rfl, rfl⟩ | ⟨h2, _, h3⟩
    · rw [Table.reset_len] at hr; exact absurd hr (Nat.not_lt_zero _)
    · rw [hDent r hr]
      rw [hDlen] at hr
      by_cases hrl : r < (w.tbl t1).len
      · rw [if_pos hrl, m.others _ (hother t1 _ r hD hrl (Ne.symm hne))]
        exact h.rowIdx t1 _ r hD hrl
      · rw [if_neg hrl, m.moved _ (by omega)]
        congr 2; omega
    · rw [m.others _ (hother t1 T1 r h3 hr h2)]; exact h.rowIdx t1 T1 r h3 hr
  · intro i t1 r1 hi ht1
    by_cases hex : ∃ k : Nat, k < (w.tbl src).len ∧ ((w.tbl src).getEntity k).id = i
    · obtain ⟨k, hk, rfl⟩ := hex
      rw [m.moved k hk] at hi
      obtain ⟨rfl, rfl⟩ := Prod.mk.inj (Option.some.inj hi)
      refine ⟨_, hDnew, by rw [hDlen]; omega, ?_⟩
      rw [hDent _ (by rw [hDlen]; omega), if_neg (by omega)]
      congr 2; omega
    · have hno : ∀ k : Nat, k < (w.tbl src).len → ((w.tbl src).getEntity k).id ≠ i :=
        fun k hk heq => hex ⟨k, hk, heq⟩
      rw [m.others i hno] at hi
      obtain ⟨T1, hT1, hr1, hid1⟩ := h.idxRow i t1 r1 hi ht1
      have hts : t1 ≠ src := by
        intro heq; subst heq
        have := tbl_of_get hT1; subst this
        exact hno r1 hr1 hid1
      by_cases htd : t1 = dst
      · subst htd
        have := tbl_of_get hT1; subst this
        refine ⟨_, hDnew, by rw [hDlen]; omega, ?_⟩
        rw [hDent r1 (by rw [hDlen]; omega), if_pos hr1]; exact hid1
      · refine ⟨T1, ?_, hr1, hid1⟩
        rw [hTS, List.getElem?_set_ne (Ne.symm hts), List.getElem?_set_ne (Ne.symm htd)]
        exact hT1

end World

/-! ## 3. moving one table: the postcondition -/

namespace Table

theorem alloc_sameMeta (T : Table) (n : Nat) : SameMeta T (T.alloc n) := by
  simp only [Table.alloc, Table.extend]
  split <;> exact ⟨rfl, rfl, rfl, rfl, rfl, rfl, rfl, rfl⟩

theorem addAllEntities_sameMeta (T src : Table) (n : Nat) : SameMeta T (T.addAllEntities src n) := by
  have := alloc_sameMeta T n
  exact ⟨this.id, this.arch, this.ids, this.isRel, this.zst, this.relIDs, this.isFree, this.targets⟩

theorem addAllEntities_getEntity {t src : Table} (h : t.Shape) (hs : src.Shape)
    (count : Nat) (hc : count ≤ src.len) (hb : t.len + count < 2 ^ 32) (r : Nat)
    (hr : r < t.len + count) :
    (t.addAllEntities src count).getEntity r =
      if r < t.len then t.getEntity r else src.getEntity (r - t.len) := by
  have := addAll_getEntity h hs count hc hb r hr
  simp only [getEntity] at this ⊢
  rw [addAllEntities_ents]; exact this

theorem copyToEnd_cell_below {t src : Table} (h : t.Shape) (hs : src.Shape) (c : Comp) (count : Nat)
    (hct : count ≤ t.len) (hcs : count ≤ src.len) (k r : Nat) (hr : r < t.len - count) :
    (t.copyToEnd c src count).cell k r = t.cell k r := by
  cases hi : t.colIdx c with
  | none => simp only [copyToEnd, hi]
  | some i =>
    cases hj : src.colIdx c with
    | none => simp only [copyToEnd, hi, hj]
    | some j =>
      cases hz : t.zst.getD i false with
      | true => simp only [copyToEnd, hi, hj, hz, if_true]
      | false =>
        rw [copyToEnd_cell h hs c count hct hcs hi hj hz, if_neg]
        intro hh; omega

/-- the column copies leave the rows below the last `count` alone -/
theorem copyCols_cell_below {O : Table} (hO : O.Shape) (mask : Mask) {count : Nat} (hcs : count ≤ O.len) :
    ∀ (l : List Comp) {N : Table}, N.Shape → count ≤ N.len → ∀ k r : Nat, r < N.len - count →
    (copyCols O mask count l N).cell k r = N.cell k r
  | [], _, _, _, _, _, _ => rfl
  | c' :: l, N, hN, hct, k, r, hr => by
    show (copyCols O mask count l (if mask.get c' then N.copyToEnd c' O count else N)).cell k r = _
    split
    · rw [copyCols_cell_below hO mask hcs l (copyToEnd_shape hN hO c' count hct hcs)
        (by rw [copyToEnd_len]; exact hct) k r (by rw [copyToEnd_len]; exact hr)]
      exact copyToEnd_cell_below hN hO c' count hct hcs k r hr
    · exact copyCols_cell_below hO mask hcs l hN hct k r hr

end Table

namespace World

/-- what `exchangeTable oldT newT` guarantees (`O`, `N` the two tables before) -/
structure TableMovedPost (w : World) (fl : List Nat) (oldT newT : Nat) (w' : World) : Prop where
  cinv : CInv w' fl
  pool : w'.pool = w.pool
  kinds : w'.kinds = w.kinds
  maxComps : w'.maxComps = w.maxComps
  archetypes : w'.archetypes = w.archetypes
  /-- every moved entity has the components of the destination; a component the source had keeps
      its value, the others read zero -/
  moved : ∀ k : Nat, k < (w.tbl oldT).len →
    w'.entities[((w.tbl oldT).getEntity k).id]? = some (newT, (w.tbl newT).len + k) ∧
    compsOf w' ((w.tbl oldT).getEntity k).id = some (w.tbl newT).ids ∧
    ∀ c : Comp, c ∈ (w.tbl newT).ids →
      valOf w' ((w.tbl oldT).getEntity k).id c =
        if c ∈ (w.tbl oldT).ids then valOf w ((w.tbl oldT).getEntity k).id c else some 0
  /-- every other entity is unchanged -/
  frame : ∀ j : Nat, (∀ k : Nat, k < (w.tbl oldT).len → ((w.tbl oldT).getEntity k).id ≠ j) →
    SameEnt w w' j ∧ w'.entities[j]? = w.entities[j]?
  tablesLen : w'.tables.length = w.tables.length
  entitiesLen : w'.entities.length = w.entities.length
  srcEmpty : (w'.tbl oldT).len = 0
  dstLen : (w'.tbl newT).len = (w.tbl newT).len + (w.tbl oldT).len
  dstRows : ∀ r : Nat, r < (w.tbl newT).len + (w.tbl oldT).len → (w'.tbl newT).getEntity r =
    if r < (w.tbl newT).len then (w.tbl newT).getEntity r
    else (w.tbl oldT).getEntity (r - (w.tbl newT).len)
  dstIds : (w'.tbl newT).ids = (w.tbl newT).ids
  others : ∀ t : Nat, t ≠ oldT → t ≠ newT → w'.tbl t = w.tbl t

theorem exchangeTableW_rest (w : World) (oldT newT : Nat) :
    (exchangeTableW w oldT newT).pool = w.pool ∧ (exchangeTableW w oldT newT).kinds = w.kinds ∧
    (exchangeTableW w oldT newT).archetypes = w.archetypes ∧
    (exchangeTableW w oldT newT).isTarget = w.isTarget ∧
    (exchangeTableW w oldT newT).maxComps = w.maxComps ∧ (exchangeTableW w oldT newT).log = w.log :=
  ⟨foldl_keep' (·.pool) (exIdxStep (w.tbl oldT) newT (w.tbl newT).len) (fun _ _ => rfl) _ _,
    foldl_keep' (·.kinds) (exIdxStep (w.tbl oldT) newT (w.tbl newT).len) (fun _ _ => rfl) _ _,
    foldl_keep' (·.archetypes) (exIdxStep (w.tbl oldT) newT (w.tbl newT).len) (fun _ _ => rfl) _ _,
    foldl_keep' (·.isTarget) (exIdxStep (w.tbl oldT) newT (w.tbl newT).len) (fun _ _ => rfl) _ _,
    foldl_keep' (·.maxComps) (exIdxStep (w.tbl oldT) newT (w.tbl newT).len) (fun _ _ => rfl) _ _,
    foldl_keep' (·.log) (exIdxStep (w.tbl oldT) newT (w.tbl newT).len) (fun _ _ => rfl) _ _⟩

/-- **one table move**: `exchangeTable oldT newT` for two existing, different tables of the
    fragment -/
theorem CInv.tableMoved {w : World} {fl : List Nat} (h : CInv w fl) {oldT newT : Nat}
    (hne : oldT ≠ newT) (ho : oldT < w.tables.length) (hn : newT < w.tables.length)
    (hb : (w.tbl newT).len + (w.tbl oldT).len < 2 ^ 32) :
    TableMovedPost w fl oldT newT (exchangeTableW w oldT newT) := by
  obtain ⟨hT, hE⟩ := exchangeTableW_spec w hne hn
  obtain ⟨fP, fK, fA, fI, fM, _⟩ := exchangeTableW_rest w oldT newT
  have hOt := get_of_lt ho
  have hNt := get_of_lt hn
  have hOS := h.idx.shape oldT _ hOt
  have hNS := h.idx.shape newT _ hNt
  have m := rowsMoved_of_fold h.idx ho hT hE
  -- the destination table
  have hD0S := Table.addAllEntities_shape hNS hOS (w.tbl oldT).len (Nat.le_refl _) hb
  have hD0len := Table.addAllEntities_len (w.tbl newT) (w.tbl oldT) (w.tbl oldT).len
  have hrel := Table.copyCols_rel (w.tbl oldT) (w.arch (w.tbl newT).arch).mask (w.tbl oldT).len
    (w.tbl oldT).ids ((w.tbl newT).addAllEntities (w.tbl oldT) (w.tbl oldT).len)
  have hDS : (movedTable w oldT newT).Shape :=
    Table.copyCols_shape hOS _ (Nat.le_refl _) _ hD0S (by rw [hD0len]; omega)
  have hDlen : (movedTable w oldT newT).len = (w.tbl newT).len + (w.tbl oldT).len := by
    show (Table.copyCols _ _ _ _ _).len = _
    rw [hrel.len, hD0len]
  have hDsm : Table.SameMeta (w.tbl newT) (movedTable w oldT newT) :=
    (Table.addAllEntities_sameMeta _ _ _).trans hrel.sm
  have hDent : ∀ r : Nat, r < (movedTable w oldT newT).len → (movedTable w oldT newT).getEntity r =
      if r < (w.tbl newT).len then (w.tbl newT).getEntity r
      else (w.tbl oldT).getEntity (r - (w.tbl newT).len) := by
    intro r hr
    rw [hDlen] at hr
    have : (movedTable w oldT newT).getEntity r =
        ((w.tbl newT).addAllEntities (w.tbl oldT) (w.tbl oldT).len).getEntity r := by
      simp only [Table.getEntity, movedTable, hrel.ents]
    rw [this]
    exact Table.addAllEntities_getEntity hNS hOS _ (Nat.le_refl _) hb r hr
  have hidx : IdxInv (exchangeTableW w oldT newT) :=
    IdxInv.rowsMoved h.idx hne ho hn hDS hDsm.id hDlen hDent m
  -- tables after the move
  have htlen : (exchangeTableW w oldT newT).tables.length = w.tables.length := by
    rw [hT, List.length_set, List.length_set]
  have hTn : (exchangeTableW w oldT newT).tables[newT]? = some (movedTable w oldT newT) := by
    rw [hT, List.getElem?_set_ne hne]; exact List.getElem?_set_self hn
  have hTo : (exchangeTableW w oldT newT).tables[oldT]? = some (w.tbl oldT).reset := by
    rw [hT]; exact List.getElem?_set_self (by rw [List.length_set]; exact ho)
  have hTother : ∀ t : Nat, t ≠ oldT → t ≠ newT →
      (exchangeTableW w oldT newT).tables[t]? = w.tables[t]? := by
    intro t h1 h2
    rw [hT, List.getElem?_set_ne (Ne.symm h1), List.getElem?_set_ne (Ne.symm h2)]
  have hsinv : SInv (exchangeTableW w oldT newT) := by
    apply h.sinv.of_sameMeta fA fK htlen
    intro t _
    by_cases h1 : t = oldT
    · subst h1; rw [tbl_of_get hTo]; exact ⟨rfl, rfl, rfl, rfl, rfl, rfl, rfl, rfl⟩
    · by_cases h2 : t = newT
      · subst h2; rw [tbl_of_get hTn]; exact hDsm
      · have : (exchangeTableW w oldT newT).tbl t = w.tbl t := by
          simp only [tbl, List.getD_eq_getElem?_getD, hTother t h1 h2]
        rw [this]; exact Table.SameMeta.refl _
  have htm : ∀ t : Nat, t < w.tables.length → t ≠ maxU32 := by
    intro t ht; have := h.fewTables; omega
  have hsame : IdxSame w (exchangeTableW w oldT newT) := by
    refine ⟨m.entitiesLen, ?_⟩
    intro i
    by_cases hex : ∃ k : Nat, k < (w.tbl oldT).len ∧ ((w.tbl oldT).getEntity k).id = i
    · obtain ⟨k, hk, rfl⟩ := hex
      right
      exact ⟨oldT, k, newT, _, h.idx.rowIdx oldT _ k hOt hk, htm oldT ho, m.moved k hk, htm newT hn⟩
    · left
      exact m.others i (fun k hk heq => hex ⟨k, hk, heq⟩)
  have hcinv : CInv (exchangeTableW w oldT newT) fl :=
    h.transfer hidx hsinv fP hsame fK
      ⟨exchangeTableW_obs w oldT newT, exchangeTableW_locks w oldT newT, fI, fM⟩
      (by rw [htlen]; exact h.fewTables)
  refine
    { cinv := hcinv
      pool := fP
      kinds := fK
      maxComps := fM
      archetypes := fA
      moved := ?_
      frame := ?_
      tablesLen := htlen
      entitiesLen := m.entitiesLen
      srcEmpty := by rw [tbl_of_get hTo]; rfl
      dstLen := by rw [tbl_of_get hTn]; exact hDlen
      dstRows := by
        intro r hr
        rw [tbl_of_get hTn]; exact hDent r (by rw [hDlen]; exact hr)
      dstIds := by rw [tbl_of_get hTn]; exact hDsm.ids
      others := by
        intro t h1 h2
        simp only [tbl, List.getD_eq_getElem?_getD, hTother t h1 h2] }
  · intro k hk
    have hent := m.moved k hk
    have hold := h.idx.rowIdx oldT _ k hOt hk
    refine ⟨hent, ?_, ?_⟩
    · simp only [compsOf, hent, htm newT hn, if_false, hTn, Option.map_some, hDsm.ids]
    · intro c hc
      obtain ⟨kk, hkk⟩ := colIdx_some_iff_mem.mpr hc
      have hkkD : (movedTable w oldT newT).colIdx c = some kk := by
        simp only [Table.colIdx, hDsm.ids]; exact hkk
      have hkkD0 : ((w.tbl newT).addAllEntities (w.tbl oldT) (w.tbl oldT).len).colIdx c = some kk := by
        simp only [Table.colIdx, (Table.addAllEntities_sameMeta _ _ _).ids]; exact hkk
      have hzD0 : ((w.tbl newT).addAllEntities (w.tbl oldT) (w.tbl oldT).len).zst = (w.tbl newT).zst :=
        (Table.addAllEntities_sameMeta _ _ _).zst
      have hzero : ((w.tbl newT).addAllEntities (w.tbl oldT) (w.tbl oldT).len).cell kk
          ((w.tbl newT).len + k) = 0 :=
        Table.addAllEntities_new_rows_zero hNS _ _ _ _ (by omega)
      have hval : valOf (exchangeTableW w oldT newT) ((w.tbl oldT).getEntity k).id c =
          some ((movedTable w oldT newT).cell kk ((w.tbl newT).len + k)) := by
        simp only [valOf, hent, htm newT hn, if_false, hTn, Option.bind_some, Table.getComp, hkkD,
          Option.map_some]
      rw [hval]
      have hmask : (w.arch (w.tbl newT).arch).mask.get c = true := by
        obtain ⟨_, _, _, _, hids, _⟩ := h.table_of_entry (h.idx.rowIdx oldT _ k hOt hk) (htm oldT ho)
        obtain ⟨A, hA, e1, _⟩ := h.sinv.tblArch newT _ hNt
        rw [e1, (h.sinv.comps _ A hA).1, Mask.mem_toList] at hc
        rw [arch_of_get hA]; exact hc.2
      by_cases hco : c ∈ (w.tbl oldT).ids
      · rw [if_pos hco]
        obtain ⟨j, hj⟩ := colIdx_some_iff_mem.mpr hco
        have hvalO : valOf w ((w.tbl oldT).getEntity k).id c = some ((w.tbl oldT).cell j k) := by
          simp only [valOf, hold, htm oldT ho, if_false, hOt, Option.bind_some, Table.getComp, hj,
            Option.map_some]
        rw [hvalO]
        congr 1
        cases hz : (w.tbl newT).zst.getD kk false with
        | false =>
          show (Table.copyCols _ _ _ _ _).cell kk _ = _
          rw [Table.copyCols_cell hOS _ (Nat.le_refl _) hj _ hD0S (by rw [hD0len]; omega) hkkD0
            (by rw [hzD0]; exact hz), hD0len,
            if_pos ⟨⟨hco, hmask⟩, by omega, by omega⟩]
          congr 1; omega
        | true =>
          show (Table.copyCols _ _ _ _ _).cell kk _ = _
          rw [Table.copyCols_cell_keep hOS _ (Nat.le_refl _) _ hD0S (by rw [hD0len]; omega) hkkD0
            (Or.inr (by rw [hzD0]; exact hz)), hzero]
          have hzO : (w.tbl oldT).zst.getD j false = true := by
            rw [h.sinv.toSInvMid.tbl_zst hOt hj, ← h.sinv.toSInvMid.tbl_zst hNt hkk]; exact hz
          exact (hOS.zst_zero j hzO k).symm
      · rw [if_neg hco]
        congr 1
        have hjn : (w.tbl oldT).colIdx c = none := by
          cases hj : (w.tbl oldT).colIdx c with
          | none => rfl
          | some j => exact absurd (colIdx_some_iff_mem.mp ⟨j, hj⟩) hco
        show (Table.copyCols _ _ _ _ _).cell kk _ = _
        rw [Table.copyCols_cell_keep hOS _ (Nat.le_refl _) _ hD0S (by rw [hD0len]; omega) hkkD0
          (Or.inl hjn), hzero]
  · intro j hj
    have he := m.others j hj
    refine ⟨?_, he⟩
    cases hx : w.entities[j]? with
    | none => exact same_of_entry he (fun t r hh => by rw [hx] at hh; cases hh)
    | some p =>
      obtain ⟨t, r⟩ := p
      by_cases ht : t = maxU32
      · exact same_of_entry he (fun t' r' hh => by rw [hx] at hh; cases hh; exact ht)
      · obtain ⟨hTt, hr, hid⟩ := h.idx.indexed hx ht
        have hto : t ≠ oldT := by
          intro heq; subst heq; exact hj r hr hid
        by_cases htn : t = newT
        · subst htn
          refine same_of_rows hx (by rw [he]; exact hx) ht ht hTt hTn hDsm.ids (fun i => ?_)
          show (Table.copyCols _ _ _ _ _).cell i r = _
          rw [Table.copyCols_cell_below hOS _ (Nat.le_refl _) _ hD0S (by rw [hD0len]; omega) i r
            (by rw [hD0len]; omega), Table.addAllEntities_cell, Table.alloc_cell_eq,
            Table.extend_cell_lt _ _ _ _ hr]
        · exact same_of_rows hx (by rw [he]; exact hx) ht ht hTt
            (by rw [hTother t hto htn]; exact hTt) rfl (fun _ => rfl)

end World
end Ark
