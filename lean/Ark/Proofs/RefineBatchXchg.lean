/-
  Ark.Proofs.RefineBatchXchg — the add / remove / exchange batches (`AddBatch`, `RemoveBatch`,
  `ExchangeBatch` and their `…Fn` forms) as steps of the refinement machine (`RefineB.OpB.xchgb`).

  * `exchangeBatch_tablesLen` — the batch creates at most one table per selected table.
  * `exchangeBatch_noComponents` — `add = rem = []` is rejected before anything happens.
  * `hok_of_spec` — if every MATCHING ENTRY of the specification satisfies the precondition of
    `Exchange(add, rem)` (`XchgOK`), every non-empty selected TABLE of the model satisfies the
    precondition of the batch (`ExchOK` on the table's mask).
  * `specXchgAll_spec` — the fold of the single `Exchange` steps over the selected entities rewrites
    exactly their entries (`xf`: drop `rem`, append `add` with zero, write `vals`).
  * `step_xchgb` — the step keeps the invariant `HInvB` (same free list, same pool); at most one table
    per selected table and no index slot is created; `add = rem = []` is rejected with the world
    unchanged; otherwise the batch succeeds and satisfies `ExchangedAllPost`.

  Kernel-only proofs, core Lean only.
-/
import Ark.Proofs.RefineBatchDel

set_option autoImplicit false

namespace Ark

open World Ark.Props.C01World

namespace World

/-- `add = rem = []`: rejected after the lock check, before the world lock is taken -/
theorem exchangeBatch_noComponents (run : ProbeRunner) (fo : FilterObj) (extra : List RelID)
    (vals : Option (List (Comp × Val))) (w : World) (hl : w.isLocked = false) :
    exchangeBatch run fo extra [] [] [] vals w = .panic .noComponents w := by
  unfold exchangeBatch
  simp only [M.bind_apply, checkLocked_unlocked w hl, M.assert_apply, List.isEmpty_nil, Bool.and_self,
    Bool.not_true, Bool.false_eq_true, if_false]

/-- **the exchange batch creates at most one table per selected table** (hypotheses of
    `exchangeBatch_post'`) -/
theorem exchangeBatch_tablesLen (run : ProbeRunner) {w : World} {fl : List Nat} (h : CInv w fl)
    (hR : RowsLive w) (hl : w.isLocked = false) (hL : LockFree w.locks) (fo : FilterObj)
    (extra : List RelID) (hc : fo.cache = none) {add rem : List Comp} (hne : ¬ (add = [] ∧ rem = []))
    (hok : ∀ t ∈ selTables w fo.filter, (w.tbl t).len ≠ 0 →
      ExchOK w.kinds.length add rem (tmask w t))
    (hfew : w.tables.length + (selTables w fo.filter).length < maxU32)
    (hent : 2 * w.entities.length < 2 ^ 32) (vals : Option (List (Comp × Val))) :
    ∃ Wf : World, exchangeBatch run fo extra add rem [] vals w = .ok () Wf ∧
      Wf.tables.length ≤ w.tables.length + (selTables w fo.filter).length := by
  obtain ⟨l', b, l'', k1, k2, k3, k4, k5⟩ := hL.cycle
  have hwl : CInv { w with locks := l' } fl := cinv_withLocks h l' w.log
  have hts : getBatchTables fo extra { w with locks := l' } =
      .ok (selTables w fo.filter) { w with locks := l' } := by
    rw [getBatchTables_uncached fo extra _ hc, getCacheTables_noRel _ fo.filter _
      (fun A hA => by
        obtain ⟨a, ha⟩ := List.mem_iff_getElem?.1 hA
        exact h.noRelArch ha)]
    rfl
  have S := selTables_tableSet h fo.filter
  obtain ⟨bts, w1, i1, i2, i3, i4, i5, i6⟩ := findLoop_spec (w0 := { w with locks := l' }) hwl.sinv
    hne (selTables w fo.filter) (false, []) { w with locks := l' } hwl (Ext.refl _) S.lt hok hfew
  simp only [List.nil_append] at i1
  have hno1 : ∀ evt : Nat, w1.obs.hasObservers evt = false := by
    intro evt; rw [i3.untouched.obs]; exact h.noObs evt
  have hneB : (add.isEmpty && rem.isEmpty) = false := by
    cases add with
    | cons _ _ => rfl
    | nil =>
      cases rem with
      | cons _ _ => rfl
      | nil => exact absurd ⟨rfl, rfl⟩ hne
  have hbatch := exchangeBatch_eq run fo extra add rem vals w hl hneB k1 hts i1 hno1
  have hsrcmem : ∀ b ∈ bts, b.oldT ∈ selTables w fo.filter ∧ (w.tbl b.oldT).len ≠ 0 := by
    intro b0 hb0
    have : b0.oldT ∈ bts.map (·.oldT) := List.mem_map_of_mem hb0
    rw [i4, List.mem_filter] at this
    refine ⟨this.1, ?_⟩
    have h2 := this.2
    simp only [bne_iff_ne, ne_eq] at h2
    exact h2
  have hokb : ∀ b ∈ bts, ExchOK w.kinds.length add rem (tmask w b.oldT) :=
    fun b0 hb0 => hok _ (hsrcmem b0 hb0).1 (hsrcmem b0 hb0).2
  have hsrcN : (bts.map (·.oldT)).Nodup := by
    rw [i4]; exact List.Pairwise.filter _ S.nodup
  have mok : MovesOK w1 bts := movesOK_of_dest hwl i3 hne hsrcN i5 hokb
  have hR1 : RowsLive w1 := by
    intro t r ht hr
    have hex : t < w.tables.length := by
      rcases Nat.lt_or_ge t w.tables.length with h1 | h1
      · exact h1
      · exfalso
        have hx := i2.idx.rowIdx t _ r (get_of_lt ht) hr
        rw [i3.entities] at hx
        have htm : t ≠ maxU32 := by have := i2.fewTables; omega
        obtain ⟨T, hT, _⟩ := h.idx.idxRow _ t r hx htm
        exact absurd (lt_of_get hT) (by omega)
    have : w1.tbl t = w.tbl t := i3.tbl hex
    rw [this] at hr ⊢
    rw [i3.pool]; exact hR t r hex hr
  obtain ⟨mp, _⟩ := moveLoop_post' vals bts i2 hR1 mok (by rw [i3.entities]; exact hent)
  have hlocks : (bts.foldl (moveStep vals) w1).locks = l' := by
    rw [foldl_moveStep_locks, i3.untouched.locks]
  rw [unlock_ok (by rw [hlocks]; exact k3)] at hbatch
  refine ⟨_, hbatch, ?_⟩
  show (bts.foldl (moveStep vals) w1).tables.length ≤ _
  rw [mp.tablesLen]
  exact i6

end World

namespace RefineB

open Refine

/-- what `Exchange(add, rem)` writing `vals` does to an entry of the specification -/
def xf (z : List Bool) (add rem : List Comp) (vals : Comps) (cs : Comps) : Comps :=
  writeComps z vals ((cs.filter fun cv => decide (cv.1 ∉ rem)) ++ zeros add)

/-- an entry's handle is selected iff the filter matches the entry's key set -/
theorem mem_matching_of_mem {ss : SS} (hnd : (ss.ents.map (·.1)).Nodup) (f : Filter)
    {x : Ent × Comps} (hx : x ∈ ss.ents) :
    x.1 ∈ matching ss f ↔ f.matchesMask (Mask.ofList (keys x.2)) = true := by
  constructor
  · intro hmem
    obtain ⟨cs, hx', hm'⟩ := mem_matching.mp hmem
    have h1 := find_of_mem hnd hx'
    have h2 := find_of_mem hnd (show (x.1, x.2) ∈ ss.ents from hx)
    rw [h1] at h2
    rw [← Option.some.inj h2]; exact hm'
  · intro hm
    exact mem_matching.mpr ⟨x.2, hx, hm⟩

theorem matching_nodup {ss : SS} (hnd : (ss.ents.map (·.1)).Nodup) (f : Filter) :
    (matching ss f).Nodup :=
  (List.Sublist.map _ List.filter_sublist).nodup hnd

/-- an exchange of nothing leaves the specification alone -/
theorem specXchgAll_nil (p : Path) (vals : Comps) : ∀ (es : List Ent) (ss : SS),
    specXchgAll ss p [] [] vals es = ss
  | [], _ => rfl
  | e :: es, ss => by
    show specXchgAll (specStep ss default (.xchg p e [] [] vals)) p [] [] vals es = ss
    have : specStep ss default (.xchg p e [] [] vals) = ss := by
      simp only [specStep]
      cases find ss.ents e with
      | none => rfl
      | some cs =>
        have hn : ¬ XchgOK ss.zst.length cs [] [] := fun hv => hv.1 ⟨rfl, rfl⟩
        simp only [if_neg hn]
    rw [this]; exact specXchgAll_nil p vals es ss

/-- **the exchange batch in the specification**: the fold of the single `Exchange` steps over
    distinct handles whose entries satisfy the precondition rewrites exactly these entries -/
theorem specXchgAll_spec (p : Path) (add rem : List Comp) (vals : Comps) : ∀ (es : List Ent)
    (ss : SS), (ss.ents.map (·.1)).Nodup → es.Nodup →
    (∀ e ∈ es, ∃ cs, find ss.ents e = some cs ∧ XchgOK ss.zst.length cs add rem) →
    (specXchgAll ss p add rem vals es).zst = ss.zst ∧
    (specXchgAll ss p add rem vals es).ents =
      ss.ents.map fun x => if x.1 ∈ es then (x.1, xf ss.zst add rem vals x.2) else x
  | [], ss, _, _, _ => by
    refine ⟨rfl, ?_⟩
    show ss.ents = _
    simp
  | e :: es, ss, hnd, hes, hall => by
    obtain ⟨cs, hf, hv⟩ := hall e List.mem_cons_self
    obtain ⟨hne, hes'⟩ := List.nodup_cons.mp hes
    have h1 : specStep ss default (.xchg p e add rem vals) =
        { ss with ents := upd ss.ents e (xf ss.zst add rem vals) } := by
      simp only [specStep, hf, if_pos hv]
      rfl
    have hnd1 : (({ ss with ents := upd ss.ents e (xf ss.zst add rem vals) } : SS).ents.map
        (·.1)).Nodup := by
      show ((upd ss.ents e _).map (·.1)).Nodup
      rw [upd_keys]; exact hnd
    have hall1 : ∀ e' ∈ es, ∃ cs',
        find ({ ss with ents := upd ss.ents e (xf ss.zst add rem vals) } : SS).ents e' = some cs' ∧
        XchgOK ({ ss with ents := upd ss.ents e (xf ss.zst add rem vals) } : SS).zst.length
          cs' add rem := by
      intro e' he'
      obtain ⟨cs', hf', hv'⟩ := hall e' (List.mem_cons_of_mem _ he')
      have hne' : e' ≠ e := fun hh => hne (hh ▸ he')
      exact ⟨cs', by show find (upd ss.ents e _) e' = _; rw [find_upd_ne _ _ hne']; exact hf', hv'⟩
    obtain ⟨i1, i2⟩ := specXchgAll_spec p add rem vals es _ hnd1 hes' hall1
    show (specXchgAll (specStep ss default (.xchg p e add rem vals)) p add rem vals es).zst = _ ∧
      (specXchgAll (specStep ss default (.xchg p e add rem vals)) p add rem vals es).ents = _
    rw [h1]
    refine ⟨i1, ?_⟩
    rw [i2]
    show (upd ss.ents e (xf ss.zst add rem vals)).map _ = _
    simp only [Refine.upd, List.map_map]
    apply List.map_congr_left
    intro x _
    simp only [Function.comp, List.mem_cons]
    by_cases hx : x.1 = e
    · have hn : x.1 ∉ es := by rw [hx]; exact hne
      simp only [hx, if_true, true_or]
      rw [if_neg hne]
    · simp only [hx, if_false, false_or]

/-- the specification's precondition on the matching entries gives the model's precondition on
    the non-empty selected tables -/
theorem hok_of_spec {s : St} {fl : List Nat} (H : HInvB s fl) (f : Filter) {add rem : List Comp}
    (hall : ∀ x ∈ s.ss.ents, f.matchesMask (Mask.ofList (keys x.2)) = true →
      XchgOK s.ss.zst.length x.2 add rem) :
    ∀ t ∈ selTables s.w f, (s.w.tbl t).len ≠ 0 →
      ExchOK s.w.kinds.length add rem (tmask s.w t) := by
  intro t ht h0
  have hC := H.hinv.cinv
  have h0' : 0 < (s.w.tbl t).len := Nat.pos_of_ne_zero h0
  have htl := ((mem_selTables hC f t).mp ht).1
  have he : (s.w.tbl t).getEntity 0 ∈ selEnts s.w f := mem_selEnts.mpr ⟨t, 0, ht, h0', rfl⟩
  obtain ⟨cs, hx, hm⟩ := mem_matching.mp ((selEnts_iff_matching H f _).mp he)
  have hv := hall _ hx hm
  have hrow := hC.idx.rowIdx t _ 0 (get_of_lt htl) h0'
  have hmask : s.w.maskOf ((s.w.tbl t).getEntity 0) = tmask s.w t := by
    simp only [maskOf, index_of_get hrow, tmask]
  obtain ⟨_, hrnd, hrall, hand, hadd⟩ := hv
  rw [← hmask]
  exact
    { remNodup := hrnd
      pres := fun c hc => (H.hinv.mask_iff hx c).mpr (hrall c hc)
      addNodup := hand
      reg := fun c hc => by rw [← H.hinv.zlen]; exact (hadd c hc).1
      new := by
        intro c hc
        cases hgc : (s.w.maskOf ((s.w.tbl t).getEntity 0)).get c with
        | false => rfl
        | true => exact absurd ((H.hinv.mask_iff hx c).mp hgc) (hadd c hc).2 }

/-- **the exchange batch as a step of the machine** -/
theorem step_xchgb (run : ProbeRunner) {s : St} {fl : List Nat} (H : HInvB s fl)
    (p : Path) (f : Filter) (add : List Comp) (vals : Option Comps) (rem : List Comp)
    (hroom : Room s (.xchgb p f add vals rem)) :
    (∃ fl', HInvB (stepB run s (.xchgb p f add vals rem)) fl') ∧
    (stepB run s (.xchgb p f add vals rem)).w.tables.length ≤
      s.w.tables.length + (selTables s.w f).length ∧
    (stepB run s (.xchgb p f add vals rem)).w.entities.length = s.w.entities.length ∧
    (guardB s (.xchgb p f add vals rem) = true → ¬ preB s.ss (.xchgb p f add vals rem) →
      (∃ k, execB run s.w (.xchgb p f add vals rem) = .panic k s.w) ∧
      stepB run s (.xchgb p f add vals rem) = s) ∧
    (guardB s (.xchgb p f add vals rem) = true → preB s.ss (.xchgb p f add vals rem) →
      ∃ w', execB run s.w (.xchgb p f add vals rem) = .ok [] w' ∧
        ExchangedAllPost s.w fl (selEnts s.w f) add rem (valsOf vals) w' ∧
        stepB run s (.xchgb p f add vals rem) =
          ⟨w', s.issued, specStepB s.ss [] (.xchgb p f add vals rem)⟩) := by
  have hC := H.hinv.cinv
  have hl := H.hinv.unlocked
  by_cases hg : guardB s (.xchgb p f add vals rem) = true
  case neg =>
    have : stepB run s (.xchgb p f add vals rem) = s := by
      show stepBatch run s (.xchgb p f add vals rem) = s
      rw [stepBatch, if_neg hg]
    rw [this]
    exact ⟨⟨fl, H⟩, Nat.le_add_right _ _, rfl, fun h => absurd h hg, fun h => absurd h hg⟩
  have hg' := hg
  simp only [guardB, Bool.and_eq_true, Bool.or_eq_true, List.all_eq_true, decide_eq_true_eq,
    Bool.not_eq_true'] at hg'
  obtain ⟨hreg, hcase⟩ := hg'
  by_cases hne : add = [] ∧ rem = []
  · -- rejected before anything happens
    obtain ⟨rfl, rfl⟩ := hne
    have hop : opExchangeBatch run p (foOf f) [] [] [] [] vals s.w = .panic .noComponents s.w := by
      rw [opExchangeBatch_eq_exchangeBatch]; exact exchangeBatch_noComponents run _ _ vals s.w hl
    have hex : execB run s.w (.xchgb p f [] vals []) = .panic .noComponents s.w := by
      simp only [execB, hop]
    have hst : stepB run s (.xchgb p f [] vals []) = s := by
      show stepBatch run s (.xchgb p f [] vals []) = s
      simp only [stepBatch, hg, if_true, hex, Res.state, retB, specStepB, List.reverse_nil,
        List.nil_append, specXchgAll_nil]
    rw [hst]
    exact ⟨⟨fl, H⟩, Nat.le_add_right _ _, rfl, fun _ _ => ⟨⟨_, hex⟩, rfl⟩,
      fun _ hp => absurd ⟨rfl, rfl⟩ hp⟩
  · -- the batch runs
    have hall : ∀ x ∈ s.ss.ents, f.matchesMask (Mask.ofList (keys x.2)) = true →
        XchgOK s.ss.zst.length x.2 add rem := by
      rcases hcase with ⟨ha, hr⟩ | hcase
      · exact absurd ⟨List.isEmpty_iff.mp ha, List.isEmpty_iff.mp hr⟩ hne
      · intro x hx hm
        rcases hcase x hx with h1 | h1
        · rw [hm] at h1; cases h1
        · exact h1
    obtain ⟨hfew, hent⟩ := hroom
    have hok := hok_of_spec H f hall
    obtain ⟨Wf, hb, post, hLf, _, hRf⟩ := exchangeBatch_post' run hC H.rowsLive hl H.yinv.lock
      (foOf f) [] rfl hne hok hfew hent vals
    obtain ⟨Wf', hb', htl⟩ := exchangeBatch_tablesLen run hC H.rowsLive hl H.yinv.lock
      (foOf f) [] rfl hne hok hfew hent vals
    rw [hb] at hb'
    injection hb' with _ hw
    subst hw
    have hop : opExchangeBatch run p (foOf f) [] add rem [] vals s.w = .ok () Wf := by
      rw [opExchangeBatch_eq_exchangeBatch]; exact hb
    have hex : execB run s.w (.xchgb p f add vals rem) = .ok [] Wf := by
      simp only [execB, hop]
    have hst : stepB run s (.xchgb p f add vals rem) =
        ⟨Wf, s.issued, specStepB s.ss [] (.xchgb p f add vals rem)⟩ := by
      show stepBatch run s (.xchgb p f add vals rem) = _
      simp only [stepBatch, hg, if_true, hex, Res.state, retB, List.reverse_nil, List.nil_append]
    -- the specification after the step
    have hnd := H.hinv.ginv.live_nodup
    have hmall : ∀ e ∈ matching s.ss f, ∃ cs, find s.ss.ents e = some cs ∧
        XchgOK s.ss.zst.length cs add rem := by
      intro e he
      obtain ⟨cs, hx, hm⟩ := mem_matching.mp he
      exact ⟨cs, find_of_mem hnd hx, hall _ hx hm⟩
    obtain ⟨hzst, hents⟩ := specXchgAll_spec p add rem (valsOf vals) (matching s.ss f) s.ss hnd
      (matching_nodup hnd f) hmall
    have hzst' : (specStepB s.ss [] (.xchgb p f add vals rem)).zst = s.ss.zst := hzst
    have hents' : (specStepB s.ss [] (.xchgb p f add vals rem)).ents =
        s.ss.ents.map fun x =>
          if x.1 ∈ matching s.ss f then (x.1, xf s.ss.zst add rem (valsOf vals) x.2) else x := hents
    have hkeys : (specStepB s.ss [] (.xchgb p f add vals rem)).ents.map (·.1) =
        s.ss.ents.map (·.1) := by
      rw [hents', List.map_map]
      apply List.map_congr_left
      intro x _
      simp only [Function.comp]
      split <;> rfl
    rw [hst]
    refine ⟨⟨fl, ?_, ?_⟩, htl, post.entitiesLen, fun _ hnp => absurd hne hnp,
      fun _ _ => ⟨Wf, hex, post, rfl⟩⟩
    · exact
        { cinv := post.cinv
          ginv := by
            have : (⟨Wf, s.issued, specStepB s.ss [] (.xchgb p f add vals rem)⟩ : St).ps = s.ps := by
              simp only [St.ps, post.pool, hkeys]
            rw [this]; exact H.hinv.ginv
          unlocked := post.unlocked.trans hl
          nodup := H.hinv.nodup
          zstEq := by
            show (specStepB s.ss [] (.xchgb p f add vals rem)).zst = Wf.kinds.map (·.zst)
            rw [hzst', post.kinds]; exact H.hinv.zstEq
          maxc := post.maxComps.trans H.hinv.maxc
          ok := by
            intro e cs' hmem
            show EntOK Wf Wf.kinds.length e cs'
            rw [post.kinds]
            rw [hents', List.mem_map] at hmem
            obtain ⟨x, hx, hxe⟩ := hmem
            by_cases hsel : x.1 ∈ matching s.ss f
            · -- an exchanged entity
              rw [if_pos hsel] at hxe
              injection hxe with h1 h2
              subst h1; subst h2
              obtain ⟨e, cs⟩ := x
              have hm : f.matchesMask (Mask.ofList (keys cs)) = true :=
                (mem_matching_of_mem hnd f hx).mp hsel
              have he : e ∈ selEnts s.w f := (selEnts_iff_matching H f e).mpr hsel
              obtain ⟨_, hrnd, hrall, hand, hadd⟩ := hall _ hx hm
              have ok := H.hinv.ok e cs hx
              have hreg' : ∀ (c : Comp), c ∈ add → c < s.w.kinds.length := by
                intro c hc; rw [← H.hinv.zlen]; exact (hadd c hc).1
              have hk : keys (xf s.ss.zst add rem (valsOf vals) cs) =
                  keys (cs.filter fun cv => decide (cv.1 ∉ rem)) ++ add := by
                rw [xf, keys_writeComps, keys_append, keys_zeros]
              exact
                { nodup := by
                    rw [hk]
                    exact List.nodup_append.mpr
                      ⟨List.Nodup.sublist (List.Sublist.map _ List.filter_sublist) ok.nodup, hand,
                        fun a ha b hb hab => (hadd b hb).2 (hab ▸ (mem_keys_filter.mp ha).1)⟩
                  reg := by
                    rw [hk]
                    intro c hc
                    rcases List.mem_append.mp hc with h1 | h1
                    · exact ok.reg c (mem_keys_filter.mp h1).1
                    · exact hreg' c h1
                  comps := by
                    rw [post.comps e he, hk]
                    congr 1
                    apply toList_eq_sortedIds
                    intro c hc
                    have hc256 : c < 256 := by have := hC.kindsLe; omega
                    rw [xmask_get, List.mem_append, mem_keys_filter,
                      Bool.or_eq_true, Bool.and_eq_true, H.hinv.mask_iff hx c]
                    simp [hc256]
                  vals := by
                    intro cv hcv
                    obtain ⟨v, hv, hval⟩ := mem_writeComps hcv
                    rcases List.mem_append.mp hv with h1 | h1
                    · obtain ⟨h1, h3⟩ := List.mem_filter.mp h1
                      have hnot : cv.1 ∉ rem := by simpa using h3
                      have hkey : cv.1 ∈ keys cs := List.mem_map.mpr ⟨(cv.1, v), h1, rfl⟩
                      rw [post.kept e he cv.1 v ((H.hinv.mask_iff hx cv.1).mpr hkey) hnot
                        (ok.vals (cv.1, v) h1), hval, H.hinv.zget]
                    · simp only [zeros, List.mem_map] at h1
                      obtain ⟨c, hc, hcv'⟩ := h1
                      injection hcv' with h3 h4
                      rw [← h3] at hval ⊢
                      rw [post.added e he c hc, hval, ← h4, H.hinv.zget] }
            · -- an entity the filter does not match
              rw [if_neg hsel] at hxe
              subst hxe
              have hm : f.matchesMask (Mask.ofList (keys cs')) = false := by
                cases hmm : f.matchesMask (Mask.ofList (keys cs')) with
                | false => rfl
                | true => exact absurd ((mem_matching_of_mem hnd f hx).mpr hmm) hsel
              exact (H.hinv.ok e cs' hx).frame (post.frame e.id (not_sel_of_not_match H f hx hm)) }
    · exact ⟨rowsAlive_of_rowsLive post.cinv hRf, hLf⟩

end RefineB

end Ark
