/-
  Ark.Proofs.QueryHist — Layers B and C of the task at the level of HISTORIES of the machine
  `Ark.Refine` (`reg | new p | new0 | add p | rem p | xchg p | set | del | copy | shrink |
  reset` on the non-relation, observer-free fragment).  The invariant `XInv` and its
  preservation by each operation of the API (world level) are in Ark/Proofs/QueryOps.lean; a
  new operation of the machine needs one such lemma and one case in `xinv_step`.

  * `run_ext` — the induction principle "a world predicate kept by every accepted, successful
    step holds along every history" (a rejected step leaves the world unchanged, `StepGoal`);
    `xinv_step` (`cases op`), `step_xinv`, `reach_xinv`, `reach_cidx`, `reach_rowsAlive`.
  * `QueryMeetsSpec`, `meets_of_exactOn`, `query_exact` — **the headline theorem of C03**: on the
    world reached by any history, a query built from an unregistered filter object whose mask
    requires its type parameters visits exactly the entities the SPECIFICATION holds whose
    component set the filter matches, each once; `Count` is the number of visits (and of
    matching specification entries, `QueryMeetsSpec.count_spec`), `EntityAt(i)` the `i`-th
    visit, and the cell a visit points to holds the value the specification records.
    `query_exact_cached`: the same after registering the filter, through the cache entry.

  Kernel-only proofs, core Lean only.
-/
import Ark.Proofs.QueryOps
import Ark.Proofs.Refine

set_option autoImplicit false

namespace Ark

open World Ark.Props.C01World

/-! ## 1. along histories -/

namespace Refine

/-- **induction along histories**: a predicate on worlds that holds initially and is kept by
    every accepted step whose model operation succeeds (under the invariant `HInv`, the size
    bounds and the specification-level precondition) holds after every history.  (A step
    whose guard fails is not executed; an accepted step whose precondition fails is rejected with
    the world unchanged.) -/
theorem run_ext (run : ProbeRunner) (P : World → Prop)
    (hstep : ∀ (s : St) (fl : List Nat) (op : Op) (r : Option Ent) (w' : World), HInv s fl →
      s.w.tables.length < maxU32 → s.w.entities.length + 1 < 2 ^ 32 → guard s op = true →
      pre s.ss op → P s.w → exec run s.w op = .ok r w' → P w') :
    ∀ (ops : List Op) (s : St) (fl : List Nat), HInv s fl →
      s.w.tables.length + ops.length ≤ maxU32 → s.w.entities.length + ops.length < 2 ^ 32 →
      P s.w → P (runOps run s ops).w := by
  intro ops
  induction ops with
  | nil => intro s fl _ _ _ hp; exact hp
  | cons op ops ih =>
    intro s fl h hb1 hb2 hp
    simp only [List.length_cons] at hb1 hb2
    have hf : s.w.tables.length < maxU32 := by omega
    have he : s.w.entities.length + 1 < 2 ^ 32 := by omega
    obtain ⟨⟨fl1, h1⟩, g1, g2, grej, gok, _⟩ := step_goal run h hf he op
    have hp1 : P (step run s op).w := by
      by_cases hg : guard s op = true
      · by_cases hpre : pre s.ss op
        · obtain ⟨r, w', hex⟩ := gok hg hpre
          have : (step run s op).w = w' := by rw [step_of_guard hg, hex]; rfl
          rw [this]
          exact hstep s fl op r w' h hf he hg hpre hp hex
        · obtain ⟨k, hex⟩ := grej hg hpre
          have : (step run s op).w = s.w := by rw [step_of_guard hg, hex]; rfl
          rw [this]; exact hp
      · have : step run s op = s := by rw [step, if_neg hg]
        rw [this]; exact hp
    exact ih (step run s op) fl1 h1 (by omega) (by omega) hp1

/-- every accepted successful step keeps `XInv` — one case per operation -/
theorem xinv_step (run : ProbeRunner) (s : St) (fl : List Nat) (op : Op) (r : Option Ent)
    (w' : World) (H : HInv s fl) (hfew : s.w.tables.length < maxU32)
    (hent : s.w.entities.length + 1 < 2 ^ 32) (hg : guard s op = true) (hpre : pre s.ss op)
    (X : XInv s.w) (hex : exec run s.w op = .ok r w') : XInv w' := by
  cases op with
  | reg size z =>
    simp only [exec] at hex
    split at hex
    · rename_i n w1 hr
      injection hex with _ hw; subst hw
      exact X.registerComponent H.cinv hr
    · cases hex
  | new p ids vals =>
    obtain ⟨hnd, hreg⟩ := hpre
    have hreg' : ∀ (c : Comp), c ∈ ids → c < s.w.kinds.length := by rw [← H.zlen]; exact hreg
    simp only [exec] at hex
    split at hex
    · rename_i e w1 hop
      injection hex with _ hw; subst hw
      exact X.opNewEntity run p H.cinv H.unlocked hnd hreg' vals hfew (H.hrows hent) hop
    · cases hex
  | new0 =>
    simp only [exec] at hex
    split at hex
    · rename_i e w1 hop
      injection hex with _ hw; subst hw
      exact X.opNewEntity0 run H.cinv H.unlocked (H.hrows hent 0) hop
    · cases hex
  | add p e ids vals =>
    obtain ⟨cs, hf, hne, hnd, hall⟩ := hpre
    have hm := find_some_mem hf
    obtain ⟨_, ha, h2, hnf, _, hsl⟩ := H.live_facts hm
    have hin := (List.getElem?_eq_some_iff.mp hsl).1
    have hreg' : ∀ (c : Comp), c ∈ ids → c < s.w.kinds.length := by
      intro c hc; rw [← H.zlen]; exact (hall c hc).1
    have hnew : ∀ (c : Comp), c ∈ ids → (s.w.maskOf e).get c = false := by
      intro c hc
      cases hgc : (s.w.maskOf e).get c with
      | false => rfl
      | true => exact absurd ((H.mask_iff hm c).mp hgc) (hall c hc).2
    simp only [exec] at hex
    split at hex
    · rename_i u w1 hop
      injection hex with _ hw; subst hw
      exact X.opAdd run p H.cinv H.unlocked h2 hnf ha hin hne hnd hreg' hnew vals hfew
        (H.hrows hent) hop
    · cases hex
  | rem p e ids =>
    obtain ⟨cs, hf, hne, hnd, hall⟩ := hpre
    have hm := find_some_mem hf
    obtain ⟨_, ha, h2, hnf, _, hsl⟩ := H.live_facts hm
    have hin := (List.getElem?_eq_some_iff.mp hsl).1
    have hpres : ∀ (c : Comp), c ∈ ids → (s.w.maskOf e).get c = true :=
      fun c hc => (H.mask_iff hm c).mpr (hall c hc)
    simp only [exec] at hex
    split at hex
    · rename_i u w1 hop
      injection hex with _ hw; subst hw
      exact X.opRemove run p H.cinv H.unlocked h2 hnf ha hin hne hnd hpres hfew
        (H.hrows hent) hop
    · cases hex
  | xchg p e add rem vals =>
    obtain ⟨cs, hf, hne, hrnd, hrall, hand, hall⟩ := hpre
    have hm := find_some_mem hf
    obtain ⟨_, ha, h2, hnf, _, hsl⟩ := H.live_facts hm
    have hin := (List.getElem?_eq_some_iff.mp hsl).1
    have hreg' : ∀ (c : Comp), c ∈ add → c < s.w.kinds.length := by
      intro c hc; rw [← H.zlen]; exact (hall c hc).1
    have hpres : ∀ (c : Comp), c ∈ rem → (s.w.maskOf e).get c = true :=
      fun c hc => (H.mask_iff hm c).mpr (hrall c hc)
    have hnew : ∀ (c : Comp), c ∈ add → (s.w.maskOf e).get c = false := by
      intro c hc
      cases hgc : (s.w.maskOf e).get c with
      | false => rfl
      | true => exact absurd ((H.mask_iff hm c).mp hgc) (hall c hc).2
    simp only [exec] at hex
    split at hex
    · rename_i u w1 hop
      injection hex with _ hw; subst hw
      exact X.opExchange run p H.cinv H.unlocked h2 hnf ha hin hne hrnd hpres hand hreg' hnew vals
        hfew (H.hrows hent) hop
    · cases hex
  | set e vals =>
    obtain ⟨cs, hf, hv⟩ := hpre
    have hm := find_some_mem hf
    obtain ⟨_, ha, h2, hnf, _, hsl⟩ := H.live_facts hm
    have hin := (List.getElem?_eq_some_iff.mp hsl).1
    have hhas : ∀ (c : Comp), c ∈ keys vals → (s.w.maskOf e).get c = true := by
      intro c hc
      obtain ⟨cv, hcv, rfl⟩ := List.mem_map.mp hc
      exact (H.mask_iff hm cv.1).mpr (hv cv hcv)
    simp only [exec] at hex
    split at hex
    · rename_i u w1 hop
      injection hex with _ hw; subst hw
      exact X.opSet run H.cinv h2 hnf ha hin hhas vals hop
    · cases hex
  | del e =>
    obtain ⟨cs, hf⟩ := hpre
    have hm := find_some_mem hf
    obtain ⟨_, ha, h2, hnf, _, hsl⟩ := H.live_facts hm
    have hin := (List.getElem?_eq_some_iff.mp hsl).1
    simp only [exec] at hex
    split at hex
    · rename_i u w1 hop
      injection hex with _ hw; subst hw
      exact X.opRemoveEntity run H.cinv H.unlocked h2 hnf ha hin hop
    · cases hex
  | copy e =>
    obtain ⟨cs, hf⟩ := hpre
    have hm := find_some_mem hf
    obtain ⟨_, ha, h2, hnf, _, hsl⟩ := H.live_facts hm
    have hin := (List.getElem?_eq_some_iff.mp hsl).1
    simp only [exec] at hex
    split at hex
    · rename_i e' w1 hop
      injection hex with _ hw; subst hw
      exact X.opCopyEntity run H.cinv H.unlocked h2 hnf ha hin (H.hrows hent) hop
    · cases hex
  | shrink bounded =>
    simp only [exec] at hex
    split at hex
    · rename_i b w1 hop
      injection hex with _ hw; subst hw
      exact X.opShrink H.cinv H.unlocked (H.hrows hent) bounded hop
    · cases hex
  | reset =>
    simp only [exec] at hex
    split at hex
    · rename_i u w1 hop
      injection hex with _ hw; subst hw
      exact X.opReset H.cinv H.unlocked hop
    · cases hex

/-- **every step of the machine keeps `XInv`** (accepted or not, successful or rejected) -/
theorem step_xinv (run : ProbeRunner) {s : St} {fl : List Nat} (H : HInv s fl)
    (hfew : s.w.tables.length < maxU32) (hent : s.w.entities.length + 1 < 2 ^ 32) (op : Op)
    (X : XInv s.w) : XInv (step run s op).w :=
  run_ext run XInv (fun s fl op r w' H hf he hg hpre X hex => xinv_step run s fl op r w' H hf he hg hpre X hex)
    [op] s fl H (by simp only [List.length_singleton]; omega)
    (by simp only [List.length_singleton]; omega) X

/-- **`XInv` along histories** -/
theorem reach_xinv (run : ProbeRunner) (cap rel : Nat) (ops : List Op)
    (hlen : ops.length < 2 ^ 32 - 2) : XInv (reach run cap rel ops).w :=
  run_ext run XInv (fun s fl op r w' H hf he hg hpre X hex => xinv_step run s fl op r w' H hf he hg hpre X hex)
    ops _ [] (hinv_init cap rel)
    (by show 1 + ops.length ≤ maxU32; simp only [maxU32]; omega)
    (by show 2 + ops.length < 2 ^ 32; omega) (xinv_init cap rel)

theorem reach_cidx (run : ProbeRunner) (cap rel : Nat) (ops : List Op)
    (hlen : ops.length < 2 ^ 32 - 2) : CIdx (reach run cap rel ops).w :=
  (reach_xinv run cap rel ops hlen).cidx

theorem reach_rowsAlive (run : ProbeRunner) (cap rel : Nat) (ops : List Op)
    (hlen : ops.length < 2 ^ 32 - 2) : RowsAlive (reach run cap rel ops).w :=
  (reach_xinv run cap rel ops hlen).rows

/-! ## 2. Layer C: a query against the specification -/

open QueryExact

/-- the archetype mask of a specified entity is the mask of the key set of its entry -/
theorem HInv.maskOf_eq {s : St} {fl : List Nat} (H : HInv s fl) {e : Ent} {cs : Comps}
    (hm : (e, cs) ∈ s.ss.ents) : s.w.maskOf e = Mask.ofList (keys cs) := by
  apply Mask.ext_get
  intro c hc
  rw [Mask.get_ofList, Bool.eq_iff_iff, H.mask_iff hm c]
  simp [hc]

/-- **everything C03 says about one query**, against the specification state `s.ss.ents`
    (alive handle ↦ component ↦ value) of the history machine. -/
structure QueryMeetsSpec (s : St) (fo : FilterObj) (w1 : World) (q : QueryObj)
    (visits : List Visit) (w2 : World) : Prop where
  /-- `Query()` succeeds: the opened query `q` lives on the locked world `w1` -/
  opened : qOpen fo [] s.w = .ok q w1
  /-- the complete iteration returns `visits` and leaves `w2` -/
  drained : drain fo [] s.w = .ok visits w2
  /-- the world after the query is the world before, except for the bit pool of the lock
      (`lockAfterQuery ≠ {}`: the pool remembers the bit it handed out) -/
  world : w2 = s.w.withLocks lockAfterQuery
  /-- no entity is visited twice -/
  nodup : (visits.map (·.e)).Nodup
  /-- the visited entities are exactly the specified (= alive) entities whose component set the
      filter matches -/
  exact : ∀ e : Ent, e ∈ visits.map (·.e) ↔
    ∃ cs, (e, cs) ∈ s.ss.ents ∧ fo.filter.matchesMask (Mask.ofList (keys cs)) = true
  /-- `Count` equals the number of entities visited -/
  count : qCount w1 q = some visits.length
  /-- `EntityAt(i)` is the `i`-th visited entity … -/
  entityAt : ∀ (i : Nat) (hi : i < visits.length), qEntityAt w1 q i = some (some visits[i].e)
  /-- … and the out-of-bounds panic from `Count` on -/
  entityAtOut : ∀ i : Nat, visits.length ≤ i → qEntityAt w1 q i = some none
  /-- a visit points to the row the entity index records for the entity (the storage random
      access goes to) -/
  index : ∀ v ∈ visits, s.w.entities[v.e.id]? = some (v.table, v.row) ∧ v.table ≠ maxU32
  /-- the cell a visit points to holds the value the specification records, and is the cell
      random access (`valOf`) reads -/
  data : ∀ v ∈ visits, (∀ c : Comp, valOf s.w v.e.id c = (s.w.tbl v.table).getComp c v.row) ∧
    ∀ cs, (v.e, cs) ∈ s.ss.ents → ∀ cv ∈ cs, (s.w.tbl v.table).getComp cv.1 v.row = some cv.2

/-- two duplicate-free lists with the same members have the same length -/
theorem length_eq_of_nodup_mem {α : Type} [DecidableEq α] {l1 l2 : List α} (h1 : l1.Nodup)
    (h2 : l2.Nodup) (h : ∀ a, a ∈ l1 ↔ a ∈ l2) : l1.length = l2.length :=
  Nat.le_antisymm (List.Nodup.length_le_of_subset h1 (fun a ha => (h a).mp ha))
    (List.Nodup.length_le_of_subset h2 (fun a ha => (h a).mpr ha))

/-- **`Count` against the specification**: the number of visits — hence `Count` — is the number of
    entries of the specification whose component set the filter matches -/
theorem QueryMeetsSpec.count_spec {s : St} {fl : List Nat} (H : HInv s fl) {fo : FilterObj}
    {w1 w2 : World} {q : QueryObj} {visits : List Visit} (M : QueryMeetsSpec s fo w1 q visits w2) :
    visits.length =
      (s.ss.ents.filter fun x => fo.filter.matchesMask (Mask.ofList (keys x.2))).length ∧
    qCount w1 q = some
      (s.ss.ents.filter fun x => fo.filter.matchesMask (Mask.ofList (keys x.2))).length := by
  have hnd : ((s.ss.ents.filter fun x => fo.filter.matchesMask (Mask.ofList (keys x.2))).map
      (·.1)).Nodup :=
    List.Nodup.sublist (List.Sublist.map _ List.filter_sublist) H.ginv.live_nodup
  have hlen := length_eq_of_nodup_mem M.nodup hnd (by
    intro e
    rw [M.exact e]
    simp only [List.mem_map, List.mem_filter]
    constructor
    · rintro ⟨cs, h1, h2⟩; exact ⟨(e, cs), ⟨h1, h2⟩, rfl⟩
    · rintro ⟨x, ⟨h1, h2⟩, rfl⟩; exact ⟨x.2, h1, h2⟩)
  simp only [List.length_map] at hlen
  exact ⟨hlen, by rw [M.count, hlen]⟩

/-- from the state-level statement (`QueryExactOn`, IDs and rows) to the specification-level
    statement (`QueryMeetsSpec`, handles and values): what is needed is that the handles stored
    in rows are the alive ones (`RowsAlive`) -/
theorem meets_of_exactOn {s : St} {fl : List Nat} (H : HInv s fl) (hrows : RowsAlive s.w)
    {fo : FilterObj} {w1 : World} {q : QueryObj} {visits : List Visit}
    (Q : QueryExactOn s.w fl fo w1 q visits (s.w.withLocks lockAfterQuery)) :
    QueryMeetsSpec s fo w1 q visits (s.w.withLocks lockAfterQuery) := by
  have hidx : ∀ v ∈ visits, s.w.index v.e.id = (v.table, v.row) :=
    fun v hv => index_of_get (Q.exact.sound v hv).2.2.1
  -- a visited handle is a specified entity
  have hlive : ∀ v ∈ visits, ∃ cs, (v.e, cs) ∈ s.ss.ents := by
    intro v hv
    obtain ⟨s1, s2, _, _, _, s6, s7, _⟩ := Q.exact.sound v hv
    have hslot := hrows.slot H.cinv s6
    rw [← s7] at hslot
    have hl : v.e ∈ s.ps.live := (H.ginv.live_iff v.e).mpr ⟨s1, s2, hslot⟩
    obtain ⟨x, hx, hxe⟩ := List.mem_map.mp hl
    exact ⟨x.2, by rw [← hxe]; exact hx⟩
  have hmask : ∀ v ∈ visits, ∀ cs, (v.e, cs) ∈ s.ss.ents →
      (s.w.arch (s.w.tbl v.table).arch).mask = Mask.ofList (keys cs) := by
    intro v hv cs hm
    rw [← H.maskOf_eq hm]
    simp only [maskOf, hidx v hv]
  refine ⟨Q.opened, Q.drained, rfl, ?_, ?_, Q.count, Q.entityAt, Q.entityAtOut, ?_, ?_⟩
  · exact nodup_map_of_nodup_map visits (·.e.id) (·.e) Q.exact.nodup
      (fun a _ b _ hab => by rw [hab])
  · intro e
    constructor
    · intro he
      obtain ⟨v, hv, rfl⟩ := List.mem_map.mp he
      obtain ⟨cs, hm⟩ := hlive v hv
      refine ⟨cs, hm, ?_⟩
      rw [← hmask v hv cs hm]
      exact (Q.exact.sound v hv).2.2.2.2.2.2.2
    · rintro ⟨cs, hm, hmatch⟩
      obtain ⟨_, ha, h2, hnf, _, hslot⟩ := H.live_facts hm
      obtain ⟨t, r, hi, ht, _⟩ := H.cinv.live_entry h2 hnf ha
        (List.getElem?_eq_some_iff.mp hslot).1
      have hmt : (s.w.arch (s.w.tbl t).arch).mask = Mask.ofList (keys cs) := by
        rw [← H.maskOf_eq hm]
        simp only [maskOf, index_of_get hi]
      obtain ⟨v, hv, hvid, hvt, hvr⟩ := Q.exact.complete e.id t r h2 hnf hi ht (by rw [hmt]; exact hmatch)
      refine List.mem_map.mpr ⟨v, hv, ?_⟩
      obtain ⟨_, _, _, _, _, s6, s7, _⟩ := Q.exact.sound v hv
      have hslot' := hrows.slot H.cinv s6
      rw [← s7, hvid, hslot] at hslot'
      exact (Option.some.inj hslot').symm
  · intro v hv
    exact ⟨(Q.exact.sound v hv).2.2.1, (Q.exact.sound v hv).2.2.2.1⟩
  · intro v hv
    refine ⟨Q.exact.data v hv, ?_⟩
    intro cs hm cv hcv
    rw [← Q.exact.data v hv cv.1]
    exact (H.ok v.e cs hm).vals cv hcv

/-- Layer C on any state of the machine satisfying the invariants: the uncached query -/
theorem query_meets_spec {s : St} {fl : List Nat} (H : HInv s fl) (X : XInv s.w) (fo : FilterObj)
    (hc : fo.cache = none) (hok : FilterOK fo) :
    ∃ q visits, QueryMeetsSpec s fo (s.w.withLocks lockDuringQuery) q visits
      (s.w.withLocks lockAfterQuery) := by
  have hL : LockCycle s.w.locks lockDuringQuery 0 lockAfterQuery := by
    rw [X.locks]; exact lockCycle_default
  obtain ⟨q, visits, Q⟩ := drain_exact H.cinv X.cidx fo hc hok hL
  exact ⟨q, visits, meets_of_exactOn H X.rows Q⟩

/-- the machine state with a filter registered in the cache: only `w.cache` differs -/
theorem HInv.of_cache {s : St} {fl : List Nat} (H : HInv s fl) {w' : World} (hc : CInv w' fl)
    (he : w'.entities = s.w.entities) (ht : w'.tables = s.w.tables) (hk : w'.kinds = s.w.kinds)
    (hp : w'.pool = s.w.pool) (hl : w'.locks = s.w.locks) (hm : w'.maxComps = s.w.maxComps) :
    HInv ⟨w', s.issued, s.ss⟩ fl where
  cinv := hc
  ginv := by
    have : (⟨w', s.issued, s.ss⟩ : St).ps = s.ps := by simp only [St.ps, hp]
    rw [this]; exact H.ginv
  unlocked := by
    show w'.locks.isLocked = false
    rw [hl]; exact H.unlocked
  nodup := H.nodup
  zstEq := by show s.ss.zst = w'.kinds.map (·.zst); rw [hk]; exact H.zstEq
  maxc := hm.trans H.maxc
  ok := by
    intro e cs hmem
    show EntOK w' w'.kinds.length e cs
    rw [hk]
    exact (H.ok e cs hmem).frame
      ⟨fun c => valOf_congr he ht e.id c, compsOf_congr he ht e.id⟩

/-- Layer C, cached: on a state of the machine satisfying the invariants, REGISTER the filter of
    `fo` in the filter cache (`cache.register`, which succeeds and changes only the cache), then
    query through the cache entry: the query meets the (unchanged) specification. -/
theorem query_meets_spec_cached {s : St} {fl : List Nat} (H : HInv s fl) (X : XInv s.w)
    (f : Filter) (rels : List RelID) :
    ∃ (id : Nat) (w' : World), cacheRegister f rels s.w = .ok id w' ∧
      ∀ fo : FilterObj, fo.cache = some id → fo.filter = f →
        ∃ q visits, QueryMeetsSpec ⟨w', s.issued, s.ss⟩ fo (w'.withLocks lockDuringQuery) q visits
          (w'.withLocks lockAfterQuery) := by
  obtain ⟨w', ce, hreg, hc', hC', _, hce, hcf, _, he, ht, _, hk, hp, hl, _⟩ :=
    cacheRegister_exact H.cinv X.rinv X.cache.cacheInv f rels (by rw [X.cache.1]; rfl)
  refine ⟨_, w', hreg, ?_⟩
  intro fo hfc hff
  have hm : w'.maxComps = s.w.maxComps := by
    have hu : Untouched s.w w' := by
      have heq := hreg
      unfold cacheRegister at heq
      simp only at heq
      split at heq
      · cases heq
      · injection heq with _ hw; subst hw; exact ⟨rfl, rfl, rfl, rfl⟩
    exact hu.maxComps
  have H' : HInv ⟨w', s.issued, s.ss⟩ fl := H.of_cache hc' he ht hk hp hl hm
  have hrows' : RowsAlive w' := X.rows.lookup (LookupKeeps.of_tables hp ht)
  have hL : LockCycle w'.locks lockDuringQuery 0 lockAfterQuery := by
    rw [hl, X.locks]; exact lockCycle_default
  obtain ⟨q, visits, Q⟩ := drain_exact_cached hc' hC' fo hfc hce (hcf.trans hff.symm) hL
  exact ⟨q, visits, meets_of_exactOn (s := ⟨w', s.issued, s.ss⟩) H' hrows' Q⟩

/-- **C03, end to end** (`query_exact`): after any history `ops` of the machine (from
    `NewWorld(cap, rel)`, any callback runner), a query built from an unregistered filter object
    `fo` whose mask requires its type parameters (no per-call relations)
    succeeds, visits each entity of the specification whose component set the filter matches
    exactly once and no other entity, `Count`/`EntityAt` agree with the iteration, every visit
    points to the entity's live data, and the world is unchanged up to the lock's bit pool. -/
theorem query_exact (run : ProbeRunner) (cap rel : Nat) (ops : List Op)
    (hlen : ops.length < 2 ^ 32 - 2) (fo : FilterObj) (hc : fo.cache = none)
    (hok : FilterOK fo) :
    ∃ q visits, QueryMeetsSpec (reach run cap rel ops) fo
      ((reach run cap rel ops).w.withLocks lockDuringQuery) q visits
      ((reach run cap rel ops).w.withLocks lockAfterQuery) := by
  obtain ⟨fl, H⟩ := reach_hinv run cap rel ops hlen
  exact query_meets_spec H (reach_xinv run cap rel ops hlen) fo hc hok

/-- **C03, end to end, through the filter cache** (`query_exact_cached`): after any history,
    registering a filter and querying through the cache entry visits exactly the entities of the
    specification whose component set the filter matches. -/
theorem query_exact_cached (run : ProbeRunner) (cap rel : Nat) (ops : List Op)
    (hlen : ops.length < 2 ^ 32 - 2) (f : Filter) (rels : List RelID) :
    ∃ (id : Nat) (w' : World),
      cacheRegister f rels (reach run cap rel ops).w = .ok id w' ∧
      ∀ fo : FilterObj, fo.cache = some id → fo.filter = f →
        ∃ q visits, QueryMeetsSpec ⟨w', (reach run cap rel ops).issued, (reach run cap rel ops).ss⟩
          fo (w'.withLocks lockDuringQuery) q visits (w'.withLocks lockAfterQuery) := by
  obtain ⟨fl, H⟩ := reach_hinv run cap rel ops hlen
  exact query_meets_spec_cached H (reach_xinv run cap rel ops hlen) f rels

/-- set-level reading of the match condition in `QueryMeetsSpec.exact`: every required
    component is a key of the entry, no excluded component is -/
theorem matches_keys_iff (f : Filter) (cs : Comps) (hreg : ∀ c ∈ keys cs, c < 256) :
    f.matchesMask (Mask.ofList (keys cs)) = true ↔
      (∀ c, f.mask.get c = true → c ∈ keys cs) ∧
      (f.hasWithout = true → ∀ c ∈ keys cs, f.without.get c = false) := by
  rw [Filter.matchesMask_iff]
  have hget : ∀ c, (Mask.ofList (keys cs)).get c = true ↔ c ∈ keys cs := by
    intro c
    rw [Mask.get_ofList]
    constructor
    · intro h; simp at h; exact h.2
    · intro h; simp [h, hreg c h]
  constructor
  · rintro ⟨h1, h2⟩
    exact ⟨fun c hc => (hget c).mp (h1 c hc), fun hw c hc => h2 hw c ((hget c).mpr hc)⟩
  · rintro ⟨h1, h2⟩
    exact ⟨fun c hc => (hget c).mpr (h1 c hc), fun hw c hc => h2 hw c ((hget c).mp hc)⟩

end Refine

end Ark
