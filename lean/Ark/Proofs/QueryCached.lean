/-
  Ark.Proofs.QueryCached — Layer A.3 of the task: the CACHED variant of `Ark.Proofs.QueryExact`.

  A registered filter object (`fo.cache = some id`) does not walk archetypes: `Query()` reads the
  table list of its cache entry, and the cursor skips the tables that are empty.  Under the cache
  invariant `CacheInv` (entry `entries`: an entry lists exactly the tables `Selected` by its
  filter and relations) and `CInv` the result is the same entity set as for the uncached walk:

  * `selected_iff` — in the relation-free fragment `Selected w f rels t` says: `t` is an existing
    table whose archetype mask `f` matches (relations play no role);
  * `drain_exact_cached` — Layer A.3;
  * `TablesInv.of_cinv` — the storage facts `TablesInv` the cache proofs of
    `Ark.Proofs.CacheInv` rely on follow from `CInv` and the relation-index invariant `RInv`;
  * `cacheRegister_exact` — registering a filter on a world satisfying `CInv`, `RInv`,
    `CacheInv` succeeds and yields a world with the same invariants (and `CIdx`, `RowsAlive`,
    same entities, tables, pool, locks) in which the entry is found — so the hypotheses of
    `drain_exact_cached` are satisfiable on every world the history machine reaches.

  Kernel-only proofs, core Lean only.
-/
import Ark.Proofs.QueryExact
import Ark.Proofs.CacheInv

set_option autoImplicit false

namespace Ark
namespace QueryExact

open World Drain Ark.Props.C01World

/-! ## 1. `Selected` in the relation-free fragment -/

theorem selected_iff {w : World} {fl : List Nat} (h : CInv w fl) (f : Filter) (rels : List RelID)
    (t : Nat) : Selected w f rels t ↔
      t < w.tables.length ∧ f.matchesMask (w.arch (w.tbl t).arch).mask = true := by
  constructor
  · rintro ⟨a, A, hA, ht, hm, _⟩
    obtain ⟨T, hT, hTa⟩ := h.sinv.owned a A t hA (Or.inl ht)
    refine ⟨lt_of_get hT, ?_⟩
    rw [tbl_of_get hT, hTa, arch_of_get hA]; exact hm
  · rintro ⟨ht, hm⟩
    obtain ⟨ha, hfirst⟩ := h.table_is_first ht
    obtain ⟨t0, ht0, _, _⟩ := h.oneTable ha
    refine ⟨(w.tbl t).arch, _, aget_of_lt ha, ?_, hm, ?_⟩
    · rw [ht0] at hfirst ⊢
      simp only [List.getD_cons_zero] at hfirst
      rw [hfirst]; exact List.mem_singleton.mpr rfl
    · apply Table.matchesRels_noRel
      simp [Table.hasRelations, h.relIDs_nil ht]

/-! ## 2. opening a cached query, its counting walk -/

/-- the query object `Query()` returns for a registered filter whose entry is `ce` -/
def openedQC (fo : FilterObj) (w : World) (ce : CacheEntry) (b : Nat) : QueryObj :=
  { filter := fo.filter, rels := [], cacheTables := some ce.tables.tables, rare := rareOf fo w,
    lockBit := b }

theorem qOpen_cached (fo : FilterObj) (w : World) (l1 : Lock) (b id : Nat) (ce : CacheEntry)
    (hc : fo.cache = some id) (he : w.cacheEntry? id = some ce)
    (hl : w.locks.lock = some (l1, b)) :
    qOpen fo [] w = .ok (openedQC fo w ce b) (w.withLocks l1) := by
  have hpre : preCheckTyped fo.filter.mask [] w = .ok () w := rfl
  have heff : effRels fo [] = [] := by simp [effRels, hc]
  unfold qOpen openedQC rareOf withLocks
  cases ht : fo.typed <;>
    simp [hc, he, hpre, heff, World.lock, hl, bind, M.bind, M.get, pure, M.pure]

theorem foldl_selC_nil (w : World) : ∀ (ts acc : List Nat),
    ts.foldl (selC w []) (some acc) = some (acc ++ ts.filter fun t => (w.tbl t).len != 0) := by
  intro ts
  induction ts with
  | nil => intro acc; simp
  | cons t rest ih =>
    intro acc
    rw [List.foldl_cons]
    by_cases h0 : (w.tbl t).len = 0
    · have : selC w [] (some acc) t = some acc := by simp [selC, h0]
      rw [this, ih]
      simp [h0]
    · have : selC w [] (some acc) t = some (acc ++ [t]) := by
        simp [selC, h0, Table.matchesRels_nil]
      rw [this, ih]
      simp [h0]

/-! ## 3. Layer A.3 -/

/-- **Layer A.3 — the cached variant.**  `fo` is registered (`fo.cache = some id`), the cache
    holds the entry `ce` under that ID, and the entry was made for the filter of `fo`.  Under
    `CInv` and `CacheInv` the query visits exactly the alive entities whose archetype mask the
    filter matches, each once — the same entity set as the uncached walk
    (`drain_exact_untyped`, `drain_exact`). -/
theorem drain_exact_cached {w : World} {fl : List Nat} (h : CInv w fl) (hC : CacheInv w)
    (fo : FilterObj) {id : Nat} {ce : CacheEntry} (hc : fo.cache = some id)
    (he : w.cacheEntry? id = some ce) (hf : ce.filter = fo.filter)
    {l1 l2 : Lock} {b : Nat} (hL : LockCycle w.locks l1 b l2) :
    ∃ q visits, QueryExactOn w fl fo (w.withLocks l1) q visits (w.withLocks l2) := by
  have ho := qOpen_cached fo w l1 b id ce hc he hL.lock
  obtain ⟨hmem, _⟩ := hC.entry_of_lookup he
  obtain ⟨hwf, hsel⟩ := hC.entries ce hmem
  have hq : qSelected (w.withLocks l1) (openedQC fo w ce b) =
      some (ce.tables.tables.filter fun t => (w.tbl t).len != 0) := by
    rw [qSelected_eq]
    show ce.tables.tables.foldl (selC (w.withLocks l1) []) (some []) = _
    rw [foldl_selC_nil]; rfl
  have hok : TablesOK w fo.filter (ce.tables.tables.filter fun t => (w.tbl t).len != 0) := by
    refine ⟨List.Pairwise.filter _ hwf.nodup, ?_, ?_⟩
    · intro t ht
      have := (selected_iff h ce.filter ce.rels t).mp ((hsel t).mp (List.mem_filter.mp ht).1)
      rw [hf] at this; exact this
    · intro t ht hne hm
      refine List.mem_filter.mpr ⟨(hsel t).mpr ((selected_iff h ce.filter ce.rels t).mpr
        ⟨ht, by rw [hf]; exact hm⟩), ?_⟩
      simpa using hne
  obtain ⟨visits, Q⟩ := drain_exact_of_selected h fo hL.unlock ho rfl hq hok
  exact ⟨_, visits, Q⟩

/-! ## 4. the hypotheses are satisfiable: registering a filter -/

/-- the storage facts the cache proofs rely on, from the joint invariant and the relation-index
    invariant -/
theorem TablesInv.of_cinv {w : World} {fl : List Nat} (h : CInv w fl) (hR : RInv w) :
    TablesInv w where
  index := hR
  arch := by
    intro a A hA t ht
    obtain ⟨T, hT, hTa⟩ := h.sinv.owned a A t hA (Or.inl ht)
    rw [tbl_of_get hT]; exact hTa
  ids := by
    intro a A hA t ht
    obtain ⟨T, hT, hTa⟩ := h.sinv.owned a A t hA (Or.inl ht)
    obtain ⟨A', hA', e1, _⟩ := h.sinv.tblArch t T hT
    rw [hTa, hA] at hA'
    rw [tbl_of_get hT, e1, ← Option.some.inj hA']
  hasRel := by
    intro a A hA t ht
    obtain ⟨T, hT, _⟩ := h.sinv.owned a A t hA (Or.inl ht)
    rw [h.noRelArch hA]
    simp [Table.hasRelations, h.relIDs_nil (lt_of_get hT)]
  single := fun a A hA hr => h.sinv.settled a A hA hr

/-- in the fragment the walk cannot panic -/
theorem relsOK_of_cinv {w : World} {fl : List Nat} (h : CInv w fl) (f : Filter)
    (rels : List RelID) : RelsOK w f rels := by
  intro a A hA _ hr
  rw [h.noRelArch hA] at hr; cases hr

/-- a change of the cache only keeps `CInv` -/
theorem CInv.of_cache {w w' : World} {fl : List Nat} (h : CInv w fl)
    (he : w'.entities = w.entities) (ht : w'.tables = w.tables)
    (ha : w'.archetypes = w.archetypes) (hk : w'.kinds = w.kinds) (hp : w'.pool = w.pool)
    (hu : Untouched w w') : CInv w' fl :=
  h.transfer (h.idx.congr he ht) (h.sinv.congr ha ht hk) hp
    ⟨by rw [he], fun i => Or.inl (by rw [he])⟩ hk hu (by rw [ht]; exact h.fewTables)

/-- **registering a filter**: on a world satisfying `CInv`, `RInv` and `CacheInv` whose cache ID
    pool hands out an unused ID, `cache.register` succeeds, changes only the cache, keeps the
    invariants, and the new entry is found under the returned ID with the given filter. -/
theorem cacheRegister_exact {w : World} {fl : List Nat} (h : CInv w fl) (hR : RInv w)
    (hC : CacheInv w) (f : Filter) (rels : List RelID)
    (hfresh : AL.find? w.cache.indices (w.cache.pool.get).2 = none) :
    ∃ (w' : World) (ce : CacheEntry),
      cacheRegister f rels w = .ok (w.cache.pool.get).2 w' ∧
      CInv w' fl ∧ CacheInv w' ∧ RInv w' ∧
      w'.cacheEntry? (w.cache.pool.get).2 = some ce ∧ ce.filter = f ∧ ce.rels = rels ∧
      w'.entities = w.entities ∧ w'.tables = w.tables ∧ w'.archetypes = w.archetypes ∧
      w'.kinds = w.kinds ∧ w'.pool = w.pool ∧ w'.locks = w.locks ∧
      w'.componentIndex = w.componentIndex := by
  obtain ⟨ts, hts, _, _⟩ := getCacheTables_spec (TablesInv.of_cinv h hR) (relsOK_of_cinv h f rels)
  obtain ⟨w', ce, hreg, hC', ha, ht, hce, _, hcf, hcr, _⟩ :=
    cacheRegister_inv hC (TablesInv.of_cinv h hR) (relsOK_of_cinv h f rels) hfresh
  have heq := cacheRegister_eq w f rels ts hts
  rw [heq] at hreg
  injection hreg with _ hw
  subst hw
  refine ⟨_, ce, heq, CInv.of_cache h rfl rfl rfl rfl rfl ⟨rfl, rfl, rfl, rfl⟩, hC',
    hR.congr rfl rfl, hce, hcf, hcr, rfl, rfl, rfl, rfl, rfl, rfl, rfl⟩

end QueryExact
end Ark
