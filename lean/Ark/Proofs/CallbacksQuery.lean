/-
  Ark.Proofs.CallbacksQuery — C09: the `query` probe of the harness run on the world a callback
  sees.

  The `query` probe is not read-only in the sense of `ReadOnly` (a complete iteration leaves the
  lock's bit pool changed, `QueryExact.lockAfterQuery_ne`), so it is not covered by the dispatch
  theorems; this file says what ONE `query` probe records when it is run on a world on which the
  query iteration is exact — in particular on the world a removal callback sees
  (`seen_before_query`): the total is the number of visits, and the reported entity occurs exactly
  once if the filter matches its mask and its row holds its handle.

  Kernel-only proofs, core Lean only.
-/
import Ark.Proofs.CallbacksSeen

set_option autoImplicit false

namespace Ark

open World Spec Ark.Props.C01World QueryExact Drain

/-- what the `query` probe does, given the outcome of the iteration -/
theorem runProbe_query (fuel : Nat) (l : Nat) (e : Ent) (f : Nat) (X X' : World) {vs : List Visit}
    (hd : drain ((AL.find? X.filters f).getD {}) [] X = .ok vs X') :
    runProbe (fuel + 1) l e (.query f) X
      = .ok () (X'.addLog [.q f vs.length (vs.filter fun v => v.e == e).length]) := by
  simp only [runProbe, bind, M.bind, M.get, tryW, hd, logEv_eq]

/-- counting by handle and by ID agree on an exact visit list when the entity's row holds its
    handle -/
theorem count_handle_eq_one {w : World} {fl : List Nat} {f : Filter} {vs : List Visit}
    (h : ExactVisits w fl f vs) {e : Ent} {t r : Nat} (h2 : 2 ≤ e.id) (hnf : e.id ∉ fl)
    (hi : w.entities[e.id]? = some (t, r)) (ht : t ≠ maxU32)
    (hm : f.matchesMask (w.arch (w.tbl t).arch).mask = true)
    (hrow : (w.tbl t).getEntity r = e) :
    (vs.filter fun v => v.e == e).length = 1 := by
  obtain ⟨hocc, v0, hv0, hid0, ht0, hr0⟩ := Ark.ExactVisits.occ_one h h2 hnf hi ht hm
  -- a visit has handle `e` iff it has ID `e.id`
  have hiff : ∀ v ∈ vs, (v.e == e) = (v.e.id == e.id) := by
    intro v hv
    obtain ⟨_, _, he, _, _, _, hve, _⟩ := h.sound v hv
    by_cases hid : v.e.id = e.id
    · have : v.e = e := by
        rw [hid, hi] at he
        obtain ⟨rfl, rfl⟩ := Prod.mk.inj (Option.some.inj he)
        rw [hve, hrow]
      rw [this, beq_self_eq_true, beq_self_eq_true]
    · have hne : v.e ≠ e := fun hh => hid (by rw [hh])
      rw [beq_eq_false_iff_ne.mpr hne, beq_eq_false_iff_ne.mpr hid]
  have hfilter : (vs.filter fun v => v.e == e) = vs.filter fun v => v.e.id == e.id :=
    List.filter_congr hiff
  rw [hfilter]
  have hcount : occ vs e.id = (vs.filter fun v => v.e.id == e.id).length := by
    unfold occ
    rw [List.count_eq_countP, List.countP_map, List.countP_eq_length_filter]
    rfl
  rw [← hcount, hocc]

/-- **the `query` probe of a removal callback counts the reported entity exactly once**: on the
    world `seen` a removal callback sees (Ark/Proofs/CallbacksSeen.lean), for an unregistered
    untyped filter object stored under label `f` (in `w1.filters`; the table lookup of the
    operation does not touch the filter heap, `FocShape.filters`, and for `RemoveEntity`
    `w1 = w.noObs`) whose filter matches the entity's mask BEFORE the operation, the probe records `q f total 1` — `total` the number of entities the filter
    selects before the operation — and leaves `seen` unchanged but for the log and the lock's bit
    pool. -/
theorem query_probe_seen_before {w w1 : World} {fl : List Nat} (h : CInvObs w fl)
    (lk : Looked w.noObs fl w1) {l1 l2 : Lock} {b : Nat} (hL : LockCycle w.locks l1 b l2)
    {l1' l2' : Lock} {b' : Nat} (hL' : LockCycle l1 l1' b' l2') (fuel l f : Nat) {e : Ent}
    {t r : Nat} (h2 : 2 ≤ e.id) (hnf : e.id ∉ fl) (hi : w.entities[e.id]? = some (t, r))
    (ht : t ≠ maxU32) (hrow : (w.tbl t).getEntity r = e)
    (hc : ((AL.find? w1.filters f).getD {}).cache = none)
    (hu : ((AL.find? w1.filters f).getD {}).typed = false ∨ ((AL.find? w1.filters f).getD {}).ids = [])
    (hm : ((AL.find? w1.filters f).getD {}).filter.matchesMask (w.arch (w.tbl t).arch).mask = true) :
    ∃ total : Nat,
      runProbe (fuel + 1) l e (.query f) (w1.reframe w.obs w.log l1)
        = .ok () (((w1.reframe w.obs w.log l1).withLocks l2').addLog [.q f total 1]) := by
  obtain ⟨q, vs, Q⟩ := seen_before_query lk hL hL' ((AL.find? w1.filters f).getD {}) hc hu
  have hd : drain ((AL.find? (w1.reframe w.obs w.log l1).filters f).getD {}) []
      (w1.reframe w.obs w.log l1) = .ok vs ((w1.reframe w.obs w.log l1).withLocks l2') :=
    Q.drained
  refine ⟨vs.length, ?_⟩
  rw [runProbe_query fuel l e f _ _ hd]
  have hi' : (w1.reframe w.obs w.log l1).entities[e.id]? = some (t, r) := by
    show w1.entities[e.id]? = _
    rw [lk.entities]; exact hi
  have hm' := seen_before_mask h lk l1 hi ht
  have htb : (w1.reframe w.obs w.log l1).tbl t = w.tbl t := by
    obtain ⟨hlt, _⟩ := CInv.table_of_entry h hi ht
    have := lk.tables t hlt
    show w1.tbl t = _
    simp only [tbl, List.getD_eq_getElem?_getD, this]
    rfl
  rw [count_handle_eq_one Q.exact h2 hnf hi' ht (by rw [hm']; exact hm) (by rw [htb]; exact hrow)]

end Ark
