/-
  Ark.Proofs.ResetEquivRelStep — every step of the machine `Ark.RelRefine2` (entity operations
  WITH relation components, `CopyEntity`, `Shrink`, `Reset`, filter definitions / registrations /
  unregistrations, queries), described by what later operations depend on: the specification,
  the handles issued, the registry, the entity pool, and the filter objects of the heap.

  * `step_desc`   — a step of the relation machine `Ark.RelRefine` (from `exec_acc` / `exec_rej`);
  * `copy_desc`, `shrink_desc`, `reset_desc`, `fdef_desc`, `freg_desc`, `funreg_desc`,
    `query_frame` — the other steps;
  * `foAt_reset`  — `Reset` unregisters every filter object and changes nothing else about it.

  Kernel-only proofs, core Lean only.
-/
import Ark.Proofs.ResetEquivRelKind

set_option autoImplicit false

namespace Ark

open World Ark.Props.C01World

namespace RelRefine

open Refine (Comps keys sortedIds writeComps zeros Outcome outcome)

/-- the issued handles after an ACCEPTED operation (`fresh` = the pool's next handle) -/
def issuedSpec (issued : List Ent) (fresh : Ent) (op : Op) : List Ent :=
  match retSpec fresh op with
  | some e => e :: issued
  | none => issued

/-- **one step of the relation machine, from the specification**: an accepted operation moves
    the specification by `specStep` with the pool's next handle, the issued handles by
    `issuedSpec`, the pool by `poolAfter`, the registry by `kindsAfter`, leaves the filter heap
    alone, and the client sees `retSpec`; a rejected one leaves the whole machine state unchanged
    and the client sees `rejKind` -/
theorem step_desc (run : ProbeRunner) {s : St} {fl : List Nat} (H : HInv s fl)
    (hfew : s.w.tables.length + s.w.relationArchetypes.length + 1 ≤ maxU32)
    (hent : 2 * s.w.entities.length < 2 ^ 32) (op : Op) (hg : guard s op = true) :
    (pre s.ss op →
      (step run s op).ss = specStep s.ss ((retSpec (s.w.pool.get).2 op).getD default) op ∧
      (step run s op).issued = issuedSpec s.issued (s.w.pool.get).2 op ∧
      (step run s op).w.pool = poolAfter s.w.pool op ∧
      (step run s op).w.kinds = kindsAfter s.w.kinds op ∧
      (step run s op).w.filters = s.w.filters ∧
      outcome (exec run s.w op) = .ok (retSpec (s.w.pool.get).2 op)) ∧
    (¬ pre s.ss op → step run s op = s ∧ outcome (exec run s.w op) = .panic (rejKind s.ss op)) := by
  constructor
  · intro hp
    obtain ⟨w', hex, hpool, hk⟩ := exec_acc run H hfew hent hg hp
    have hkept := RelRefine2.exec_kept run H hfew hent hg hp hex
    rw [step_of_guard hg, hex]
    exact ⟨rfl, rfl, hpool, hk, hkept.c.filters, rfl⟩
  · intro hnp
    have hex := exec_rej run H hg hnp
    rw [step_of_guard hg, hex]
    refine ⟨?_, rfl⟩
    simp only [Res.state, retOf, issuedAfter, specStep_of_not_pre s.ss _ op hnp]

end RelRefine

namespace RelRefine2

open QueryRel QueryExact RelRefine
open Refine (Outcome)

/-- what a client sees of a call that returns nothing -/
def outcomeU : Res World Unit → Outcome
  | .ok _ _ => .ok none
  | .panic k _ => .panic k

/-- what a client sees of a call that returns a handle -/
def outcomeE : Res World Ent → Outcome
  | .ok e _ => .ok (some e)
  | .panic k _ => .panic k

/-- a step that leaves specification, handles, pool and registry alone -/
structure Same (s s' : St) : Prop where
  ss : s'.ss = s.ss
  issued : s'.issued = s.issued
  pool : s'.w.pool = s.w.pool
  kinds : s'.w.kinds = s.w.kinds

theorem Same.refl (s : St) : Same s s := ⟨rfl, rfl, rfl, rfl⟩

theorem Same.of_sameButCF {s : St} {w' : World} (h : SameButCF s.w w') :
    Same s ⟨w', s.issued, s.ss⟩ := by
  obtain ⟨_, _, _, hk, _, _, hp, _⟩ := sameButCF_fields h
  exact ⟨rfl, rfl, hp, hk⟩

variable (run : ProbeRunner)

/-! ## `CopyEntity` -/

/-- **`copy e` on a handle the client holds**: with an entry, the copy gets the pool's next
    handle and the entry a second time; without, the call is rejected (`deadEntity`) -/
theorem copy_desc {s : St} {fl : List Nat} (H : HInv2 s fl)
    (hent : 2 * s.w.entities.length < 2 ^ 32) {e : Ent} (hi : e ∈ s.issued) :
    (∀ (en : Entry), find s.ss.ents e = some en →
      (step2 run s (.copy e)).ss = ⟨((s.w.pool.get).2, en) :: s.ss.ents, s.ss.zst, s.ss.isRel⟩ ∧
      (step2 run s (.copy e)).issued = (s.w.pool.get).2 :: s.issued ∧
      (step2 run s (.copy e)).w.pool = (s.w.pool.get).1 ∧
      (step2 run s (.copy e)).w.kinds = s.w.kinds ∧
      (step2 run s (.copy e)).w.filters = s.w.filters ∧
      outcomeE (opCopyEntity run e s.w) = .ok (some (s.w.pool.get).2)) ∧
    (find s.ss.ents e = none → step2 run s (.copy e) = s ∧
      outcomeE (opCopyEntity run e s.w) = .panic .deadEntity) := by
  constructor
  · intro en hf
    have hm := find_some_mem hf
    obtain ⟨_, ha, h2, hnf, _, _⟩ := H.base.live_facts hm
    obtain ⟨w', hop, post⟩ := opCopyEntity_rel_spec run H.base.tinv H.base.unlocked H.base.noObs h2
      hnf ha (H.base.issued_in hi) (by omega)
    have hstep : step2 run s (.copy e) =
        ⟨w', (s.w.pool.get).2 :: s.issued,
          ⟨((s.w.pool.get).2, en) :: s.ss.ents, s.ss.zst, s.ss.isRel⟩⟩ := by
      simp only [step2, decide_eq_true_eq, if_pos hi, hop, hf]
    rw [hstep, hop]
    exact ⟨rfl, rfl, post.pool, post.kinds, post.ckeep.filters, rfl⟩
  · intro hf
    have ha : s.w.alive e = false := by rw [H.base.alive_eq_find hi, hf]; rfl
    refine ⟨copy_rejected run H ha, ?_⟩
    rw [opCopyEntity_dead run s.w H.base.unlocked e ha]; rfl

/-! ## `Shrink` -/

theorem shrink_desc {s : St} {fl : List Nat} (H : HInv2 s fl)
    (hent : 2 * s.w.entities.length < 2 ^ 32) (bounded : Bool) :
    Same s (step2 run s (.shrink bounded)) ∧
    (step2 run s (.shrink bounded)).w.filters = s.w.filters := by
  have hl := H.base.unlocked
  have ht := H.base.tinv
  have hb : RowsBounded s.w := fun t => by have := ht.link.idx.rows_le t; omega
  obtain ⟨_, hrel⟩ := shrinkPure_rel ht.link.idx hb bounded
  have hstep : step2 run s (.shrink bounded) = ⟨(shrinkPure s.w bounded).1, s.issued, s.ss⟩ := by
    simp only [step2, opShrink_eq bounded s.w hl, Res.state]
  rw [hstep]
  exact ⟨⟨rfl, rfl, hrel.frame.pool, hrel.frame.kinds⟩, hrel.frame.filters⟩

/-! ## `Reset` -/

/-- `cache.Reset` keeps every filter object of the heap, unregistered -/
theorem foAt_cacheReset {w : World} (hC : CacheInv w) (hH : HeapOK w) (f : Nat) :
    (AL.find? w.cacheReset.filters f).getD {} = { foAt w f with cache := none } := by
  unfold cacheReset
  by_cases h0 : w.cache.indices.isEmpty = true
  · rw [if_pos h0]
    show foAt w f = _
    cases hfo : AL.find? w.filters f with
    | none => simp only [foAt, hfo]; rfl
    | some fo =>
      have hz : foAt w f = fo := by simp only [foAt, hfo]; rfl
      rw [hz]
      cases hc : fo.cache with
      | none => cases fo; simp_all
      | some id =>
        obtain ⟨e, he, _⟩ := hH.reg f fo id hfo hc
        rw [hC.filters_nil_of_indices_nil (List.isEmpty_iff.1 h0)] at he
        cases he
  · rw [if_neg h0]
    show (AL.find? (AL.mapVals w.filters fun fo =>
        match fo.cache with
        | some id => if (w.cache.filters.map (·.id)).contains id then { fo with cache := none }
            else fo
        | none => fo) f).getD {} = _
    rw [AL.find?_mapVals]
    cases hfo : AL.find? w.filters f with
    | none => simp only [foAt, hfo]; rfl
    | some fo =>
      have hz : foAt w f = fo := by simp only [foAt, hfo]; rfl
      rw [hz]
      simp only [Option.map_some, Option.getD_some]
      cases hc : fo.cache with
      | none => cases fo; simp_all
      | some id =>
        obtain ⟨e, he, hid, _, _⟩ := hH.reg f fo id hfo hc
        have : (w.cache.filters.map (·.id)).contains id = true := by
          rw [List.contains_iff_mem]; exact List.mem_map.2 ⟨e, he, hid⟩
        simp only [this, if_true]

/-- **`Reset`**: always accepted; the specification is emptied, nothing counts as issued, the pool
    is reset, the registry kept, every filter object unregistered and otherwise unchanged -/
theorem reset_desc {s : St} {fl : List Nat} (H : HInv2 s fl) :
    (step2 run s .reset).ss = ⟨[], s.ss.zst, s.ss.isRel⟩ ∧
    (step2 run s .reset).issued = [] ∧
    (step2 run s .reset).w.pool = s.w.pool.reset ∧
    (step2 run s .reset).w.kinds = s.w.kinds ∧
    (∀ (f : Nat), foAt (step2 run s .reset).w f = { foAt s.w f with cache := none }) ∧
    outcomeU (opReset s.w) = .ok none := by
  have post := step2_reset_spec run H
  rw [post.state, opReset_eq s.w H.base.unlocked]
  refine ⟨rfl, rfl, resetW_pool s.w, resetW_kinds s.w, fun f => ?_, rfl⟩
  show (AL.find? (resetW s.w).filters f).getD {} = _
  rw [resetW_filters]
  exact foAt_cacheReset H.finv.cache H.finv.heap f

/-! ## the filter operations -/

/-- does the `filter` line store the object?  (the typed constructor validates the fixed
    relations) -/
def fdefStores (w : World) (fo : FilterObj) : Bool :=
  match (if fo.typed then preCheckTyped fo.filter.mask fo.rels else pure ()) w with
  | .ok _ _ => true
  | .panic _ _ => false

theorem foAt_insert (F : AL FilterObj) (w : World) (f g : Nat) (fo : FilterObj) :
    foAt { w with filters := AL.insert F f fo } g =
      if g = f then fo else (AL.find? F g).getD {} := by
  show (AL.find? (AL.insert F f fo) g).getD {} = _
  rw [AL.find?_insert]
  split <;> rfl

/-- **`fdef f fo`**: only the filter heap can change; the object is stored under `f` iff the
    step is expressible (`guardF`) and the typed constructor accepts the fixed relations -/
theorem fdef_desc (s : St) (f : Nat) (fo : FilterObj) :
    Same s (step2 run s (.fdef f fo)) ∧
    ∀ (g : Nat), foAt (step2 run s (.fdef f fo)).w g =
      if guardF s.w fo = true ∧ fdefStores s.w fo = true ∧ g = f then fo else foAt s.w g := by
  by_cases hg : guardF s.w fo = true
  · simp only [step2, if_pos hg]
    refine ⟨Same.of_sameButCF (defFilter_sameButCF f fo s.w).1, fun g => ?_⟩
    show foAt (defFilter f fo s.w) g = _
    unfold defFilter fdefStores
    rcases hpc : (if fo.typed = true then preCheckTyped fo.filter.mask fo.rels else pure ()) s.w with
      ⟨u, w'⟩ | ⟨k, w'⟩
    · have hw : w' = s.w := by
        cases ht : fo.typed with
        | false =>
          rw [ht] at hpc
          simp only [Bool.false_eq_true, if_false, pure, M.pure] at hpc
          injection hpc with _ h2; exact h2.symm
        | true =>
          rw [ht] at hpc
          simp only [if_true] at hpc
          rcases preCheckTyped_cases fo.filter.mask s.w fo.rels with h | ⟨k, h⟩
          · rw [h] at hpc; injection hpc with _ h2; exact h2.symm
          · rw [h] at hpc; cases hpc
      subst hw
      simp only [hg, true_and]
      rw [foAt_insert]
      rfl
    · have hw : w' = s.w := by
        cases ht : fo.typed with
        | false =>
          rw [ht] at hpc
          simp only [Bool.false_eq_true, if_false, pure, M.pure] at hpc
          cases hpc
        | true =>
          rw [ht] at hpc
          simp only [if_true] at hpc
          rcases preCheckTyped_cases fo.filter.mask s.w fo.rels with h | ⟨k, h⟩
          · rw [h] at hpc; cases hpc
          · rw [h] at hpc; injection hpc with _ h2; exact h2.symm
      subst hw
      simp only [Bool.false_eq_true, false_and, and_false, if_false]
  · simp only [step2, if_neg hg]
    exact ⟨Same.refl s, fun g => by simp only [hg, Bool.false_eq_true, false_and, if_false]⟩

/-- **`freg f`**: on an unregistered object the registration succeeds and the object gets a cache
    ID; on a registered one the call is rejected (`filterRegistered`) without effect -/
theorem freg_desc {s : St} {fl : List Nat} (H : HInv2 s fl) (f : Nat) :
    Same s (step2 run s (.freg f)) ∧
    ((foAt s.w f).cache = none → ∃ (id : Nat),
      (∀ (g : Nat), foAt (step2 run s (.freg f)).w g =
        if g = f then { foAt s.w f with cache := some id } else foAt s.w g) ∧
      outcomeU (opFilterRegister f s.w) = .ok none) ∧
    ((foAt s.w f).cache.isSome = true → step2 run s (.freg f) = s ∧
      outcomeU (opFilterRegister f s.w) = .panic .filterRegistered) := by
  have hsame : Same s (step2 run s (.freg f)) :=
    Same.of_sameButCF (H.finv.filterRegister H.base.tinv f).2.1
  refine ⟨hsame, ?_, ?_⟩
  · intro hc
    have ht := H.base.tinv
    have HT := tablesInv_of_rel ht.rel
    obtain ⟨hrt, _⟩ := foAt_facts H.finv.heap f
    have hok := relsOK_of_typed ht.rel.sinv.toSInvMid hrt
    obtain ⟨ts, hts, _, _⟩ := getCacheTables_spec HT hok
    have hreg := cacheRegister_eq s.w _ _ ts hts
    have hop := opFilterRegister_eq f s.w hc hreg
    refine ⟨(s.w.cache.pool.get).2, fun g => ?_, by rw [hop]; rfl⟩
    simp only [step2, hop, Res.state]
    exact foAt_insert _ _ f g _
  · intro hc
    obtain ⟨id, hid⟩ := Option.isSome_iff_exists.mp hc
    have hop := opFilterRegister_registered f s.w hid
    refine ⟨?_, by rw [hop]; rfl⟩
    simp only [step2, hop, Res.state]

/-- **`funreg f`**: on a registered object the call succeeds and the object loses its cache ID;
    on an unregistered one the call is rejected (`filterNotRegistered`) without effect -/
theorem funreg_desc {s : St} {fl : List Nat} (H : HInv2 s fl) (f : Nat) :
    Same s (step2 run s (.funreg f)) ∧
    ((foAt s.w f).cache.isSome = true →
      (∀ (g : Nat), foAt (step2 run s (.funreg f)).w g =
        if g = f then { foAt s.w f with cache := none } else foAt s.w g) ∧
      outcomeU (opFilterUnregister f s.w) = .ok none) ∧
    ((foAt s.w f).cache = none → step2 run s (.funreg f) = s ∧
      outcomeU (opFilterUnregister f s.w) = .panic .filterNotRegistered) := by
  have hsame : Same s (step2 run s (.funreg f)) :=
    Same.of_sameButCF (H.finv.filterUnregister H.base.tinv f).2.1
  refine ⟨hsame, ?_, ?_⟩
  · intro hc
    obtain ⟨id, hid⟩ := Option.isSome_iff_exists.mp hc
    cases hfind : AL.find? s.w.filters f with
    | none => simp only [foAt, hfind] at hid; cases hid
    | some fo =>
      have hfo : foAt s.w f = fo := by simp only [foAt, hfind]; rfl
      have hcfo : fo.cache = some id := by rw [← hfo]; exact hid
      obtain ⟨e0, he0, hid0, _, _⟩ := H.finv.heap.reg f fo id hfind hcfo
      obtain ⟨idx, hidx⟩ := find_of_mem H.finv.cache he0
      rw [hid0] at hidx
      obtain ⟨w1, hun, _⟩ := cacheUnregister_inv H.finv.cache hidx
      obtain ⟨F, I, hform⟩ := cacheUnregister_form hun
      have hFl : w1.filters = s.w.filters := by rw [hform]
      have hop := opFilterUnregister_eq f s.w hid hun
      refine ⟨fun g => ?_, by rw [hop]; rfl⟩
      simp only [step2, hop, Res.state]
      rw [foAt_insert, hFl]
      rfl
  · intro hc
    have hop := opFilterUnregister_unregistered f s.w hc
    refine ⟨?_, by rw [hop]; rfl⟩
    simp only [step2, hop, Res.state]

/-! ## queries -/

/-- a query leaves specification, handles, pool, registry and filter heap alone -/
theorem query_frame {s : St} {fl : List Nat} (H : HInv2 s fl) (f : Nat) (extra : List RelID) :
    Same s (step2 run s (.query f extra)) ∧
    (step2 run s (.query f extra)).w.filters = s.w.filters := by
  by_cases hg : guardQ s.w (foAt s.w f) extra = true
  case neg =>
    simp only [step2, if_neg hg]
    exact ⟨Same.refl s, trivial⟩
  simp only [step2, if_pos hg]
  obtain ⟨hrt, hfok⟩ := foAt_facts H.finv.heap f
  by_cases hx : ExtraAdmissible s.w (foAt s.w f) extra
  case neg =>
    have ht : (foAt s.w f).typed = true := by
      cases htt : (foAt s.w f).typed with
      | true => rfl
      | false =>
        exfalso
        apply hx
        refine ⟨fun h => (by rw [htt] at h; cases h), fun _ r hr => ?_⟩
        simp only [guardQ, htt, Bool.false_or, List.all_eq_true, Bool.and_eq_true] at hg
        exact hg r hr
    have hbad : ¬ ExtraOK s.w (foAt s.w f).filter.mask extra :=
      fun h => hx ⟨fun _ => h, fun h' => by rw [ht] at h'; cases h'⟩
    obtain ⟨k, _, hd⟩ := drain_rejected (foAt s.w f) extra s.w ht hbad
    rw [hd]
    exact ⟨Same.refl s, rfl⟩
  obtain ⟨l1, l2, b, hL, _⟩ := H.qgood.lockCycle
  obtain ⟨d1, d2⟩ := H.drain_both hrt hfok hx hL
  have hdr : ∃ (visits : List Visit),
      drain (foAt s.w f) extra s.w = .ok visits (s.w.withLocks l2) := by
    cases hc : (foAt s.w f).cache with
    | none =>
      obtain ⟨q, visits, Q⟩ := d1 hc
      exact ⟨visits, Q.drained⟩
    | some id =>
      cases hfind : AL.find? s.w.filters f with
      | none => simp only [foAt, hfind] at hc; cases hc
      | some fo =>
        have hfo : foAt s.w f = fo := by simp only [foAt, hfind]; rfl
        obtain ⟨e, he, h1, h2, h3⟩ := H.finv.heap.reg f fo id hfind (by rw [← hfo]; exact hc)
        have hlook := lookup_of_mem H.finv.cache he
        rw [h1] at hlook
        obtain ⟨q, visits, Q⟩ := d2 id e hc hlook (by rw [hfo]; exact h2) (by rw [hfo]; exact h3)
        exact ⟨visits, Q.drained⟩
  obtain ⟨visits, hd⟩ := hdr
  rw [hd]
  exact ⟨⟨rfl, rfl, rfl, rfl⟩, rfl⟩

end RelRefine2

end Ark
