/-
  Ark.Proofs.ShrinkInv — `storage.Shrink` (`World.opShrink`) at world level (property C15).
  Kernel-only proofs, core Lean only.

  1. pure reformulation: `shrinkStep` (one loop iteration), `shrinkLoop`, `shrinkPure`;
     `opShrink_eq` connects the monadic `for` loop (with `break`) to the pure recursion.
  2. `shrinkStep_eq` (normal form), `shrinkStep_snd` (the step finds work iff `tableHasWork`),
     `shrinkStep_noop`.
  3.–5. invisibility: `SameFrame`, `TblRel`, `ArchRel`, `ShrinkRel` (reflexive, transitive, kept by
     every step), `shrinkStep_idxInv`, `shrink_invisible`.
  6.–7. `hasWork_step`, the measure `work`, `shrinkPure_bounded` (the bounded call is at most one
     step, on the first table with work), `shrinkPure_unbounded`, `shrink_caps`,
     `shrink_result_exact`, `shrink_progress`, `shrinkIter`, `shrink_converges`.
  8. `StepShape` (one table and its archetype replaced): `SInv`, `RInv` preserved; the cache via
     `TableRemoved` + `cacheRemoveTable_inv`; `shrink_keeps_structure`.
  9. `ShrinkDemo`: a concrete world for the non-vacuity examples of `Ark/Props/C15World.lean`.

  Recorded hypothesis: `RowsBounded` — every table has fewer than `2^32` rows (as everywhere in
  `Ark.Proofs.Table`: the model's `capPow2` doubles at most 33 times).
-/
import Ark.Model.World
import Ark.Proofs.Table
import Ark.Proofs.IdxInv
import Ark.Proofs.ArchIndex
import Ark.Proofs.SInv
import Ark.Proofs.CacheInv
import Ark.Proofs.Rejects
import Ark.Props.C01World

set_option autoImplicit false

namespace Ark
namespace World

/-! ## 1. pure reformulation -/

/-- the block of `storage.Shrink` that frees the (active, empty) relation table `t`;
    `T'` is the table after `Table.shrink` -/
def freeStep (w : World) (t : Nat) (T' : Table) : World :=
  ((w.modArch T'.arch fun A => (A.freeTable t).removeTableRelations t T'.targets).modTbl t
    fun T => { T with isFree := true }).cacheRemoveTable t

/-- one iteration of the loop of `storage.Shrink`: the world afterwards and whether work was
    found for table `t` -/
def shrinkStep (w : World) (t : Nat) : World × Bool :=
  if !(w.tbl t).hasRelations then
    (w.setTbl t ((w.tbl t).shrink w.initCap).1, ((w.tbl t).shrink w.initCap).2)
  else
    if !((w.tbl t).shrink w.initCapRel).1.isFree && ((w.tbl t).shrink w.initCapRel).1.len == 0 then
      (freeStep (w.setTbl t ((w.tbl t).shrink w.initCapRel).1) t ((w.tbl t).shrink w.initCapRel).1, true)
    else
      (w.setTbl t ((w.tbl t).shrink w.initCapRel).1, ((w.tbl t).shrink w.initCapRel).2)

/-- the loop of `storage.Shrink` over the table indices `ts`, with the loop variables
    `anyFound` and `stopIdx`; returns the world and the final loop variables -/
def shrinkLoop (bounded : Bool) : List Nat → World → Bool × Nat → World × (Bool × Nat)
  | [], w, s => (w, s)
  | t :: ts, w, s =>
    if (s.1 || (shrinkStep w t).2) && bounded then
      ((shrinkStep w t).1, (s.1 || (shrinkStep w t).2, t + 1))
    else shrinkLoop bounded ts (shrinkStep w t).1 (s.1 || (shrinkStep w t).2, s.2)

/-- does table `t` of `w` have shrink work -/
def hasWork (w : World) (t : Nat) : Bool := w.tableHasWork (w.tbl t)

/-- `storage.Shrink`, pure: the world afterwards and the returned flag -/
def shrinkPure (w : World) (bounded : Bool) : World × Bool :=
  let r := shrinkLoop bounded (List.range w.tables.length) w (false, w.tables.length)
  (r.1, (List.range (w.tables.length - r.2.2)).any fun k => r.1.hasWork (r.2.2 + k))

/-- a `for` loop whose body performs `shrinkStep` and updates the loop variables as
    `storage.Shrink` does is `shrinkLoop` -/
theorem forIn_shrinkLoop (bounded : Bool) (f : Nat → Bool × Nat → W (ForInStep (Bool × Nat)))
    (hf : ∀ (t : Nat) (s : Bool × Nat) (w : World), f t s w =
      .ok (if (s.1 || (shrinkStep w t).2) && bounded
            then ForInStep.done (s.1 || (shrinkStep w t).2, t + 1)
            else ForInStep.yield (s.1 || (shrinkStep w t).2, s.2)) (shrinkStep w t).1)
    (ts : List Nat) (w : World) (s : Bool × Nat) :
    (forIn ts s f : W (Bool × Nat)) w =
      .ok (shrinkLoop bounded ts w s).2 (shrinkLoop bounded ts w s).1 := by
  induction ts generalizing w s with
  | nil => rfl
  | cons t ts ih =>
    rw [List.forIn_cons, M.bind_apply, hf]
    simp only [shrinkLoop]
    split
    · rfl
    · exact ih _ _

theorem opShrink_eq (bounded : Bool) (w : World) (hl : w.isLocked = false) :
    opShrink bounded w = .ok (shrinkPure w bounded).2 (shrinkPure w bounded).1 := by
  unfold opShrink
  simp only [M.bind_apply, checkLocked, hl, Bool.false_eq_true, if_false, M.get_apply]
  rw [forIn_shrinkLoop bounded]
  · rfl
  · intro t s w
    simp only [M.bind_apply, M.get_apply, shrinkStep, freeStep]
    obtain ⟨af, si⟩ := s
    rcases Bool.eq_false_or_eq_true (w.tbl t).hasRelations with h1 | h1
    · rcases Bool.eq_false_or_eq_true ((w.tbl t).shrink w.initCapRel).2 with h2 | h2 <;>
      rcases Bool.eq_false_or_eq_true ((w.tbl t).shrink w.initCapRel).1.isFree with h3 | h3 <;>
      rcases Bool.eq_false_or_eq_true (((w.tbl t).shrink w.initCapRel).1.len == 0) with h4 | h4 <;>
      cases af <;> cases bounded <;> simp [h1, h2, h3, h4]
    · rcases Bool.eq_false_or_eq_true ((w.tbl t).shrink w.initCap).2 with h2 | h2 <;>
        cases af <;> cases bounded <;> simp [h1, h2]

/-! ## 2. the loop step in normal form -/

/-- the minimum capacity `storage.Shrink` uses for a table -/
def minCap (w : World) (T : Table) : Nat := if T.hasRelations then w.initCapRel else w.initCap

/-- is `T` an active, empty relation table (which `storage.Shrink` frees) -/
def freeable (T : Table) : Bool := T.hasRelations && !T.isFree && T.len == 0

/-- table `t` after `Table.shrink` -/
def shrunk (w : World) (t : Nat) : Table := ((w.tbl t).shrink (w.minCap (w.tbl t))).1

theorem tableHasWork_eq (w : World) (T : Table) :
    w.tableHasWork T = (T.canShrink (w.minCap T) || freeable T) := by
  unfold tableHasWork minCap freeable
  cases T.hasRelations <;> simp

end World

namespace Table

theorem shrink_id (t : Table) (m : Nat) : (t.shrink m).1.id = t.id := by
  simp only [shrink]; split <;> rfl
theorem shrink_arch (t : Table) (m : Nat) : (t.shrink m).1.arch = t.arch := by
  simp only [shrink]; split <;> rfl
theorem shrink_ids (t : Table) (m : Nat) : (t.shrink m).1.ids = t.ids := by
  simp only [shrink]; split <;> rfl
theorem shrink_isRel (t : Table) (m : Nat) : (t.shrink m).1.isRel = t.isRel := by
  simp only [shrink]; split <;> rfl
theorem shrink_zst (t : Table) (m : Nat) : (t.shrink m).1.zst = t.zst := by
  simp only [shrink]; split <;> rfl
theorem shrink_targets (t : Table) (m : Nat) : (t.shrink m).1.targets = t.targets := by
  simp only [shrink]; split <;> rfl
theorem shrink_relIDs (t : Table) (m : Nat) : (t.shrink m).1.relIDs = t.relIDs := by
  simp only [shrink]; split <;> rfl
theorem shrink_isFree (t : Table) (m : Nat) : (t.shrink m).1.isFree = t.isFree := by
  simp only [shrink]; split <;> rfl
theorem shrink_hasRelations (t : Table) (m : Nat) : (t.shrink m).1.hasRelations = t.hasRelations := by
  simp only [hasRelations, shrink_relIDs]

/-- a table that cannot shrink is left alone -/
theorem shrink_noop (t : Table) (m : Nat) (h : t.canShrink m = false) : (t.shrink m).1 = t := by
  simp only [canShrink, decide_eq_false_iff_not, Nat.not_lt] at h
  simp only [shrink, h, if_true]

/-- after `shrink` there is nothing left to shrink -/
theorem shrink_canShrink (t : Table) (m : Nat) : (t.shrink m).1.canShrink m = false := by
  simp only [canShrink, shrink_len, shrink_cap, decide_eq_false_iff_not, Nat.not_lt]
  split <;> omega

end Table

namespace World

theorem shrinkStep_eq (w : World) (t : Nat) :
    shrinkStep w t =
      if freeable (w.tbl t) then (freeStep (w.setTbl t (w.shrunk t)) t (w.shrunk t), true)
      else (w.setTbl t (w.shrunk t), (w.tbl t).canShrink (w.minCap (w.tbl t))) := by
  unfold shrinkStep shrunk minCap freeable
  rcases Bool.eq_false_or_eq_true (w.tbl t).hasRelations with h | h
  · simp only [h, Bool.not_true, Bool.false_eq_true, if_false, if_true, Table.shrink_isFree,
      Table.shrink_len, Bool.true_and, Table.shrink_snd]
  · simp only [h, Bool.not_false, if_true, Bool.false_and, Bool.false_eq_true, if_false,
      Table.shrink_snd]

theorem shrinkStep_snd (w : World) (t : Nat) : (shrinkStep w t).2 = w.hasWork t := by
  rw [shrinkStep_eq, hasWork, tableHasWork_eq]
  cases freeable (w.tbl t) <;> simp

theorem setTbl_tbl_same (w : World) (t : Nat) : w.setTbl t (w.tbl t) = w := by
  have : w.tables.set t (w.tbl t) = w.tables := by
    apply List.ext_getElem?
    intro i
    by_cases h : t = i
    · subst h
      by_cases hl : t < w.tables.length
      · rw [List.getElem?_set_self hl]; exact (get_of_lt hl).symm
      · rw [List.getElem?_eq_none (by simpa using hl), List.getElem?_eq_none (by simpa using hl)]
    · rw [List.getElem?_set_ne h]
  cases w
  simp only [setTbl] at this ⊢
  rw [this]

/-- a table without work is left alone, and so is the rest of the world -/
theorem shrinkStep_noop (w : World) (t : Nat) (h : w.hasWork t = false) :
    (shrinkStep w t).1 = w := by
  rw [hasWork, tableHasWork_eq, Bool.or_eq_false_iff] at h
  rw [shrinkStep_eq, h.2]
  simp only [Bool.false_eq_true, if_false, shrunk, Table.shrink_noop _ _ h.1, setTbl_tbl_same]

/-! ## 3. what the step leaves alone -/

/-- `w'` differs from `w` at most in the table store, the archetype store and the cache -/
def SameFrame (w w' : World) : Prop :=
  ∃ (ts : List Table) (as : List Archetype) (c : Cache),
    w' = { w with tables := ts, archetypes := as, cache := c }

theorem SameFrame.refl (w : World) : SameFrame w w :=
  ⟨w.tables, w.archetypes, w.cache, by cases w; rfl⟩

theorem SameFrame.trans {a b c : World} (h1 : SameFrame a b) (h2 : SameFrame b c) :
    SameFrame a c := by
  obtain ⟨_, _, _, rfl⟩ := h1
  obtain ⟨_, _, _, rfl⟩ := h2
  exact ⟨_, _, _, rfl⟩

theorem SameFrame.entities {w w' : World} (h : SameFrame w w') : w'.entities = w.entities := by
  obtain ⟨_, _, _, rfl⟩ := h; rfl
theorem SameFrame.pool {w w' : World} (h : SameFrame w w') : w'.pool = w.pool := by
  obtain ⟨_, _, _, rfl⟩ := h; rfl
theorem SameFrame.isTarget {w w' : World} (h : SameFrame w w') : w'.isTarget = w.isTarget := by
  obtain ⟨_, _, _, rfl⟩ := h; rfl
theorem SameFrame.kinds {w w' : World} (h : SameFrame w w') : w'.kinds = w.kinds := by
  obtain ⟨_, _, _, rfl⟩ := h; rfl
theorem SameFrame.locks {w w' : World} (h : SameFrame w w') : w'.locks = w.locks := by
  obtain ⟨_, _, _, rfl⟩ := h; rfl
theorem SameFrame.obs {w w' : World} (h : SameFrame w w') : w'.obs = w.obs := by
  obtain ⟨_, _, _, rfl⟩ := h; rfl
theorem SameFrame.initCap {w w' : World} (h : SameFrame w w') : w'.initCap = w.initCap := by
  obtain ⟨_, _, _, rfl⟩ := h; rfl
theorem SameFrame.initCapRel {w w' : World} (h : SameFrame w w') : w'.initCapRel = w.initCapRel := by
  obtain ⟨_, _, _, rfl⟩ := h; rfl
theorem SameFrame.componentIndex {w w' : World} (h : SameFrame w w') :
    w'.componentIndex = w.componentIndex := by
  obtain ⟨_, _, _, rfl⟩ := h; rfl
theorem SameFrame.relationArchetypes {w w' : World} (h : SameFrame w w') :
    w'.relationArchetypes = w.relationArchetypes := by
  obtain ⟨_, _, _, rfl⟩ := h; rfl
theorem SameFrame.filters {w w' : World} (h : SameFrame w w') : w'.filters = w.filters := by
  obtain ⟨_, _, _, rfl⟩ := h; rfl
theorem SameFrame.resources {w w' : World} (h : SameFrame w w') : w'.resources = w.resources := by
  obtain ⟨_, _, _, rfl⟩ := h; rfl
theorem SameFrame.log {w w' : World} (h : SameFrame w w') : w'.log = w.log := by
  obtain ⟨_, _, _, rfl⟩ := h; rfl
theorem SameFrame.isLocked {w w' : World} (h : SameFrame w w') : w'.isLocked = w.isLocked := by
  simp only [World.isLocked, h.locks]

theorem setTbl_sameFrame (w : World) (t : Nat) (T : Table) : SameFrame w (w.setTbl t T) :=
  ⟨_, w.archetypes, w.cache, rfl⟩

theorem freeStep_sameFrame (w : World) (t : Nat) (T' : Table) : SameFrame w (freeStep w t T') :=
  ⟨_, _, _, rfl⟩

theorem shrinkStep_sameFrame (w : World) (t : Nat) : SameFrame w (shrinkStep w t).1 := by
  rw [shrinkStep_eq]
  split
  · exact (setTbl_sameFrame w t _).trans (freeStep_sameFrame _ t _)
  · exact setTbl_sameFrame w t _

theorem freeStep_tables (w : World) (t : Nat) (T' : Table) :
    (freeStep w t T').tables = w.tables.set t { w.tbl t with isFree := true } := rfl

theorem freeStep_archetypes (w : World) (t : Nat) (T' : Table) :
    (freeStep w t T').archetypes = w.archetypes.set T'.arch
      (((w.arch T'.arch).freeTable t).removeTableRelations t T'.targets) := rfl

theorem freeStep_tbl_ne (w : World) (t : Nat) (T' : Table) {t' : Nat} (h : t ≠ t') :
    (freeStep w t T').tbl t' = w.tbl t' :=
  setTbl_tbl_ne w _ h

theorem freeStep_tbl_self (w : World) {t : Nat} (T' : Table) (h : t < w.tables.length) :
    (freeStep w t T').tbl t = { w.tbl t with isFree := true } :=
  setTbl_tbl_self (w := w) _ h

/-- the step does not touch the other tables -/
theorem shrinkStep_tbl_ne (w : World) {t t' : Nat} (h : t ≠ t') :
    (shrinkStep w t).1.tbl t' = w.tbl t' := by
  rw [shrinkStep_eq]
  split
  · rw [freeStep_tbl_ne _ _ _ h, setTbl_tbl_ne w _ h]
  · exact setTbl_tbl_ne w _ h

theorem shrinkStep_tables_length (w : World) (t : Nat) :
    (shrinkStep w t).1.tables.length = w.tables.length := by
  rw [shrinkStep_eq]
  split
  · simp [freeStep_tables]
  · simp

/-- table `t` after the step -/
theorem shrinkStep_tbl_self (w : World) {t : Nat} (h : t < w.tables.length) :
    (shrinkStep w t).1.tbl t =
      if freeable (w.tbl t) then { w.shrunk t with isFree := true } else w.shrunk t := by
  rw [shrinkStep_eq]
  split
  · rw [freeStep_tbl_self _ _ (by simpa using h), setTbl_tbl_self _ h]
  · exact setTbl_tbl_self _ h

/-- a table index beyond the store has no work -/
theorem hasWork_of_ge (w : World) {t : Nat} (h : w.tables.length ≤ t) : w.hasWork t = false := by
  have hd : w.tbl t = default := by
    simp [tbl, List.getD_eq_getElem?_getD, List.getElem?_eq_none h]
  rw [hasWork, hd, tableHasWork_eq]
  rfl

/-- to prove something of the world after a step it suffices to look at steps on existing tables -/
theorem shrinkStep_cases (P : World → Prop) (w : World) (t : Nat) (h0 : P w)
    (h1 : t < w.tables.length → P (shrinkStep w t).1) : P (shrinkStep w t).1 := by
  by_cases h : t < w.tables.length
  · exact h1 h
  · rw [shrinkStep_noop w t (hasWork_of_ge w (by omega))]; exact h0

/-- induction over the loop -/
theorem shrinkLoop_induct (P : World → Prop) (hstep : ∀ (w : World) (t : Nat), P w → P (shrinkStep w t).1)
    (bounded : Bool) (ts : List Nat) (w : World) (s : Bool × Nat) (h : P w) :
    P (shrinkLoop bounded ts w s).1 := by
  induction ts generalizing w s with
  | nil => exact h
  | cons t ts ih =>
    simp only [shrinkLoop]
    split
    · exact hstep w t h
    · exact ih _ _ (hstep w t h)

theorem shrinkPure_induct (P : World → Prop) (hstep : ∀ (w : World) (t : Nat), P w → P (shrinkStep w t).1)
    (bounded : Bool) (w : World) (h : P w) : P (shrinkPure w bounded).1 :=
  shrinkLoop_induct P hstep bounded _ w _ h

/-! ## 4. invisibility: tables -/

/-- What `storage.Shrink` may do to a table: `cap` does not grow, the cells of the entity column
    beyond `len` are arbitrary, `isFree` may be set for an active empty relation table.
    Everything else — in particular every component cell — is unchanged. -/
structure TblRel (T T' : Table) : Prop where
  id : T'.id = T.id
  arch : T'.arch = T.arch
  ids : T'.ids = T.ids
  isRel : T'.isRel = T.isRel
  zst : T'.zst = T.zst
  targets : T'.targets = T.targets
  relIDs : T'.relIDs = T.relIDs
  len : T'.len = T.len
  cap_le : T'.cap ≤ T.cap
  ent : ∀ (r : Nat), r < T.len → T'.getEntity r = T.getEntity r
  cell : ∀ (i r : Nat), T'.cell i r = T.cell i r
  free : T'.isFree = T.isFree ∨ (freeable T = true ∧ T'.isFree = true)

theorem TblRel.refl (T : Table) : TblRel T T :=
  ⟨rfl, rfl, rfl, rfl, rfl, rfl, rfl, rfl, Nat.le_refl _, fun _ _ => rfl, fun _ _ => rfl, Or.inl rfl⟩

theorem TblRel.hasRelations {T T' : Table} (h : TblRel T T') : T'.hasRelations = T.hasRelations := by
  simp only [Table.hasRelations, h.relIDs]

theorem TblRel.trans {A B C : Table} (h1 : TblRel A B) (h2 : TblRel B C) : TblRel A C where
  id := h2.id.trans h1.id
  arch := h2.arch.trans h1.arch
  ids := h2.ids.trans h1.ids
  isRel := h2.isRel.trans h1.isRel
  zst := h2.zst.trans h1.zst
  targets := h2.targets.trans h1.targets
  relIDs := h2.relIDs.trans h1.relIDs
  len := h2.len.trans h1.len
  cap_le := Nat.le_trans h2.cap_le h1.cap_le
  ent := fun r hr => (h2.ent r (by rw [h1.len]; exact hr)).trans (h1.ent r hr)
  cell := fun i r => (h2.cell i r).trans (h1.cell i r)
  free := by
    rcases h1.free with e1 | ⟨f1, e1⟩
    · rcases h2.free with e2 | ⟨f2, e2⟩
      · exact Or.inl (e2.trans e1)
      · refine Or.inr ⟨?_, e2⟩
        simpa only [freeable, h1.hasRelations, e1, h1.len] using f2
    · rcases h2.free with e2 | ⟨_, e2⟩
      · exact Or.inr ⟨f1, e2.trans e1⟩
      · exact Or.inr ⟨f1, e2⟩

/-- `isFree` is only ever set -/
theorem TblRel.free_mono {T T' : Table} (h : TblRel T T') (hf : T.isFree = true) : T'.isFree = true := by
  rcases h.free with e | ⟨_, e⟩
  · rw [e, hf]
  · exact e

theorem TblRel.colIdx {T T' : Table} (h : TblRel T T') (c : Comp) : T'.colIdx c = T.colIdx c := by
  simp only [Table.colIdx, h.ids]

theorem TblRel.getComp {T T' : Table} (h : TblRel T T') (c : Comp) (r : Nat) :
    T'.getComp c r = T.getComp c r := by
  simp only [Table.getComp, h.colIdx, h.cell]

theorem TblRel.getRelation {T T' : Table} (h : TblRel T T') (c : Comp) :
    T'.getRelation c = T.getRelation c := by
  simp only [Table.getRelation, h.colIdx, h.targets]

theorem TblRel.matchesRels {T T' : Table} (h : TblRel T T') (rels : List RelID) :
    T'.matchesRels rels = T.matchesRels rels := by
  have hgo : ∀ (l : List RelID), Table.matchesRels.go T' l = Table.matchesRels.go T l := by
    intro l
    induction l with
    | nil => rfl
    | cons r l ih => simp only [Table.matchesRels.go, h.colIdx, h.targets, ih]
  simp only [Table.matchesRels, h.hasRelations, hgo]

/-- `Table.shrink` on a well-shaped table of fewer than `2^32` rows -/
theorem shrink_tblRel {T : Table} (hS : T.Shape) (m : Nat) : TblRel T (T.shrink m).1 where
  id := Table.shrink_id T m
  arch := Table.shrink_arch T m
  ids := Table.shrink_ids T m
  isRel := Table.shrink_isRel T m
  zst := Table.shrink_zst T m
  targets := Table.shrink_targets T m
  relIDs := Table.shrink_relIDs T m
  len := Table.shrink_len T m
  cap_le := Table.shrink_cap_le T m
  ent := fun r hr => (Table.shrink_preserves_rows T m 0 r hr).2
  cell := fun i r => Table.shrink_cell hS m i r
  free := Or.inl (Table.shrink_isFree T m)

theorem setFree_tblRel {T : Table} (h : freeable T = true) : TblRel T { T with isFree := true } :=
  ⟨rfl, rfl, rfl, rfl, rfl, rfl, rfl, rfl, Nat.le_refl _, fun _ _ => rfl, fun _ _ => rfl, Or.inr ⟨h, rfl⟩⟩

theorem shrunk_tblRel {w : World} {t : Nat} (hS : (w.tbl t).Shape) : TblRel (w.tbl t) (w.shrunk t) :=
  shrink_tblRel hS _

theorem freeable_shrunk (w : World) (t : Nat) : freeable (w.shrunk t) = freeable (w.tbl t) := by
  simp only [freeable, shrunk, Table.shrink_hasRelations, Table.shrink_isFree, Table.shrink_len]

theorem default_shape : (default : Table).Shape := by
  refine ⟨Nat.le_refl _, rfl, rfl, rfl, ?_, ?_, ?_⟩
  · intro col h; cases h
  · intro col h; cases h
  · intro i h; cases h

theorem IdxInv_tbl_shape {w : World} (h : IdxInv w) (t : Nat) : (w.tbl t).Shape := by
  by_cases hl : t < w.tables.length
  · exact h.shape t _ (get_of_lt hl)
  · have hd : w.tbl t = default := by
      simp [tbl, List.getD_eq_getElem?_getD, List.getElem?_eq_none (Nat.le_of_not_lt hl)]
    rw [hd]; exact default_shape

/-- the tables after a step, against the tables before -/
theorem shrinkStep_tblRel {w : World} (h : IdxInv w) (t t' : Nat) :
    TblRel (w.tbl t') ((shrinkStep w t).1.tbl t') := by
  refine shrinkStep_cases (fun w' => TblRel (w.tbl t') (w'.tbl t')) w t (TblRel.refl _) ?_
  intro hl
  by_cases ht : t = t'
  · subst ht
    show TblRel (w.tbl t) ((shrinkStep w t).1.tbl t)
    rw [shrinkStep_tbl_self w hl]
    have h1 := shrunk_tblRel (IdxInv_tbl_shape h t)
    split
    · next hf => exact h1.trans (setFree_tblRel (by rw [freeable_shrunk]; exact hf))
    · exact h1
  · show TblRel (w.tbl t') ((shrinkStep w t).1.tbl t')
    rw [shrinkStep_tbl_ne w ht]; exact TblRel.refl _

/-- no table has `2^32` rows or more (Go's row indices are `uint32`) -/
def RowsBounded (w : World) : Prop := ∀ (t : Nat), (w.tbl t).len < 2 ^ 32

theorem shrinkStep_idxInv {w : World} (h : IdxInv w) (hb : RowsBounded w) (t : Nat) :
    IdxInv (shrinkStep w t).1 := by
  refine shrinkStep_cases IdxInv w t h ?_
  intro hl
  have hS := h.shape t _ (get_of_lt hl)
  have h1 : IdxInv (w.setTbl t (w.shrunk t)) :=
    IdxInv.of_same_rows h t _ (Table.shrink_shape hS _ (hb t)) (Table.shrink_id _ _)
      (Table.shrink_len _ _) (fun r hr => (Table.shrink_preserves_rows _ _ 0 r
        (by rw [shrunk, Table.shrink_len] at hr; exact hr)).2)
  rw [shrinkStep_eq]
  split
  · have hl1 : t < (w.setTbl t (w.shrunk t)).tables.length := by simpa using hl
    have hS1 := h1.shape t _ (get_of_lt hl1)
    have h2 : IdxInv ((w.setTbl t (w.shrunk t)).setTbl t
        { (w.setTbl t (w.shrunk t)).tbl t with isFree := true }) :=
      IdxInv.of_same_rows h1 t _
        ⟨hS1.len_le, hS1.ents_len, hS1.cols_len, hS1.zst_len, hS1.col_len, hS1.zero_tail, hS1.zst_zero⟩
        rfl rfl (fun _ _ => rfl)
    exact h2.congr rfl rfl
  · exact h1

end World

/-! ## 5. invisibility: archetypes, cache, the world -/

namespace Archetype

/-- what `FreeTable` + `removeTableRelations` do to archetype `a` -/
def freed (a : Archetype) (tid : Nat) (targets : List Ent) : Archetype :=
  (a.freeTable tid).removeTableRelations tid targets

theorem freeTable_id (a : Archetype) (tid : Nat) : (a.freeTable tid).id = a.id := by
  rw [freeTable_eq]; split <;> rfl
theorem freeTable_mask (a : Archetype) (tid : Nat) : (a.freeTable tid).mask = a.mask := by
  rw [freeTable_eq]; split <;> rfl
theorem freeTable_zst (a : Archetype) (tid : Nat) : (a.freeTable tid).zst = a.zst := by
  rw [freeTable_eq]; split <;> rfl

theorem remStep_id (tid : Nat) (targets : List Ent) (a : Archetype) (k : Nat) :
    (remStep tid targets a k).id = a.id := by unfold remStep; split <;> rfl
theorem remStep_mask (tid : Nat) (targets : List Ent) (a : Archetype) (k : Nat) :
    (remStep tid targets a k).mask = a.mask := by unfold remStep; split <;> rfl
theorem remStep_zst (tid : Nat) (targets : List Ent) (a : Archetype) (k : Nat) :
    (remStep tid targets a k).zst = a.zst := by unfold remStep; split <;> rfl

theorem remFold_sameShape (tid : Nat) (targets : List Ent) (a : Archetype) (n : Nat) :
    SameShape a ((List.range n).foldl (remStep tid targets) a) := by
  induction n with
  | zero => exact SameShape.refl a
  | succ n ih =>
    rw [List.range_succ, List.foldl_append]
    exact ih.trans (remStep_sameShape _ _ _ _)

/-- the fields of an archetype `storage.Shrink` never changes -/
structure ArchRel (A A' : Archetype) : Prop where
  id : A'.id = A.id
  mask : A'.mask = A.mask
  comps : A'.comps = A.comps
  isRel : A'.isRel = A.isRel
  zst : A'.zst = A.zst
  numRel : A'.numRel = A.numRel

theorem ArchRel.refl (A : Archetype) : ArchRel A A := ⟨rfl, rfl, rfl, rfl, rfl, rfl⟩

theorem ArchRel.trans {A B C : Archetype} (h1 : ArchRel A B) (h2 : ArchRel B C) : ArchRel A C :=
  ⟨h2.id.trans h1.id, h2.mask.trans h1.mask, h2.comps.trans h1.comps, h2.isRel.trans h1.isRel,
    h2.zst.trans h1.zst, h2.numRel.trans h1.numRel⟩

theorem ArchRel.hasRelations {A A' : Archetype} (h : ArchRel A A') :
    A'.hasRelations = A.hasRelations := by
  simp only [Archetype.hasRelations, h.numRel]

theorem freed_archRel (a : Archetype) (tid : Nat) (targets : List Ent) :
    ArchRel a (a.freed tid targets) := by
  have hs := remFold_sameShape tid targets (a.freeTable tid) (a.freeTable tid).comps.length
  unfold freed
  rw [removeTableRelations_eq]
  refine ⟨?_, ?_, ?_, ?_, ?_, ?_⟩
  · rw [afoldl_keep _ (·.id) (remStep_id tid targets), freeTable_id]
  · rw [afoldl_keep _ (·.mask) (remStep_mask tid targets), freeTable_mask]
  · rw [hs.comps, freeTable_comps]
  · rw [hs.isRel, freeTable_isRel]
  · rw [afoldl_keep _ (·.zst) (remStep_zst tid targets), freeTable_zst]
  · rw [hs.numRel, freeTable_numRel]

theorem freed_freeTables (a : Archetype) (tid : Nat) (targets : List Ent) :
    (a.freed tid targets).freeTables = a.freeTables ++ [tid] := by
  have hs := remFold_sameShape tid targets (a.freeTable tid) (a.freeTable tid).comps.length
  unfold freed
  rw [removeTableRelations_eq, hs.freeTables, freeTable_freeTables]

theorem freed_tables (a : Archetype) (tid : Nat) (targets : List Ent) :
    (a.freed tid targets).tables = (a.tables.remove tid).1 := by
  have hs := remFold_sameShape tid targets (a.freeTable tid) (a.freeTable tid).comps.length
  unfold freed
  rw [removeTableRelations_eq, hs.tables, freeTable_tables]

end Archetype

namespace World
open Archetype (ArchRel)

/-- the cache entries up to their table lists -/
def cacheKeys (w : World) : List (Nat × Filter × List RelID) :=
  w.cache.filters.map fun e => (e.id, e.filter, e.rels)

/-- **What `storage.Shrink` can change.**  Outside the table store, the archetype store and the
    cache nothing; the tables as in `TblRel`; of the archetypes only the table lists and the
    relation lookups; of the cache only the table lists of the entries. -/
structure ShrinkRel (w w' : World) : Prop where
  frame : SameFrame w w'
  tlen : w'.tables.length = w.tables.length
  tbl : ∀ (t : Nat), TblRel (w.tbl t) (w'.tbl t)
  alen : w'.archetypes.length = w.archetypes.length
  arch : ∀ (a : Nat), ArchRel (w.arch a) (w'.arch a)
  cacheIdx : w'.cache.indices = w.cache.indices
  cachePool : w'.cache.pool = w.cache.pool
  cacheKeys : w'.cacheKeys = w.cacheKeys
  /-- a capacity is either kept or set to `max (capPow2 len) minCap` -/
  capEq : ∀ (t : Nat), (w'.tbl t).cap = (w.tbl t).cap ∨
    (w'.tbl t).cap = max (capPow2 (w.tbl t).len) (w.minCap (w.tbl t))

theorem ShrinkRel.refl (w : World) : ShrinkRel w w :=
  ⟨SameFrame.refl w, rfl, fun _ => TblRel.refl _, rfl, fun _ => ArchRel.refl _, rfl, rfl, rfl,
    fun _ => Or.inl rfl⟩

theorem minCap_congr {w w' : World} (h : SameFrame w w') {T T' : Table} (hT : TblRel T T') :
    w'.minCap T' = w.minCap T := by
  simp only [minCap, hT.hasRelations, h.initCap, h.initCapRel]

theorem ShrinkRel.trans {a b c : World} (h1 : ShrinkRel a b) (h2 : ShrinkRel b c) : ShrinkRel a c :=
  ⟨h1.frame.trans h2.frame, h2.tlen.trans h1.tlen, fun t => (h1.tbl t).trans (h2.tbl t),
    h2.alen.trans h1.alen, fun x => (h1.arch x).trans (h2.arch x), h2.cacheIdx.trans h1.cacheIdx,
    h2.cachePool.trans h1.cachePool, h2.cacheKeys.trans h1.cacheKeys,
    fun t => by
      rcases h2.capEq t with e2 | e2
      · rcases h1.capEq t with e1 | e1
        · exact Or.inl (e2.trans e1)
        · exact Or.inr (e2.trans e1)
      · rw [(h1.tbl t).len, minCap_congr h1.frame (h1.tbl t)] at e2
        exact Or.inr e2⟩

theorem setArch_arch (w : World) (a b : Nat) (A : Archetype) :
    (w.setArch a A).arch b = if a = b ∧ a < w.archetypes.length then A else w.arch b := by
  simp only [setArch, arch, List.getD_eq_getElem?_getD]
  by_cases h : a = b
  · subst h
    by_cases hl : a < w.archetypes.length
    · simp [hl]
    · simp [hl]
  · simp [List.getElem?_set_ne h, h]

theorem freeStep_arch (w : World) (t : Nat) (T' : Table) (b : Nat) :
    (freeStep w t T').arch b =
      if T'.arch = b ∧ T'.arch < w.archetypes.length then (w.arch T'.arch).freed t T'.targets
      else w.arch b :=
  setArch_arch w T'.arch b _

theorem freeStep_archRel (w : World) (t : Nat) (T' : Table) (b : Nat) :
    ArchRel (w.arch b) ((freeStep w t T').arch b) := by
  rw [freeStep_arch]
  split
  · next h => rw [← h.1]; exact Archetype.freed_archRel _ _ _
  · exact ArchRel.refl _

theorem shrinkStep_rel {w : World} (h : IdxInv w) (t : Nat) : ShrinkRel w (shrinkStep w t).1 where
  frame := shrinkStep_sameFrame w t
  tlen := shrinkStep_tables_length w t
  tbl := shrinkStep_tblRel h t
  alen := by
    rw [shrinkStep_eq]; split
    · simp only [freeStep_archetypes, List.length_set]; rfl
    · rfl
  arch := by
    intro b
    rw [shrinkStep_eq]; split
    · exact freeStep_archRel _ _ _ _
    · exact ArchRel.refl _
  cacheIdx := by rw [shrinkStep_eq]; split <;> rfl
  cachePool := by rw [shrinkStep_eq]; split <;> rfl
  cacheKeys := by
    rw [shrinkStep_eq]; split
    · simp only [cacheKeys, freeStep, cacheRemoveTable, List.map_map]; rfl
    · rfl
  capEq := by
    intro t'
    refine shrinkStep_cases (fun w' => (w'.tbl t').cap = (w.tbl t').cap ∨
      (w'.tbl t').cap = max (capPow2 (w.tbl t').len) (w.minCap (w.tbl t'))) w t (Or.inl rfl) ?_
    intro hl
    by_cases ht : t = t'
    · subst ht
      show ((shrinkStep w t).1.tbl t).cap = _ ∨ ((shrinkStep w t).1.tbl t).cap = _
      rw [shrinkStep_tbl_self w hl]
      have hc : (w.shrunk t).cap = (w.tbl t).cap ∨
          (w.shrunk t).cap = max (capPow2 (w.tbl t).len) (w.minCap (w.tbl t)) := by
        rw [shrunk, Table.shrink_cap]; split
        · exact Or.inl rfl
        · exact Or.inr rfl
      split
      · exact hc
      · exact hc
    · show ((shrinkStep w t).1.tbl t').cap = _ ∨ _
      rw [shrinkStep_tbl_ne w ht]; exact Or.inl rfl

theorem ShrinkRel.rowsBounded {w w' : World} (h : ShrinkRel w w') (hb : RowsBounded w) :
    RowsBounded w' := fun t => by rw [(h.tbl t).len]; exact hb t

/-- the loop invariant of part 1 -/
theorem shrinkPure_rel {w : World} (h : IdxInv w) (hb : RowsBounded w) (bounded : Bool) :
    IdxInv (shrinkPure w bounded).1 ∧ ShrinkRel w (shrinkPure w bounded).1 := by
  have := shrinkPure_induct (fun w' => IdxInv w' ∧ ShrinkRel w w')
    (fun w' t ⟨h1, h2⟩ =>
      ⟨shrinkStep_idxInv h1 (h2.rowsBounded hb) t, h2.trans (shrinkStep_rel h1 t)⟩)
    bounded w ⟨h, ShrinkRel.refl w⟩
  exact this

/-! ### what an observer of entities sees -/

open Ark.Props.C01World in
theorem ShrinkRel.valOf {w w' : World} (h : ShrinkRel w w') (i : Nat) (c : Comp) :
    valOf w' i c = valOf w i c := by
  simp only [Ark.Props.C01World.valOf, h.frame.entities]
  cases w.entities[i]? with
  | none => rfl
  | some p =>
    obtain ⟨t, r⟩ := p
    simp only
    split
    · rfl
    · by_cases hl : t < w.tables.length
      · rw [get_of_lt hl, get_of_lt (w := w') (by rw [h.tlen]; exact hl)]
        simp only [Option.bind_some, (h.tbl t).getComp]
      · rw [List.getElem?_eq_none (Nat.le_of_not_lt hl),
          List.getElem?_eq_none (by rw [h.tlen]; exact Nat.le_of_not_lt hl)]

open Ark.Props.C01World in
theorem ShrinkRel.compsOf {w w' : World} (h : ShrinkRel w w') (i : Nat) :
    compsOf w' i = compsOf w i := by
  simp only [Ark.Props.C01World.compsOf, h.frame.entities]
  cases w.entities[i]? with
  | none => rfl
  | some p =>
    obtain ⟨t, r⟩ := p
    simp only
    split
    · rfl
    · by_cases hl : t < w.tables.length
      · rw [get_of_lt hl, get_of_lt (w := w') (by rw [h.tlen]; exact hl)]
        simp only [Option.map_some, (h.tbl t).ids]
      · rw [List.getElem?_eq_none (Nat.le_of_not_lt hl),
          List.getElem?_eq_none (by rw [h.tlen]; exact Nat.le_of_not_lt hl)]

/-- the relation target of an entity, read through the index -/
theorem ShrinkRel.index {w w' : World} (h : ShrinkRel w w') (i : Nat) : w'.index i = w.index i := by
  simp only [World.index, h.frame.entities]

theorem ShrinkRel.alive {w w' : World} (h : ShrinkRel w w') (e : Ent) : w'.alive e = w.alive e := by
  simp only [World.alive, h.frame.pool]

/-- **C15 part 1 — Shrink is invisible.**  On an unlocked world with the index invariant (and
    fewer than `2^32` rows per table) `Shrink` succeeds; the index invariant holds afterwards;
    entity index, pool and everything else outside tables/archetypes/cache are unchanged; every
    entity has the same components and values; every table keeps `id`, `arch`, `ids`, `len`, its
    relation targets, the entity rows in use and ALL component cells (those beyond `len` are still
    zero), its capacity does not grow and `isFree` is at most set, for an active empty relation
    table. -/
theorem shrink_invisible {w : World} (bounded : Bool) (hl : w.isLocked = false) (h : IdxInv w)
    (hb : RowsBounded w) :
    ∃ (b : Bool) (w' : World), opShrink bounded w = .ok b w' ∧ IdxInv w' ∧ ShrinkRel w w' ∧
      w'.entities = w.entities ∧ w'.pool = w.pool ∧ w'.isLocked = false ∧
      (∀ (i : Nat) (c : Comp), Ark.Props.C01World.valOf w' i c = Ark.Props.C01World.valOf w i c) ∧
      (∀ (i : Nat), Ark.Props.C01World.compsOf w' i = Ark.Props.C01World.compsOf w i) ∧
      w'.tables.length = w.tables.length ∧
      ∀ (t : Nat), (w'.tbl t).len = (w.tbl t).len ∧ (w'.tbl t).ids = (w.tbl t).ids ∧
        (w'.tbl t).targets = (w.tbl t).targets ∧ (w'.tbl t).relIDs = (w.tbl t).relIDs ∧
        (w'.tbl t).cap ≤ (w.tbl t).cap ∧ (w'.tbl t).len ≤ (w'.tbl t).cap ∧
        (∀ (r : Nat), r < (w.tbl t).len → (w'.tbl t).getEntity r = (w.tbl t).getEntity r) ∧
        (∀ (i r : Nat), (w'.tbl t).cell i r = (w.tbl t).cell i r) ∧
        (∀ (i r : Nat), (w'.tbl t).len ≤ r → (w'.tbl t).cell i r = 0) ∧
        ((w.tbl t).isFree = true → (w'.tbl t).isFree = true) := by
  obtain ⟨h1, h2⟩ := shrinkPure_rel h hb bounded
  refine ⟨_, _, opShrink_eq bounded w hl, h1, h2, h2.frame.entities, h2.frame.pool,
    by rw [h2.frame.isLocked, hl], h2.valOf, h2.compsOf, h2.tlen, fun t => ?_⟩
  have hr := h2.tbl t
  have hS := IdxInv_tbl_shape h1 t
  exact ⟨hr.len, hr.ids, hr.targets, hr.relIDs, hr.cap_le, hS.len_le, hr.ent, hr.cell,
    fun i r hle => hS.cell_tail i r hle, hr.free_mono⟩

/-! ## 6. work: what a step does to `tableHasWork` -/

theorem hasWork_congr {w w' : World} (h : SameFrame w w') {t : Nat} (ht : w'.tbl t = w.tbl t) :
    w'.hasWork t = w.hasWork t := by
  simp only [hasWork, tableHasWork_eq, minCap, ht, h.initCap, h.initCapRel]

/-- after the step table `t` has no work left, the other tables are as before -/
theorem hasWork_step (w : World) (t t' : Nat) :
    (shrinkStep w t).1.hasWork t' = (w.hasWork t' && decide (t' ≠ t)) := by
  by_cases ht : t = t'
  · subst ht
    simp only [ne_eq, not_true_eq_false, decide_false, Bool.and_false]
    by_cases hl : t < w.tables.length
    · rw [hasWork, tableHasWork_eq, shrinkStep_tbl_self w hl]
      have hm : (shrinkStep w t).1.minCap (w.shrunk t) = w.minCap (w.tbl t) := by
        simp only [minCap, (shrinkStep_sameFrame w t).initCap, (shrinkStep_sameFrame w t).initCapRel,
          shrunk, Table.shrink_hasRelations]
      have hcs : (w.shrunk t).canShrink (w.minCap (w.tbl t)) = false := Table.shrink_canShrink _ _
      rcases Bool.eq_false_or_eq_true (freeable (w.tbl t)) with hf | hf
      · simp only [hf, if_true]
        have hm' : (shrinkStep w t).1.minCap { w.shrunk t with isFree := true } =
            w.minCap (w.tbl t) := hm
        rw [hm']
        have : Table.canShrink { w.shrunk t with isFree := true } (w.minCap (w.tbl t)) = false := hcs
        rw [this]
        simp [freeable]
      · simp only [hf, Bool.false_eq_true, if_false]
        rw [hm, hcs, freeable_shrunk, hf]; rfl
    · have hge : w.tables.length ≤ t := Nat.le_of_not_lt hl
      rw [shrinkStep_noop w t (hasWork_of_ge w hge)]
      exact hasWork_of_ge w hge
  · have hne : t' ≠ t := fun e => ht e.symm
    simp only [ne_eq, hne, not_false_eq_true, decide_true, Bool.and_true]
    exact hasWork_congr (shrinkStep_sameFrame w t) (shrinkStep_tbl_ne w ht)

/-- the number of tables with shrink work -/
def work (w : World) : Nat := (List.range w.tables.length).countP w.hasWork

theorem countP_clear {p q : Nat → Bool} {t : Nat} (hq : ∀ (x : Nat), q x = (p x && decide (x ≠ t)))
    (hp : p t = true) : ∀ (l : List Nat), l.Nodup → t ∈ l → l.countP q + 1 = l.countP p
  | [], _, h => by cases h
  | x :: l, hn, hm => by
    have hn' := List.nodup_cons.1 hn
    by_cases hx : x = t
    · subst hx
      have hq' : ∀ y ∈ l, q y = p y := by
        intro y hy
        have : y ≠ x := fun e => hn'.1 (e ▸ hy)
        rw [hq y]; simp [this]
      rw [List.countP_cons, List.countP_cons, List.countP_congr (p := q) (q := p) (by
        intro y hy; rw [hq' y hy])]
      simp [hq x, hp]
    · have hm' : t ∈ l := by
        rcases List.mem_cons.1 hm with e | e
        · exact absurd e.symm hx
        · exact e
      have ih := countP_clear hq hp l hn'.2 hm'
      rw [List.countP_cons, List.countP_cons]
      have : q x = p x := by rw [hq x]; simp [hx]
      rw [this]; omega

theorem work_step (w : World) {t : Nat} (hw : w.hasWork t = true) :
    work (shrinkStep w t).1 + 1 = work w := by
  have hl : t < w.tables.length := by
    by_cases hl : t < w.tables.length
    · exact hl
    · rw [hasWork_of_ge w (Nat.le_of_not_lt hl)] at hw; cases hw
  unfold work
  rw [shrinkStep_tables_length]
  exact countP_clear (hasWork_step w t) hw _ List.nodup_range (List.mem_range.2 hl)

theorem work_eq_zero_iff (w : World) : work w = 0 ↔ ∀ (t : Nat), w.hasWork t = false := by
  unfold work
  rw [List.countP_eq_zero]
  constructor
  · intro h t
    by_cases hl : t < w.tables.length
    · have := h t (List.mem_range.2 hl)
      simpa using this
    · exact hasWork_of_ge w (Nat.le_of_not_lt hl)
  · intro h t _; simp [h t]

/-! ### the bounded loop: run to the first table with work -/

theorem shrinkLoop_bounded (w : World) (si : Nat) : ∀ (k a : Nat),
    ((∀ (t : Nat), a ≤ t → t < a + k → w.hasWork t = false) ∧
      shrinkLoop true (List.range' a k) w (false, si) = (w, (false, si))) ∨
    ∃ (t : Nat), a ≤ t ∧ t < a + k ∧ (∀ (p : Nat), a ≤ p → p < t → w.hasWork p = false) ∧
      w.hasWork t = true ∧
      shrinkLoop true (List.range' a k) w (false, si) = ((shrinkStep w t).1, (true, t + 1))
  | 0, a => Or.inl ⟨fun t h1 h2 => by omega, rfl⟩
  | k + 1, a => by
    rw [List.range'_succ]
    simp only [shrinkLoop, Bool.false_or, Bool.and_true, shrinkStep_snd]
    rcases Bool.eq_false_or_eq_true (w.hasWork a) with hw | hw
    · right
      refine ⟨a, Nat.le_refl _, by omega, fun p h1 h2 => by omega, hw, ?_⟩
      simp only [hw, if_true]
    · simp only [hw, Bool.false_eq_true, if_false, shrinkStep_noop w a hw]
      rcases shrinkLoop_bounded w si k (a + 1) with ⟨h1, h2⟩ | ⟨t, h1, h2, h3, h4, h5⟩
      · left
        refine ⟨fun t ht1 ht2 => ?_, h2⟩
        by_cases e : t = a
        · rw [e]; exact hw
        · exact h1 t (by omega) (by omega)
      · right
        refine ⟨t, by omega, by omega, fun p hp1 hp2 => ?_, h4, h5⟩
        by_cases e : p = a
        · rw [e]; exact hw
        · exact h3 p (by omega) hp2

/-- the bounded call: nothing to do, or exactly one step, on the first table with work -/
theorem shrinkPure_bounded (w : World) :
    (work w = 0 ∧ shrinkPure w true = (w, false)) ∨
    ∃ (t : Nat), t < w.tables.length ∧ (∀ (p : Nat), p < t → w.hasWork p = false) ∧
      w.hasWork t = true ∧ (shrinkPure w true).1 = (shrinkStep w t).1 ∧
      (shrinkPure w true).2 = (List.range (w.tables.length - (t + 1))).any
        fun k => w.hasWork (t + 1 + k) := by
  rcases shrinkLoop_bounded w w.tables.length w.tables.length 0 with
    ⟨h1, h2⟩ | ⟨t, _, h2, h3, h4, h5⟩
  · left
    rw [← List.range_eq_range'] at h2
    refine ⟨?_, ?_⟩
    · rw [work_eq_zero_iff]
      intro t
      by_cases hl : t < w.tables.length
      · exact h1 t (Nat.zero_le _) (by omega)
      · exact hasWork_of_ge w (Nat.le_of_not_lt hl)
    · simp only [shrinkPure, h2, Nat.sub_self, List.range_zero, List.any_nil]
  · right
    rw [← List.range_eq_range'] at h5
    refine ⟨t, by omega, fun p hp => h3 p (Nat.zero_le _) hp, h4, ?_, ?_⟩
    · simp only [shrinkPure, h5]
    · simp only [shrinkPure, h5]
      apply List.any_congr rfl
      intro k
      rw [hasWork_step]
      have : t + 1 + k ≠ t := by omega
      simp [this]

/-! ### the unbounded loop: every table is processed -/

theorem shrinkLoop_unbounded : ∀ (ts : List Nat) (w : World) (s : Bool × Nat),
    (shrinkLoop false ts w s).2.2 = s.2 ∧
    ∀ (t' : Nat), (shrinkLoop false ts w s).1.hasWork t' = (w.hasWork t' && decide (t' ∉ ts))
  | [], w, s => ⟨rfl, fun t' => by simp [shrinkLoop]⟩
  | t :: ts, w, s => by
    simp only [shrinkLoop, Bool.and_false, Bool.false_eq_true, if_false]
    obtain ⟨h1, h2⟩ := shrinkLoop_unbounded ts (shrinkStep w t).1 (s.1 || (shrinkStep w t).2, s.2)
    refine ⟨h1, fun t' => ?_⟩
    rw [h2, hasWork_step]
    by_cases e : t' = t <;> by_cases m : t' ∈ ts <;> simp [e, m]

/-- a world without work is a fixed point of the loop -/
theorem shrinkLoop_noop (bounded : Bool) {w : World} (h : ∀ (t : Nat), w.hasWork t = false)
    (si : Nat) : ∀ (ts : List Nat), shrinkLoop bounded ts w (false, si) = (w, (false, si))
  | [] => rfl
  | t :: ts => by
    simp only [shrinkLoop, shrinkStep_snd, h t, Bool.or_false, Bool.false_and, Bool.false_eq_true,
      if_false, shrinkStep_noop w t (h t)]
    exact shrinkLoop_noop bounded h si ts

/-- **no work ⇒ nothing happens**, bounded or not -/
theorem shrinkPure_noop (bounded : Bool) {w : World} (h : work w = 0) :
    shrinkPure w bounded = (w, false) := by
  rw [work_eq_zero_iff] at h
  simp only [shrinkPure, shrinkLoop_noop bounded h, Nat.sub_self, List.range_zero, List.any_nil]

/-- the unbounded call returns `false` and leaves no work -/
theorem shrinkPure_unbounded (w : World) :
    (shrinkPure w false).2 = false ∧ work (shrinkPure w false).1 = 0 := by
  obtain ⟨h1, h2⟩ := shrinkLoop_unbounded (List.range w.tables.length) w (false, w.tables.length)
  refine ⟨?_, ?_⟩
  · simp only [shrinkPure, h1, Nat.sub_self, List.range_zero, List.any_nil]
  · rw [work_eq_zero_iff]
    intro t
    show (shrinkLoop false (List.range w.tables.length) w (false, w.tables.length)).1.hasWork t = false
    rw [h2]
    by_cases hl : t < w.tables.length
    · simp [hl]
    · rw [hasWork_of_ge w (Nat.le_of_not_lt hl)]; rfl

/-- the bounded call: the flag says exactly whether work is left, and a call that finds work
    removes the work of exactly one table -/
theorem shrinkPure_bounded_spec (w : World) :
    (shrinkPure w true).2 = decide (0 < work (shrinkPure w true).1) ∧
    (work w = 0 → shrinkPure w true = (w, false)) ∧
    (0 < work w → work (shrinkPure w true).1 + 1 = work w) := by
  rcases shrinkPure_bounded w with ⟨h0, h1⟩ | ⟨t, hl, hpre, hw, h1, h2⟩
  · refine ⟨?_, fun _ => h1, fun hp => by omega⟩
    rw [h1]; simp [h0]
  · have hws := work_step w hw
    refine ⟨?_, fun h0 => by omega, fun _ => by rw [h1]; exact hws⟩
    rw [h2, h1]
    rcases Bool.eq_false_or_eq_true
      ((List.range (w.tables.length - (t + 1))).any fun k => w.hasWork (t + 1 + k)) with ha | ha
    · rw [ha]
      obtain ⟨k, hk, hk2⟩ := List.any_eq_true.1 ha
      have hne : work (shrinkStep w t).1 ≠ 0 := by
        intro h0
        have := (work_eq_zero_iff _).1 h0 (t + 1 + k)
        rw [hasWork_step, hk2] at this
        have hne : t + 1 + k ≠ t := by omega
        simp [hne] at this
      have hpos : 0 < work (shrinkStep w t).1 := by omega
      exact (decide_eq_true hpos).symm
    · rw [ha]
      have h0 : work (shrinkStep w t).1 = 0 := by
        rw [work_eq_zero_iff]
        intro t'
        rw [hasWork_step]
        by_cases e : t' = t
        · simp [e]
        · simp only [ne_eq, e, not_false_eq_true, decide_true, Bool.and_true]
          by_cases hlt : t' < t
          · exact hpre t' hlt
          · by_cases hn : t' < w.tables.length
            · have hf := List.any_eq_false.1 ha (t' - (t + 1)) (List.mem_range.2 (by omega))
              have : t + 1 + (t' - (t + 1)) = t' := by omega
              rw [this] at hf
              simpa using hf
            · exact hasWork_of_ge w (Nat.le_of_not_lt hn)
      simp [h0]

/-! ### convergence -/

/-- call `Shrink` with `stopAfter = 0` until it reports that nothing is left (at most `fuel`
    times); the flag `true` means: gave up (out of fuel, or a panic) -/
def shrinkIter : Nat → World → World × Bool
  | 0, w => (w, true)
  | k + 1, w =>
    match opShrink true w with
    | .ok true w' => shrinkIter k w'
    | .ok false w' => (w', false)
    | .panic _ w' => (w', true)

theorem shrinkPure_isLocked (w : World) (bounded : Bool) :
    (shrinkPure w bounded).1.isLocked = w.isLocked :=
  shrinkPure_induct (fun w' => w'.isLocked = w.isLocked)
    (fun w' t h => by rw [(shrinkStep_sameFrame w' t).isLocked]; exact h) bounded w rfl

/-- `max (work w) 1` bounded calls suffice; any invariant of the loop step holds at the end -/
theorem shrinkIter_spec (P : World → Prop)
    (hP : ∀ (w : World) (t : Nat), P w → P (shrinkStep w t).1) :
    ∀ (k : Nat) (w : World), w.isLocked = false → work w ≤ k → 0 < k → P w →
      (shrinkIter k w).2 = false ∧ work (shrinkIter k w).1 = 0 ∧ P (shrinkIter k w).1 ∧
        (shrinkIter k w).1.isLocked = false
  | 0, _, _, _, hk, _ => by omega
  | k + 1, w, hl, hw, _, hp => by
    obtain ⟨h1, h2, h3⟩ := shrinkPure_bounded_spec w
    have hp' : P (shrinkPure w true).1 := shrinkPure_induct P hP true w hp
    have hl' : (shrinkPure w true).1.isLocked = false := by rw [shrinkPure_isLocked]; exact hl
    simp only [shrinkIter, opShrink_eq true w hl]
    rcases Bool.eq_false_or_eq_true (shrinkPure w true).2 with hb | hb
    · rw [hb]
      have hpos : 0 < work (shrinkPure w true).1 := by
        rw [hb] at h1; simpa using h1.symm
      have hw0 : 0 < work w := by
        rcases Nat.eq_zero_or_pos (work w) with e | e
        · rw [h2 e] at hpos; omega
        · exact e
      have := h3 hw0
      exact shrinkIter_spec P hP k _ hl' (by omega) (by omega) hp'
    · rw [hb]
      have h0 : work (shrinkPure w true).1 = 0 := by
        rw [hb] at h1
        have : ¬ 0 < work (shrinkPure w true).1 := by simpa using h1.symm
        omega
      exact ⟨rfl, h0, hp', hl'⟩

/-! ## 7. the theorems about `opShrink` (parts 3 and 4) -/

theorem hasWork_false_iff (w : World) (t : Nat) :
    w.hasWork t = false ↔
      (w.tbl t).cap ≤ max (capPow2 (w.tbl t).len) (w.minCap (w.tbl t)) ∧ freeable (w.tbl t) = false := by
  rw [hasWork, tableHasWork_eq, Bool.or_eq_false_iff, Table.canShrink, decide_eq_false_iff_not,
    Nat.not_lt]

/-- **C15 part 3 — capacities after the unbounded call.**  `Shrink` with a time budget that does
    not run out returns `false`; afterwards no table has work: every capacity is at most
    `max (capPow2 len) minCap` (and at least `len`), it is the old capacity if that was within the
    bound and exactly the bound otherwise, and no active relation table is empty. -/
theorem shrink_caps {w : World} (hl : w.isLocked = false) (h : IdxInv w) (hb : RowsBounded w) :
    ∃ (w' : World), opShrink false w = .ok false w' ∧ work w' = 0 ∧
      ∀ (t : Nat),
        (w'.tbl t).len ≤ (w'.tbl t).cap ∧
        (w'.tbl t).cap ≤ max (capPow2 (w'.tbl t).len) (w'.minCap (w'.tbl t)) ∧
        (w'.tbl t).cap =
          (if (w.tbl t).cap ≤ max (capPow2 (w.tbl t).len) (w.minCap (w.tbl t)) then (w.tbl t).cap
           else max (capPow2 (w.tbl t).len) (w.minCap (w.tbl t))) ∧
        freeable (w'.tbl t) = false ∧ w'.hasWork t = false := by
  obtain ⟨hflag, hwork⟩ := shrinkPure_unbounded w
  obtain ⟨hI, hR⟩ := shrinkPure_rel h hb false
  refine ⟨(shrinkPure w false).1, ?_, hwork, fun t => ?_⟩
  · rw [opShrink_eq false w hl, hflag]
  · have hnw := (work_eq_zero_iff _).1 hwork t
    obtain ⟨hcap, hfree⟩ := (hasWork_false_iff _ t).1 hnw
    refine ⟨(IdxInv_tbl_shape hI t).len_le, hcap, ?_, hfree, hnw⟩
    have hle := (hR.tbl t).cap_le
    rw [(hR.tbl t).len, minCap_congr hR.frame (hR.tbl t)] at hcap
    rcases hR.capEq t with e | e
    · split
      · exact e
      · omega
    · split
      · omega
      · exact e

/-- **C15 part 4a — the returned flag is exact.**  A bounded call (`stopAfter = 0`) returns
    `true` iff some table still has work afterwards (all of them lie after the stopping point). -/
theorem shrink_result_exact {w : World} (hl : w.isLocked = false) :
    ∃ (b : Bool) (w' : World), opShrink true w = .ok b w' ∧
      (b = true ↔ ∃ (t : Nat), t < w'.tables.length ∧ w'.tableHasWork (w'.tbl t) = true) ∧
      (b = true ↔ 0 < work w') := by
  obtain ⟨h1, _, _⟩ := shrinkPure_bounded_spec w
  refine ⟨_, _, opShrink_eq true w hl, ?_, ?_⟩
  · rw [h1, decide_eq_true_eq]
    constructor
    · intro hp
      have hne : work (shrinkPure w true).1 ≠ 0 := by omega
      rw [Ne, work_eq_zero_iff] at hne
      have hex : ∃ (t : Nat), (shrinkPure w true).1.hasWork t = true := by
        apply Classical.byContradiction
        intro hno
        apply hne
        intro t
        cases hh : (shrinkPure w true).1.hasWork t with
        | false => rfl
        | true => exact absurd ⟨t, hh⟩ hno
      obtain ⟨t, ht⟩ := hex
      refine ⟨t, ?_, ht⟩
      by_cases hlt : t < (shrinkPure w true).1.tables.length
      · exact hlt
      · rw [hasWork_of_ge _ (Nat.le_of_not_lt hlt)] at ht; cases ht
    · rintro ⟨t, _, ht⟩
      rcases Nat.eq_zero_or_pos (work (shrinkPure w true).1) with e | e
      · have := (work_eq_zero_iff _).1 e t
        rw [hasWork, ht] at this; cases this
      · exact e
  · rw [h1, decide_eq_true_eq]

/-- **C15 part 4b — progress.**  A bounded call on a world with work removes the work of exactly
    one table; on a world without work neither call changes anything, and both return `false`. -/
theorem shrink_progress {w : World} (hl : w.isLocked = false) :
    (0 < work w → ∃ (b : Bool) (w' : World), opShrink true w = .ok b w' ∧ work w' + 1 = work w) ∧
    (work w = 0 → ∀ (bounded : Bool), opShrink bounded w = .ok false w) := by
  obtain ⟨_, _, h3⟩ := shrinkPure_bounded_spec w
  refine ⟨fun hp => ⟨_, _, opShrink_eq true w hl, h3 hp⟩, fun h0 bounded => ?_⟩
  rw [opShrink_eq bounded w hl, shrinkPure_noop bounded h0]

/-- **C15 part 4c — convergence.**  Calling the bounded `Shrink` until it returns `false` takes
    at most `max (work w) 1` calls (fuel `work w + 1` is enough); the world reached has no work,
    a further call of either kind changes nothing, and it is related to the start as in part 1. -/
theorem shrink_converges {w : World} (hl : w.isLocked = false) (h : IdxInv w) (hb : RowsBounded w) :
    (shrinkIter (work w + 1) w).2 = false ∧ work (shrinkIter (work w + 1) w).1 = 0 ∧
    (∀ (bounded : Bool), opShrink bounded (shrinkIter (work w + 1) w).1 =
      .ok false (shrinkIter (work w + 1) w).1) ∧
    IdxInv (shrinkIter (work w + 1) w).1 ∧ ShrinkRel w (shrinkIter (work w + 1) w).1 := by
  obtain ⟨h1, h2, ⟨h3, h4⟩, h5⟩ := shrinkIter_spec (fun w' => IdxInv w' ∧ ShrinkRel w w')
    (fun w' t ⟨a, b⟩ => ⟨shrinkStep_idxInv a (b.rowsBounded hb) t, b.trans (shrinkStep_rel a t)⟩)
    (work w + 1) w hl (Nat.le_succ _) (Nat.succ_pos _) ⟨h, ShrinkRel.refl w⟩
  exact ⟨h1, h2, (shrink_progress h5).2 h2, h3, h4⟩

/-- the sharper fuel bound -/
theorem shrink_converges_fuel {w : World} (hl : w.isLocked = false) (k : Nat) (hk : work w ≤ k)
    (hpos : 0 < k) : (shrinkIter k w).2 = false ∧ work (shrinkIter k w).1 = 0 := by
  obtain ⟨h1, h2, _, _⟩ := shrinkIter_spec (fun _ => True) (fun _ _ _ => trivial) k w hl hk hpos trivial
  exact ⟨h1, h2⟩

/-! ## 8. the structural invariants (part 2) -/

/-- One table `t` is replaced by `T'` (same layout and relation data; `isFree` may differ) and
    its archetype by `A'` (same layout; the table lists differ at most in `t`). -/
structure StepShape (w w' : World) (t : Nat) (T' : Table) (A' : Archetype) : Prop where
  lt : t < w.tables.length
  tables : w'.tables = w.tables.set t T'
  archs : w'.archetypes = w.archetypes.set (w.tbl t).arch A'
  kinds : w'.kinds = w.kinds
  id : T'.id = (w.tbl t).id
  arch : T'.arch = (w.tbl t).arch
  ids : T'.ids = (w.tbl t).ids
  isRel : T'.isRel = (w.tbl t).isRel
  zst : T'.zst = (w.tbl t).zst
  targets : T'.targets = (w.tbl t).targets
  relIDs : T'.relIDs = (w.tbl t).relIDs
  arel : ArchRel (w.arch (w.tbl t).arch) A'
  astruct : A'.Struct
  mem : (T'.isFree = false ↔ t ∈ A'.tables.tables) ∧ (T'.isFree = true ↔ t ∈ A'.freeTables)
  other : ∀ (t0 : Nat), t0 ≠ t →
    (t0 ∈ A'.tables.tables ↔ t0 ∈ (w.arch (w.tbl t).arch).tables.tables) ∧
    (t0 ∈ A'.freeTables ↔ t0 ∈ (w.arch (w.tbl t).arch).freeTables)
  nonRel : (w.arch (w.tbl t).arch).hasRelations = false → A' = w.arch (w.tbl t).arch

namespace StepShape

variable {w w' : World} {t : Nat} {T' : Table} {A' : Archetype}

theorem alt (s : StepShape w w' t T' A') (h : SInvMid w) :
    w.archetypes[(w.tbl t).arch]? = some (w.arch (w.tbl t).arch) := by
  obtain ⟨A, hA, _⟩ := h.tblArch t _ (get_of_lt s.lt)
  rw [arch_of_get hA]; exact hA

theorem aget (s : StepShape w w' t T' A') (h : SInvMid w) {a0 : Nat} {A0 : Archetype}
    (h0 : w'.archetypes[a0]? = some A0) :
    ∃ (B0 : Archetype), w.archetypes[a0]? = some B0 ∧ ArchRel B0 A0 ∧
      ((a0 = (w.tbl t).arch ∧ A0 = A' ∧ B0 = w.arch (w.tbl t).arch) ∨
       (a0 ≠ (w.tbl t).arch ∧ A0 = B0)) := by
  have hl := alt_of_get (s.alt h)
  rw [s.archs, getElem?_set_eq _ _ _ _ hl] at h0
  by_cases e : a0 = (w.tbl t).arch
  · rw [if_pos e] at h0
    have : A0 = A' := (Option.some.inj h0).symm
    subst this
    exact ⟨_, e ▸ s.alt h, s.arel, Or.inl ⟨e, rfl, rfl⟩⟩
  · rw [if_neg e] at h0
    exact ⟨A0, h0, ArchRel.refl _, Or.inr ⟨e, rfl⟩⟩

theorem aget_self (s : StepShape w w' t T' A') (h : SInvMid w) :
    w'.archetypes[(w.tbl t).arch]? = some A' := by
  rw [s.archs, getElem?_set_eq _ _ _ _ (alt_of_get (s.alt h)), if_pos rfl]

theorem aget_ne (s : StepShape w w' t T' A') {a0 : Nat} (e : a0 ≠ (w.tbl t).arch) :
    w'.archetypes[a0]? = w.archetypes[a0]? := by
  rw [s.archs, List.getElem?_set_ne (fun x => e x.symm)]

theorem arch_self (s : StepShape w w' t T' A') (h : SInvMid w) : w'.arch (w.tbl t).arch = A' :=
  arch_of_get (s.aget_self h)

theorem arch_ne (s : StepShape w w' t T' A') {a0 : Nat} (e : a0 ≠ (w.tbl t).arch) :
    w'.arch a0 = w.arch a0 := by
  simp only [World.arch, List.getD_eq_getElem?_getD, s.aget_ne e]

theorem tget_self (s : StepShape w w' t T' A') : w'.tables[t]? = some T' := by
  rw [s.tables, List.getElem?_set_self s.lt]

theorem tget_ne (s : StepShape w w' t T' A') {t0 : Nat} (e : t0 ≠ t) :
    w'.tables[t0]? = w.tables[t0]? := by
  rw [s.tables, List.getElem?_set_ne (fun x => e x.symm)]

theorem tbl_self (s : StepShape w w' t T' A') : w'.tbl t = T' := tbl_of_get s.tget_self

theorem tbl_ne (s : StepShape w w' t T' A') {t0 : Nat} (e : t0 ≠ t) : w'.tbl t0 = w.tbl t0 := by
  simp only [World.tbl, List.getD_eq_getElem?_getD, s.tget_ne e]

theorem tget (s : StepShape w w' t T' A') {t0 : Nat} {T0 : Table} (h0 : w'.tables[t0]? = some T0) :
    (t0 = t ∧ T0 = T') ∨ (t0 ≠ t ∧ w.tables[t0]? = some T0) := by
  by_cases e : t0 = t
  · subst e; rw [s.tget_self] at h0; exact Or.inl ⟨rfl, (Option.some.inj h0).symm⟩
  · rw [s.tget_ne e] at h0; exact Or.inr ⟨e, h0⟩

theorem targets_eq (s : StepShape w w' t T' A') :
    (fun t0 => (w'.tbl t0).targets) = fun t0 => (w.tbl t0).targets := by
  funext t0
  by_cases e : t0 = t
  · subst e; rw [s.tbl_self, s.targets]
  · rw [s.tbl_ne e]

theorem sinvMid (s : StepShape w w' t T' A') (h : SInvMid w) : SInvMid w' := by
  have hTt := get_of_lt s.lt
  refine ⟨?_, ?_, ?_, ?_, ?_, ?_, ?_, ?_, ?_, ?_, ?_, ?_⟩
  · intro a0 A0 h0
    obtain ⟨B0, hB, hr, _⟩ := s.aget h h0
    rw [hr.id]; exact h.archId a0 B0 hB
  · intro a b A0 B0 hA hB hm
    obtain ⟨A1, hA1, hr1, _⟩ := s.aget h hA
    obtain ⟨B1, hB1, hr2, _⟩ := s.aget h hB
    exact h.maskUniq a b A1 B1 hA1 hB1 (by rw [← hr1.mask, ← hr2.mask]; exact hm)
  · intro a0 A0 h0 c hc
    obtain ⟨B0, hB, hr, _⟩ := s.aget h h0
    rw [s.kinds]; exact h.maskReg a0 B0 hB c (by rw [← hr.mask]; exact hc)
  · intro a0 A0 h0
    obtain ⟨B0, hB, hr, _⟩ := s.aget h h0
    rw [s.kinds, hr.comps, hr.mask, hr.isRel, hr.zst]; exact h.comps a0 B0 hB
  · intro a0 A0 i c h0 hc
    obtain ⟨B0, hB, hr, _⟩ := s.aget h h0
    rw [s.kinds, hr.isRel, hr.zst]; exact h.kindsOf a0 B0 i c hB (by rw [← hr.comps]; exact hc)
  · intro t0 T0 h0
    have key : ∀ (S0 : Table), w.tables[t0]? = some S0 → T0.arch = S0.arch → T0.ids = S0.ids →
        T0.isRel = S0.isRel → T0.zst = S0.zst → T0.id = S0.id →
        ∃ (A : Archetype), w'.archetypes[T0.arch]? = some A ∧ T0.ids = A.comps ∧
          T0.isRel = A.isRel ∧ T0.zst = A.zst ∧ T0.id = t0 := by
      intro S0 hS e1 e2 e3 e4 e5
      obtain ⟨A, hA, i1, i2, i3, i4⟩ := h.tblArch t0 S0 hS
      rw [e1, e2, e3, e4, e5]
      by_cases e : S0.arch = (w.tbl t).arch
      · refine ⟨A', e ▸ s.aget_self h, ?_, ?_, ?_, i4⟩
        · rw [s.arel.comps, ← e, arch_of_get hA]; exact i1
        · rw [s.arel.isRel, ← e, arch_of_get hA]; exact i2
        · rw [s.arel.zst, ← e, arch_of_get hA]; exact i3
      · exact ⟨A, by rw [s.aget_ne e]; exact hA, i1, i2, i3, i4⟩
    rcases s.tget h0 with ⟨rfl, rfl⟩ | ⟨_, hS⟩
    · exact key _ hTt s.arch s.ids s.isRel s.zst s.id
    · exact key T0 hS rfl rfl rfl rfl rfl
  · intro t0 T0 h0 r hr
    rcases s.tget h0 with ⟨rfl, rfl⟩ | ⟨_, hS⟩
    · rw [s.ids, s.isRel]; exact h.relCols _ _ hTt r (by rw [← s.relIDs]; exact hr)
    · exact h.relCols t0 T0 hS r hr
  · intro t0 T0 h0
    rcases s.tget h0 with ⟨rfl, rfl⟩ | ⟨e, hS⟩
    · rw [s.arch, s.arch_self h]; exact s.mem
    · by_cases ea : T0.arch = (w.tbl t).arch
      · rw [ea, s.arch_self h, (s.other t0 e).1, (s.other t0 e).2, ← ea]
        exact h.member t0 T0 hS
      · rw [s.arch_ne ea]; exact h.member t0 T0 hS
  · intro a0 A0 t0 h0 hm
    obtain ⟨B0, hB, _, hc⟩ := s.aget h h0
    by_cases e : t0 = t
    · subst e
      rcases hc with ⟨e1, rfl, rfl⟩ | ⟨e1, rfl⟩
      · exact ⟨T', s.tget_self, by rw [s.arch, e1]⟩
      · obtain ⟨S0, hS, hSa⟩ := h.owned a0 A0 t0 hB hm
        rw [hTt] at hS
        have := Option.some.inj hS
        exact absurd (this ▸ hSa).symm e1
    · rw [s.tget_ne e]
      rcases hc with ⟨e1, rfl, rfl⟩ | ⟨e1, rfl⟩
      · rw [(s.other t0 e).1, (s.other t0 e).2] at hm
        rw [e1]; exact h.owned _ _ t0 (s.alt h) hm
      · exact h.owned a0 A0 t0 hB hm
  · intro a0 A0 h0
    obtain ⟨B0, hB, _, hc⟩ := s.aget h h0
    rcases hc with ⟨_, rfl, _⟩ | ⟨_, rfl⟩
    · exact s.astruct
    · exact h.astruct a0 A0 hB
  · intro a0 A0 h0 hr
    obtain ⟨B0, hB, hrel, hc⟩ := s.aget h h0
    rcases hc with ⟨e1, rfl, rfl⟩ | ⟨_, rfl⟩
    · have hr' : (w.arch (w.tbl t).arch).hasRelations = false := by
        rw [← hrel.hasRelations]; exact hr
      rw [s.nonRel hr']; exact h.nonRelLe a0 _ hB hr'
    · exact h.nonRelLe a0 A0 hB hr
  · refine ⟨by rw [s.tables, List.length_set]; exact h.root.1, ?_, ?_⟩
    · by_cases e : 0 = t
      · subst e; rw [s.tbl_self, s.arch]; exact h.root.2.1
      · rw [s.tbl_ne e]; exact h.root.2.1
    · by_cases e : 0 = (w.tbl t).arch
      · rw [e, s.arch_self h, s.arel.mask, ← e]; exact h.root.2.2
      · rw [s.arch_ne e]; exact h.root.2.2

theorem sinv (s : StepShape w w' t T' A') (h : SInv w) : SInv w' :=
  { s.sinvMid h.toSInvMid with
    settled := by
      intro a0 A0 h0 hr
      obtain ⟨B0, hB, hrel, hc⟩ := s.aget h.toSInvMid h0
      rcases hc with ⟨e1, rfl, rfl⟩ | ⟨_, rfl⟩
      · have hr' : (w.arch (w.tbl t).arch).hasRelations = false := by
          rw [← hrel.hasRelations]; exact hr
        rw [s.nonRel hr']; exact h.settled a0 _ hB hr'
      · exact h.settled a0 A0 hB hr }

theorem rinv (s : StepShape w w' t T' A') (h : SInvMid w) (hr : RInv w)
    (hA' : A'.IndexInv (fun t0 => (w.tbl t0).targets)) : RInv w' := by
  intro a0 A0 h0
  rw [s.targets_eq]
  obtain ⟨B0, hB, _, hc⟩ := s.aget h h0
  rcases hc with ⟨_, rfl, _⟩ | ⟨_, rfl⟩
  · exact hA'
  · exact hr a0 A0 hB

end StepShape

/-! ### the two kinds of step as `StepShape`s -/

theorem set_arch_same (w : World) (a : Nat) : w.archetypes.set a (w.arch a) = w.archetypes := by
  apply List.ext_getElem?
  intro i
  by_cases h : a = i
  · subst h
    by_cases hl : a < w.archetypes.length
    · rw [List.getElem?_set_self hl]; exact (aget_of_lt hl).symm
    · rw [List.getElem?_eq_none (by simpa using hl), List.getElem?_eq_none (by simpa using hl)]
  · rw [List.getElem?_set_ne h]

theorem matchesRels_core {T T' : Table} (hi : T'.ids = T.ids) (ht : T'.targets = T.targets)
    (hr : T'.relIDs = T.relIDs) (rels : List RelID) : T'.matchesRels rels = T.matchesRels rels := by
  have hc : ∀ (c : Comp), T'.colIdx c = T.colIdx c := fun c => by simp only [Table.colIdx, hi]
  have hgo : ∀ (l : List RelID), Table.matchesRels.go T' l = Table.matchesRels.go T l := by
    intro l
    induction l with
    | nil => rfl
    | cons r l ih => simp only [Table.matchesRels.go, hc, ht, ih]
  have hh : T'.hasRelations = T.hasRelations := by simp only [Table.hasRelations, hr]
  unfold Table.matchesRels
  rw [hgo, hh]

/-- a table with relations belongs to an archetype with relation columns -/
theorem arch_hasRelations {w : World} (h : SInvMid w) {t : Nat} (hl : t < w.tables.length)
    (hr : (w.tbl t).hasRelations = true) : (w.arch (w.tbl t).arch).hasRelations = true := by
  obtain ⟨A, hA, _, i2, _, _⟩ := h.tblArch t _ (get_of_lt hl)
  rw [arch_of_get hA]
  cases hrel : (w.tbl t).relIDs with
  | nil => simp [Table.hasRelations, hrel] at hr
  | cons r rest =>
    obtain ⟨i, _, hi⟩ := h.relCols t _ (get_of_lt hl) r (by rw [hrel]; exact List.mem_cons_self)
    rw [i2] at hi
    have hlt := Archetype.isRel_lt hi
    have hmem : true ∈ A.isRel := by
      rw [List.getD_eq_getElem?_getD, List.getElem?_eq_getElem hlt] at hi
      simp only [Option.getD_some] at hi
      rw [← hi]; exact List.getElem_mem hlt
    have hf : true ∈ A.isRel.filter fun b => b := List.mem_filter.2 ⟨hmem, rfl⟩
    have hpos : 0 < (A.isRel.filter fun b => b).length := List.length_pos_of_mem hf
    simp only [Archetype.hasRelations, (h.astruct _ A hA).numRelEq, decide_eq_true_eq]
    exact hpos

/-- `Table.shrink` on table `t` -/
theorem shrunk_stepShape {w : World} (h : SInvMid w) {t : Nat} (hl : t < w.tables.length) :
    StepShape w (w.setTbl t (w.shrunk t)) t (w.shrunk t) (w.arch (w.tbl t).arch) where
  lt := hl
  tables := rfl
  archs := (set_arch_same w _).symm
  kinds := rfl
  id := Table.shrink_id _ _
  arch := Table.shrink_arch _ _
  ids := Table.shrink_ids _ _
  isRel := Table.shrink_isRel _ _
  zst := Table.shrink_zst _ _
  targets := Table.shrink_targets _ _
  relIDs := Table.shrink_relIDs _ _
  arel := ArchRel.refl _
  astruct := by
    obtain ⟨A, hA, _⟩ := h.tblArch t _ (get_of_lt hl)
    rw [arch_of_get hA]; exact h.astruct _ A hA
  mem := by
    rw [shrunk, Table.shrink_isFree]; exact h.member t _ (get_of_lt hl)
  other := fun _ _ => ⟨Iff.rfl, Iff.rfl⟩
  nonRel := fun _ => rfl

/-- freeing the active relation table `t` -/
theorem free_stepShape {w : World} (h : SInvMid w) (hr : RInv w) {t : Nat}
    (hl : t < w.tables.length) (hrel : (w.tbl t).hasRelations = true)
    (hfree : (w.tbl t).isFree = false) :
    StepShape w (freeStep w t (w.tbl t)) t { w.tbl t with isFree := true }
      ((w.arch (w.tbl t).arch).freed t (w.tbl t).targets) ∧
    ((w.arch (w.tbl t).arch).freed t (w.tbl t).targets).IndexInv (fun t0 => (w.tbl t0).targets) := by
  obtain ⟨A, hA, _⟩ := h.tblArch t _ (get_of_lt hl)
  have hAe := arch_of_get hA
  have hm := h.member t _ (get_of_lt hl)
  have hnf : t ∉ (w.arch (w.tbl t).arch).freeTables := by
    intro hin
    have := hm.2.2 hin
    rw [hfree] at this; cases this
  have hI : (w.arch (w.tbl t).arch).IndexInv (fun t0 => (w.tbl t0).targets) := by
    rw [hAe]; exact hr _ A hA
  obtain ⟨k1, k2, k3⟩ := hI.freeTable_removeTableRelations t hnf
  refine ⟨?_, k1⟩
  exact {
    lt := hl
    tables := rfl
    archs := rfl
    kinds := rfl
    id := rfl, arch := rfl, ids := rfl, isRel := rfl, zst := rfl, targets := rfl, relIDs := rfl
    arel := Archetype.freed_archRel _ _ _
    astruct := k1.toStruct
    mem := by
      refine ⟨⟨fun e => Bool.noConfusion e, fun hin => absurd rfl ((k3 t).1 hin).2⟩,
        ⟨fun _ => ?_, fun _ => rfl⟩⟩
      show t ∈ ((w.arch (w.tbl t).arch).freed t (w.tbl t).targets).freeTables
      rw [Archetype.freed_freeTables]; simp
    other := by
      intro t0 e
      refine ⟨?_, ?_⟩
      · show t0 ∈ ((w.arch (w.tbl t).arch).freed t (w.tbl t).targets).tables.tables ↔ _
        exact ⟨fun hin => ((k3 t0).1 hin).1, fun hin => (k3 t0).2 ⟨hin, e⟩⟩
      · rw [Archetype.freed_freeTables]; simp [e]
    nonRel := by
      intro hno
      rw [arch_hasRelations h hl hrel] at hno; cases hno }

/-- **the loop step keeps the structural invariant and the relation-index invariant** -/
theorem shrinkStep_sinv {w : World} (h : SInv w) (hr : RInv w) (t : Nat) :
    SInv (shrinkStep w t).1 ∧ RInv (shrinkStep w t).1 := by
  refine shrinkStep_cases (fun w' => SInv w' ∧ RInv w') w t ⟨h, hr⟩ ?_
  intro hl
  have s1 := shrunk_stepShape h.toSInvMid hl
  have h1 : SInv (w.setTbl t (w.shrunk t)) := s1.sinv h
  have hr1 : RInv (w.setTbl t (w.shrunk t)) := by
    refine s1.rinv h.toSInvMid hr ?_
    obtain ⟨A, hA, _⟩ := h.tblArch t _ (get_of_lt hl)
    rw [arch_of_get hA]; exact hr _ A hA
  rw [shrinkStep_eq]
  split
  · next hf =>
    have hl1 : t < (w.setTbl t (w.shrunk t)).tables.length := by simpa using hl
    have hself : (w.setTbl t (w.shrunk t)).tbl t = w.shrunk t := setTbl_tbl_self _ hl
    simp only [freeable, Bool.and_eq_true, Bool.not_eq_true', beq_iff_eq] at hf
    obtain ⟨s2, hI2⟩ := free_stepShape h1.toSInvMid hr1 hl1
      (by rw [hself, shrunk, Table.shrink_hasRelations]; exact hf.1.1)
      (by rw [hself, shrunk, Table.shrink_isFree]; exact hf.1.2)
    rw [hself] at s2 hI2
    exact ⟨s2.sinv h1, s2.rinv h1.toSInvMid hr1 hI2⟩
  · exact ⟨h1, hr1⟩

theorem shrinkPure_sinv {w : World} (h : SInv w) (hr : RInv w) (bounded : Bool) :
    SInv (shrinkPure w bounded).1 ∧ RInv (shrinkPure w bounded).1 :=
  shrinkPure_induct (fun w' => SInv w' ∧ RInv w') (fun _ t ⟨a, b⟩ => shrinkStep_sinv a b t)
    bounded w ⟨h, hr⟩

/-! ### the cache -/

theorem cacheInv_congr {w w' : World} (h : CacheInv w) (hc : w'.cache = w.cache)
    (hs : ∀ (f : Filter) (rels : List RelID) (t : Nat), Selected w' f rels t ↔ Selected w f rels t) :
    CacheInv w' := by
  refine ⟨by rw [hc]; exact h.uniq, by rw [hc]; exact h.index, ?_⟩
  intro e he
  rw [hc] at he
  obtain ⟨h1, h2⟩ := h.entries e he
  exact ⟨h1, fun t => by rw [h2, hs]⟩

/-- `Table.shrink` is invisible to the filter cache -/
theorem shrunk_cacheInv {w : World} (h : CacheInv w) {t : Nat} (hl : t < w.tables.length) :
    CacheInv (w.setTbl t (w.shrunk t)) := by
  refine cacheInv_congr h rfl ?_
  intro f rels t0
  have hm : ((w.setTbl t (w.shrunk t)).tbl t0).matchesRels rels = (w.tbl t0).matchesRels rels := by
    by_cases e : t = t0
    · subst e
      rw [setTbl_tbl_self _ hl]
      exact matchesRels_core (Table.shrink_ids _ _) (Table.shrink_targets _ _)
        (Table.shrink_relIDs _ _) rels
    · rw [setTbl_tbl_ne w _ e]
  unfold Selected
  rw [hm]
  exact Iff.rfl

/-- freeing table `t` is a `TableRemoved` step followed by `cache.removeTable` -/
theorem free_cacheInv {w : World} (h : SInvMid w) (hr : RInv w) (hc : CacheInv w) {t : Nat}
    (hl : t < w.tables.length) (hrel : (w.tbl t).hasRelations = true)
    (hfree : (w.tbl t).isFree = false) : CacheInv (freeStep w t (w.tbl t)) := by
  obtain ⟨s, _⟩ := free_stepShape h hr hl hrel hfree
  obtain ⟨A, hA, _⟩ := h.tblArch t _ (get_of_lt hl)
  have hAe := arch_of_get hA
  have hm := h.member t _ (get_of_lt hl)
  have hnf : t ∉ (w.arch (w.tbl t).arch).freeTables := by
    intro hin
    have := hm.2.2 hin
    rw [hfree] at this; cases this
  have hI : (w.arch (w.tbl t).arch).IndexInv (fun t0 => (w.tbl t0).targets) := by
    rw [hAe]; exact hr _ A hA
  obtain ⟨_, _, k3⟩ := hI.freeTable_removeTableRelations t hnf
  -- the world before `cache.removeTable`
  let w2 : World := (w.modArch (w.tbl t).arch fun A =>
    (A.freeTable t).removeTableRelations t (w.tbl t).targets).modTbl t fun T => { T with isFree := true }
  have ha2 : w2.archetypes = (freeStep w t (w.tbl t)).archetypes := rfl
  have ht2 : w2.tables = (freeStep w t (w.tbl t)).tables := rfl
  have hd : TableRemoved w w2 (w.tbl t).arch t := by
    refine { other := ?_, here := ?_, tbl := ?_, cache := rfl, inactive := ?_ }
    · intro a' e; rw [ha2]; exact s.aget_ne e
    · refine ⟨_, _, s.alt h, by rw [ha2]; exact s.aget_self h, s.arel.mask, fun t' e => ?_⟩
      exact (s.other t' e).1
    · intro t' e
      have : w2.tbl t' = (freeStep w t (w.tbl t)).tbl t' := rfl
      rw [this]; exact s.tbl_ne e
    · intro a' B hB hin
      rw [ha2] at hB
      have h' := s.sinvMid h
      obtain ⟨T0, hT0, hTa⟩ := h'.owned a' B t hB (Or.inl hin)
      rw [s.tget_self] at hT0
      have hT0' := Option.some.inj hT0
      have ha : a' = (w.tbl t).arch := by rw [← hTa, ← hT0']
      subst ha
      rw [s.aget_self h] at hB
      have hB' := Option.some.inj hB
      rw [← hB'] at hin
      exact ((k3 t).1 hin).2 rfl
  exact (cacheRemoveTable_inv hc hd).1

/-- **the loop step keeps all three structural invariants** -/
theorem shrinkStep_struct {w : World} (h : SInv w) (hr : RInv w) (hc : CacheInv w) (t : Nat) :
    SInv (shrinkStep w t).1 ∧ RInv (shrinkStep w t).1 ∧ CacheInv (shrinkStep w t).1 := by
  refine shrinkStep_cases (fun w' => SInv w' ∧ RInv w' ∧ CacheInv w') w t ⟨h, hr, hc⟩ ?_
  intro hl
  obtain ⟨hs, hr'⟩ := shrinkStep_sinv h hr t
  refine ⟨hs, hr', ?_⟩
  have s1 := shrunk_stepShape h.toSInvMid hl
  have h1 : SInv (w.setTbl t (w.shrunk t)) := s1.sinv h
  have hr1 : RInv (w.setTbl t (w.shrunk t)) := by
    refine s1.rinv h.toSInvMid hr ?_
    obtain ⟨A, hA, _⟩ := h.tblArch t _ (get_of_lt hl)
    rw [arch_of_get hA]; exact hr _ A hA
  have hc1 := shrunk_cacheInv hc hl
  rw [shrinkStep_eq]
  split
  · next hf =>
    have hl1 : t < (w.setTbl t (w.shrunk t)).tables.length := by simpa using hl
    have hself : (w.setTbl t (w.shrunk t)).tbl t = w.shrunk t := setTbl_tbl_self _ hl
    simp only [freeable, Bool.and_eq_true, Bool.not_eq_true', beq_iff_eq] at hf
    have := free_cacheInv h1.toSInvMid hr1 hc1 hl1
      (by rw [hself, shrunk, Table.shrink_hasRelations]; exact hf.1.1)
      (by rw [hself, shrunk, Table.shrink_isFree]; exact hf.1.2)
    rw [hself] at this
    exact this
  · exact hc1

/-- **C15 part 2 — Shrink keeps the structure.**  The structural invariant, the relation-index
    invariant and the cache invariant survive `Shrink` (bounded or not). -/
theorem shrink_keeps_structure {w : World} (bounded : Bool) (hl : w.isLocked = false)
    (h : SInv w) (hr : RInv w) :
    ∃ (b : Bool) (w' : World), opShrink bounded w = .ok b w' ∧ SInv w' ∧ RInv w' ∧
      (CacheInv w → CacheInv w') := by
  refine ⟨_, _, opShrink_eq bounded w hl, (shrinkPure_sinv h hr bounded).1,
    (shrinkPure_sinv h hr bounded).2, fun hc => ?_⟩
  exact (shrinkPure_induct (fun w' => SInv w' ∧ RInv w' ∧ CacheInv w')
    (fun _ t ⟨a, b, c⟩ => shrinkStep_struct a b c t) bounded w ⟨h, hr, hc⟩).2.2

/-- the structural invariants along the iteration of the bounded call -/
theorem shrink_converges_structure {w : World} (hl : w.isLocked = false) (h : SInv w) (hr : RInv w)
    (hc : CacheInv w) :
    SInv (shrinkIter (work w + 1) w).1 ∧ RInv (shrinkIter (work w + 1) w).1 ∧
      CacheInv (shrinkIter (work w + 1) w).1 :=
  (shrinkIter_spec (fun w' => SInv w' ∧ RInv w' ∧ CacheInv w')
    (fun _ t ⟨a, b, c⟩ => shrinkStep_struct a b c t)
    (work w + 1) w hl (Nat.le_succ _) (Nat.succ_pos _) ⟨h, hr, hc⟩).2.2.1

/-! ## 9. a concrete run (non-vacuity) -/

namespace ShrinkDemo

/-- no observers are registered in the demo: callbacks do nothing -/
def noRun : ProbeRunner := fun _ _ _ => pure ()

/-- run `m` `n` times, collecting the results -/
def rep {α : Type} : Nat → W α → W (List α)
  | 0, _ => pure []
  | k + 1, m => do
    let x ← m
    let xs ← rep k m
    pure (x :: xs)

/-- `NewWorld(1, 1)`; component 0 (plain) and 1 (relation); targets `p1`, `p2` and six more
    plain entities (table 0 grows to capacity 8); five children of `p1` (relation table 1 grows
    to capacity 8) and three children of `p2` with value 42 (relation table 2, capacity 4); then
    five plain entities, all children of `p1` and two children of `p2` are removed.  Returns
    `p1`, `p2` and the remaining child of `p2`. -/
def setup : W (Ent × Ent × Ent) := do
  let _ ← registerComponent {}
  let _ ← registerComponent { isRel := true }
  let p1 ← opNewEntity0 noRun
  let p2 ← opNewEntity0 noRun
  let plain ← rep 6 (opNewEntity0 noRun)
  let c1 ← rep 5 (opNewEntity noRun .unsafe_ [0, 1] [(0, 7)] [⟨1, p1⟩])
  let c2 ← rep 3 (opNewEntity noRun .unsafe_ [0, 1] [(0, 42)] [⟨1, p2⟩])
  for e in plain.drop 1 do opRemoveEntity noRun e
  for e in c1 do opRemoveEntity noRun e
  for e in c2.drop 1 do opRemoveEntity noRun e
  pure (p1, p2, c2.headD Ent.zero)

/-- the world before shrinking -/
def w0 : World := (setup (World.init 1 1)).state

/-- per table: `len`, `cap`, `isFree`, number of relations -/
def summary (w : World) : List (Nat × Nat × Bool × Nat) :=
  w.tables.map fun T => (T.len, T.cap, T.isFree, T.relIDs.length)

/-- one bounded call: the world afterwards and the flag (`none` = panic) -/
def callBounded (w : World) : World × Option Bool :=
  match opShrink true w with
  | .ok b w' => (w', some b)
  | .panic _ w' => (w', none)

/-- one unbounded call -/
def callUnbounded (w : World) : World × Option Bool :=
  match opShrink false w with
  | .ok b w' => (w', some b)
  | .panic _ w' => (w', none)

def w1 : World := (callBounded w0).1
def w2 : World := (callBounded w1).1
def w3 : World := (callBounded w2).1
def wU : World := (callUnbounded w0).1

end ShrinkDemo

end World
end Ark
