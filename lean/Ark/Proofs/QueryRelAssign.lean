/-
  Ark.Proofs.QueryRelAssign — property C03 with RELATION TARGETS, part 6: `QGood` is kept by
  `SetRelations` and by `Add` with relation targets (`QGood.setRelations`, `QGood.add`).  With
  `QueryRelCreate` and `QueryRelRemove`, `QGood` is closed under every operation of
  `Ark.Props.C04World` (`Good.*`) and under queries.
  Kernel-only proofs, core Lean only.
-/
import Ark.Proofs.QueryRelRemove
import Ark.Proofs.TargetsAdd

set_option autoImplicit false

namespace Ark
namespace QueryRel

open World Drain Ark.Props.C01World QueryExact

/-- moving the alive entity `e` into another table (`add` + `moveRow`) -/
theorem addMove_qkeep {w : World} (hI : IdxInv w) {e : Ent} {oldT row newT : Nat} (keep : Mask)
    (ha : w.alive e = true) (he : w.entities[e.id]? = some (oldT, row)) (ht : oldT ≠ maxU32)
    (hne : oldT ≠ newT) (hnl : newT < w.tables.length) (hb : (w.tbl newT).len + 1 < 2 ^ 32) :
    QKeep w (addMove w e oldT row newT keep) :=
  ⟨fun hr => hr.moved hI keep ha he ht hne hnl hb,
   fun hc => hc.of_frame (addMove_ciFrame w e oldT row newT keep),
   fun hce => hce.of_eq (addMove_cache w e oldT row newT keep)⟩

/-- `setRelations e rels` on success (hypotheses of `setRelationsCore_spec`) -/
theorem setRelationsCore_qkeep (run : ProbeRunner) {w : World} {fl : List Nat} (h : TInv w fl)
    (hl : w.isLocked = false) (hno : ∀ (evt : Nat), w.obs.hasObservers evt = false) {e : Ent}
    (h2 : 2 ≤ e.id) (hnf : e.id ∉ fl) (ha : w.alive e = true)
    (hsl : e.id < w.pool.ents.length) {rels : List RelID}
    (hne : rels.isEmpty = false) (hnd : (rels.map (·.comp)).Nodup)
    (hhas : ∀ (r : RelID), r ∈ rels → (targetOf w e.id r.comp).isSome = true)
    (hrows : w.entities.length + 1 < 2 ^ 32)
    {w' : World} (hok : setRelationsCore run e rels w = .ok () w') : QKeep w w' := by
  obtain ⟨oldT, row, he, htm, _⟩ := h.link.live_entry h2 hnf ha hsl
  have hix := index_of_get he
  have hI := h.link.idx
  obtain ⟨hT, hrow, hid⟩ := hI.indexed he htm
  have hlt := lt_of_get hT
  have hS := h.rel.sinv.toSInvMid
  have hTf : (w.tbl oldT).isFree = false := by
    cases hf : (w.tbl oldT).isFree with
    | false => rfl
    | true => have := h.freeEmpty oldT _ hT hf; omega
  have hTex := h.rel.aux.rels oldT _ hT hTf
  have hcols : ∀ (r : RelID), r ∈ rels → ∃ (i : Nat), (w.tbl oldT).colIdx r.comp = some i ∧
      (w.tbl oldT).isRel.getD i false = true := by
    intro r hr
    obtain ⟨t, r', k, T, h1, _, h3, h4, h5⟩ := targetOf_isSome (hhas r hr)
    rw [he] at h1
    obtain ⟨rfl, rfl⟩ := Prod.mk.inj (Option.some.inj h1)
    rw [hT] at h3
    obtain rfl := Option.some.inj h3
    exact ⟨k, h4, h5⟩
  have hts : ∀ (r : RelID), r ∈ rels → ∀ (i : Nat), (w.tbl oldT).colIdx r.comp = some i →
      (setTargets (w.tbl oldT).colIdx rels (w.tbl oldT).targets).getD i Ent.zero = r.target := by
    intro r hr i hi
    apply setTargets_getD_eq
    · rw [hTex.tlen]; exact Table.colIdx_lt hi
    · intro r' hr' hc'
      have : r'.comp = r.comp := colIdx_inj hc' hi
      rw [eq_of_nodup_map (·.comp) rels hnd r' r hr' hr this]
    · exact Or.inl ⟨r, hr, hi⟩
  have hlen' : (setTargets (w.tbl oldT).colIdx rels (w.tbl oldT).targets).length =
      (w.tbl oldT).ids.length := by rw [setTargets_length, hTex.tlen]
  obtain ⟨ch, cm, hx, hfalse, htrue⟩ := getExchangeTargets_spec (w.tbl oldT) rels w hcols hnd
  cases ch with
  | false =>
    rw [setRelationsCore_unchanged run e rels w hl ha hne hix hx] at hok
    injection hok with _ hw
    subst hw
    exact QKeep.refl _
  | true =>
    simp only [if_true] at hx
    obtain ⟨r1, hr1, i1, hi1, hne1⟩ := htrue rfl
    have hi1r : (w.tbl oldT).isRel.getD i1 false = true := by
      obtain ⟨i, hi, hir⟩ := hcols r1 hr1
      rw [hi1] at hi
      obtain rfl := Option.some.inj hi
      exact hir
    have hrelA : (w.arch (w.tbl oldT).arch).hasRelations = true := by
      obtain ⟨A, hA, _, e2, _⟩ := hS.tblArch oldT _ hT
      rw [arch_of_get hA]
      exact (hS.astruct _ A hA).hasRelations_of_rel (by rw [← e2]; exact hi1r)
    cases hgo : getOrCreate (w.tbl oldT).arch
        (colRels (w.tbl oldT).ids (setTargets (w.tbl oldT).colIdx rels (w.tbl oldT).targets)
          (w.tbl oldT).isRel) w with
    | panic k s =>
      rw [setRelationsCore_panic_get run e rels w hl ha hne hix hx hgo] at hok
      cases hok
    | ok nt w1 =>
      obtain ⟨_, hI1, _, _, cg, _⟩ := relGet_of_ok (rels0 := rels) h.rel hI
        (h.flags.upTo rels) h.freeEmpty hlt rfl hTf hrelA hlen'
        ⟨i1, hi1r, by rw [hts r1 hr1 i1 hi1]; exact hne1⟩
        (by
          intro i hi hz
          rcases setTargets_getD_cases (w.tbl oldT).colIdx i Ent.zero rels (w.tbl oldT).targets with k | ⟨r, hr, k⟩
          · rw [k] at hz ⊢
            exact Or.inl (h.flags oldT _ hT hTf i hi hz)
          · exact Or.inr ⟨r, hr, k.symm⟩) hgo
      have hno1 : ∀ (evt : Nat), w1.obs.hasObservers evt = false := by
        intro evt; rw [cg.obs]; exact hno evt
      rw [setRelationsCore_changed run e rels w hl ha hne hix hx hgo hno1] at hok
      injection hok with _ hw
      subst hw
      have hne' : oldT ≠ nt := Ne.symm cg.ntNe
      have he1 : w1.entities[e.id]? = some (oldT, row) := by rw [cg.entities]; exact he
      have hb1 : (w1.tbl nt).len + 1 < 2 ^ 32 := by
        have := hI1.rows_le nt
        rw [cg.entities] at this; omega
      have ha1 : w1.alive e = true := by simp only [World.alive, cg.pool]; exact ha
      exact ((getOrCreate_qkeep hgo).trans
        (addMove_qkeep hI1 _ ha1 he1 htm hne' cg.ntLt hb1)).trans (registerW_qkeep _ rels)

/-- `SetRelations` through the API on success -/
theorem opSetRelations_qkeep (run : ProbeRunner) (p : Path) {w : World} {fl : List Nat}
    (h : TInv w fl) (hl : w.isLocked = false) (hno : ∀ (evt : Nat), w.obs.hasObservers evt = false)
    {e : Ent} (h2 : 2 ≤ e.id) (hnf : e.id ∉ fl) (ha : w.alive e = true)
    (hsl : e.id < w.pool.ents.length) {mapperIds : List Comp}
    {rels : List RelID} (hne : rels.isEmpty = false) (hnd : (rels.map (·.comp)).Nodup)
    (hhas : ∀ (r : RelID), r ∈ rels → (targetOf w e.id r.comp).isSome = true)
    (hrows : w.entities.length + 1 < 2 ^ 32)
    {w' : World} (hok : opSetRelations run p e mapperIds rels w = .ok () w') : QKeep w w' := by
  have hpre : preCheck p.setRelCheck mapperIds rels w = .ok () w := by
    rcases preCheck_cases p.setRelCheck mapperIds rels w with h1 | ⟨k, h1⟩
    · exact h1
    · simp [opSetRelations, bind, M.bind, h1] at hok
  simp only [opSetRelations, bind, M.bind, hpre] at hok
  exact setRelationsCore_qkeep run h hl hno h2 hnf ha hsl hne hnd hhas hrows hok

/-- **`SetRelations` keeps `QGood`** (any path; hypotheses of `Good.setRelations`) -/
theorem QGood.setRelations (run : ProbeRunner) (p : Path) {w : World} (q : QGood w) {e : Ent}
    (ha : w.alive e = true) (hidx : (w.index e.id).1 ≠ maxU32) (hlt : e.id < w.entities.length)
    {mapperIds : List Comp} {rels : List RelID} (hne : rels.isEmpty = false)
    (hnd : (rels.map (·.comp)).Nodup)
    (hhas : ∀ (r : RelID), r ∈ rels → (targetOf w e.id r.comp).isSome = true)
    (htin : ∀ (r : RelID), r ∈ rels → r.target.id < w.pool.ents.length)
    (hfew : w.tables.length < maxU32) (hrows : w.entities.length + 1 < 2 ^ 32)
    (hnp : panicOf (opSetRelations run p e mapperIds rels w) = none) :
    QGood (opSetRelations run p e mapperIds rels w).state := by
  have good' := q.good.setRelations run p ha hidx hlt hne hnd hhas htin hfew hrows hnp
  obtain ⟨fl, ht, hl, hno⟩ := q.good
  have hent : w.entities[e.id]? = some ((w.index e.id).1, (w.index e.id).2) := by
    simp only [World.index, List.getD_eq_getElem?_getD, List.getElem?_eq_getElem hlt,
      Option.getD_some]
  obtain ⟨h2, hnf⟩ := ht.link.indexed_live hent hidx
  obtain ⟨u, hr⟩ := ok_of_panicOf hnp
  generalize (opSetRelations run p e mapperIds rels w).state = w' at hr good' ⊢
  have hsl : e.id < w.pool.ents.length := by rw [← ht.link.lenEq]; exact hlt
  have post := opSetRelations_spec run p ht hl hno h2 hnf ha hsl hne hnd hhas htin hfew hrows hr
  have qk := opSetRelations_qkeep run p ht hl hno h2 hnf ha hsl hne hnd hhas hrows hr
  exact ⟨good', qk.cidx q.cidx, qk.rows q.rows, by rw [post.locks]; exact q.lock⟩

/-- `Add(e, ids…, rels…)` on success (hypotheses of `opAdd_rel_spec`) -/
theorem opAdd_qkeep (run : ProbeRunner) (p : Path) {w : World} {fl : List Nat} (h : TInv w fl)
    (hl : w.isLocked = false) (hno : ∀ (evt : Nat), w.obs.hasObservers evt = false) {e : Ent}
    (h2 : 2 ≤ e.id) (hnf : e.id ∉ fl) (ha : w.alive e = true)
    (hsl : e.id < w.pool.ents.length) {ids : List Comp}
    {vals : List (Comp × Val)} {rels : List RelID}
    (hreg : ∀ (c : Comp), c ∈ ids → c < w.kinds.length)
    (hnd : (rels.map (·.comp)).Nodup) (hin : ∀ (r : RelID), r ∈ rels → r.comp ∈ ids)
    (hrows : w.entities.length + 1 < 2 ^ 32)
    {w' : World} (hok : opAdd run p e ids vals rels w = .ok () w') : QKeep w w' := by
  obtain ⟨oldT, row, he, htm, _⟩ := h.link.live_entry h2 hnf ha hsl
  have hix := index_of_get he
  have hI := h.link.idx
  obtain ⟨hT, hrow, hid⟩ := hI.indexed he htm
  have hlt := lt_of_get hT
  have hS := h.rel.sinv.toSInvMid
  have hTf : (w.tbl oldT).isFree = false := by
    cases hf : (w.tbl oldT).isFree with
    | false => rfl
    | true => have := h.freeEmpty oldT _ hT hf; omega
  obtain ⟨A, hA, i1, i2, i3, _⟩ := hS.tblArch oldT _ hT
  have hAe := arch_of_get hA
  have hpre : preCheck (p.addCheck ids) ids rels w = .ok () w := by
    rcases preCheck_cases (p.addCheck ids) ids rels w with h1 | ⟨k, h1⟩
    · exact h1
    · cases p <;> simp [opAdd, bind, M.bind, M.get, M.assert, ha, h1] at hok
  have hemp : ids.isEmpty = false := by
    cases hi : ids.isEmpty with
    | false => rfl
    | true =>
      have : addCore e ids rels w = .panic .noComponents w := by
        simp [addCore, bind, M.bind, checkLocked_unlocked w hl, M.get, M.assert, ha, hi]
      cases p <;> simp [opAdd, hpre, bind, M.bind, M.get, M.assert, ha, this] at hok
  cases hf : findOrCreateTableAdd oldT (w.arch (w.tbl oldT).arch).mask ids rels w with
  | panic k s =>
    have : addCore e ids rels w = .panic k s := by
      simp [addCore, bind, M.bind, checkLocked_unlocked w hl, M.get, M.assert, ha, hemp, hix, hf]
    cases p <;> simp [opAdd, hpre, bind, M.bind, M.get, M.assert, ha, this] at hok
  | ok res w1 =>
    obtain ⟨newT, newA, mask⟩ := res
    have hstart : ∀ (c : Nat), (w.arch (w.tbl oldT).arch).mask.get c = true → c < w.kinds.length := by
      intro c hc; rw [hAe] at hc; exact hS.maskReg _ A hA c hc
    have hom : ∀ (r : RelID), r ∈ (w.tbl oldT).relIDs →
        (w.arch (w.tbl oldT).arch).mask.get r.comp = true := by
      intro r hr
      obtain ⟨i, hi, _⟩ := hS.relCols oldT _ hT r hr
      rw [hAe]
      exact (hS.mem_comps hA r.comp).1 (by rw [← i1]; exact List.mem_of_getElem? hi)
    obtain ⟨hmask, ar⟩ := h.rel.findOrCreateTableAdd h.flags h.freeEmpty hstart hreg hlt hTf hom
      hnd hin hf
    have foc := ar.foc
    have hu := ar.untouched
    have hnew := graphFindAdd_new (m' := mask) (w' := w) (by
      rcases graphFindAdd_cases (w.arch (w.tbl oldT).arch).mask ids w with hg | ⟨hg, _⟩
      · rw [hmask]; exact hg
      · simp only [World.findOrCreateTableAdd, bind, M.bind, hg] at hf; cases hf)
    have hne' : oldT ≠ newT := by
      refine Ne.symm (foc.ne_old h.rel.sinv hlt ?_)
      cases hids : ids with
      | nil => rw [hids] at hemp; cases hemp
      | cons c rest =>
        intro heq
        have hc : c ∈ ids := by rw [hids]; exact List.mem_cons_self
        have h1 := hnew c hc
        have h256 : c < 256 := Nat.lt_of_lt_of_le (hreg c hc) (Nat.le_trans h.kindsLe.1 h.kindsLe.2)
        rw [← heq, hmask, Mask.get_ofList_foldl] at h1
        simp [h256, hc] at h1
    have hI1 : IdxInv w1 := foc.idx hI
    have he1 : w1.entities[e.id]? = some (oldT, row) := by rw [foc.entities]; exact he
    have hb1 : (w1.tbl newT).len + 1 < 2 ^ 32 := by
      have := hI1.rows_le newT
      rw [foc.entities] at this; omega
    have ha1 : w1.alive e = true := by simp only [World.alive, foc.pool]; exact ha
    have hcore := addCore_rel_eq e ids rels w hl ha hemp hix hf
    have hno3 : ∀ (evt : Nat), (registerW (addMove w1 e oldT row newT mask) rels).obs.hasObservers evt
        = false := by
      intro evt
      show (addMove w1 e oldT row newT mask).obs.hasObservers evt = false
      rw [(addMove_fields w1 e oldT row newT mask).2.2.2.obs, hu.obs]; exact hno evt
    rw [opAdd_rel_eq run p e ids vals rels w ha hpre hcore hno3] at hok
    injection hok with _ hw
    subst hw
    have q1 : QKeep w w1 :=
      ⟨fun hr => hr.lookup (findOrCreateTableAdd_keeps hf), fun hc => hc.findOrCreateTableAdd hf,
       fun hce => findOrCreateTable_cacheEmpty.1 hf hce⟩
    exact ((q1.trans (addMove_qkeep hI1 mask ha1 he1 htm hne' foc.tblLt hb1)).trans
      (registerW_qkeep _ rels)).trans (writeValsW_qkeep _ e vals)

/-- **`Add` with relation targets keeps `QGood`** (any path; hypotheses of `Good.add`) -/
theorem QGood.add (run : ProbeRunner) (p : Path) {w : World} (q : QGood w) {e : Ent}
    (ha : w.alive e = true) (hidx : (w.index e.id).1 ≠ maxU32) (hlt : e.id < w.entities.length)
    {ids : List Comp} {vals : List (Comp × Val)} {rels : List RelID}
    (hreg : ∀ (c : Comp), c ∈ ids → c < w.kinds.length)
    (hnd : (rels.map (·.comp)).Nodup) (hin : ∀ (r : RelID), r ∈ rels → r.comp ∈ ids)
    (hrc : ∀ (r : RelID), r ∈ rels → w.isRelComp r.comp = true)
    (htin : ∀ (r : RelID), r ∈ rels → r.target.id < w.pool.ents.length)
    (hfew : w.tables.length < maxU32) (hrows : w.entities.length + 1 < 2 ^ 32)
    (hnp : panicOf (opAdd run p e ids vals rels w) = none) :
    QGood (opAdd run p e ids vals rels w).state := by
  have good' := q.good.add run p ha hidx hlt hreg hnd hin hrc htin hfew hrows hnp
  obtain ⟨fl, ht, hl, hno⟩ := q.good
  have hent : w.entities[e.id]? = some ((w.index e.id).1, (w.index e.id).2) := by
    simp only [World.index, List.getD_eq_getElem?_getD, List.getElem?_eq_getElem hlt,
      Option.getD_some]
  obtain ⟨h2, hnf⟩ := ht.link.indexed_live hent hidx
  obtain ⟨u, hr⟩ := ok_of_panicOf hnp
  generalize (opAdd run p e ids vals rels w).state = w' at hr good' ⊢
  have hsl : e.id < w.pool.ents.length := by rw [← ht.link.lenEq]; exact hlt
  have post := opAdd_rel_spec run p ht hl hno h2 hnf ha hsl hreg hnd hin hrc htin hfew hrows hr
  have qk := opAdd_qkeep run p ht hl hno h2 hnf ha hsl hreg hnd hin hrows hr
  exact ⟨good', qk.cidx q.cidx, qk.rows q.rows, by rw [post.locks]; exact q.lock⟩

end QueryRel
end Ark
