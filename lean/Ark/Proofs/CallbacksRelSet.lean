/-
  Ark.Proofs.CallbacksRelSet — C08/C09 at world level for RELATION events, part 2:
  `SetRelations` under the joint invariant of the relation fragment with observers (`TInvObs`).

  * `changedRels w e rels` — the relation components named by `rels` whose target CHANGES: those
    `r.comp` with `targetOf w e.id r.comp ≠ some r.target`.
  * `RelLooked w w1` — what the table lookup of `SetRelations` leaves: every entity is as in `w`
    (components, values, relation targets, liveness); `setRel_looked`.
  * `setRelationsCore_callbacks` / `opSetRelations_callbacks` — an accepted observer-free call
    (with everything `setRelationsCore_spec` says: `SetRelPost`) is accepted with observers; either
    no target changes: the world (log included) is untouched, no observer is notified; or the
    result is the observer-free result with the observers put back and the log extended by the
    `OnRemoveRelations` round (on the LOCKED world before the move) and then the
    `OnAddRelations` round (on the world after it), for the event instance
    `.set (Mask.ofList (changedRels w e rels)) (w.maskOf e)`.

  Kernel-only proofs, core Lean only.
-/
import Ark.Proofs.CallbacksRel
import Ark.Proofs.CallbacksCbs
import Ark.Proofs.RelTotal

set_option autoImplicit false

namespace Ark

open World Spec Ark.Props.C01World QueryExact

/-! ## 1. the table lookup keeps the archetype's mask -/

namespace World

theorem getOrCreate_noObs_hasObservers {a : Nat} {rels : List RelID} {w w1 : World} {nt : Nat}
    (h : getOrCreate a rels w.noObs = .ok nt w1) (evt : Nat) : w1.obs.hasObservers evt = false := by
  have := ((frames_getOrCreate a rels).state_frame w.noObs).1
  rw [h] at this
  simp only [Res.state] at this
  rw [this]; rfl

theorem getFreeTable_mask {A A' : Archetype} {t : Nat} (h : A.getFreeTable = some (A', t)) :
    A'.mask = A.mask := by
  unfold Archetype.getFreeTable at h
  split at h
  · cases h
  · injection h with h
    obtain ⟨h1, _⟩ := Prod.mk.inj h
    subst h1
    rfl

theorem getOrCreate_arch_mask {a : Nat} {rels : List RelID} {w w1 : World} {nt : Nat}
    (ha : a < w.archetypes.length) (h : getOrCreate a rels w = .ok nt w1) :
    (w1.arch a).mask = (w.arch a).mask := by
  simp only [getOrCreate, bind, M.bind] at h
  have hst := getTable_state a rels w
  cases hg : getTable a rels w with
  | panic k s => rw [hg] at h; cases h
  | ok r s =>
    rw [hg] at h hst
    have hs : s = w := hst
    subst hs
    cases r with
    | some t =>
      simp only [pure, M.pure] at h
      injection h with _ h2
      subst h2
      rfl
    | none =>
      simp only at h
      obtain ⟨_, _, _, _, h5⟩ := createTable_ok h
      have h6 := cacheAddTable_eq h5
      have : w1.arch a = (createTableS s a rels).1.arch a := by rw [h6]; rfl
      rw [this, createTableS_arch s rels ha]
      cases hf : (s.arch a).getFreeTable with
      | none => exact Archetype.addTable_mask _ _ _
      | some p =>
        obtain ⟨A', t⟩ := p
        simp only
        rw [Archetype.addTable_mask]
        exact getFreeTable_mask hf

end World

/-! ## 2. the relation components whose target changes -/

/-- **the relation components named by `rels` whose target CHANGES** for entity `e`: the stored
    target differs from the one given -/
def changedRels (w : World) (e : Ent) (rels : List RelID) : List Comp :=
  (rels.filter fun r => decide (targetOf w e.id r.comp ≠ some r.target)).map (·.comp)

theorem changedRels_noObs (w : World) (e : Ent) (rels : List RelID) :
    changedRels w.noObs e rels = changedRels w e rels := rfl

/-- `w1` is `w` after the table lookup of `SetRelations`: the destination table exists (created,
    recycled or found; empty or not), and every entity is as in `w` — components, values,
    relation targets, liveness -/
structure RelLooked (w w1 : World) : Prop where
  entities : w1.entities = w.entities
  pool : w1.pool = w.pool
  kinds : w1.kinds = w.kinds
  isTarget : w1.isTarget = w.isTarget
  same : ∀ (j : Nat), SameEnt w w1 j
  targets : ∀ (j : Nat) (c : Comp), targetOf w1 j c = targetOf w j c
  alive : ∀ (x : Ent), w1.alive x = w.alive x
  tablesLen : w.tables.length ≤ w1.tables.length ∧ w1.tables.length ≤ w.tables.length + 1
  idx : IdxInv w1
  rel : RelInv w1

/-- the analysis of `World.setRelations` under the invariant up to the table lookup: the entity's
    table, the outcome of the scan (`ch` = some target differs; the change mask is read off
    `changedRels`), and what a successful table lookup leaves -/
theorem setRel_setup {w : World} {fl : List Nat} (h : TInv w fl) {e : Ent} (h2 : 2 ≤ e.id)
    (hnf : e.id ∉ fl) (ha : w.alive e = true) (hsl : e.id < w.pool.ents.length)
    {rels : List RelID}
    (hnd : (rels.map (·.comp)).Nodup)
    (hhas : ∀ (r : RelID), r ∈ rels → (targetOf w e.id r.comp).isSome = true) :
    ∃ (oldT row : Nat), w.index e.id = (oldT, row) ∧
      w.maskOf e = (w.arch (w.tbl oldT).arch).mask ∧
      changedComps (w.tbl oldT) rels = changedRels w e rels ∧
      ∃ (ch : Bool) (cm : Mask),
        getExchangeTargets (w.tbl oldT) rels w =
          .ok (if ch then colRels (w.tbl oldT).ids
            (setTargets (w.tbl oldT).colIdx rels (w.tbl oldT).targets) (w.tbl oldT).isRel else [],
            ch, cm) w ∧
        (ch = true → ∀ (nt : Nat) (w1 : World),
          getOrCreate (w.tbl oldT).arch (colRels (w.tbl oldT).ids
            (setTargets (w.tbl oldT).colIdx rels (w.tbl oldT).targets) (w.tbl oldT).isRel) w
            = .ok nt w1 →
          RelLooked w w1 ∧ (w1.arch (w.tbl oldT).arch).mask = w.maskOf e) := by
  obtain ⟨oldT, row, he, htm, _⟩ := h.link.live_entry h2 hnf ha hsl
  have hix := index_of_get he
  have hI := h.link.idx
  obtain ⟨hT, hrow, hid⟩ := hI.indexed he htm
  have hlt := lt_of_get hT
  have hS := h.rel.sinv.toSInvMid
  have hTf : (w.tbl oldT).isFree = false := by
    cases hf : (w.tbl oldT).isFree with
    | false => rfl
    | true => have := h.freeEmpty oldT _ hT hf; omega
  have hTex := h.rel.aux.rels oldT _ hT hTf
  have hcols : ∀ (r : RelID), r ∈ rels → ∃ (i : Nat), (w.tbl oldT).colIdx r.comp = some i ∧
      (w.tbl oldT).isRel.getD i false = true := by
    intro r hr
    obtain ⟨t, r', k, T, h1, _, h3, h4, h5⟩ := targetOf_isSome (hhas r hr)
    rw [he] at h1
    obtain ⟨rfl, rfl⟩ := Prod.mk.inj (Option.some.inj h1)
    rw [hT] at h3
    obtain rfl := Option.some.inj h3
    exact ⟨k, h4, h5⟩
  have hts : ∀ (r : RelID), r ∈ rels → ∀ (i : Nat), (w.tbl oldT).colIdx r.comp = some i →
      (setTargets (w.tbl oldT).colIdx rels (w.tbl oldT).targets).getD i Ent.zero = r.target := by
    intro r hr i hi
    apply setTargets_getD_eq
    · rw [hTex.tlen]; exact Table.colIdx_lt hi
    · intro r' hr' hc'
      have : r'.comp = r.comp := colIdx_inj hc' hi
      rw [eq_of_nodup_map (·.comp) rels hnd r' r hr' hr this]
    · exact Or.inl ⟨r, hr, hi⟩
  have hlen' : (setTargets (w.tbl oldT).colIdx rels (w.tbl oldT).targets).length =
      (w.tbl oldT).ids.length := by rw [setTargets_length, hTex.tlen]
  have hmask : w.maskOf e = (w.arch (w.tbl oldT).arch).mask := by simp only [maskOf, hix]
  obtain ⟨A, hA, _, eA2, _⟩ := hS.tblArch oldT _ hT
  have halt := alt_of_get hA
  refine ⟨oldT, row, hix, hmask, ?_, ?_⟩
  · -- the change list, read through `targetOf`
    unfold changedComps changedRels
    congr 1
    apply List.filter_congr
    intro r hr
    obtain ⟨i, hi, hir⟩ := hcols r hr
    rw [targetOf_of_entry he htm hT, Table.targetAt_of_col hi hir]
    simp only [relDiffers, hi]
    by_cases heq : r.target = (w.tbl oldT).targets.getD i Ent.zero
    · rw [← heq]; simp
    · have h1 : (r.target == (w.tbl oldT).targets.getD i Ent.zero) = false := by
        simpa using heq
      have h2 : some ((w.tbl oldT).targets.getD i Ent.zero) ≠ some r.target :=
        fun hh => heq (Option.some.inj hh).symm
      rw [h1]
      exact (decide_eq_true h2).symm
  · obtain ⟨ch, cm, hx, _, htrue⟩ := getExchangeTargets_spec (w.tbl oldT) rels w hcols hnd
    refine ⟨ch, cm, hx, fun hch nt w1 hgo => ?_⟩
    obtain ⟨r1, hr1, i1, hi1, hne1⟩ := htrue hch
    have hi1r : (w.tbl oldT).isRel.getD i1 false = true := by
      obtain ⟨i, hi, hir⟩ := hcols r1 hr1
      rw [hi1] at hi
      obtain rfl := Option.some.inj hi
      exact hir
    have hrelA : (w.arch (w.tbl oldT).arch).hasRelations = true := by
      rw [arch_of_get hA]
      exact (hS.astruct _ A hA).hasRelations_of_rel (by rw [← eA2]; exact hi1r)
    obtain ⟨rel1, hI1, _, _, cg, _⟩ := relGet_of_ok (rels0 := rels) h.rel hI
      (h.flags.upTo rels) h.freeEmpty hlt rfl hTf hrelA hlen'
      ⟨i1, hi1r, by rw [hts r1 hr1 i1 hi1]; exact hne1⟩
      (by
        intro i hi hz
        rcases setTargets_getD_cases (w.tbl oldT).colIdx i Ent.zero rels (w.tbl oldT).targets with k | ⟨r, hr, k⟩
        · rw [k] at hz ⊢
          exact Or.inl (h.flags oldT _ hT hTf i hi hz)
        · exact Or.inr ⟨r, hr, k.symm⟩) hgo
    have f1 : ∀ (j : Nat), SameEnt w w1 j ∧ ∀ (c : Comp), targetOf w1 j c = targetOf w j c := by
      apply frame_of_rows hI cg.entities
      intro t Tt hTt hpos
      by_cases e0 : t = nt
      · subst e0
        rcases cg.ntKeep (lt_of_get hTt) with k | k
        · exact ⟨Tt, by rw [k]; exact hTt, rfl, rfl, rfl, rfl⟩
        · have := h.freeEmpty t Tt hTt (by rw [← tbl_of_get hTt]; exact k)
          omega
      · exact ⟨Tt, by rw [cg.others t e0]; exact hTt, rfl, rfl, rfl, rfl⟩
    refine ⟨⟨cg.entities, cg.pool, cg.kinds, cg.isTarget, fun j => (f1 j).1, fun j => (f1 j).2,
      fun x => by simp only [World.alive, cg.pool], ⟨cg.tablesLe, cg.lenB⟩, hI1, rel1⟩, ?_⟩
    rw [hmask]
    exact getOrCreate_arch_mask halt hgo

/-! ## 3. `SetRelations` with observers under the invariant -/

section Ops

variable {run : ProbeRunner} {S : Probe → Prop} {rec : World → Nat → Ent → Probe → List LogEv}

/-- **`World.setRelations` with observers under the invariant** (C08 + C09 for `SetRelations`).
    `w0` is the result of the accepted observer-free call, with everything
    `setRelationsCore_spec` says about it (`SetRelPost`).  With observers the call is accepted as
    well.  If no target changes (`changedRels w e rels = []`) the world is returned untouched — log
    included: no observer is notified.  Otherwise, with `w1` the world after the table lookup
    (`RelLooked`: every entity as before the call), the result is `setRelResult`: `w0` with the
    observers of `w`, the lock's bit pool after one `Lock()`/`Unlock()` cycle (if there are
    `OnRemoveRelations` observers), and the log extended, in this order, by the notifications of
    the `OnRemoveRelations` observers the documented rule selects for the event instance
    `.set (changed relation components) (mask of e)` — each run on `w1` LOCKED, the entity still
    in its old table — and then of the `OnAddRelations` observers the rule selects for the same
    instance — each run on the result, after the move. -/
theorem setRelationsCore_callbacks (hro : ReadOnly run S rec) (run0 : ProbeRunner) {w : World}
    {fl : List Nat} (hs : ScriptsIn w.obs S) (h : TInvObs w fl) (hl : w.isLocked = false) {e : Ent}
    (h2 : 2 ≤ e.id) (hnf : e.id ∉ fl) (ha : w.alive e = true) (hsl : e.id < w.pool.ents.length)
    {rels : List RelID}
    (hne : rels.isEmpty = false) (hnd : (rels.map (·.comp)).Nodup)
    (hhas : ∀ (r : RelID), r ∈ rels → (targetOf w e.id r.comp).isSome = true)
    (htin : ∀ (r : RelID), r ∈ rels → r.target.id < w.pool.ents.length)
    (hfew : w.tables.length < maxU32) (hrows : w.entities.length + 1 < 2 ^ 32)
    {l1 l2 : Lock} {b : Nat} (hL : LockCycle w.locks l1 b l2) {w0 : World}
    (h0 : setRelationsCore run0 e rels w.noObs = .ok () w0) :
    SetRelPost w.noObs fl e rels w0 ∧
    ((changedRels w e rels = [] ∧ w0 = w.noObs ∧ setRelationsCore run e rels w = .ok () w) ∨
     (changedRels w e rels ≠ [] ∧ ∃ (w1 : World), RelLooked w.noObs w1 ∧
        setRelationsCore run e rels w = .ok ()
          (setRelResult rec w w1 w0 e (Mask.ofList (changedRels w e rels)) (w.maskOf e) l1 l2))) := by
  have post := setRelationsCore_spec run0 h.tinv hl (noObs_hasObservers w) h2 hnf ha hsl hne hnd hhas
    htin hfew hrows h0
  refine ⟨post, ?_⟩
  obtain ⟨oldT, row, hix, hmask, hcc, ch, cm, hx, hlook⟩ := setRel_setup h.tinv h2 hnf ha hsl hnd hhas
  have hix' : w.index e.id = (oldT, row) := hix
  have hmask' : w.maskOf e = (w.arch (w.tbl oldT).arch).mask := hmask
  have hinj : ∀ (c c' : Comp) (i : Nat), (w.tbl oldT).colIdx c = some i →
      (w.tbl oldT).colIdx c' = some i → c = c' := by
    intro c c' i h1 h2
    have g1 := Table.colIdx_get h1
    have g2 := Table.colIdx_get h2
    rw [g1] at g2
    exact Option.some.inj g2
  obtain ⟨hcm, hch⟩ := getExchangeTargets_mask (w.tbl oldT) rels w.noObs hinj hnd hx
  have hcc' : changedComps (w.tbl oldT) rels = changedRels w e rels := hcc
  rw [hcc'] at hcm hch
  have hxw := getExchangeTargets_of_noObs (w.tbl oldT) rels w
  have hx' : getExchangeTargets (w.tbl oldT) rels w.noObs = _ := hx
  rw [hx', Res.mapS_ok] at hxw
  cases ch with
  | false =>
    left
    rw [setRelationsCore_unchanged run0 e rels w.noObs hl ha hne hix hx] at h0
    injection h0 with _ e2
    refine ⟨?_, e2.symm, setRelationsCore_unchanged run e rels w hl ha hne hix' hxw⟩
    cases hc : changedRels w e rels with
    | nil => rfl
    | cons x xs => rw [hc] at hch; cases hch
  | true =>
    right
    simp only [if_true] at hx hxw
    have hgw := getOrCreate_of_noObs (w.tbl oldT).arch (colRels (w.tbl oldT).ids
      (setTargets (w.tbl oldT).colIdx rels (w.tbl oldT).targets) (w.tbl oldT).isRel) w
    cases hg : getOrCreate (w.tbl oldT).arch (colRels (w.tbl oldT).ids
        (setTargets (w.tbl oldT).colIdx rels (w.tbl oldT).targets) (w.tbl oldT).isRel) w.noObs with
    | panic k' s' =>
      rw [setRelationsCore_panic_get run0 e rels w.noObs hl ha hne hix hx hg] at h0; cases h0
    | ok nt w1 =>
      obtain ⟨lk, hm1⟩ := hlook rfl nt w1 hg
      have hm1' : (w1.arch (w.tbl oldT).arch).mask = w.maskOf e := hm1
      have hno1 := getOrCreate_noObs_hasObservers hg
      rw [setRelationsCore_changed run0 e rels w.noObs hl ha hne hix hx hg hno1] at h0
      injection h0 with _ e2
      rw [hg, Res.mapS_ok] at hgw
      refine ⟨?_, w1, lk, ?_⟩
      · intro hc; rw [hc] at hch; cases hch
      · rw [setRelationsCore_obs_eq hro e rels w hs h.obs hl ha hne hix' hxw hgw hL]
        have hmr : ((w1.reframe w.obs w.log w.locks).arch (w.tbl oldT).arch).mask = w.maskOf e := hm1
        rw [hmr, addMove_reframe, ← hcm, ← e2]
        unfold setRelResult
        rw [hm1]
        rfl

/-- **`SetRelations` (any path) with observers under the invariant** -/
theorem opSetRelations_callbacks (hro : ReadOnly run S rec) (run0 : ProbeRunner) (p : Path)
    {w : World} {fl : List Nat} (hs : ScriptsIn w.obs S) (h : TInvObs w fl)
    (hl : w.isLocked = false) {e : Ent} (h2 : 2 ≤ e.id) (hnf : e.id ∉ fl) (ha : w.alive e = true)
    (hsl : e.id < w.pool.ents.length) {mapperIds : List Comp} {rels : List RelID}
    (hne : rels.isEmpty = false) (hnd : (rels.map (·.comp)).Nodup)
    (hhas : ∀ (r : RelID), r ∈ rels → (targetOf w e.id r.comp).isSome = true)
    (htin : ∀ (r : RelID), r ∈ rels → r.target.id < w.pool.ents.length)
    (hfew : w.tables.length < maxU32) (hrows : w.entities.length + 1 < 2 ^ 32)
    {l1 l2 : Lock} {b : Nat} (hL : LockCycle w.locks l1 b l2) {w0 : World}
    (h0 : opSetRelations run0 p e mapperIds rels w.noObs = .ok () w0) :
    SetRelPost w.noObs fl e rels w0 ∧
    ((changedRels w e rels = [] ∧ w0 = w.noObs ∧
        opSetRelations run p e mapperIds rels w = .ok () w) ∨
     (changedRels w e rels ≠ [] ∧ ∃ (w1 : World), RelLooked w.noObs w1 ∧
        opSetRelations run p e mapperIds rels w = .ok ()
          (setRelResult rec w w1 w0 e (Mask.ofList (changedRels w e rels)) (w.maskOf e) l1 l2))) := by
  rcases preCheck_of_noObs p.setRelCheck mapperIds rels w with ⟨h1, h2'⟩ | ⟨k', h1, _⟩
  · simp only [opSetRelations, bind, M.bind, h1] at h0
    simp only [opSetRelations, bind, M.bind, h2']
    exact setRelationsCore_callbacks hro run0 hs h hl h2 hnf ha hsl hne hnd hhas htin hfew hrows hL h0
  · simp only [opSetRelations, bind, M.bind, h1] at h0
    cases h0

/-- the observers `SetRelations` notifies under the event type `evt` (`OnRemoveRelations`, then
    `OnAddRelations`): none when no target changes; otherwise those the documented rule selects
    for the set of changed relation components and the entity's mask -/
def firingRel (m : ObsMgr) (evt : Nat) (changed : List Comp) (mask : Mask) : List Nat :=
  if changed = [] then [] else firing m evt (.set (Mask.ofList changed) mask)

/-- the lock state after `SetRelations`: one `Lock()`/`Unlock()` cycle if some target changes and
    there are `OnRemoveRelations` observers, untouched otherwise -/
def lockAfterRel (w : World) (changed : List Comp) (l2 : Lock) : Lock :=
  if changed = [] then w.locks else lockAfter w Ev.onRemoveRelations l2

/-- **the setting of C08/C09 for worlds with relations**: a callback runner that is read-only on
    the probes `S` and writes no `cb` records of its own; observers whose scripts consist of such
    probes; a world satisfying `TInvObs` (the joint invariant `TInv` of the relation fragment with
    any set of registered observers whose aggregates are consistent) -/
structure SettingRel (run : ProbeRunner) (S : Probe → Prop)
    (rec : World → Nat → Ent → Probe → List LogEv) (w : World) (fl : List Nat) : Prop where
  ro : ReadOnly run S rec
  noCb : NoCb rec
  scripts : ScriptsIn w.obs S
  inv : TInvObs w fl

/-- the setting carries over to the result: same runner, same observers, the invariant of the
    observer-free result -/
theorem SettingRel.frame {w w0 w' : World} {fl fl' : List Nat} (st : SettingRel run S rec w fl)
    (hf : FrameOf w0 w w') (h0 : TInv w0 fl') : SettingRel run S rec w' fl' where
  ro := st.ro
  noCb := st.noCb
  scripts := by rw [hf.obs]; exact st.scripts
  inv := by rw [hf]; exact st.inv.frame h0 _ _

/-- **C08 for `SetRelations`**: an accepted observer-free call is accepted with observers; the
    result is the observer-free result with the observers put back (`FrameOf`); the `cb` records
    appended are, newest first, `(l, e)` for the `OnAddRelations` observers the documented rule
    selects, preceded in time by those for the `OnRemoveRelations` observers — in registration
    order, once each; none at all if no target changes. -/
theorem setRelations_cbs {w : World} {fl : List Nat} (st : SettingRel run S rec w fl)
    (run0 : ProbeRunner) (p : Path) (hl : w.isLocked = false) {e : Ent} (he : Live w fl e)
    {mapperIds : List Comp} {rels : List RelID}
    (hne : rels.isEmpty = false) (hnd : (rels.map (·.comp)).Nodup)
    (hhas : ∀ (r : RelID), r ∈ rels → (targetOf w e.id r.comp).isSome = true)
    (htin : ∀ (r : RelID), r ∈ rels → r.target.id < w.pool.ents.length)
    (hfew : w.tables.length < maxU32) (hrows : w.entities.length + 1 < 2 ^ 32)
    {l1 l2 : Lock} {b : Nat} (hL : LockCycle w.locks l1 b l2) {w0 : World}
    (h0 : opSetRelations run0 p e mapperIds rels w.noObs = .ok () w0) :
    SetRelPost w.noObs fl e rels w0 ∧
    ∃ (w' : World), opSetRelations run p e mapperIds rels w = .ok () w' ∧ FrameOf w0 w w' ∧
      w'.locks = lockAfterRel w (changedRels w e rels) l2 ∧
      (changedRels w e rels = [] → w' = w) ∧
      cbsOf w'.log =
        ((firingRel w.obs Ev.onAddRelations (changedRels w e rels) (w.maskOf e)).map
            fun l => (l, e)).reverse
        ++ (((firingRel w.obs Ev.onRemoveRelations (changedRels w e rels) (w.maskOf e)).map
            fun l => (l, e)).reverse
        ++ cbsOf w.log) := by
  obtain ⟨post, hcase⟩ := opSetRelations_callbacks st.ro run0 p st.scripts st.inv hl he.ge2
    he.notFree he.alive he.inPool hne hnd hhas htin hfew hrows hL h0
  refine ⟨post, ?_⟩
  unfold lockAfterRel firingRel
  rcases hcase with ⟨hc, hw0, hop⟩ | ⟨hc, w1, _, hop⟩
  · refine ⟨w, hop, by rw [hw0]; rfl, by rw [if_pos hc], fun _ => rfl, ?_⟩
    simp only [hc, if_true, List.map_nil, List.reverse_nil, List.nil_append]
  · refine ⟨_, hop, rfl, by rw [if_neg hc]; rfl, fun hh => absurd hh hc, ?_⟩
    simp only [hc, if_false]
    show cbsOf (relAddLog rec w.obs e _ _ _ ++ (relRemLog rec w.obs e _ _ _ ++ w.log)) = _
    unfold relAddLog relRemLog
    rw [cbsOf_round st.noCb, cbsOf_round st.noCb]

/-- **`SetRelations` is accepted** under the documented preconditions (the entity has the
    relation components named, none twice; the targets are zero or alive; the components are
    relation components) — with any set of registered observers -/
theorem setRelations_total {w : World} {fl : List Nat} (st : SettingRel run S rec w fl)
    (p : Path) (hl : w.isLocked = false) {e : Ent} (he : Live w fl e) {rels : List RelID}
    (hne : rels.isEmpty = false) (hnd : (rels.map (·.comp)).Nodup)
    (hhas : ∀ (r : RelID), r ∈ rels → (targetOf w e.id r.comp).isSome = true)
    (hval : ∀ (r : RelID), r ∈ rels → r.target.isZero = true ∨ w.alive r.target = true)
    (hreg : ∀ (r : RelID), r ∈ rels → w.isRelComp r.comp = true ∧ r.comp < 256)
    (htin : ∀ (r : RelID), r ∈ rels → r.target.id < w.pool.ents.length)
    (hfew : w.tables.length < maxU32) (hrows : w.entities.length + 1 < 2 ^ 32)
    {l1 l2 : Lock} {b : Nat} (hL : LockCycle w.locks l1 b l2) :
    ∃ (w' : World), opSetRelations run p e (rels.map (·.comp)) rels w = .ok () w' := by
  obtain ⟨w0, h0⟩ := opSetRelations_total run p st.inv.tinv hl (noObs_hasObservers w) he.ge2
    he.notFree he.alive he.inPool hne hnd hhas hval hreg
  obtain ⟨_, w', hop, _⟩ := setRelations_cbs st run p hl he hne hnd hhas htin hfew hrows hL h0
  exact ⟨w', hop⟩

/-- **C09 for `SetRelations`**: what the two rounds of callbacks see.  If some target changes, the
    log of the result is `w.log` extended by the `OnRemoveRelations` round run on `seenB` and then
    the `OnAddRelations` round run on `seenA`, where
    * `seenB` (before) is LOCKED, and every entity is as in `w`: same components and values, same
      relation targets — in particular `e` still has its OLD targets —, same liveness;
    * `seenA` (after) is the result up to the records of the second round: `e` has the targets
      named, keeps its other targets, its components and values; every other entity is as in `w`;
      the lock state is the final one (the removal lock has been released). -/
theorem setRelations_seen {w : World} {fl : List Nat} (st : SettingRel run S rec w fl)
    (run0 : ProbeRunner) (p : Path) (hl : w.isLocked = false) {e : Ent} (he : Live w fl e)
    {mapperIds : List Comp} {rels : List RelID}
    (hne : rels.isEmpty = false) (hnd : (rels.map (·.comp)).Nodup)
    (hhas : ∀ (r : RelID), r ∈ rels → (targetOf w e.id r.comp).isSome = true)
    (htin : ∀ (r : RelID), r ∈ rels → r.target.id < w.pool.ents.length)
    (hfew : w.tables.length < maxU32) (hrows : w.entities.length + 1 < 2 ^ 32)
    {l1 l2 : Lock} {b : Nat} (hL : LockCycle w.locks l1 b l2) {w0 : World}
    (h0 : opSetRelations run0 p e mapperIds rels w.noObs = .ok () w0)
    (hch : changedRels w e rels ≠ []) :
    ∃ (seenB seenA w' : World), opSetRelations run p e mapperIds rels w = .ok () w' ∧
      w'.log =
        notifyAll rec e (firing w.obs Ev.onAddRelations
          (.set (Mask.ofList (changedRels w e rels)) (w.maskOf e))) seenA ++
        (notifyAll rec e (firing w.obs Ev.onRemoveRelations
          (.set (Mask.ofList (changedRels w e rels)) (w.maskOf e))) seenB ++ w.log) ∧
      -- before
      seenB.isLocked = true ∧ seenB.obs = w.obs ∧ seenB.log = w.log ∧
      (∀ (j : Nat), SameEnt w seenB j) ∧
      (∀ (j : Nat) (c : Comp), targetOf seenB j c = targetOf w j c) ∧
      (∀ (x : Ent), seenB.alive x = w.alive x) ∧
      -- after
      seenA = { w' with log := seenA.log } ∧
      (∀ (r : RelID), r ∈ rels → targetOf seenA e.id r.comp = some r.target) ∧
      (∀ (c : Comp), (∀ (r : RelID), r ∈ rels → r.comp ≠ c) →
        targetOf seenA e.id c = targetOf w e.id c) ∧
      SameEnt w seenA e.id ∧
      (∀ (j : Nat), j ≠ e.id → SameEnt w seenA j ∧ ∀ (c : Comp), targetOf seenA j c = targetOf w j c) ∧
      (∀ (x : Ent), seenA.alive x = w.alive x) := by
  obtain ⟨post, hcase⟩ := opSetRelations_callbacks st.ro run0 p st.scripts st.inv hl he.ge2
    he.notFree he.alive he.inPool hne hnd hhas htin hfew hrows hL h0
  rcases hcase with ⟨hc, _, _⟩ | ⟨_, w1, lk, hop⟩
  · exact absurd hc hch
  · refine ⟨w1.reframe w.obs w.log l1,
      w0.reframe w.obs (relRemLog rec w.obs e (Mask.ofList (changedRels w e rels)) (w.maskOf e)
        (w1.reframe w.obs w.log l1) ++ w.log) (lockAfter w Ev.onRemoveRelations l2),
      _, hop, rfl, LockCycle.locked hL, rfl, rfl, lk.same, lk.targets, lk.alive, rfl,
      post.targets, post.otherTargets, post.self, post.frame, post.aliveSame⟩

end Ops

end Ark
