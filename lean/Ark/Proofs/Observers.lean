/-
  Ark.Proofs.Observers — lemmas behind C08: the closed form of `ObsMgr.computeData`, the
  set-level reading of each guard of the `Fire*` predicates, the aggregate invariant of the
  observer manager and its preservation.  Kernel-only.
-/
import Ark.Model.Observers
import Ark.Proofs.MaskLemmas
import Ark.Spec.Observers

namespace Ark
open Spec

/-! ### masks built from ID lists -/
namespace Mask

theorem get_lt {m : Mask} {c : Nat} (h : m.get c = true) : c < 256 := by
  apply Classical.byContradiction
  intro hn
  rw [get_ge m c (by omega)] at h
  cases h

theorem foldl_set_empty (cs : List Nat) : cs.foldl set empty = ofList cs := rfl

theorem foldl_set_ofList (as bs : List Nat) : bs.foldl set (ofList as) = ofList (as ++ bs) := by
  simp [ofList, List.foldl_append]

theorem contains_ofList_iff (m : Mask) (cs : List Nat) (h : ∀ c ∈ cs, c < 256) :
    m.contains (ofList cs) = true ↔ allIn cs m := by
  rw [contains_iff]
  constructor
  · intro H c hc
    apply H
    simp [get_ofList, h c hc, hc]
  · intro H c hc
    simp only [get_ofList, Bool.and_eq_true, decide_eq_true_eq] at hc
    exact H c hc.2

theorem containsAny_ofList_false_iff (m : Mask) (cs : List Nat) :
    m.containsAny (ofList cs) = false ↔ noneIn cs m := by
  rw [containsAny_false_iff]
  constructor
  · intro H c hc
    cases hm : m.get c with
    | false => rfl
    | true =>
      have := H c hm
      simp [get_ofList, get_lt hm, hc] at this
  · intro H c hm
    cases ho : (ofList cs).get c with
    | false => rfl
    | true =>
      simp only [get_ofList, Bool.and_eq_true, decide_eq_true_eq] at ho
      rw [H c ho.2] at hm; cases hm

theorem containsAny_not_ofList_false_iff (m : Mask) (cs : List Nat) :
    m.containsAny (ofList cs).not = false ↔ onlyIn cs m := by
  rw [containsAny_false_iff]
  constructor
  · intro H c hc hm
    have := H c hm
    simpa [get_not, get_ofList, hc] using this
  · intro H c hm
    have hc := get_lt hm
    have := H c hc hm
    simp [get_not, get_ofList, hc, this]

/-- a mask of a non-empty list of valid IDs is not zero -/
theorem ofList_isZero_false (cs : List Nat) (h : ∀ c ∈ cs, c < 256) (hne : cs.isEmpty = false) :
    (ofList cs).isZero = false := by
  cases cs with
  | nil => cases hne
  | cons x xs =>
    rw [← Bool.not_eq_true, isZero_iff]
    intro H
    have := H x
    simp [get_ofList, h x (by simp)] at this

theorem not_isZero_exists {m : Mask} (h : m.isZero = false) : ∃ c, m.get c = true := by
  apply Classical.byContradiction
  intro hn
  have : m.isZero = true := (isZero_iff m).mpr (fun c => by
    cases hc : m.get c with
    | false => rfl
    | true => exact absurd ⟨c, hc⟩ hn)
  rw [this] at h; cases h

end Mask

/-! ### closed form of `computeData` -/
namespace Spec

/-- effective with-set: `With`, plus `For` for entity events -/
def effWith (s : ObsSpec) : List Comp := if isEntityEvt s.event then s.comps ++ s.with_ else s.with_
/-- effective observed components: `For`, except for entity events -/
def effComps (s : ObsSpec) : List Comp := if isEntityEvt s.event then [] else s.comps

/-- what `AddObserver` computes, as a function of the specification -/
def dataOf (s : ObsSpec) : ObsData :=
  { compsMask := Mask.ofList (effComps s), hasComps := !(effComps s).isEmpty,
    withMask := Mask.ofList (effWith s), hasWith := !(effWith s).isEmpty,
    withoutMask := if s.exclusive then (Mask.ofList (effWith s)).not else Mask.ofList s.without,
    hasWithout := s.exclusive || !s.without.isEmpty }

theorem isEntityEvt_not_rel {e : Nat} (h : isEntityEvt e = true) :
    (e == Ev.onAddRelations || e == Ev.onRemoveRelations) = false := by
  simp only [isEntityEvt, Ev.onCreateEntity, Ev.onRemoveEntity, Bool.or_eq_true, beq_iff_eq] at h
  rcases h with h | h <;> subst h <;> rfl

theorem computeData_eq (s : ObsSpec) (isRel : Comp → Bool) (d : ObsData)
    (h : ObsMgr.computeData s isRel = some d) : d = dataOf s := by
  unfold ObsMgr.computeData at h
  simp only [Mask.foldl_set_empty] at h
  by_cases hent : isEntityEvt s.event = true
  · have hrel := isEntityEvt_not_rel hent
    have hent' : (s.event == Ev.onCreateEntity || s.event == Ev.onRemoveEntity) = true := hent
    simp only [hrel, hent', if_true, Bool.false_eq_true, if_false, Mask.foldl_set_ofList] at h
    have hd : dataOf s =
        { compsMask := Mask.empty, hasComps := false,
          withMask := Mask.ofList (s.comps ++ s.with_),
          hasWith := !(s.comps ++ s.with_).isEmpty,
          withoutMask := if s.exclusive then (Mask.ofList (s.comps ++ s.with_)).not
                         else Mask.ofList s.without,
          hasWithout := s.exclusive || !s.without.isEmpty } := by
      simp [dataOf, effComps, effWith, hent, Mask.ofList]
    rw [hd]
    cases hx : s.exclusive <;> simp only [hx, Bool.false_eq_true, if_false, if_true] at h ⊢ <;>
      · injection h with h
        rw [← h]
        cases hc : s.comps <;> simp [Mask.foldl_set_empty]
  · have hent' : (s.event == Ev.onCreateEntity || s.event == Ev.onRemoveEntity) = false := by
      simpa [isEntityEvt] using hent
    have hd : dataOf s =
        { compsMask := Mask.ofList s.comps, hasComps := !s.comps.isEmpty,
          withMask := Mask.ofList s.with_, hasWith := !s.with_.isEmpty,
          withoutMask := if s.exclusive then (Mask.ofList s.with_).not else Mask.ofList s.without,
          hasWithout := s.exclusive || !s.without.isEmpty } := by
      simp [dataOf, effComps, effWith, hent]
    rw [hd]
    by_cases hrel : (s.event == Ev.onAddRelations || s.event == Ev.onRemoveRelations) = true
    · simp only [hrel, if_true] at h
      by_cases hall : s.comps.all isRel = true
      · simp only [hall, if_true, Mask.foldl_set_empty] at h
        cases hx : s.exclusive <;> simp only [hx, Bool.false_eq_true, if_false, if_true] at h ⊢ <;>
          · injection h with h
            rw [← h]
            simp
      · simp [hall] at h
    · simp only [hrel, hent', Bool.false_eq_true, if_false, Mask.foldl_set_empty] at h
      cases hx : s.exclusive <;> simp only [hx, Bool.false_eq_true, if_false, if_true] at h ⊢ <;>
        · injection h with h
          rw [← h]
          simp

/-! ### the guards of the `Fire*` predicates, read as set conditions -/

theorem wildcard_or_iff {cs : List Comp} {P : Prop} (hP : cs = [] → P) : (cs = [] ∨ P) ↔ P :=
  ⟨fun h => h.elim hP id, Or.inr⟩

/-- `!(has && !mask.Contains(m))` with `has = (cs ≠ [])`, `m = ofList cs` -/
theorem guard_contains (cs : List Comp) (m : Mask) (h : ∀ c ∈ cs, c < 256) :
    (!(!cs.isEmpty && !m.contains (Mask.ofList cs))) = true ↔ allIn cs m := by
  cases cs with
  | nil => simp [allIn]
  | cons x xs =>
    rw [← Mask.contains_ofList_iff m (x :: xs) h]
    simp

/-- the `Without`/`Exclusive` guard -/
theorem guard_without (s : ObsSpec) (ew : List Comp) (m : Mask) :
    (!((s.exclusive || !s.without.isEmpty) &&
        m.containsAny (if s.exclusive then (Mask.ofList ew).not else Mask.ofList s.without))) = true
      ↔ withoutOK s ew m := by
  unfold withoutOK
  cases hx : s.exclusive
  · simp only [Bool.false_or, Bool.false_eq_true, if_false]
    rw [← Mask.containsAny_ofList_false_iff]
    cases hw : s.without with
    | nil => simp [Mask.ofList, Mask.containsAny, Mask.empty]
    | cons x xs => simp
  · simp only [Bool.true_or, Bool.true_and, if_true, Bool.not_eq_true']
    exact Mask.containsAny_not_ofList_false_iff m ew

/-- the `For` guard of `FireAdd` -/
theorem guard_added (cs : List Comp) (old new : Mask) (h : ∀ c ∈ cs, c < 256) :
    (!(!cs.isEmpty && (!new.contains (Mask.ofList cs) || old.containsAny (Mask.ofList cs)))) = true
      ↔ (cs = [] ∨ (allIn cs new ∧ noneIn cs old)) := by
  cases cs with
  | nil => simp
  | cons x xs =>
    rw [← Mask.contains_ofList_iff new (x :: xs) h, ← Mask.containsAny_ofList_false_iff]
    simp

/-- the `For` guard of `FireRemove` -/
theorem guard_removed (cs : List Comp) (old new : Mask) (h : ∀ c ∈ cs, c < 256) :
    (!(!cs.isEmpty && (new.containsAny (Mask.ofList cs) || !old.contains (Mask.ofList cs)))) = true
      ↔ (cs = [] ∨ (allIn cs old ∧ noneIn cs new)) := by
  cases cs with
  | nil => simp
  | cons x xs =>
    rw [← Mask.contains_ofList_iff old (x :: xs) h, ← Mask.containsAny_ofList_false_iff]
    simp [and_comm]

/-- the `For` guard of the other events (`comps = [] ∨ comps ⊆ mask`) -/
theorem guard_contains_wild (cs : List Comp) (m : Mask) (h : ∀ c ∈ cs, c < 256) :
    (!(!cs.isEmpty && !m.contains (Mask.ofList cs))) = true ↔ (cs = [] ∨ allIn cs m) := by
  rw [guard_contains cs m h, wildcard_or_iff]
  rintro rfl; simp [allIn]

theorem IdsOK.effWith {s : ObsSpec} (h : IdsOK s) : ∀ c ∈ effWith s, c < 256 := by
  intro c hc
  unfold Spec.effWith at hc
  split at hc
  · rcases List.mem_append.mp hc with hc | hc
    · exact h.1 c hc
    · exact h.2 c hc
  · exact h.2 c hc

theorem IdsOK.effComps {s : ObsSpec} (h : IdsOK s) : ∀ c ∈ effComps s, c < 256 := by
  intro c hc
  unfold Spec.effComps at hc
  split at hc
  · cases hc
  · exact h.1 c hc

/-! ### per-observer predicates decide the documented rule -/

theorem pred_entity_dataOf (s : ObsSpec) (hid : IdsOK s) (hev : isEntityEvt s.event = true)
    (m : Mask) : Pred.entity (dataOf s) m = true ↔ fires s (.entity m) := by
  have hw : effWith s = s.comps ++ s.with_ := by simp [effWith, hev]
  have hid' := hid.effWith
  rw [hw] at hid'
  simp only [Pred.entity, dataOf, hw, Bool.and_eq_true, fires]
  rw [guard_contains _ m hid', guard_without]

theorem pred_entityRel_dataOf (s : ObsSpec) (hid : IdsOK s) (hev : isEntityEvt s.event = false)
    (m : Mask) : Pred.entityRel (dataOf s) m = true ↔ fires s (.entityRel m) := by
  have hw : effWith s = s.with_ := by simp [effWith, hev]
  have hc : effComps s = s.comps := by simp [effComps, hev]
  simp only [Pred.entityRel, dataOf, hw, hc, Bool.and_eq_true, fires]
  rw [guard_contains_wild _ m hid.1, guard_contains _ m hid.2, guard_without, and_assoc]

theorem pred_add_dataOf (s : ObsSpec) (hid : IdsOK s) (hev : isEntityEvt s.event = false)
    (old new : Mask) : Pred.add (dataOf s) old new = true ↔ fires s (.add old new) := by
  have hw : effWith s = s.with_ := by simp [effWith, hev]
  have hc : effComps s = s.comps := by simp [effComps, hev]
  simp only [Pred.add, dataOf, hw, hc, Bool.and_eq_true, fires]
  rw [guard_added _ old new hid.1, guard_contains _ old hid.2, guard_without, and_assoc]

theorem pred_remove_dataOf (s : ObsSpec) (hid : IdsOK s) (hev : isEntityEvt s.event = false)
    (old new : Mask) : Pred.remove (dataOf s) old new = true ↔ fires s (.remove old new) := by
  have hw : effWith s = s.with_ := by simp [effWith, hev]
  have hc : effComps s = s.comps := by simp [effComps, hev]
  simp only [Pred.remove, dataOf, hw, hc, Bool.and_eq_true, fires]
  rw [guard_removed _ old new hid.1, guard_contains _ old hid.2, guard_without, and_assoc]

theorem pred_set_dataOf (s : ObsSpec) (hid : IdsOK s) (hev : isEntityEvt s.event = false)
    (changed m : Mask) : Pred.set (dataOf s) changed m = true ↔ fires s (.set changed m) := by
  have hw : effWith s = s.with_ := by simp [effWith, hev]
  have hc : effComps s = s.comps := by simp [effComps, hev]
  simp only [Pred.set, dataOf, hw, hc, Bool.and_eq_true, fires]
  rw [guard_contains_wild _ changed hid.1, guard_contains _ m hid.2, guard_without, and_assoc]

end Spec

/-! ### the aggregate invariant of the observer manager -/

namespace Mask

theorem contains_or_left {a b x : Mask} (h : a.contains x = true) : (a.or b).contains x = true := by
  rw [contains_iff] at h ⊢
  intro c hc; simp [get_or, h c hc]

theorem contains_or_right (a b : Mask) : (a.or b).contains b = true := by
  rw [contains_iff]
  intro c hc; simp [get_or, hc]

theorem contains_trans {a b c : Mask} (h1 : a.contains b = true) (h2 : b.contains c = true) :
    a.contains c = true := by
  rw [contains_iff] at h1 h2 ⊢
  intro x hx; exact h1 x (h2 x hx)

theorem contains_refl (a : Mask) : a.contains a = true := by
  rw [contains_iff]; intro c hc; exact hc

end Mask

/-- What `AddObserver` guarantees about the data it computes (for IDs < 256): a set `has…`
    flag means the corresponding mask has at least one bit. -/
def ObsData.WF (d : ObsData) : Prop :=
  (d.hasWith = true → d.withMask.isZero = false) ∧ (d.hasComps = true → d.compsMask.isZero = false)

theorem Spec.dataOf_wf (s : ObsSpec) (hid : IdsOK s) : (dataOf s).WF := by
  constructor
  · intro h
    simp only [dataOf, Bool.not_eq_true'] at h
    exact Mask.ofList_isZero_false _ hid.effWith h
  · intro h
    simp only [dataOf, Bool.not_eq_true'] at h
    exact Mask.ofList_isZero_false _ hid.effComps h

theorem ObsMgr.computeData_wf (s : ObsSpec) (isRel : Comp → Bool) (d : ObsData) (hid : IdsOK s)
    (h : ObsMgr.computeData s isRel = some d) : d.WF := by
  rw [computeData_eq s isRel d h]; exact dataOf_wf s hid

/-- The invariant, over an abstract label ↦ data map.  `ent` = the event type is one of the two
    entity events (for which the manager does not maintain `allComps`/`anyNoComps`). -/
structure AggInvES (data : Nat → ObsData) (es : EvtState) (ent : Bool) : Prop where
  hasObs : es.hasObservers = !es.observers.isEmpty
  wf : ∀ l ∈ es.observers, (data l).WF
  withs : es.anyNoWith = false → ∀ l ∈ es.observers,
    (data l).hasWith = true ∧ (data l).withMask.isZero = false ∧
    es.allWith.contains (data l).withMask = true
  comps : ent = false → es.anyNoComps = false → ∀ l ∈ es.observers,
    (data l).hasComps = true ∧ (data l).compsMask.isZero = false ∧
    es.allComps.contains (data l).compsMask = true

/-- **Aggregate invariant** of event type `evt`: the union masks and "any observer without …"
    flags used by the early-outs cover every registered observer. -/
def AggInv (m : ObsMgr) (evt : Nat) : Prop :=
  AggInvES (fun l => (m.obj l).data) (m.evt evt) (isEntityEvt evt)

theorem AggInvES.congr {data data' : Nat → ObsData} {es : EvtState} {ent : Bool}
    (hd : ∀ l ∈ es.observers, data' l = data l) (h : AggInvES data es ent) :
    AggInvES data' es ent := by
  refine ⟨h.hasObs, ?_, ?_, ?_⟩
  · intro l hl; rw [hd l hl]; exact h.wf l hl
  · intro ha l hl; rw [hd l hl]; exact h.withs ha l hl
  · intro he ha l hl; rw [hd l hl]; exact h.comps he ha l hl

theorem AggInvES.empty (data : Nat → ObsData) (ent : Bool) : AggInvES data {} ent := by
  refine ⟨rfl, ?_, ?_, ?_⟩ <;> simp

/-- the per-event state after `AddObserver` -/
def EvtState.added (es : EvtState) (l : Nat) (d : ObsData) (ent : Bool) : EvtState :=
  let es := { es with observers := es.observers ++ [l], hasObservers := true }
  let es := if d.hasWith then { es with allWith := es.allWith.or d.withMask }
            else { es with anyNoWith := true }
  if ent then es
  else if d.hasComps then { es with allComps := es.allComps.or d.compsMask }
  else { es with anyNoComps := true }

theorem AggInvES.added {data : Nat → ObsData} {es : EvtState} {ent : Bool} (l : Nat) (d : ObsData)
    (hd : d.WF) (h : AggInvES data es ent) :
    AggInvES (fun x => if x = l then d else data x) (es.added l d ent) ent := by
  have hobs : (es.added l d ent).observers = es.observers ++ [l] := by
    unfold EvtState.added; cases d.hasWith <;> cases ent <;> cases d.hasComps <;> rfl
  have hhas : (es.added l d ent).hasObservers = true := by
    unfold EvtState.added; cases d.hasWith <;> cases ent <;> cases d.hasComps <;> rfl
  have hanw : (es.added l d ent).anyNoWith = (es.anyNoWith || !d.hasWith) := by
    unfold EvtState.added; cases d.hasWith <;> cases ent <;> cases d.hasComps <;> simp
  have hallw : d.hasWith = true → (es.added l d ent).allWith = es.allWith.or d.withMask := by
    intro hw
    unfold EvtState.added; rw [hw]; cases ent <;> cases d.hasComps <;> rfl
  have hanc : ent = false → (es.added l d ent).anyNoComps = (es.anyNoComps || !d.hasComps) := by
    intro he
    unfold EvtState.added; rw [he]; cases d.hasWith <;> cases d.hasComps <;> simp
  have hallc : ent = false → d.hasComps = true →
      (es.added l d ent).allComps = es.allComps.or d.compsMask := by
    intro he hc
    unfold EvtState.added; rw [he, hc]; cases d.hasWith <;> rfl
  refine ⟨?_, ?_, ?_, ?_⟩
  · rw [hobs, hhas]; simp
  · intro x hx
    by_cases hxl : x = l
    · simp only [hxl, if_true]; exact hd
    · simp only [hxl, if_false]
      rw [hobs] at hx
      rcases List.mem_append.mp hx with hx | hx
      · exact h.wf x hx
      · exact absurd (List.mem_singleton.mp hx) hxl
  · intro ha x hx
    rw [hanw] at ha
    simp only [Bool.or_eq_false_iff, Bool.not_eq_false'] at ha
    obtain ⟨ha1, ha2⟩ := ha
    rw [hallw ha2]
    by_cases hxl : x = l
    · simp only [hxl, if_true]
      exact ⟨ha2, hd.1 ha2, Mask.contains_or_right _ _⟩
    · simp only [hxl, if_false]
      rw [hobs] at hx
      rcases List.mem_append.mp hx with hx | hx
      · obtain ⟨h1, h2, h3⟩ := h.withs ha1 x hx
        exact ⟨h1, h2, Mask.contains_or_left h3⟩
      · exact absurd (List.mem_singleton.mp hx) hxl
  · intro he ha x hx
    rw [hanc he] at ha
    simp only [Bool.or_eq_false_iff, Bool.not_eq_false'] at ha
    obtain ⟨ha1, ha2⟩ := ha
    rw [hallc he ha2]
    by_cases hxl : x = l
    · simp only [hxl, if_true]
      exact ⟨ha2, hd.2 ha2, Mask.contains_or_right _ _⟩
    · simp only [hxl, if_false]
      rw [hobs] at hx
      rcases List.mem_append.mp hx with hx | hx
      · obtain ⟨h1, h2, h3⟩ := h.comps he ha1 x hx
        exact ⟨h1, h2, Mask.contains_or_left h3⟩
      · exact absurd (List.mem_singleton.mp hx) hxl

namespace ObsMgr

@[simp] theorem evt_setEvt_self (m : ObsMgr) (e : Nat) (s : EvtState) : (m.setEvt e s).evt e = s := by
  simp [evt, setEvt, AL.find?_insert_self]

theorem evt_setEvt_ne (m : ObsMgr) (e e2 : Nat) (s : EvtState) (h : e2 ≠ e) :
    (m.setEvt e s).evt e2 = m.evt e2 := by
  simp [evt, setEvt, AL.find?_insert_ne _ _ _ _ h]

@[simp] theorem obj_setEvt (m : ObsMgr) (e : Nat) (s : EvtState) (x : Nat) :
    (m.setEvt e s).obj x = m.obj x := rfl

@[simp] theorem evt_setObj (m : ObsMgr) (l : Nat) (o : ObsObj) (e : Nat) :
    (m.setObj l o).evt e = m.evt e := rfl

@[simp] theorem obj_setObj_self (m : ObsMgr) (l : Nat) (o : ObsObj) : (m.setObj l o).obj l = o := by
  simp [obj, setObj, AL.find?_insert_self]

theorem obj_setObj_ne (m : ObsMgr) (l x : Nat) (o : ObsObj) (h : x ≠ l) :
    (m.setObj l o).obj x = m.obj x := by
  simp [obj, setObj, AL.find?_insert_ne _ _ _ _ h]

/-- setting an object whose data is the stored one does not change any observer's data -/
theorem data_setObj_same (m : ObsMgr) (l x : Nat) (o : ObsObj) (h : o.data = (m.obj l).data) :
    ((m.setObj l o).obj x).data = (m.obj x).data := by
  by_cases hx : x = l
  · subst hx; rw [obj_setObj_self, h]
  · rw [obj_setObj_ne _ _ _ _ hx]

/-! #### `AddObserver` -/

theorem addComputed_obj (m : ObsMgr) (l : Nat) (o : ObsObj) (oid : Nat) (d : ObsData) (x : Nat) :
    ((m.addComputed l o oid d).obj x).data = if x = l then d else (m.obj x).data := by
  unfold addComputed
  simp only [obj_setEvt]
  by_cases hx : x = l
  · subst hx
    simp only [if_true]
    show ((m.setObj x { o with data := d, oid := some oid }).obj x).data = d
    rw [obj_setObj_self]
  · simp only [hx, if_false]
    show ((m.setObj l { o with data := d, oid := some oid }).obj x).data = (m.obj x).data
    rw [obj_setObj_ne _ _ _ _ hx]

theorem addComputed_evt_self (m : ObsMgr) (l : Nat) (o : ObsObj) (oid : Nat) (d : ObsData) :
    (m.addComputed l o oid d).evt o.spec.event
      = (m.evt o.spec.event).added l d (isEntityEvt o.spec.event) := by
  unfold addComputed
  simp only [evt_setEvt_self]
  rfl

theorem addComputed_evt_ne (m : ObsMgr) (l : Nat) (o : ObsObj) (oid : Nat) (d : ObsData) (e : Nat)
    (h : e ≠ o.spec.event) : (m.addComputed l o oid d).evt e = m.evt e := by
  unfold addComputed
  simp only []
  rw [evt_setEvt_ne _ _ _ _ h]
  rfl

end ObsMgr

/-- `AddObserver` preserves the invariant of every event type.  For event types other than the
    observer's own, the object must not already be listed there (`Register` panics on an already
    registered observer). -/
theorem AggInv.addComputed {m : ObsMgr} {evt : Nat} (l : Nat) (o : ObsObj) (oid : Nat)
    (d : ObsData) (hd : d.WF) (hfresh : evt ≠ o.spec.event → l ∉ (m.evt evt).observers)
    (h : AggInv m evt) : AggInv (m.addComputed l o oid d) evt := by
  unfold AggInv
  have hdata : (fun x => ((m.addComputed l o oid d).obj x).data)
      = fun x => if x = l then d else (m.obj x).data := by
    funext x; exact ObsMgr.addComputed_obj m l o oid d x
  rw [hdata]
  by_cases he : evt = o.spec.event
  · subst he
    rw [ObsMgr.addComputed_evt_self]
    exact AggInvES.added l d hd h
  · rw [ObsMgr.addComputed_evt_ne _ _ _ _ _ _ he]
    refine AggInvES.congr ?_ h
    intro x hx
    have : x ≠ l := fun hxl => hfresh he (hxl ▸ hx)
    simp [this]

/-! ### early-outs are sound under the invariant -/

namespace Mask

/-- a non-empty `x ⊆ a` with `a ∩ m = ∅` is not contained in `m` -/
theorem not_contains_of_disjoint {a x m : Mask} (hx : x.isZero = false)
    (hax : a.contains x = true) (ham : a.containsAny m = false) : m.contains x = false := by
  rw [← Bool.not_eq_true, contains_iff]
  intro H
  obtain ⟨c, hc⟩ := not_isZero_exists hx
  have h1 := (contains_iff _ _).mp hax c hc
  have h2 := (containsAny_false_iff _ _).mp ham c h1
  rw [H c hc] at h2; cases h2

/-- a non-empty `x ⊆ a ⊆ m` meets `m` -/
theorem containsAny_of_subset {a x m : Mask} (hx : x.isZero = false)
    (hax : a.contains x = true) (hma : m.contains a = true) : m.containsAny x = true := by
  rw [containsAny_iff]
  obtain ⟨c, hc⟩ := not_isZero_exists hx
  exact ⟨c, (contains_iff _ _).mp hma c ((contains_iff _ _).mp hax c hc), hc⟩

end Mask

section EarlySound
variable {data : Nat → ObsData} {es : EvtState} {ent : Bool}

/-- first disjunct family: "no observer without With, and the union of With misses the mask" -/
theorem AggInvES.with_blocks (h : AggInvES data es ent) (m : Mask)
    (he : (!es.anyNoWith && !es.allWith.containsAny m) = true) :
    ∀ l ∈ es.observers, ((data l).hasWith && !m.contains (data l).withMask) = true := by
  simp only [Bool.and_eq_true, Bool.not_eq_true'] at he
  intro l hl
  obtain ⟨h1, h2, h3⟩ := h.withs he.1 l hl
  simp [h1, Mask.not_contains_of_disjoint h2 h3 he.2]

theorem AggInvES.comps_blocks (h : AggInvES data es false) (m : Mask)
    (he : (!es.anyNoComps && !es.allComps.containsAny m) = true) :
    ∀ l ∈ es.observers, ((data l).hasComps && !m.contains (data l).compsMask) = true := by
  simp only [Bool.and_eq_true, Bool.not_eq_true'] at he
  intro l hl
  obtain ⟨h1, h2, h3⟩ := h.comps rfl he.1 l hl
  simp [h1, Mask.not_contains_of_disjoint h2 h3 he.2]

theorem AggInvES.early_entity (h : AggInvES data es ent) (m : Mask)
    (he : Early.entity es m = true) : ∀ l ∈ es.observers, Pred.entity (data l) m = false := by
  intro l hl
  have := h.with_blocks m he l hl
  simp [Pred.entity, this]

theorem AggInvES.early_entityRel (h : AggInvES data es false) (m : Mask)
    (he : Early.entityRel es m = true) : ∀ l ∈ es.observers, Pred.entityRel (data l) m = false := by
  intro l hl
  unfold Early.entityRel at he
  rcases Bool.or_eq_true_iff.mp he with he | he
  · have := h.comps_blocks m he l hl
    simp [Pred.entityRel, this]
  · have := h.with_blocks m he l hl
    simp [Pred.entityRel, this]

theorem AggInvES.early_set (h : AggInvES data es false) (mask emask : Mask)
    (he : Early.set es mask emask = true) :
    ∀ l ∈ es.observers, Pred.set (data l) mask emask = false := by
  intro l hl
  unfold Early.set at he
  rcases Bool.or_eq_true_iff.mp he with he | he
  · have := h.comps_blocks mask he l hl
    simp [Pred.set, this]
  · have := h.with_blocks emask he l hl
    simp [Pred.set, this]

theorem AggInvES.early_add (h : AggInvES data es false) (old new : Mask)
    (he : Early.add es old new = true) :
    ∀ l ∈ es.observers, Pred.add (data l) old new = false := by
  intro l hl
  unfold Early.add at he
  rcases Bool.or_eq_true_iff.mp he with he | he
  · simp only [Bool.and_eq_true, Bool.not_eq_true', Bool.or_eq_true] at he
    obtain ⟨h1, h2, h3⟩ := h.comps rfl he.1 l hl
    rcases he.2 with he2 | he2
    · simp [Pred.add, h1, Mask.not_contains_of_disjoint h2 h3 he2]
    · simp [Pred.add, h1, Mask.containsAny_of_subset h2 h3 he2]
  · have := h.with_blocks old he l hl
    simp [Pred.add, this]

theorem AggInvES.early_remove (h : AggInvES data es false) (old new : Mask)
    (he : Early.remove es old new = true) :
    ∀ l ∈ es.observers, Pred.remove (data l) old new = false := by
  intro l hl
  unfold Early.remove at he
  rcases Bool.or_eq_true_iff.mp he with he | he
  · simp only [Bool.and_eq_true, Bool.not_eq_true', Bool.or_eq_true] at he
    obtain ⟨h1, h2, h3⟩ := h.comps rfl he.1 l hl
    rcases he.2 with he2 | he2
    · simp [Pred.remove, h1, Mask.not_contains_of_disjoint h2 h3 he2]
    · simp [Pred.remove, h1, Mask.containsAny_of_subset h2 h3 he2]
  · have := h.with_blocks old he l hl
    simp [Pred.remove, this]

end EarlySound

/-! ### `RemoveObserver`: the recomputation loops and the swap-remove -/

namespace ObsMgr

theorem recomputeWith_go_spec (m : ObsMgr) (obs : List Nat) (acc : Mask) :
    (recomputeWith.go m acc obs).2 = false →
      (recomputeWith.go m acc obs).1.contains acc = true ∧
      ∀ l ∈ obs, (m.obj l).data.hasWith = true ∧
        (recomputeWith.go m acc obs).1.contains (m.obj l).data.withMask = true := by
  induction obs generalizing acc with
  | nil => intro _; exact ⟨Mask.contains_refl _, by simp⟩
  | cons x xs ih =>
    intro h
    unfold recomputeWith.go at h ⊢
    cases hw : (m.obj x).data.hasWith
    · simp [hw] at h
    · simp only [hw, Bool.not_true, Bool.false_eq_true, if_false] at h ⊢
      obtain ⟨h1, h2⟩ := ih _ h
      refine ⟨Mask.contains_trans h1 (Mask.contains_or_left (Mask.contains_refl _)), ?_⟩
      intro l hl
      rcases List.mem_cons.mp hl with hl | hl
      · subst hl
        exact ⟨hw, Mask.contains_trans h1 (Mask.contains_or_right _ _)⟩
      · exact h2 l hl

theorem recomputeComps_go_spec (m : ObsMgr) (obs : List Nat) (acc : Mask) :
    (recomputeComps.go m acc obs).2 = false →
      (recomputeComps.go m acc obs).1.contains acc = true ∧
      ∀ l ∈ obs, (m.obj l).data.hasComps = true ∧
        (recomputeComps.go m acc obs).1.contains (m.obj l).data.compsMask = true := by
  induction obs generalizing acc with
  | nil => intro _; exact ⟨Mask.contains_refl _, by simp⟩
  | cons x xs ih =>
    intro h
    unfold recomputeComps.go at h ⊢
    cases hw : (m.obj x).data.hasComps
    · simp [hw] at h
    · simp only [hw, Bool.not_true, Bool.false_eq_true, if_false] at h ⊢
      obtain ⟨h1, h2⟩ := ih _ h
      refine ⟨Mask.contains_trans h1 (Mask.contains_or_left (Mask.contains_refl _)), ?_⟩
      intro l hl
      rcases List.mem_cons.mp hl with hl | hl
      · subst hl
        exact ⟨hw, Mask.contains_trans h1 (Mask.contains_or_right _ _)⟩
      · exact h2 l hl

/-- the loops only read the observers' data -/
theorem recomputeWith_go_congr (m m' : ObsMgr) (h : ∀ x, (m'.obj x).data = (m.obj x).data)
    (obs : List Nat) (acc : Mask) : recomputeWith.go m' acc obs = recomputeWith.go m acc obs := by
  induction obs generalizing acc with
  | nil => rfl
  | cons x xs ih => unfold recomputeWith.go; simp only [h x, ih]

theorem recomputeComps_go_congr (m m' : ObsMgr) (h : ∀ x, (m'.obj x).data = (m.obj x).data)
    (obs : List Nat) (acc : Mask) : recomputeComps.go m' acc obs = recomputeComps.go m acc obs := by
  induction obs generalizing acc with
  | nil => rfl
  | cons x xs ih => unfold recomputeComps.go; simp only [h x, ih]

/-- the observer slice after the swap-remove of `RemoveObserver` -/
def removedObs (obs : List Nat) (idx : Nat) : List Nat :=
  let last := obs.length - 1
  (if idx != last then (obs.set idx (obs.getD last 0)).set last (obs.getD idx 0) else obs).take last

theorem removedObs_subset (obs : List Nat) (idx : Nat) : ∀ x ∈ removedObs obs idx, x ∈ obs := by
  intro x hx
  unfold removedObs at hx
  simp only [] at hx
  split at hx
  · rw [List.take_set_of_le (Nat.le_refl _)] at hx
    have hx2 := List.mem_of_mem_take hx
    cases obs with
    | nil => simp at hx2
    | cons a as =>
      rcases List.mem_or_eq_of_mem_set hx2 with h | h
      · exact h
      · rw [h, List.getD_eq_getElem?_getD, List.getElem?_eq_getElem (by simp)]
        simp
  · exact List.mem_of_mem_take hx

theorem removedObs_isEmpty (obs : List Nat) (idx : Nat) :
    decide (obs.length - 1 > 0) = !(removedObs obs idx).isEmpty := by
  have hlen : (removedObs obs idx).length = obs.length - 1 := by
    unfold removedObs
    simp only []
    split <;> simp <;> omega
  cases h : removedObs obs idx with
  | nil => rw [h] at hlen; simp at hlen; simp; omega
  | cons a as => rw [h] at hlen; simp at hlen; simp; omega

theorem removeAt_data (m : ObsMgr) (l oid idx x : Nat) :
    ((m.removeAt l oid idx).obj x).data = (m.obj x).data := by
  unfold removeAt
  simp only []
  split <;> split <;> simp only [obj_setEvt] <;>
    exact data_setObj_same { m with indices := AL.erase m.indices oid } l x _ rfl

/-- the per-event state after `RemoveObserver` -/
def removedES (m : ObsMgr) (es : EvtState) (idx : Nat) (ent : Bool) : EvtState :=
  let obs := removedObs es.observers idx
  let es1 := { es with observers := obs, hasObservers := decide (es.observers.length - 1 > 0),
                       allWith := (m.recomputeWith obs).1, anyNoWith := (m.recomputeWith obs).2 }
  if ent then es1
  else { es1 with allComps := (m.recomputeComps obs).1, anyNoComps := (m.recomputeComps obs).2 }

theorem recomputeWith_congr (m m' : ObsMgr) (h : ∀ x, (m'.obj x).data = (m.obj x).data)
    (obs : List Nat) : m'.recomputeWith obs = m.recomputeWith obs :=
  recomputeWith_go_congr m m' h obs _

theorem recomputeComps_congr (m m' : ObsMgr) (h : ∀ x, (m'.obj x).data = (m.obj x).data)
    (obs : List Nat) : m'.recomputeComps obs = m.recomputeComps obs :=
  recomputeComps_go_congr m m' h obs _

theorem removeAt_evt_self (m : ObsMgr) (l oid idx : Nat) :
    (m.removeAt l oid idx).evt (m.obj l).spec.event
      = removedES m (m.evt (m.obj l).spec.event) idx (isEntityEvt (m.obj l).spec.event) := by
  have hd : ∀ (M1 : ObsMgr), M1.objs = AL.insert m.objs l { m.obj l with oid := none } →
      ∀ x, (M1.obj x).data = (m.obj x).data := by
    intro M1 h x
    have : M1.obj x = (m.setObj l { m.obj l with oid := none }).obj x := by
      simp only [obj, setObj, h]
    rw [this]
    exact data_setObj_same m l x _ rfl
  unfold removeAt
  simp only []
  split
  · rename_i hc
    simp only [evt_setEvt_self]
    rw [recomputeWith_congr m _ (hd _ rfl), recomputeComps_congr m _ (hd _ rfl)]
    have hc' : (idx != (m.evt (m.obj l).spec.event).observers.length - 1) = true := hc
    unfold removedES removedObs isEntityEvt
    simp only [hc', if_true]
    rfl
  · rename_i hc
    simp only [evt_setEvt_self]
    rw [recomputeWith_congr m _ (hd _ rfl), recomputeComps_congr m _ (hd _ rfl)]
    have hc' : ¬ (idx != (m.evt (m.obj l).spec.event).observers.length - 1) = true := hc
    unfold removedES removedObs isEntityEvt
    simp only [hc']
    rfl

theorem removeAt_evt_ne (m : ObsMgr) (l oid idx e : Nat) (h : e ≠ (m.obj l).spec.event) :
    (m.removeAt l oid idx).evt e = m.evt e := by
  unfold removeAt
  simp only []
  split <;> split <;> rw [evt_setEvt_ne _ _ _ _ h] <;> rfl

end ObsMgr

theorem AggInvES.removed {m : ObsMgr} {es : EvtState} {ent : Bool} (idx : Nat)
    (h : AggInvES (fun l => (m.obj l).data) es ent) :
    AggInvES (fun l => (m.obj l).data) (ObsMgr.removedES m es idx ent) ent := by
  have hobs : (ObsMgr.removedES m es idx ent).observers = ObsMgr.removedObs es.observers idx := by
    unfold ObsMgr.removedES; cases ent <;> rfl
  have hhas : (ObsMgr.removedES m es idx ent).hasObservers
      = decide (es.observers.length - 1 > 0) := by
    unfold ObsMgr.removedES; cases ent <;> rfl
  have haw : (ObsMgr.removedES m es idx ent).allWith
      = (ObsMgr.recomputeWith.go m Mask.empty (ObsMgr.removedObs es.observers idx)).1 := by
    unfold ObsMgr.removedES; cases ent <;> rfl
  have hnw : (ObsMgr.removedES m es idx ent).anyNoWith
      = (ObsMgr.recomputeWith.go m Mask.empty (ObsMgr.removedObs es.observers idx)).2 := by
    unfold ObsMgr.removedES; cases ent <;> rfl
  have hsub := ObsMgr.removedObs_subset es.observers idx
  refine ⟨?_, ?_, ?_, ?_⟩
  · rw [hobs, hhas]; exact ObsMgr.removedObs_isEmpty _ _
  · intro x hx; rw [hobs] at hx; exact h.wf x (hsub x hx)
  · intro ha x hx
    rw [hobs] at hx
    rw [hnw] at ha
    rw [haw]
    obtain ⟨h1, h2⟩ := (ObsMgr.recomputeWith_go_spec m _ _ ha).2 x hx
    exact ⟨h1, (h.wf x (hsub x hx)).1 h1, h2⟩
  · intro he ha x hx
    subst he
    rw [hobs] at hx
    have hac : (ObsMgr.removedES m es idx false).allComps
        = (ObsMgr.recomputeComps.go m Mask.empty (ObsMgr.removedObs es.observers idx)).1 := rfl
    have hnc : (ObsMgr.removedES m es idx false).anyNoComps
        = (ObsMgr.recomputeComps.go m Mask.empty (ObsMgr.removedObs es.observers idx)).2 := rfl
    rw [hnc] at ha
    rw [hac]
    obtain ⟨h1, h2⟩ := (ObsMgr.recomputeComps_go_spec m _ _ ha).2 x hx
    exact ⟨h1, (h.wf x (hsub x hx)).2 h1, h2⟩

/-- `RemoveObserver` (swap-remove + the two recomputation loops with their early `break`)
    preserves the invariant of every event type, with no side condition. -/
theorem AggInv.removeAt {m : ObsMgr} {evt : Nat} (l oid idx : Nat) (h : AggInv m evt) :
    AggInv (m.removeAt l oid idx) evt := by
  unfold AggInv
  have hdata : (fun x => ((m.removeAt l oid idx).obj x).data) = fun x => (m.obj x).data := by
    funext x; exact ObsMgr.removeAt_data m l oid idx x
  rw [hdata]
  by_cases he : evt = (m.obj l).spec.event
  · subst he
    rw [ObsMgr.removeAt_evt_self]
    exact AggInvES.removed idx h
  · rw [ObsMgr.removeAt_evt_ne _ _ _ _ _ he]
    exact h

/-! ### the empty manager and `Reset` -/

theorem AggInv.init (evt : Nat) : AggInv {} evt := AggInvES.empty _ _

namespace ObsMgr

/-- `m'` differs from `m` only in ways the invariant cannot see, or by emptied event states -/
def ResetRel (m m' : ObsMgr) : Prop :=
  (∀ x, (m'.obj x).data = (m.obj x).data) ∧ ∀ e, m'.evt e = m.evt e ∨ m'.evt e = {}

theorem ResetRel.refl (m : ObsMgr) : ResetRel m m := ⟨fun _ => rfl, fun _ => Or.inl rfl⟩

theorem ResetRel.trans {a b c : ObsMgr} (h1 : ResetRel a b) (h2 : ResetRel b c) : ResetRel a c := by
  refine ⟨fun x => (h2.1 x).trans (h1.1 x), fun e => ?_⟩
  rcases h2.2 e with h | h
  · rw [h]; exact h1.2 e
  · exact Or.inr h

/-- the inner loop of `Reset` (clear the ids of one event type's observers) -/
theorem reset_inner (obs : List Nat) (m : ObsMgr) :
    ResetRel m (obs.foldl (fun m l =>
      let o := m.obj l
      let m := { m with indices := AL.erase m.indices (o.oid.getD 0) }
      m.setObj l { o with oid := none }) m) := by
  induction obs generalizing m with
  | nil => exact ResetRel.refl m
  | cons x xs ih =>
    rw [List.foldl_cons]
    refine ResetRel.trans ?_ (ih _)
    refine ⟨fun y => ?_, fun e => Or.inl rfl⟩
    exact data_setObj_same { m with indices := AL.erase m.indices ((m.obj x).oid.getD 0) } x y _ rfl

theorem reset_rel (m : ObsMgr) : ResetRel m m.reset := by
  unfold reset
  split
  · exact ⟨fun _ => rfl, fun _ => Or.inl rfl⟩
  · simp only []
    suffices H : ∀ (is : List Nat) (m0 : ObsMgr), ResetRel m0 (is.foldl (fun m i =>
        if (!(m.evt i).hasObservers) = true then m
        else (List.foldl (fun m l =>
          { m with indices := AL.erase m.indices ((m.obj l).oid.getD 0) }.setObj l
            { spec := (m.obj l).spec, data := (m.obj l).data }) m (m.evt i).observers).setEvt i {}) m0) by
      obtain ⟨h1, h2⟩ := H (List.range (resetBound m.maxEventType)) m
      exact ⟨h1, h2⟩
    intro is
    induction is with
    | nil => intro m0; exact ResetRel.refl m0
    | cons i is ih =>
      intro m0
      rw [List.foldl_cons]
      refine ResetRel.trans ?_ (ih _)
      split
      · exact ResetRel.refl m0
      · have hin := reset_inner (m0.evt i).observers m0
        refine ⟨fun x => hin.1 x, fun e => ?_⟩
        by_cases he : e = i
        · subst he; right; exact evt_setEvt_self _ _ _
        · rw [evt_setEvt_ne _ _ _ _ he]; exact hin.2 e

end ObsMgr

theorem AggInv.of_resetRel {m m' : ObsMgr} {evt : Nat} (hr : ObsMgr.ResetRel m m')
    (h : AggInv m evt) : AggInv m' evt := by
  unfold AggInv
  have hdata : (fun x => (m'.obj x).data) = fun x => (m.obj x).data := by
    funext x; exact hr.1 x
  rw [hdata]
  rcases hr.2 evt with he | he
  · rw [he]; exact h
  · rw [he]; exact AggInvES.empty _ _

/-- `Reset` preserves the invariant. -/
theorem AggInv.reset {m : ObsMgr} {evt : Nat} (h : AggInv m evt) : AggInv m.reset evt :=
  AggInv.of_resetRel (ObsMgr.reset_rel m) h

/-! ### the observers a `Fire*` function notifies -/

/-- The observers a `Fire*` function notifies: none if the early-out is enabled and taken,
    otherwise the registered ones (in slice order) whose own test passes.  This is the shape of
    every `fire*` of Ark/Model/World.lean (`useEarly` is their `earlyOut` argument). -/
def ObsMgr.notified (m : ObsMgr) (evt : Nat) (useEarly early : Bool) (pred : ObsData → Bool) :
    List Nat :=
  if useEarly && early then [] else (m.evt evt).observers.filter fun l => pred (m.obj l).data

theorem ObsMgr.notified_eq (m : ObsMgr) (evt : Nat) (useEarly early : Bool) (pred : ObsData → Bool)
    (h : early = true → ∀ l ∈ (m.evt evt).observers, pred (m.obj l).data = false) :
    m.notified evt useEarly early pred
      = (m.evt evt).observers.filter fun l => pred (m.obj l).data := by
  unfold notified
  split
  · rename_i hc
    simp only [Bool.and_eq_true] at hc
    symm
    rw [List.filter_eq_nil_iff]
    intro l hl
    simp [h hc.2 l hl]
  · rfl

/-- Every observer listed under `evt` was registered for `evt` through `AddObserver` (its data is
    what the mask computation yields for its specification) with component IDs below 256. -/
def Registered (m : ObsMgr) (evt : Nat) (isRel : Comp → Bool) : Prop :=
  ∀ l ∈ (m.evt evt).observers,
    (m.obj l).spec.event = evt ∧ IdsOK (m.obj l).spec ∧
    ObsMgr.computeData (m.obj l).spec isRel = some (m.obj l).data

end Ark
