/-
  Ark.Proofs.RelExchangeOp — C01 + C04 at world level: `Exchange(e, add, rem, rels)` in a world WITH
  relation components, part 3: `Exchange` through the access paths `Unsafe.Exchange` /
  `ExchangeN.Exchange` (`opExchange`), with the values written, and the rejections.

  * `XchgRelPost` / `opExchange_rel_spec` — a call satisfying `XchgPre` on a live entity never fails,
    on any path, and: `TInv` is kept; `e` has the components `(current \ rem) ∪ add`; a kept component
    reads its old value overwritten by the last write to it, an added one the last value written
    (zero if none); added relation components have the targets given, kept ones keep their targets,
    removed components are gone with their targets, `e` has no other target; nobody else changes
    components, values or targets;
  * rejections with the world unchanged, on every path: `opExchange_rel_dead` (dead entity),
    `opExchange_rel_empty` (both lists empty), `opExchange_rel_misfit` (a removed component absent or
    named twice, an added component present or named twice, a component both added and removed);
    `opExchange_rel_badRel` (a dead target, a relation on a non-relation component, through
    `ExchangeN` and `Unsafe.Exchange` a relation on a component that is not added);
  * `opExchange_rel_accepted` — the converse for the component lists: an accepted call was on a live
    entity with fitting lists;
  * `preCheck_ok_valid` — what a passed pre-validation says;
  * `Good.exchange` — iterating.

  Since the repair of the `Unsafe` API (`ToCheckedRelationIDsForUnsafe`) a dead target, a
  non-relation component and a relation on a component that is not added are refused by the
  pre-validation on EVERY path, without effect.  What is still noticed only by `GetTable` /
  `createTable` AFTER the archetype was created — refused, but not without effect — is a relation
  component of the new archetype for which no relation is given and a relation component named
  twice (as for `Add` and `NewEntity`, see `Ark/Proofs/RelRefine.lean`, `guard`).
  Kernel-only proofs, core Lean only.
-/
import Ark.Proofs.RelExchangeSpec

set_option autoImplicit false

namespace Ark

open World Ark.Props.C01World

/-- a live entity has a component list -/
theorem TInv.compsOf_live {w : World} {fl : List Nat} (h : TInv w fl) {e : Ent} (h2 : 2 ≤ e.id)
    (hnf : e.id ∉ fl) (ha : w.alive e = true) (hsl : e.id < w.pool.ents.length) :
    ∃ (cs : List Comp), compsOf w e.id = some cs := by
  obtain ⟨t, row, he, htm, _⟩ := h.link.live_entry h2 hnf ha hsl
  obtain ⟨hT, _, _⟩ := h.link.idx.indexed he htm
  exact ⟨(w.tbl t).ids, by simp only [compsOf, he, htm, if_false, hT, Option.map_some]⟩

/-- What an accepted `Exchange(e, add, rem, rels)` writing `vals` guarantees (`w` before, `w'`
    after). -/
structure XchgRelPost (w : World) (fl : List Nat) (e : Ent) (add rem : List Comp)
    (vals : List (Comp × Val)) (rels : List RelID) (w' : World) : Prop where
  tinv : TInv w' fl
  pool : w'.pool = w.pool
  obs : w'.obs = w.obs
  locks : w'.locks = w.locks
  kinds : w'.kinds = w.kinds
  maxComps : w'.maxComps = w.maxComps
  relArchs : w'.relationArchetypes.length ≤ w.relationArchetypes.length + 1
  aliveSame : ∀ (x : Ent), w'.alive x = w.alive x
  /-- `(current \ rem) ∪ add`, ascending -/
  comps : ∀ (cs : List Comp), compsOf w e.id = some cs →
    compsOf w' e.id =
      some (Refine.sortedIds w.kinds.length ((cs.filter fun c => decide (c ∉ rem)) ++ add))
  /-- a component that stays: its old value, overwritten by the last write to it (if any) -/
  kept : ∀ (c : Comp) (v : Val), valOf w e.id c = some v → c ∉ rem →
    valOf w' e.id c = some (if (w.kinds.getD c {}).zst = true then v else applyVals v vals c)
  /-- an added component: the last value written to it, zero if none (always zero if zero-size) -/
  added : ∀ (c : Comp), c ∈ add →
    valOf w' e.id c = some (if (w.kinds.getD c {}).zst = true then 0 else applyVals 0 vals c)
  /-- a removed component is gone, with its target (a write to it has no effect) -/
  gone : ∀ (c : Comp), c ∈ rem → valOf w' e.id c = none ∧ targetOf w' e.id c = none
  /-- the added relation components have the targets given -/
  targets : ∀ (r : RelID), r ∈ rels → targetOf w' e.id r.comp = some r.target
  /-- the relation components that stay keep their targets -/
  oldTargets : ∀ (c : Comp) (x : Ent), targetOf w e.id c = some x → c ∉ rem →
    targetOf w' e.id c = some x
  /-- the entity has no other target -/
  targetsOnly : ∀ (c : Comp) (x : Ent), targetOf w' e.id c = some x →
    (c ∉ rem ∧ targetOf w e.id c = some x) ∨ (⟨c, x⟩ : RelID) ∈ rels
  /-- every other entity keeps components, values and targets -/
  frame : ∀ (j : Nat), j ≠ e.id → SameEnt w w' j ∧ ∀ (c : Comp), targetOf w' j c = targetOf w j c
  tablesLen : w'.tables.length ≤ w.tables.length + 1
  entitiesLen : w'.entities.length = w.entities.length

/-- **C01 + C04, `Exchange` with relations**: `Exchange(e, add, rem, rels)` writing `vals`, through
    any access path, for a live entity `e` and arguments satisfying the documented preconditions
    `XchgPre`, in a `TInv` world, unlocked, no observers: the call never fails and guarantees
    `XchgRelPost`. -/
theorem opExchange_rel_spec (run : ProbeRunner) (p : Path) {w : World} {fl : List Nat}
    (h : TInv w fl) (hl : w.isLocked = false) (hno : ∀ (evt : Nat), w.obs.hasObservers evt = false)
    {e : Ent} (h2 : 2 ≤ e.id) (hnf : e.id ∉ fl) (ha : w.alive e = true)
    (hsl : e.id < w.pool.ents.length) {add rem : List Comp}
    {rels : List RelID} (hp : XchgPre w e add rem rels) (vals : List (Comp × Val))
    (htin : ∀ (r : RelID), r ∈ rels → r.target.id < w.pool.ents.length)
    (hfew : w.tables.length < maxU32) (hrows : w.entities.length + 1 < 2 ^ 32) :
    ∃ (w' : World), opExchange run p e add vals rem rels w = .ok () w' ∧
      XchgRelPost w fl e add rem vals rels w' := by
  obtain ⟨w2, hcore, cp⟩ := exchangeCore_rel_spec run h hl hno h2 hnf ha hsl hp htin hfew hrows
  have hk256 : w.kinds.length ≤ 256 := Nat.le_trans h.kindsLe.1 h.kindsLe.2
  have hpre : preCheck p add rels w = .ok () w := by
    apply preCheck_ok_of_valid
    intro r hr
    refine ⟨hp.targets r hr, hp.relsRel r hr, ?_⟩
    rw [Mask.get_ofList]
    have : r.comp < 256 := Nat.lt_of_lt_of_le (hp.addReg r.comp (hp.relsIn r hr)) hk256
    simp [this, hp.relsIn r hr]
  have hno2 : ∀ (evt : Nat), w2.obs.hasObservers evt = false := by
    intro evt; rw [cp.obs]; exact hno evt
  have hal2 : ∀ (x : Ent), w2.alive x = w.alive x := fun x => by simp only [World.alive, cp.pool]
  have ha2 : w2.alive e = true := by rw [hal2]; exact ha
  have wp := cp.tinv.writeValsRel h2 hnf ha2 (by rw [cp.pool]; exact hsl) vals
  obtain ⟨cs, hcs⟩ := h.compsOf_live h2 hnf ha hsl
  refine ⟨_, opExchange_rel_eq run p e add vals rem rels w ha hpre hcore hno2, ?_⟩
  exact
    { tinv := wp.tinv
      pool := wp.pool.trans cp.pool
      obs := wp.obs.trans cp.obs
      locks := wp.locks.trans cp.locks
      kinds := wp.kinds.trans cp.kinds
      maxComps := wp.maxComps.trans cp.maxComps
      relArchs := by rw [wp.relArchs]; exact cp.relArchs
      aliveSame := fun x => by
        show (writeValsW w2 e vals).pool.alive x = w.pool.alive x
        rw [wp.pool, cp.pool]
      comps := fun cs hcs => by rw [wp.comps]; exact cp.comps cs hcs
      kept := by
        intro c v hv hnr
        rw [wp.vals c v (cp.kept c v hv hnr), cp.kinds]
      added := by
        intro c hc
        rw [wp.vals c 0 (cp.added c hc), cp.kinds]
      gone := by
        intro c hc
        refine ⟨?_, by rw [wp.targets]; exact (cp.gone c hc).2⟩
        apply valOf_none_of_comps (by rw [wp.comps]; exact cp.comps cs hcs)
        intro hm
        rcases List.mem_append.1 (Refine.mem_sortedIds.1 hm).2 with k | k
        · have := (List.mem_filter.1 k).2
          simp only [decide_eq_true_eq] at this
          exact this hc
        · have := hp.addNew c k
          rw [hp.remHas c hc] at this; cases this
      targets := fun r hr => by rw [wp.targets]; exact cp.targets r hr
      oldTargets := fun c x hx hnr => by rw [wp.targets]; exact cp.oldTargets c x hx hnr
      targetsOnly := fun c x hx => by rw [wp.targets] at hx; exact cp.targetsOnly c x hx
      frame := by
        intro j hj
        obtain ⟨s1, g1⟩ := cp.frame j hj
        exact ⟨s1.trans (wp.frame j hj), fun c => by rw [wp.targets]; exact g1 c⟩
      tablesLen := by rw [wp.tablesLen]; exact cp.tablesLen
      entitiesLen := wp.entitiesLen.trans cp.entitiesLen }

/-! ## rejected calls (the world comes back unchanged) -/

namespace World

/-- **rejection**: `Exchange` on a dead handle, through any path, whatever the other arguments
    (`Unsafe.Exchange` checks `Alive` first; `ExchangeN.Exchange` validates the relations, then
    `World.exchange` checks it) -/
theorem opExchange_rel_dead (run : ProbeRunner) (p : Path) (e : Ent) (add : List Comp)
    (vals : List (Comp × Val)) (rem : List Comp) (rels : List RelID) (w : World)
    (hl : w.isLocked = false) (hd : w.alive e = false) :
    ∃ (k : PanicKind), opExchange run p e add vals rem rels w = .panic k w := by
  have hcore := exchangeCore_dead run w hl e hd add rem rels
  rcases preCheck_cases p add rels w with h1 | ⟨k, h1⟩
  · exact ⟨.deadEntity, by
      cases p <;> simp [opExchange, bind, M.bind, M.get, M.assert, hd, h1, hcore]⟩
  · cases p with
    | unsafe_ => exact ⟨.deadEntity, by simp [opExchange, bind, M.bind, M.get, M.assert, hd]⟩
    | map1 => exact ⟨k, by simp [opExchange, bind, M.bind, h1]⟩
    | typed => exact ⟨k, by simp [opExchange, bind, M.bind, h1]⟩

/-- a panic of `World.exchange` that leaves the world unchanged is a panic of `Exchange` that
    leaves the world unchanged (any path, any relations) -/
theorem opExchange_rel_panic_same (run : ProbeRunner) (p : Path) (e : Ent) (add : List Comp)
    (vals : List (Comp × Val)) (rem : List Comp) (rels : List RelID) (w : World) {k : PanicKind}
    (hcore : exchangeCore run e add rem rels w = .panic k w) :
    ∃ (k' : PanicKind), opExchange run p e add vals rem rels w = .panic k' w := by
  cases ha : w.alive e with
  | false =>
    rcases preCheck_cases p add rels w with h1 | ⟨k1, h1⟩
    · cases p <;> simp [opExchange, bind, M.bind, M.get, M.assert, ha, h1, hcore]
    · cases p <;> simp [opExchange, bind, M.bind, M.get, M.assert, ha, h1]
  | true =>
    rcases preCheck_cases p add rels w with h1 | ⟨k1, h1⟩
    · exact ⟨k, opExchange_rel_panic run p e add vals rem rels w ha h1 hcore⟩
    · exact ⟨k1, opExchange_rel_prePanic run p e add vals rem rels w ha h1⟩

/-- **rejection**: `Exchange` with both component lists empty -/
theorem opExchange_rel_empty (run : ProbeRunner) (p : Path) (e : Ent) (vals : List (Comp × Val))
    (rels : List RelID) (w : World) (hl : w.isLocked = false) :
    ∃ (k : PanicKind), opExchange run p e [] vals [] rels w = .panic k w := by
  cases ha : w.alive e with
  | false => exact opExchange_rel_dead run p e [] vals [] rels w hl ha
  | true =>
    exact opExchange_rel_panic_same run p e [] vals [] rels w
      (exchangeCore_noComponents run w hl e ha rels)

/-- **rejection**: the component lists do not fit the entity — a removed component that is absent
    or named twice (`missing`), an added component that is present or named twice (`alreadyHas`),
    a component both removed and added (`addedAndRemoved`) — on every path, whatever the
    relations -/
theorem opExchange_rel_misfit (run : ProbeRunner) (p : Path) (e : Ent) (add : List Comp)
    (vals : List (Comp × Val)) (rem : List Comp) (rels : List RelID) (w : World)
    (hl : w.isLocked = false) (hb : ∀ (c : Comp), c ∈ add → c < 256)
    (h : ¬ (rem.Nodup ∧ (∀ (c : Comp), c ∈ rem → (w.maskOf e).get c = true) ∧ add.Nodup ∧
      ∀ (c : Comp), c ∈ add → (w.maskOf e).get c = false)) :
    ∃ (k : PanicKind), opExchange run p e add vals rem rels w = .panic k w := by
  cases ha : w.alive e with
  | false => exact opExchange_rel_dead run p e add vals rem rels w hl ha
  | true =>
    by_cases hne : add = [] ∧ rem = []
    · obtain ⟨rfl, rfl⟩ := hne
      exact opExchange_rel_empty run p e vals rels w hl
    · obtain ⟨k, _, hk⟩ := exchangeCore_reject run e add rem rels w hl ha hne hb h
      exact opExchange_rel_panic_same run p e add vals rem rels w hk

/-- what a passed pre-validation says about the relations (every path; membership in the added
    components on `.typed` and — since the repair of the `Unsafe` API — `.unsafe_`) -/
theorem preCheck_ok_valid (p : Path) (ids : List Comp) (w : World) :
    ∀ (rels : List RelID) {w' : World}, preCheck p ids rels w = .ok () w' →
      ∀ (r : RelID), r ∈ rels → (r.target.isZero = true ∨ w.alive r.target = true) ∧
        w.isRelComp r.comp = true ∧ (p ≠ .map1 → (Mask.ofList ids).get r.comp = true) := by
  intro rels
  induction rels with
  | nil => intro _ _ r hr; cases hr
  | cons r0 rest ih =>
    intro w' hok r hr
    have ht : checkRelationTarget r0.target w = .ok () w := by
      rcases checkRelationTarget_cases r0.target w with k | k
      · exact k
      · cases p with
        | unsafe_ => simp [preCheck, preCheckTyped, M.forM', bind, M.bind, k] at hok
        | map1 => simp [preCheck, preCheckMap, M.forM', bind, M.bind, k] at hok
        | typed => simp [preCheck, preCheckTyped, M.forM', bind, M.bind, k] at hok
    have hc : checkRelationComponent r0.comp w = .ok () w := by
      rcases checkRelationComponent_cases r0.comp w with k | k
      · exact k
      · cases p with
        | unsafe_ => simp [preCheck, preCheckTyped, M.forM', bind, M.bind, ht, k] at hok
        | map1 => simp [preCheck, preCheckMap, M.forM', bind, M.bind, ht, k] at hok
        | typed => simp [preCheck, preCheckTyped, M.forM', bind, M.bind, ht, k] at hok
    have hm : p ≠ .map1 → (Mask.ofList ids).get r0.comp = true := by
      intro hpt
      cases hg : (Mask.ofList ids).get r0.comp with
      | true => rfl
      | false =>
        cases p with
        | map1 => exact absurd rfl hpt
        | unsafe_ =>
          simp [preCheck, preCheckTyped, M.forM', bind, M.bind, ht, hc, M.assert, hg] at hok
        | typed =>
          simp [preCheck, preCheckTyped, M.forM', bind, M.bind, ht, hc, M.assert, hg] at hok
    have hrest : preCheck p ids rest w = .ok () w' := by
      cases p with
      | unsafe_ =>
        have hg := hm (by decide)
        simp only [preCheck, preCheckTyped, M.forM', bind, M.bind, ht, hc, M.assert, hg,
          if_true] at hok ⊢
        exact hok
      | map1 =>
        simp only [preCheck, preCheckMap, M.forM', bind, M.bind, ht, hc] at hok ⊢
        exact hok
      | typed =>
        have hg := hm (by decide)
        simp only [preCheck, preCheckTyped, M.forM', bind, M.bind, ht, hc, M.assert, hg,
          if_true] at hok ⊢
        exact hok
    rcases List.mem_cons.1 hr with rfl | hr'
    · refine ⟨?_, ?_, hm⟩
      · unfold checkRelationTarget at ht
        cases hz : r.target.isZero with
        | true => exact Or.inl rfl
        | false =>
          cases hal : w.alive r.target with
          | true => exact Or.inr rfl
          | false => simp [hz, hal] at ht
      · unfold checkRelationComponent at hc
        cases hrc : w.isRelComp r.comp with
        | true => rfl
        | false => simp [hrc] at hc
    · exact ih hrest r hr'

/-- **rejection** (every path, since the repair of the `Unsafe` API): a relation naming a dead
    target or a component that is not a relation component — and, through `ExchangeN`
    (`Path.typed`) and `Unsafe.Exchange`, a component that is not added — is refused before
    anything is touched -/
theorem opExchange_rel_badRel (run : ProbeRunner) (p : Path) (e : Ent)
    (add : List Comp) (vals : List (Comp × Val)) (rem : List Comp) (rels : List RelID) (w : World)
    (hl : w.isLocked = false)
    (hbad : ∃ (r : RelID), r ∈ rels ∧
      ((r.target.isZero = false ∧ w.alive r.target = false) ∨ w.isRelComp r.comp = false ∨
        (p ≠ .map1 ∧ (Mask.ofList add).get r.comp = false))) :
    ∃ (k : PanicKind), opExchange run p e add vals rem rels w = .panic k w := by
  cases ha : w.alive e with
  | false => exact opExchange_rel_dead run p e add vals rem rels w hl ha
  | true =>
    rcases preCheck_cases p add rels w with h1 | ⟨k, h1⟩
    · exfalso
      obtain ⟨r, hr, hb⟩ := hbad
      obtain ⟨v1, v2, v3⟩ := preCheck_ok_valid p add w rels h1 r hr
      rcases hb with ⟨b1, b2⟩ | b | ⟨b1, b2⟩
      · rcases v1 with v | v
        · rw [v] at b1; cases b1
        · rw [v] at b2; cases b2
      · rw [v2] at b; cases b
      · rw [v3 b1] at b2; cases b2
    · exact ⟨k, opExchange_rel_prePanic run p e add vals rem rels w ha h1⟩

/-- **accepted ⇒ the component preconditions**: an accepted `Exchange` was called on a live entity,
    with not both lists empty, `rem` distinct components of the entity, `add` distinct components
    it lacks -/
theorem opExchange_rel_accepted (run : ProbeRunner) (p : Path) (e : Ent) (add : List Comp)
    (vals : List (Comp × Val)) (rem : List Comp) (rels : List RelID) (w : World)
    (hl : w.isLocked = false) (hb : ∀ (c : Comp), c ∈ add → c < 256) {w' : World}
    (hok : opExchange run p e add vals rem rels w = .ok () w') :
    w.alive e = true ∧ ¬ (add = [] ∧ rem = []) ∧ rem.Nodup ∧
      (∀ (c : Comp), c ∈ rem → (w.maskOf e).get c = true) ∧ add.Nodup ∧
      ∀ (c : Comp), c ∈ add → (w.maskOf e).get c = false := by
  have ha : w.alive e = true := by
    cases ha : w.alive e with
    | true => rfl
    | false =>
      obtain ⟨k, hk⟩ := opExchange_rel_dead run p e add vals rem rels w hl ha
      rw [hk] at hok; cases hok
  have hne : ¬ (add = [] ∧ rem = []) := by
    rintro ⟨rfl, rfl⟩
    obtain ⟨k, hk⟩ := opExchange_rel_empty run p e vals rels w hl
    rw [hk] at hok; cases hok
  refine ⟨ha, hne, ?_⟩
  by_cases h : rem.Nodup ∧ (∀ (c : Comp), c ∈ rem → (w.maskOf e).get c = true) ∧ add.Nodup ∧
      ∀ (c : Comp), c ∈ add → (w.maskOf e).get c = false
  · exact h
  · obtain ⟨k, hk⟩ := opExchange_rel_misfit run p e add vals rem rels w hl hb h
    rw [hk] at hok; cases hok

end World

/-- iterating: an `Exchange` satisfying the preconditions on an entity that sits in a table
    succeeds and keeps `Good` -/
theorem Good.exchange (run : ProbeRunner) (p : Path) {w : World} (h : Good w) {e : Ent}
    (ha : w.alive e = true) (hidx : (w.index e.id).1 ≠ maxU32) (hlt : e.id < w.entities.length)
    {add rem : List Comp} {rels : List RelID} (hp : XchgPre w e add rem rels)
    (vals : List (Comp × Val))
    (htin : ∀ (r : RelID), r ∈ rels → r.target.id < w.pool.ents.length)
    (hfew : w.tables.length < maxU32) (hrows : w.entities.length + 1 < 2 ^ 32) :
    panicOf (opExchange run p e add vals rem rels w) = none ∧
      Good (opExchange run p e add vals rem rels w).state := by
  obtain ⟨fl, ht, hl, hno⟩ := h
  have hent : w.entities[e.id]? = some ((w.index e.id).1, (w.index e.id).2) := by
    simp only [World.index, List.getD_eq_getElem?_getD, List.getElem?_eq_getElem hlt,
      Option.getD_some]
  obtain ⟨h2, hnf⟩ := ht.link.indexed_live hent hidx
  obtain ⟨w', hok, post⟩ := opExchange_rel_spec run p ht hl hno h2 hnf ha
    (by rw [← ht.link.lenEq]; exact hlt) hp vals htin hfew hrows
  rw [hok]
  have hl' : w'.isLocked = false := by
    show w'.locks.isLocked = false
    rw [post.locks]; exact hl
  have hno' : ∀ (evt : Nat), w'.obs.hasObservers evt = false := fun evt => by
    rw [post.obs]; exact hno evt
  exact ⟨rfl, fl, post.tinv, hl', hno'⟩

end Ark
