/-
  Ark.Proofs.RelRefine2Base — property C05 with relations, part 5: every successful operation of
  the relation machine of `Ark.Proofs.RelRefine` (`reg | new p | add p | rem p | setrel p | set |
  del`) keeps the filter-side state (`exec_kept`), hence the filter-side invariant `FInvR`
  (`finvR_step`).
  Kernel-only proofs, core Lean only.
-/
import Ark.Proofs.RelRefine2Inv

set_option autoImplicit false

namespace Ark
namespace RelRefine2

open World Ark.Props.C01World QueryRel QueryExact RelRefine

theorem isRelComp_of_kinds {w w' : World} (hk : w'.kinds = w.kinds) (c : Comp) :
    w.isRelComp c = true → w'.isRelComp c = true := by
  intro h; simp only [World.isRelComp, hk]; exact h

/-- **every accepted operation of the relation machine keeps the filter-side state**: `RowsAlive`
    and `CIdx` carry over, `CacheInv` carries over, the cache keeps its keys, ID map and ID pool,
    the filter heap and the lock are untouched -/
theorem exec_kept (run : ProbeRunner) {s : St} {fl : List Nat} (H : HInv s fl)
    (hfew : s.w.tables.length + s.w.relationArchetypes.length + 1 ≤ maxU32)
    (hent : 2 * s.w.entities.length < 2 ^ 32) {op : Op} (hg : guard s op = true)
    (hp : pre s.ss op) {r : Option Ent} {w' : World} (hex : exec run s.w op = .ok r w') :
    Kept s.w w' := by
  have hfew' : s.w.tables.length < maxU32 := by omega
  have hent' : s.w.entities.length + 1 < 2 ^ 32 := by omega
  cases op with
  | reg size z ir =>
    cases hr : World.registerComponent { isRel := ir, zst := z, size := size } s.w with
    | panic k w1 => simp only [exec, hr] at hex; cases hex
    | ok n w1 =>
      simp only [exec, hr] at hex
      injection hex with _ hw
      subst hw
      refine ⟨registerComponent_qkeep H.tinv hr, registerComponent_ckeep hr,
        registerComponent_locks hr, ?_⟩
      intro c hc
      have e := registerComponent_ok_eq hr
      subst e
      have hlt : c < s.w.kinds.length := by
        rcases Nat.lt_or_ge c s.w.kinds.length with h1 | h1
        · exact h1
        · simp [World.isRelComp, List.getD_eq_getElem?_getD, List.getElem?_eq_none h1] at hc
      simp only [World.isRelComp, List.getD_eq_getElem?_getD, List.getElem?_append_left hlt]
      simpa only [World.isRelComp, List.getD_eq_getElem?_getD] using hc
  | new p ids vals rels =>
    obtain ⟨hnd, hreg, ⟨hrnd, hrin, hrall⟩, hv⟩ := hp
    have hreg' : ∀ (c : Comp), c ∈ ids → c < s.w.kinds.length := by rw [← H.zlen]; exact hreg
    have hin : ∀ (r : RelID), r ∈ rels → r.comp ∈ ids := fun r hr => (hrin r hr).1
    have hrc : ∀ (r : RelID), r ∈ rels → s.w.isRelComp r.comp = true :=
      fun r hr => by rw [← H.rget]; exact (hrin r hr).2
    cases hop : opNewEntity run p ids vals rels s.w with
    | panic k w1 => simp only [exec, hop] at hex; cases hex
    | ok e w1 =>
      simp only [exec, hop] at hex
      injection hex with _ hw
      subst hw
      obtain ⟨qk, hlk⟩ := opNewEntity_qkeep run p H.tinv H.unlocked H.noObs hreg' hrnd hin hfew'
        hent' hop
      have post := opNewEntity_rel_spec run p H.tinv H.unlocked H.noObs hreg' hrnd hin hrc
        (H.targets_in hv) hfew' hent' hop
      exact ⟨qk, opNewEntity_ckeep run p H.tinv H.unlocked H.noObs hreg' hop, hlk,
        isRelComp_of_kinds post.kinds⟩
  | add p e ids vals rels =>
    obtain ⟨en, hf, ⟨hne, hnd, hall⟩, ⟨hrnd, hrin, hrall⟩, hv⟩ := hp
    have hm := find_some_mem hf
    obtain ⟨_, ha, h2, hnf, _, hsl0⟩ := H.live_facts hm
    have hsl := Pool.lt_of_slot hsl0
    have hg' : ((e ∈ s.issued ∧ ∀ c ∈ ids, c < s.ss.zst.length) ∧ RelsStep s.ss.isRel p ids rels) ∧
        tgtsExpr s rels = true := by
      simpa only [RelRefine.guard, Bool.and_eq_true, List.all_eq_true, decide_eq_true_eq] using hg
    have hreg' : ∀ (c : Comp), c ∈ ids → c < s.w.kinds.length := by
      rw [← H.zlen]; exact hg'.1.1.2
    have hin : ∀ (r : RelID), r ∈ rels → r.comp ∈ ids := fun r hr => (hrin r hr).1
    have hrc : ∀ (r : RelID), r ∈ rels → s.w.isRelComp r.comp = true :=
      fun r hr => by rw [← H.rget]; exact (hrin r hr).2
    cases hop : opAdd run p e ids vals rels s.w with
    | panic k w1 => simp only [exec, hop] at hex; cases hex
    | ok u w1 =>
      simp only [exec, hop] at hex
      injection hex with _ hw
      subst hw
      have post := opAdd_rel_spec run p H.tinv H.unlocked H.noObs h2 hnf ha hsl hreg' hrnd hin hrc
        (H.targets_in hv) hfew' hent' hop
      exact ⟨opAdd_qkeep run p H.tinv H.unlocked H.noObs h2 hnf ha hsl hreg' hrnd hin hent' hop,
        opAdd_ckeep run p H.tinv H.unlocked H.noObs h2 hnf ha hsl hreg' hop, post.locks,
        isRelComp_of_kinds post.kinds⟩
  | rem p e ids =>
    obtain ⟨en, hf, hne, hnd, hall⟩ := hp
    have hm := find_some_mem hf
    obtain ⟨_, ha, h2, hnf, _, hsl0⟩ := H.live_facts hm
    have hsl := Pool.lt_of_slot hsl0
    have ok := H.ok e en hm
    have hmask : ∀ (c : Comp), (s.w.maskOf e).get c = true ↔ c ∈ Refine.keys en.comps := fun c => by
      rw [H.tinv.mask_iff_comps h2 hnf ha hsl ok.comps c, H.comps_iff hm c]
    cases hop : opRemove run p e ids s.w with
    | panic k w1 => simp only [exec, hop] at hex; cases hex
    | ok u w1 =>
      simp only [exec, hop] at hex
      injection hex with _ hw
      subst hw
      obtain ⟨qk, ck, hlk, hk⟩ := opRemove_keep run p H.tinv H.unlocked H.noObs h2 hnf ha hsl hne hnd
        (fun c hc => (hmask c).mpr (hall c hc)) hent' hop
      exact ⟨qk, ck, hlk, isRelComp_of_kinds hk⟩
  | setrel p e rels =>
    obtain ⟨en, hf, hne, hrnd, hhas, hv⟩ := hp
    have hm := find_some_mem hf
    obtain ⟨_, ha, h2, hnf, _, hsl0⟩ := H.live_facts hm
    have hsl := Pool.lt_of_slot hsl0
    have hemp : rels.isEmpty = false := by
      cases rels with
      | nil => exact absurd rfl hne
      | cons _ _ => rfl
    have hhas' : ∀ (r : RelID), r ∈ rels → (targetOf s.w e.id r.comp).isSome = true :=
      fun r hr => (H.target_isSome_iff hm r.comp).mpr (hhas r hr)
    cases hop : opSetRelations run p e (rels.map (·.comp)) rels s.w with
    | panic k w1 => simp only [exec, hop] at hex; cases hex
    | ok u w1 =>
      simp only [exec, hop] at hex
      injection hex with _ hw
      subst hw
      have post := opSetRelations_spec run p H.tinv H.unlocked H.noObs h2 hnf ha hsl hemp hrnd hhas'
        (H.targets_in hv) hfew' hent' hop
      exact ⟨opSetRelations_qkeep run p H.tinv H.unlocked H.noObs h2 hnf ha hsl hemp hrnd hhas' hent'
          hop,
        opSetRelations_ckeep run p H.tinv H.unlocked H.noObs h2 hnf ha hsl hemp hrnd hhas' hop,
        post.locks, isRelComp_of_kinds post.kinds⟩
  | set e vals =>
    cases hop : opSet run e (Refine.keys vals) vals s.w with
    | panic k w1 => simp only [exec, hop] at hex; cases hex
    | ok u w1 =>
      simp only [exec, hop] at hex
      injection hex with _ hw
      subst hw
      obtain ⟨qk, ck, hlk, hk⟩ := opSet_keep run H.noObs hop
      exact ⟨qk, ck, hlk, isRelComp_of_kinds hk⟩
  | del e =>
    obtain ⟨en, hf⟩ := hp
    have hm := find_some_mem hf
    obtain ⟨_, ha, h2, hnf, _, hsl0⟩ := H.live_facts hm
    have hsl := Pool.lt_of_slot hsl0
    obtain ⟨w3, hst, q3, hlk⟩ := opRemoveEntity_qkeep run H.tinv H.unlocked H.noObs h2 hnf ha hsl hfew
      hent
    obtain ⟨w4, hst4, c4⟩ := opRemoveEntity_ckeep run H.tinv H.unlocked H.noObs h2 hnf ha hsl hfew hent
    obtain ⟨w5, hst5, post⟩ := opRemoveEntity_rel_spec run H.tinv H.unlocked H.noObs h2 hnf ha hsl hfew
      hent
    simp only [exec, hst] at hex
    injection hex with _ hw
    subst hw
    rw [hst] at hst4 hst5
    injection hst4 with _ hw4
    injection hst5 with _ hw5
    subst hw4
    subst hw5
    exact ⟨q3, c4, hlk, isRelComp_of_kinds post.kinds⟩

/-- **the operations of the relation machine keep the filter-side invariant** -/
theorem finvR_step (run : ProbeRunner) {s : St} {fl : List Nat} (H : HInv s fl) (F : FInvR s.w)
    (hfew : s.w.tables.length + s.w.relationArchetypes.length + 1 ≤ maxU32)
    (hent : 2 * s.w.entities.length < 2 ^ 32) (op : Op) (G : StepGoal run s op) :
    FInvR (RelRefine.step run s op).w := by
  obtain ⟨_, _, _, _, g4, g5⟩ := G
  by_cases hg : guard s op = true
  case neg =>
    have : RelRefine.step run s op = s := by rw [RelRefine.step, if_neg hg]
    rw [this]; exact F
  have hw : (RelRefine.step run s op).w = (exec run s.w op).state := by rw [step_of_guard hg]
  rcases Classical.em (pre s.ss op) with hp | hnp
  · obtain ⟨r, w', hex⟩ := g5 hg hp
    have hw' : (RelRefine.step run s op).w = w' := by rw [hw, hex]; rfl
    rw [hw']
    exact F.kept (exec_kept run H hfew hent hg hp hex)
  · obtain ⟨k, hex⟩ := g4 hg hnp
    have hw' : (RelRefine.step run s op).w = s.w := by rw [hw, hex]; rfl
    rw [hw']; exact F

end RelRefine2
end Ark
