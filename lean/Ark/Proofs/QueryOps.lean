/-
  Ark.Proofs.QueryOps — what a query needs beyond `CInv`, operation by operation (world level).

  * `XInv w` — the component index is exact (`CIdx`), the handle stored in a row in use is alive
    (`RowsAlive`), the lock is in its initial state (`w.locks = {}`: no operation of the fragment
    takes a lock, and `Reset` of the initial lock is the initial lock); and, for the cached
    variant, the relation-index invariant `RInv` and "no filter is registered" (`CacheEmpty`).
  * One preservation lemma per operation of the API, stated under the hypotheses of the
    corresponding specification theorem of `Ark.Proofs.RefineCore` / `RefineOps`, for ANY
    successful result: `XInv.registerComponent`, `XInv.opNewEntity`, `XInv.opNewEntity0`,
    `XInv.opAdd`, `XInv.opRemove`, `XInv.opExchange`, `XInv.opSet`, `XInv.opRemoveEntity`,
    `XInv.opCopyEntity`, `XInv.opShrink`, `XInv.opReset`.  Each composes the lemmas about the
    world transformers the operation is made of (table lookup, `placedW`, `addMove`,
    `removeRowOf`, `writeValsW`, `copiedW`, `shrinkPure`, `resetW`).

  Kernel-only proofs, core Lean only.
-/
import Ark.Proofs.CompIndex
import Ark.Proofs.RowsAlive
import Ark.Proofs.QueryCached

set_option autoImplicit false

namespace Ark

open World Ark.Props.C01World

/-! ## 0. two more frames: the relation index and the (empty) filter cache -/

/-- the relation-index invariant only reads the archetypes and the targets of the tables -/
theorem RInv.of_targets {w w' : World} (h : RInv w) (ha : w'.archetypes = w.archetypes)
    (ht : ∀ t : Nat, (w'.tbl t).targets = (w.tbl t).targets) : RInv w' := by
  intro a A hA
  rw [ha] at hA
  exact (h a A hA).congr_tgt (fun t _ => ht t)

namespace World

theorem tbl_of_set {w w' : World} {t : Nat} {T : Table} (h : w'.tables = w.tables.set t T)
    (t' : Nat) : w'.tbl t' = if t' = t ∧ t < w.tables.length then T else w.tbl t' := by
  simp only [tbl, h, List.getD_eq_getElem?_getD, List.getElem?_set]
  by_cases ht : t = t'
  · subst ht
    by_cases hl : t < w.tables.length
    · simp [hl]
    · simp [hl]
  · have : ¬ t' = t := fun hh => ht hh.symm
    simp [ht, this]

theorem placedW_targets (w : World) (t : Nat) (rt : Bool) (t' : Nat) :
    ((placedW w t rt).tbl t').targets = (w.tbl t').targets := by
  have hTab : (placedW w t rt).tables = w.tables.set t ((w.tbl t).add (w.pool.get).2).1 := by
    rw [(placedW_place w t rt).2, place_tables]
  rw [tbl_of_set hTab]
  split
  · rename_i hc; rw [hc.1]; exact (Table.add_sameMeta _ _).targets
  · rfl

theorem removeRowOf_targets (w : World) (e : Ent) (t row : Nat) (t' : Nat) :
    ((removeRowOf w e t row).tbl t').targets = (w.tbl t').targets := by
  have hTab : (removeRowOf w e t row).tables = w.tables.set t ((w.tbl t).remove row).1 := by
    rw [removeRowOf_tables, unplace_tables]
  rw [tbl_of_set hTab]
  split
  · rename_i hc; rw [hc.1]; rfl
  · rfl

theorem writeValsW_targets (w : World) (e : Ent) (vals : List (Comp × Val)) (t' : Nat) :
    ((writeValsW w e vals).tbl t').targets = (w.tbl t').targets := by
  simp only [writeValsW, modTbl_tbl]
  split
  · rename_i hc; rw [hc.1]; exact (writeFold_sameMeta _ vals _).targets
  · rfl

theorem addMove_targets (w : World) (e : Ent) (oldT row newT : Nat) (keep : Mask)
    (hne : oldT ≠ newT) (hnl : newT < w.tables.length) (hol : oldT < w.tables.length)
    (hel : e.id < w.entities.length) (t' : Nat) :
    ((addMove w e oldT row newT keep).tbl t').targets = (w.tbl t').targets := by
  obtain ⟨_, tOld, tNew, tOther⟩ := addMove_tbl w e oldT row newT keep hne hnl hol hel
  by_cases h1 : t' = oldT
  · subst h1; rw [tOld]; rfl
  · by_cases h2 : t' = newT
    · subst h2; rw [tNew]
      exact ((Table.add_sameMeta _ e).trans (copyRow_sameMeta _ _ _ _ _)).targets
    · rw [tOther t' h1 h2]

theorem placedW_cache (w : World) (t : Nat) (rt : Bool) : (placedW w t rt).cache = w.cache := by
  simp only [placedW]; split <;> rfl

theorem addMove_cache (w : World) (e : Ent) (oldT row newT : Nat) (keep : Mask) :
    (addMove w e oldT row newT keep).cache = w.cache := by
  simp only [addMove, moveRowW]; split <;> rfl

theorem removeRowOf_cache (w : World) (e : Ent) (t row : Nat) :
    (removeRowOf w e t row).cache = w.cache := by
  simp only [removeRowOf]; split <;> rfl

end World

/-- no filter is registered (the history machine has no `Register` operation) -/
def CacheEmpty (w : World) : Prop := w.cache.indices = [] ∧ w.cache.filters = []

theorem CacheEmpty.of_eq {w w' : World} (h : CacheEmpty w) (hc : w'.cache = w.cache) :
    CacheEmpty w' := by unfold CacheEmpty; rw [hc]; exact h

theorem CacheEmpty.cacheInv {w : World} (h : CacheEmpty w) : CacheInv w :=
  cacheInv_of_empty h.1 h.2

namespace World

theorem cacheAddTable_empty {w w' : World} {T : Table} (h : w.cacheAddTable T = some w')
    (he : CacheEmpty w) : CacheEmpty w' := by
  unfold cacheAddTable at h
  simp only [he.2, List.foldl_nil] at h
  injection h with h; subst h
  exact ⟨he.1, rfl⟩

theorem createTableS_cache (w : World) (a : Nat) (rels : List RelID) :
    (createTableS w a rels).1.cache = w.cache := by
  unfold createTableS; split <;> rfl

theorem createTable_cacheEmpty {a : Nat} {rels : List RelID} {w w' : World} {t : Nat}
    (h : createTable a rels w = .ok t w') (he : CacheEmpty w) : CacheEmpty w' := by
  obtain ⟨_, _, _, _, h5⟩ := createTable_ok h
  exact cacheAddTable_empty h5 (he.of_eq (createTableS_cache w a rels))

theorem findOrCreateArch_cache {mask : Mask} {w w' : World} {a : Nat}
    (h : findOrCreateArch mask w = .ok a w') : w'.cache = w.cache := by
  unfold findOrCreateArch at h
  split at h
  · injection h with _ h2; subst h2; rfl
  · rw [createArchetype_eq] at h
    injection h with _ h2; subst h2
    exact createArchetypeW_proj (·.cache) (fun _ _ _ => rfl) (fun _ _ => rfl) w mask

theorem findOrCreateTable_cacheEmpty :
    (∀ {oldT : Nat} {startMask : Mask} {add : List Comp} {rels : List RelID} {w w' : World}
        {r : Nat × Nat × Mask},
        findOrCreateTableAdd oldT startMask add rels w = .ok r w' → CacheEmpty w → CacheEmpty w') ∧
    (∀ {oldT : Nat} {startMask : Mask} {rem : List Comp} {w w' : World}
        {r : Nat × Nat × Mask × Bool},
        findOrCreateTableRemove oldT startMask rem w = .ok r w' → CacheEmpty w → CacheEmpty w') :=
  have h := lookup_induct (fun w w' => CacheEmpty w → CacheEmpty w')
    (fun h1 h2 h => h2 (h1 h)) (fun h he => he.of_eq (findOrCreateArch_cache h))
    (fun h he => createTable_cacheEmpty h he)
  ⟨h.1, h.2.1⟩

end World

/-! ## 1. the extra invariant and the operations -/

/-- what a query needs beyond `CInv`: `cidx`, `rows`, `locks` for the uncached query; `rinv` and
    `cache` make the hypotheses of the cached variant available (a filter can be registered,
    `cacheRegister_exact`) -/
structure XInv (w : World) : Prop where
  cidx : CIdx w
  rows : RowsAlive w
  locks : w.locks = {}
  rinv : RInv w
  cache : CacheEmpty w

theorem xinv_init (cap rel : Nat) : XInv (World.init cap rel) :=
  ⟨CIdx.init cap rel, RowsAlive.init cap rel, rfl, RInv.init cap rel 256, ⟨rfl, rfl⟩⟩

namespace World

/-- a successful `registerComponent`, explicitly -/
theorem registerComponent_ok_eq {k : CompKind} {w w' : World} {n : Nat}
    (h : registerComponent k w = .ok n w') :
    w' = { w with kinds := w.kinds ++ [k], archCount := w.archCount ++ [0],
                  componentIndex := w.componentIndex ++ [[]] } := by
  unfold registerComponent at h
  simp only at h
  split at h
  · cases h
  · split at h
    · cases h
    · injection h with _ h2; exact h2.symm

end World

/-- `registerComponent` (Op `reg`) -/
theorem XInv.registerComponent {w w' : World} {fl : List Nat} (h : CInv w fl) (X : XInv w)
    {k : CompKind} {n : Nat} (hr : World.registerComponent k w = .ok n w') : XInv w' := by
  refine ⟨X.cidx.registerComponent h.sinv.maskReg hr, ?_, ?_, X.rinv.registerComponent hr, ?_⟩
  · obtain ⟨_, _, _, ht, _, hp, _⟩ := registerComponent_ok hr
    exact X.rows.lookup (LookupKeeps.of_tables hp ht)
  · rw [registerComponent_ok_eq hr]; exact X.locks
  · rw [registerComponent_ok_eq hr]; exact X.cache

/-- `NewEntity(ids…)` (Op `new`), hypotheses of `opNewEntity_spec` -/
theorem XInv.opNewEntity (run : ProbeRunner) (p : Path) {w : World} {fl : List Nat} (h : CInv w fl)
    (X : XInv w) (hl : w.isLocked = false) {ids : List Comp} (hnd : ids.Nodup)
    (hreg : ∀ (c : Comp), c ∈ ids → c < w.kinds.length) (vals : List (Comp × Val))
    (hfew : w.tables.length < maxU32) (hrows : ∀ t : Nat, (w.tbl t).len + 1 < 2 ^ 32)
    {e : Ent} {w' : World} (hop : opNewEntity run p ids vals [] w = .ok e w') : XInv w' := by
  obtain ⟨t, a, w1, hok, fc, hI1, hsame, _⟩ :=
    h.sinv.findOrCreateTableAdd_spec_new h.idx hnd hreg (fun c _ => h.noRelKinds c)
  have hu := findOrCreateTableAdd_untouched hok
  have hlen1 := findOrCreateTableAdd_tables_len hok
  have hfew1 : w1.tables.length ≤ maxU32 := by omega
  have h1 : CInv w1 fl := h.transfer hI1 fc.sinv fc.pool
    ⟨by rw [fc.entities], fun i => Or.inl (by rw [fc.entities])⟩ fc.kinds hu hfew1
  have hb : (w1.tbl t).len + 1 < 2 ^ 32 := by
    rcases Nat.lt_or_ge t w.tables.length with h1 | h1
    · have : w1.tbl t = w.tbl t := by
        simp only [tbl, List.getD_eq_getElem?_getD, hsame t h1]
      rw [this]; exact hrows t
    · rw [fc.newEmpty h1]; decide
  have heq := opNewEntity_eq run p ids vals w hl hok (by rw [hu.obs]; exact h.noObs)
  rw [heq] at hop
  injection hop with _ hw
  subst hw
  have hk := findOrCreateTableAdd_keeps hok
  refine ⟨?_, ?_, ?_, ?_, ?_⟩
  · exact ((X.cidx.findOrCreateTableAdd hok).of_frame (placedW_ciFrame w1 t false)).of_frame
      (writeValsW_ciFrame _ _ _)
  · exact ((X.rows.lookup hk).placed h1 fc.tblLt false hb).writeVals _ _
  · show (placedW w1 t false).locks = {}
    rw [placedW_locks, hu.locks]; exact X.locks
  · refine ((fc.rinv X.rinv).of_targets (w' := placedW w1 t false) (placedW_fields w1 t false).2.1
      (placedW_targets w1 t false)).of_targets rfl (writeValsW_targets _ _ _)
  · exact (findOrCreateTable_cacheEmpty.1 hok X.cache).of_eq (placedW_cache w1 t false)

/-- `Add` (Op `add`), hypotheses of `opAdd_spec` -/
theorem XInv.opAdd (run : ProbeRunner) (p : Path) {w : World} {fl : List Nat} (h : CInv w fl)
    (X : XInv w) (hl : w.isLocked = false) {e : Ent} (h2 : 2 ≤ e.id) (hnf : e.id ∉ fl)
    (ha : w.alive e = true) (hin : e.id < w.pool.ents.length)
    {add : List Comp} (hne : add ≠ []) (hnd : add.Nodup)
    (hreg : ∀ (c : Comp), c ∈ add → c < w.kinds.length)
    (hnew : ∀ (c : Comp), c ∈ add → (w.maskOf e).get c = false) (vals : List (Comp × Val))
    (hfew : w.tables.length < maxU32) (hrows : ∀ t : Nat, (w.tbl t).len + 1 < 2 ^ 32)
    {w' : World} (hop : opAdd run p e add vals [] w = .ok () w') : XInv w' := by
  obtain ⟨oldT, row, he, ht, _⟩ := h.live_entry h2 hnf ha hin
  have hix := index_of_get he
  have hm : w.maskOf e = (w.arch (w.tbl oldT).arch).mask := by simp only [maskOf, hix]
  obtain ⟨holdlt, _, _, halt, _, _⟩ := h.table_of_entry he ht
  have hb256 : ∀ (c : Comp), c ∈ add → c < 256 := fun c hc => h.reg_lt_256 (hreg c hc)
  obtain ⟨t, a, w1, hok, fc, hI1, hsame, hneT⟩ :=
    h.sinv.findOrCreateTableAdd_spec h.idx holdlt (startMask := w.maskOf e) hm (h.noRelArch' halt)
      hnd hnew hreg (fun c _ => h.noRelKinds c)
  have hu := findOrCreateTableAdd_untouched hok
  have hlen1 := findOrCreateTableAdd_tables_len hok
  obtain ⟨mp, hma⟩ := h.move_spec he ht fc hu hsame (hneT hne hb256) hlen1 hfew hrows
  have hok' := hok
  rw [hm] at hok'
  have hcore := addCore_eq e add w hl ha hne hix hok'
  rw [← hm] at hcore
  have heq := opAdd_eq run p e add vals w ha hcore mp.cinv.noObs
  rw [heq] at hop
  injection hop with _ hw
  subst hw
  have hk := findOrCreateTableAdd_keeps hok
  have hb : (w1.tbl t).len + 1 < 2 ^ 32 := by
    rcases Nat.lt_or_ge t w.tables.length with h1 | h1
    · have : w1.tbl t = w.tbl t := by
        simp only [tbl, List.getD_eq_getElem?_getD, hsame t h1]
      rw [this]; exact hrows t
    · rw [fc.newEmpty h1]; decide
  have ha1 : w1.alive e = true := by simp only [World.alive, fc.pool]; exact ha
  have he1 : w1.entities[e.id]? = some (oldT, row) := by rw [fc.entities]; exact he
  have hold1 : oldT < w1.tables.length := Nat.lt_of_lt_of_le holdlt fc.tablesLen
  have hel1 : e.id < w1.entities.length := (List.getElem?_eq_some_iff.mp he1).1
  have hne' : oldT ≠ t := Ne.symm (hneT hne hb256)
  refine ⟨?_, ?_, ?_, ?_, ?_⟩
  · exact ((X.cidx.findOrCreateTableAdd hok).of_frame (addMove_ciFrame _ _ _ _ _ _)).of_frame
      (writeValsW_ciFrame _ _ _)
  · exact ((X.rows.lookup hk).moved hI1 _ ha1 he1 ht hne' fc.tblLt hb).writeVals _ _
  · show (addMove w1 e oldT row t (add.foldl Mask.set (w.maskOf e))).locks = {}
    rw [(addMove_fields _ _ _ _ _ _).2.2.2.locks, hu.locks]; exact X.locks
  · refine ((fc.rinv X.rinv).of_targets
      (w' := addMove w1 e oldT row t (add.foldl Mask.set (w.maskOf e)))
      (addMove_fields _ _ _ _ _ _).2.2.1
      (addMove_targets w1 e oldT row t _ hne' fc.tblLt hold1 hel1)).of_targets rfl
      (writeValsW_targets _ _ _)
  · exact (findOrCreateTable_cacheEmpty.1 hok X.cache).of_eq (addMove_cache _ _ _ _ _ _)

/-- `Remove` (Op `rem`), hypotheses of `opRemove_spec` -/
theorem XInv.opRemove (run : ProbeRunner) (p : Path) {w : World} {fl : List Nat} (h : CInv w fl)
    (X : XInv w) (hl : w.isLocked = false) {e : Ent} (h2 : 2 ≤ e.id) (hnf : e.id ∉ fl)
    (ha : w.alive e = true) (hin : e.id < w.pool.ents.length)
    {rem : List Comp} (hne : rem ≠ []) (hnd : rem.Nodup)
    (hpres : ∀ (c : Comp), c ∈ rem → (w.maskOf e).get c = true)
    (_hfew : w.tables.length < maxU32) (hrows : ∀ t : Nat, (w.tbl t).len + 1 < 2 ^ 32)
    {w' : World} (hop : opRemove run p e rem w = .ok () w') : XInv w' := by
  rw [opRemove_eq run p e rem w ha] at hop
  obtain ⟨oldT, row, he, ht, _⟩ := h.live_entry h2 hnf ha hin
  have hix := index_of_get he
  have hm : w.maskOf e = (w.arch (w.tbl oldT).arch).mask := by simp only [maskOf, hix]
  obtain ⟨holdlt, _, _, halt, _, _⟩ := h.table_of_entry he ht
  obtain ⟨t, a, w1, hok, fc, hI1, hu, hsame, hneT⟩ :=
    h.sinv.findOrCreateTableRemove_spec h.idx h.noRelKinds holdlt (startMask := w.maskOf e) hm
      hnd hpres
  have hok' := hok
  rw [hm] at hok'
  have heq := removeCore_eq run e rem w hl ha hne hix hok' (by rw [hu.obs]; exact h.noObs)
  rw [← hm] at heq
  rw [heq] at hop
  injection hop with _ hw
  subst hw
  have hk := findOrCreateTableRemove_keeps hok
  have hb : (w1.tbl t).len + 1 < 2 ^ 32 := by
    rcases Nat.lt_or_ge t w.tables.length with h1 | h1
    · have : w1.tbl t = w.tbl t := by
        simp only [tbl, List.getD_eq_getElem?_getD, hsame t h1]
      rw [this]; exact hrows t
    · rw [fc.newEmpty h1]; decide
  have ha1 : w1.alive e = true := by simp only [World.alive, fc.pool]; exact ha
  have he1 : w1.entities[e.id]? = some (oldT, row) := by rw [fc.entities]; exact he
  have hold1 : oldT < w1.tables.length := Nat.lt_of_lt_of_le holdlt fc.tablesLen
  have hel1 : e.id < w1.entities.length := (List.getElem?_eq_some_iff.mp he1).1
  have hne' : oldT ≠ t := Ne.symm (hneT hne)
  refine ⟨?_, ?_, ?_, ?_, ?_⟩
  · exact (X.cidx.findOrCreateTableRemove hok).of_frame (addMove_ciFrame _ _ _ _ _ _)
  · exact (X.rows.lookup hk).moved hI1 _ ha1 he1 ht hne' fc.tblLt hb
  · rw [(addMove_fields _ _ _ _ _ _).2.2.2.locks, hu.locks]; exact X.locks
  · exact (fc.rinv X.rinv).of_targets (addMove_fields _ _ _ _ _ _).2.2.1
      (addMove_targets w1 e oldT row t _ hne' fc.tblLt hold1 hel1)
  · exact (findOrCreateTable_cacheEmpty.2 hok X.cache).of_eq (addMove_cache _ _ _ _ _ _)

/-- `Set` (Op `set`), hypotheses of `opSet_spec_c` -/
theorem XInv.opSet (run : ProbeRunner) {w : World} {fl : List Nat} (h : CInv w fl) (X : XInv w)
    {e : Ent} (h2 : 2 ≤ e.id) (hnf : e.id ∉ fl) (ha : w.alive e = true)
    (hin : e.id < w.pool.ents.length) {ids : List Comp}
    (hhas : ∀ (c : Comp), c ∈ ids → (w.maskOf e).get c = true) (vals : List (Comp × Val))
    {w' : World} (hop : opSet run e ids vals w = .ok () w') : XInv w' := by
  have heq := opSet_eq run w e ids vals ha (by
    rw [List.all_eq_true]
    intro c hc
    exact (h.has_iff h2 hnf ha hin c).mpr (hhas c hc)) (h.noObs _)
  rw [heq] at hop
  injection hop with _ hw
  subst hw
  exact ⟨X.cidx.of_frame (writeValsW_ciFrame _ _ _), X.rows.writeVals _ _, X.locks,
    X.rinv.of_targets rfl (writeValsW_targets _ _ _), X.cache⟩

/-- `RemoveEntity` (Op `del`), hypotheses of `opRemoveEntity_spec` -/
theorem XInv.opRemoveEntity (run : ProbeRunner) {w : World} {fl : List Nat} (h : CInv w fl)
    (X : XInv w) (hl : w.isLocked = false) {e : Ent} (h2 : 2 ≤ e.id) (hnf : e.id ∉ fl)
    (ha : w.alive e = true) (hin : e.id < w.pool.ents.length)
    {w' : World} (hop : opRemoveEntity run e w = .ok () w') : XInv w' := by
  obtain ⟨t, row, hix, _⟩ := h.removed h2 hnf ha hin
  have heq := opRemoveEntity_eq run w e hl ha hix h.noObs (h.noTargets _)
  rw [heq] at hop
  injection hop with _ hw
  subst hw
  refine ⟨X.cidx.of_frame (removeRowOf_ciFrame _ _ _ _), X.rows.removed h h2 hnf ha hin hix, ?_,
    X.rinv.of_targets (removeRowOf_fields _ _ _ _).2.1 (removeRowOf_targets _ _ _ _),
    X.cache.of_eq (removeRowOf_cache _ _ _ _)⟩
  rw [removeRowOf_locks]; exact X.locks

/-! ## 2. the further operations: `NewEntity()`, `Exchange`, `CopyEntity`, `Shrink`, `Reset` -/

/-- `World.NewEntity()` (Op `new0`), hypotheses of `opNewEntity0_spec` -/
theorem XInv.opNewEntity0 (run : ProbeRunner) {w : World} {fl : List Nat} (h : CInv w fl)
    (X : XInv w) (hl : w.isLocked = false) (hb : (w.tbl 0).len + 1 < 2 ^ 32)
    {e : Ent} {w' : World} (hop : opNewEntity0 run w = .ok e w') : XInv w' := by
  rw [opNewEntity0_eq run w hl (h.noObs _)] at hop
  injection hop with _ hw
  subst hw
  exact ⟨X.cidx.of_frame (placedW_ciFrame w 0 true), X.rows.placed h h.sinv.root.1 true hb,
    by rw [placedW_locks]; exact X.locks,
    X.rinv.of_targets (placedW_fields w 0 true).2.1 (placedW_targets w 0 true),
    X.cache.of_eq (placedW_cache w 0 true)⟩

/-- `Exchange` (Op `xchg`), hypotheses of `opExchange_spec` -/
theorem XInv.opExchange (run : ProbeRunner) (p : Path) {w : World} {fl : List Nat} (h : CInv w fl)
    (X : XInv w) (hl : w.isLocked = false) {e : Ent} (h2 : 2 ≤ e.id) (hnf : e.id ∉ fl)
    (ha : w.alive e = true) (hin : e.id < w.pool.ents.length)
    {add rem : List Comp} (hne : ¬ (add = [] ∧ rem = [])) (hrnd : rem.Nodup)
    (hpres : ∀ (c : Comp), c ∈ rem → (w.maskOf e).get c = true) (hand : add.Nodup)
    (hreg : ∀ (c : Comp), c ∈ add → c < w.kinds.length)
    (hnew : ∀ (c : Comp), c ∈ add → (w.maskOf e).get c = false) (vals : List (Comp × Val))
    (hfew : w.tables.length < maxU32) (hrows : ∀ t : Nat, (w.tbl t).len + 1 < 2 ^ 32)
    {w' : World} (hop : opExchange run p e add vals rem [] w = .ok () w') : XInv w' := by
  obtain ⟨oldT, row, he, ht, _⟩ := h.live_entry h2 hnf ha hin
  have hix := index_of_get he
  have hm : w.maskOf e = (w.arch (w.tbl oldT).arch).mask := by simp only [maskOf, hix]
  obtain ⟨holdlt, _, _, halt, _, _⟩ := h.table_of_entry he ht
  have hb256 : ∀ (c : Comp), c ∈ add → c < 256 := fun c hc => h.reg_lt_256 (hreg c hc)
  have hrel0 : (w.tbl oldT).relIDs = [] := h.relIDs_nil holdlt
  have hg := graphFind_ok (w.maskOf e) add rem w hb256 hrnd hpres hand hnew
  have hget : ∀ c : Nat, (add.foldl Mask.set (rem.foldl Mask.clear (w.maskOf e))).get c =
      (((w.maskOf e).get c && !decide (c ∈ rem)) || decide (c < 256) && decide (c ∈ add)) := by
    intro c; rw [Mask.get_ofList_foldl, Mask.get_foldl_clear]
  have hregM : ∀ c : Nat,
      (add.foldl Mask.set (rem.foldl Mask.clear (w.maskOf e))).get c = true → c < w.kinds.length := by
    intro c hc
    rw [hget] at hc
    cases hs : (w.maskOf e).get c with
    | true => exact (h.comps_of_live h2 hnf ha hin).2 c hs
    | false =>
      rw [hs] at hc
      simp at hc
      exact hreg c hc.2
  obtain ⟨t, a, w1, hok, fc, hI1, hsame⟩ := h.sinv.foc_nil_spec h.idx h.noRelKinds hrel0 hregM
  have hu := findOrCreateTableAdd_untouched hok
  have hlen1 := findOrCreateTableAdd_tables_len hok
  have hfoc : findOrCreateTable oldT (w.maskOf e) add rem [] w =
      .ok (t, a, add.foldl Mask.set (rem.foldl Mask.clear (w.maskOf e)), false) w1 := by
    rw [findOrCreateTable_eq_add oldT _ _ add rem w hg hrel0, hok]
  have hneT : t ≠ oldT := by
    apply fc.ne_old h.sinv holdlt
    rw [← hm]
    intro heq
    have hgc := fun c => congrArg (fun m => Mask.get m c) heq
    simp only [hget] at hgc
    cases add with
    | cons c rest =>
      have := hgc c
      rw [hnew c List.mem_cons_self] at this
      simp [hb256 c List.mem_cons_self] at this
    | nil =>
      cases rem with
      | nil => exact hne ⟨rfl, rfl⟩
      | cons c rest =>
        have := hgc c
        rw [hpres c List.mem_cons_self] at this
        simp at this
  obtain ⟨mp, _⟩ := h.move_spec he ht fc hu hsame hneT hlen1 hfew hrows
  have hfoc' := hfoc
  rw [hm] at hfoc'
  have hcore := exchangeCore_eq run e add rem w hl ha hne hix hfoc' (by rw [hu.obs]; exact h.noObs)
  rw [← hm] at hcore
  have heq := opExchange_eq run p e add vals rem w ha hcore mp.cinv.noObs
  rw [heq] at hop
  injection hop with _ hw
  subst hw
  have hk := findOrCreateTableAdd_keeps hok
  have hb : (w1.tbl t).len + 1 < 2 ^ 32 := by
    rcases Nat.lt_or_ge t w.tables.length with h1 | h1
    · have : w1.tbl t = w.tbl t := by
        simp only [tbl, List.getD_eq_getElem?_getD, hsame t h1]
      rw [this]; exact hrows t
    · rw [fc.newEmpty h1]; decide
  have ha1 : w1.alive e = true := by simp only [World.alive, fc.pool]; exact ha
  have he1 : w1.entities[e.id]? = some (oldT, row) := by rw [fc.entities]; exact he
  have hold1 : oldT < w1.tables.length := Nat.lt_of_lt_of_le holdlt fc.tablesLen
  have hel1 : e.id < w1.entities.length := (List.getElem?_eq_some_iff.mp he1).1
  have hne' : oldT ≠ t := Ne.symm hneT
  refine ⟨?_, ?_, ?_, ?_, ?_⟩
  · exact ((X.cidx.findOrCreateTableAdd hok).of_frame (addMove_ciFrame _ _ _ _ _ _)).of_frame
      (writeValsW_ciFrame _ _ _)
  · exact ((X.rows.lookup hk).moved hI1 _ ha1 he1 ht hne' fc.tblLt hb).writeVals _ _
  · show (addMove w1 e oldT row t
      (add.foldl Mask.set (rem.foldl Mask.clear (w.maskOf e)))).locks = {}
    rw [(addMove_fields _ _ _ _ _ _).2.2.2.locks, hu.locks]; exact X.locks
  · refine ((fc.rinv X.rinv).of_targets
      (w' := addMove w1 e oldT row t (add.foldl Mask.set (rem.foldl Mask.clear (w.maskOf e))))
      (addMove_fields _ _ _ _ _ _).2.2.1
      (addMove_targets w1 e oldT row t _ hne' fc.tblLt hold1 hel1)).of_targets rfl
      (writeValsW_targets _ _ _)
  · exact (findOrCreateTable_cacheEmpty.1 hok X.cache).of_eq (addMove_cache _ _ _ _ _ _)

namespace Table

theorem setCell_len_ents (T : Table) (col row : Nat) (v : Val) :
    (T.setCell col row v).len = T.len ∧ (T.setCell col row v).ents = T.ents := by
  simp only [setCell]
  split <;> exact ⟨rfl, rfl⟩

/-- the copy loop of `CopyEntity` writes component cells only -/
theorem copyFold_len_ents (row idx : Nat) : ∀ (l : List Nat) (T : Table),
    (l.foldl (fun T i => T.setCell i idx (T.cell i row)) T).len = T.len ∧
    (l.foldl (fun T i => T.setCell i idx (T.cell i row)) T).ents = T.ents ∧
    (l.foldl (fun T i => T.setCell i idx (T.cell i row)) T).targets = T.targets
  | [], _ => ⟨rfl, rfl, rfl⟩
  | i :: l, T => by
    rw [List.foldl_cons]
    obtain ⟨h1, h2, h3⟩ := copyFold_len_ents row idx l (T.setCell i idx (T.cell i row))
    obtain ⟨g1, g2⟩ := setCell_len_ents T i idx (T.cell i row)
    exact ⟨h1.trans g1, h2.trans g2, h3.trans (setCell_sameMeta T i idx _).targets⟩

end Table

/-- the copy loop keeps `RowsAlive` -/
theorem RowsAlive.copied {w : World} (h : RowsAlive w) (t row idx : Nat) :
    RowsAlive (copiedW w t row idx) := by
  apply rowsAlive_of_tbl
  intro t' r hr
  have hp : (copiedW w t row idx).alive = w.alive := rfl
  rw [hp]
  simp only [copiedW, modTbl_tbl] at hr ⊢
  split at hr
  · rename_i hc
    rw [if_pos hc]
    obtain ⟨rfl, _⟩ := hc
    obtain ⟨h1, h2, _⟩ := Table.copyFold_len_ents row idx (List.range (w.tbl t').ids.length) (w.tbl t')
    rw [h1] at hr
    simp only [Table.getEntity, h2]
    exact h.tbl hr
  · rename_i hc
    rw [if_neg hc]
    exact h.tbl hr

theorem World.copiedW_targets (w : World) (t row idx : Nat) (t' : Nat) :
    ((copiedW w t row idx).tbl t').targets = (w.tbl t').targets := by
  simp only [copiedW, modTbl_tbl]
  split
  · rename_i hc; rw [hc.1]
    exact (Table.copyFold_len_ents row idx _ _).2.2
  · rfl

/-- `CopyEntity` (Op `copy`), hypotheses of `opCopyEntity_spec` -/
theorem XInv.opCopyEntity (run : ProbeRunner) {w : World} {fl : List Nat} (h : CInv w fl)
    (X : XInv w) (hl : w.isLocked = false) {src : Ent} (h2 : 2 ≤ src.id) (hnf : src.id ∉ fl)
    (ha : w.alive src = true) (hin : src.id < w.pool.ents.length)
    (hrows : ∀ t : Nat, (w.tbl t).len + 1 < 2 ^ 32)
    {e : Ent} {w' : World} (hop : opCopyEntity run src w = .ok e w') : XInv w' := by
  obtain ⟨t, row, he, ht, _⟩ := h.live_entry h2 hnf ha hin
  obtain ⟨hTt, _, _⟩ := h.idx.indexed he ht
  have hlt := lt_of_get hTt
  rw [opCopyEntity_eq run w src hl ha (index_of_get he) h.noObs] at hop
  injection hop with _ hw
  subst hw
  refine ⟨?_, ?_, ?_, ?_, ?_⟩
  · exact (X.cidx.of_frame (placedW_ciFrame w t false)).of_frame (modTbl_ciFrame _ _ _)
  · exact (X.rows.placed h hlt false (hrows t)).copied _ _ _
  · show (placedW w t false).locks = {}
    rw [placedW_locks]; exact X.locks
  · exact (X.rinv.of_targets (w' := placedW w t false) (placedW_fields w t false).2.1
      (placedW_targets w t false)).of_targets rfl (copiedW_targets _ _ _ _)
  · exact X.cache.of_eq (placedW_cache w t false)

/-- `Shrink` (Op `shrink`), hypotheses of `opShrink_spec`: capacities change, nothing else a query
    looks at -/
theorem XInv.opShrink {w : World} {fl : List Nat} (h : CInv w fl) (X : XInv w)
    (hl : w.isLocked = false) (hrows : ∀ t : Nat, (w.tbl t).len + 1 < 2 ^ 32) (bounded : Bool)
    {b : Bool} {w' : World} (hop : opShrink bounded w = .ok b w') : XInv w' := by
  rw [opShrink_eq bounded w hl] at hop
  injection hop with _ hw
  subst hw
  have hb : RowsBounded w := fun t => by have := hrows t; omega
  obtain ⟨_, hrel⟩ := shrinkPure_rel h.idx hb bounded
  obtain ⟨hu, _⟩ := hrel.frame.untouched
  have hfr := hrel.frame
  obtain ⟨ts, as, c, hw⟩ := hfr
  refine ⟨?_, ?_, ?_, (shrinkPure_sinv h.sinv X.rinv bounded).2, ?_⟩
  · exact X.cidx.of_frame ⟨by rw [hw], by rw [hw], hrel.alen, fun a => (hrel.arch a).mask⟩
  · refine X.rows.lookup ⟨hrel.frame.pool, ?_⟩
    intro t r hr
    rw [(hrel.tbl t).len] at hr
    exact ⟨hr, (hrel.tbl t).ent r hr⟩
  · rw [hu.locks]; exact X.locks
  · refine ⟨by rw [hrel.cacheIdx]; exact X.cache.1, ?_⟩
    have hk := hrel.cacheKeys
    simp only [cacheKeys, X.cache.2, List.map_nil] at hk
    exact List.map_eq_nil_iff.mp hk

/-- `Reset` (Op `reset`), hypotheses of `opReset_spec`: every table is emptied (so `RowsAlive`
    holds trivially), archetypes and the component index survive, the lock and the (empty) filter
    cache are reset to what they were -/
theorem XInv.opReset {w : World} {fl : List Nat} (h : CInv w fl) (X : XInv w)
    (hl : w.isLocked = false) {w' : World} (hop : opReset w = .ok () w') : XInv w' := by
  obtain ⟨w2, hop2, post⟩ := opReset_spec h hl
  rw [opReset_eq w hl] at hop hop2
  injection hop with _ hw
  subst hw
  injection hop2 with _ hw2
  subst hw2
  have harchs := resetW_archetypes h.sinv
  refine ⟨?_, ?_, ?_, RInv.resetW h.sinv X.rinv, ?_⟩
  · refine X.cidx.of_frame ⟨?_, resetW_kinds w, by rw [harchs, List.length_map], ?_⟩
    · exact (resetW_proj (·.componentIndex) (fun _ _ _ => rfl) (fun _ _ _ => rfl)
        (fun _ _ => rfl) w).trans (by simp only [resetPre, cacheReset]; split <;> rfl)
    · intro a
      simp only [arch, harchs, List.getD_eq_getElem?_getD, List.getElem?_map]
      cases w.archetypes[a]? with
      | none => rfl
      | some A =>
        simp only [Option.map_some, Option.getD_some, resetArchOf]
        split <;> rfl
  · intro t T r hT hr
    have hlt := lt_of_get hT
    have := tbl_of_get hT
    subst this
    obtain ⟨g2, _, g3, _⟩ := post.cinv.row_live_id hlt hr
    rw [post.entitiesLen] at g3
    omega
  · rw [resetW_locks, X.locks]; rfl
  · have hc : (resetW w).cache = w.cache := by
      rw [resetW_cache]
      simp only [cacheReset, X.cache.1, List.isEmpty_nil, if_true]
    exact X.cache.of_eq hc

end Ark
