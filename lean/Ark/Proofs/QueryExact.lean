/-
  Ark.Proofs.QueryExact — property C03 at the level of ENTITY SETS (Layer A of the task): on a
  world satisfying the joint invariant `CInv w fl` of the non-relation, observer-free fragment,
  a complete iteration `World.drain fo []` of an uncached filter object visits exactly the
  alive entities whose archetype mask the filter matches, each once, and reports for every visit
  the row the entity index points to.

  Vocabulary.
  * `selTables w f as` — the tables the counting walk selects when it goes over the archetype
    list `as` and no archetype has a relation column (`qSelected_noRel`);
  * `ArchsOK w f as` — what the walked archetype list must satisfy: duplicate-free, only
    existing archetypes, and it contains every existing archetype the filter matches.  The list
    of all archetypes satisfies it (`ArchsOK.all`); for the rare-component list see
    `Ark.Proofs.CompIndex` (`CIdx`);
  * `TablesOK w f ts` — what the selected table list must satisfy (duplicate-free, existing
    tables of matching archetypes, every non-empty such table); `TablesOK.of_archs`;
  * `ExactVisits w fl f visits` — the entity-set statement (duplicate-freeness, soundness,
    completeness, data); `QueryExactOn` — that plus `Query()`, `Count`, `EntityAt`;
  * `LockCycle L l1 b l2` — `Lock()` on `L` hands out bit `b` (state `l1`), `Unlock(b)` then
    succeeds (state `l2`).  `LockCycle.of_linv` derives it from the lock invariant
    `Lock.LInv` when fewer than 64 bits are outstanding and shows that the 64-bit mask of `l2`
    is the mask of `L`.  **The lock state after a query is NOT the lock state before**: the
    bit pool of `lock.go` remembers the bit handed out (`length`, `next`, `available`
    change), see `lockCycle_default`, `lockAfterQuery_ne`.  So `drain` does not restore the world
    literally; it restores everything but `locks.pool` (`w.withLocks l2`).
  * The hypothesis `fo.rels = []` of the task is not needed: in the fragment no archetype has a
    relation column, so the relations of the filter object are never consulted.

  Main results: `exact_of_rows` (rows → entities), `drain_exact_of_selected` (generic in the
  opened query; used for the cached variant in `Ark.Proofs.QueryCached`),
  `drain_exact_of_archs` (generic in the archetype list), `drain_exact_untyped` (Layer A.1:
  `UnsafeFilter`, or a typed filter without type parameters).

  Kernel-only proofs, core Lean only.
-/
import Ark.Proofs.RefineCore
import Ark.Proofs.Drain
import Ark.Proofs.Lock

set_option autoImplicit false

namespace Ark
namespace QueryExact

open World Drain Ark.Props.C01World

/-! ## 0. list facts -/

/-- if one projection of a list is duplicate-free and a second projection determines the first,
    the second projection is duplicate-free too -/
theorem nodup_map_of_nodup_map {α β γ : Type} (l : List α) (f : α → β) (g : α → γ)
    (hf : (l.map f).Nodup) (h : ∀ a ∈ l, ∀ b ∈ l, g a = g b → f a = f b) : (l.map g).Nodup := by
  rw [List.Nodup, List.pairwise_map] at hf ⊢
  exact List.Pairwise.imp_of_mem (fun ha hb hab heq => hab (h _ ha _ hb heq)) hf

/-- two projections of one list, the second a function of the first -/
theorem map_pointwise {α β γ : Type} (l : List α) (f : α → β) (g : α → γ) (k : β → γ) (l2 : List β)
    (h1 : l.map f = l2) (h2 : l.map g = l2.map k) : ∀ a ∈ l, g a = k (f a) := by
  subst h1
  rw [List.map_map] at h2
  exact List.map_inj_left.mp h2

/-! ## 1. the counting walk in the relation-free fragment -/

/-- the tables the counting walk selects from the archetype list `as` when no archetype has a
    relation column: the first (only) table of every archetype whose mask the filter matches -/
def selTables (w : World) (f : Filter) (as : List Nat) : List Nat :=
  (as.filter fun a => f.matchesMask (w.arch a).mask).map
    fun a => (w.arch a).tables.tables.getD 0 0

theorem foldl_selA_noRel (w : World) (f : Filter) (rels : List RelID) :
    ∀ (as : List Nat) (acc : List Nat), (∀ a ∈ as, (w.arch a).hasRelations = false) →
      as.foldl (selA w f rels) (some acc) = some (acc ++ selTables w f as) := by
  intro as
  induction as with
  | nil => intro acc _; simp [selTables]
  | cons a rest ih =>
    intro acc h
    have ha := h a List.mem_cons_self
    have hrest : ∀ x ∈ rest, (w.arch x).hasRelations = false :=
      fun x hx => h x (List.mem_cons_of_mem _ hx)
    rw [List.foldl_cons]
    by_cases hm : f.matchesMask (w.arch a).mask = true
    · have : selA w f rels (some acc) a = some (acc ++ [(w.arch a).tables.tables.getD 0 0]) := by
        simp [selA, hm, ha]
      rw [this, ih _ hrest]
      simp [selTables, hm]
    · have hm' : f.matchesMask (w.arch a).mask = false := by simpa using hm
      have : selA w f rels (some acc) a = some acc := by simp [selA, hm']
      rw [this, ih _ hrest]
      simp [selTables, hm']

/-- **the counting walk of an uncached query in the relation-free fragment** -/
theorem qSelected_noRel (w : World) (q : QueryObj) (hc : q.cacheTables = none)
    (h : ∀ a ∈ w.archList q.rare, (w.arch a).hasRelations = false) :
    qSelected w q = some (selTables w q.filter (w.archList q.rare)) := by
  rw [qSelected_eq, hc]
  simpa using foldl_selA_noRel w q.filter q.rels _ [] h

theorem mem_selTables {w : World} {f : Filter} {as : List Nat} {t : Nat} :
    t ∈ selTables w f as ↔
      ∃ a ∈ as, f.matchesMask (w.arch a).mask = true ∧ t = (w.arch a).tables.tables.getD 0 0 := by
  simp only [selTables, List.mem_map, List.mem_filter]
  constructor
  · rintro ⟨a, ⟨h1, h2⟩, rfl⟩; exact ⟨a, h1, h2, rfl⟩
  · rintro ⟨a, h1, h2, rfl⟩; exact ⟨a, ⟨h1, h2⟩, rfl⟩

/-- what the archetype list a query walks must satisfy -/
structure ArchsOK (w : World) (f : Filter) (as : List Nat) : Prop where
  nodup : as.Nodup
  lt : ∀ a ∈ as, a < w.archetypes.length
  complete : ∀ a : Nat, a < w.archetypes.length → f.matchesMask (w.arch a).mask = true → a ∈ as

/-- the list of all archetypes (`UnsafeFilter`, filters without type parameters) -/
theorem ArchsOK.all (w : World) (f : Filter) : ArchsOK w f (w.archList none) where
  nodup := List.nodup_range
  lt := fun _ ha => List.mem_range.mp ha
  complete := fun _ ha _ => List.mem_range.mpr ha

/-! ## 2. archetypes and their one table under `CInv` -/

section
variable {w : World} {fl : List Nat}

/-- in the fragment every archetype has exactly one table, which exists and points back -/
theorem _root_.Ark.CInv.oneTable (h : CInv w fl) {a : Nat} (ha : a < w.archetypes.length) :
    ∃ t, (w.arch a).tables.tables = [t] ∧ t < w.tables.length ∧ (w.tbl t).arch = a := by
  have hA := aget_of_lt ha
  have hlen := h.sinv.settled a _ hA (h.noRelArch hA)
  obtain ⟨t, ht⟩ : ∃ t, (w.arch a).tables.tables = [t] := by
    cases hl : (w.arch a).tables.tables with
    | nil => rw [hl] at hlen; simp at hlen
    | cons x xs =>
      cases xs with
      | nil => exact ⟨x, rfl⟩
      | cons y ys => rw [hl] at hlen; simp at hlen
  obtain ⟨T, hT, hTa⟩ := h.sinv.owned a _ t hA (Or.inl (by rw [ht]; simp))
  exact ⟨t, ht, lt_of_get hT, by rw [tbl_of_get hT]; exact hTa⟩

/-- the table of an indexed entity is THE table of its archetype -/
theorem _root_.Ark.CInv.table_is_first (h : CInv w fl) {t : Nat} (ht : t < w.tables.length) :
    (w.tbl t).arch < w.archetypes.length ∧
    (w.arch (w.tbl t).arch).tables.tables.getD 0 0 = t := by
  have hT := get_of_lt ht
  obtain ⟨A, hA, _⟩ := h.sinv.tblArch t _ hT
  have ha := alt_of_get hA
  refine ⟨ha, ?_⟩
  obtain ⟨t0, ht0, _, _⟩ := h.oneTable ha
  obtain ⟨m1, m2⟩ := h.sinv.member t _ hT
  have hfree : (w.arch (w.tbl t).arch).freeTables = [] :=
    (h.sinv.nonRelLe _ _ (aget_of_lt ha) (h.noRelArch' ha)).2
  have hnf : (w.tbl t).isFree = false := by
    cases hf : (w.tbl t).isFree with
    | false => rfl
    | true => have := m2.mp hf; rw [hfree] at this; cases this
  have hmem := m1.mp hnf
  rw [ht0] at hmem ⊢
  simp only [List.mem_singleton] at hmem
  simp [hmem]

theorem selTables_nodup (h : CInv w fl) (f : Filter) {as : List Nat} (hnd : as.Nodup)
    (hlt : ∀ a ∈ as, a < w.archetypes.length) : (selTables w f as).Nodup := by
  unfold selTables
  rw [List.Nodup, List.pairwise_map]
  refine List.Pairwise.imp_of_mem ?_ (List.Pairwise.filter _ hnd)
  intro a b ha hb hab heq
  have ha' := hlt a (List.mem_filter.mp ha).1
  have hb' := hlt b (List.mem_filter.mp hb).1
  obtain ⟨ta, hta, _, hta2⟩ := h.oneTable ha'
  obtain ⟨tb, htb, _, htb2⟩ := h.oneTable hb'
  rw [hta, htb] at heq
  simp only [List.getD_cons_zero] at heq
  subst heq
  exact hab (hta2.symm.trans htb2)

end

/-! ## 3. the entity-set statement -/

/-- **what a complete query iteration over the world `w` with filter `f` must deliver**
    (`fl` is the ghost free list of the entity pool: the IDs `≥ 2` outside `fl` are the alive
    ones).  `nodup`: no ID twice; `sound`: every visit is an alive ID, at the row the entity
    index records for it, reporting the handle stored there, in a table whose archetype mask the
    filter matches; `complete`: every alive ID whose archetype mask matches is visited (at its
    row); `data`: random access through the index (`valOf`) reads the cell of the visited row. -/
structure ExactVisits (w : World) (fl : List Nat) (f : Filter) (visits : List Visit) : Prop where
  nodup : (visits.map (·.e.id)).Nodup
  sound : ∀ v ∈ visits, 2 ≤ v.e.id ∧ v.e.id ∉ fl ∧ w.entities[v.e.id]? = some (v.table, v.row) ∧
    v.table ≠ maxU32 ∧ v.table < w.tables.length ∧ v.row < (w.tbl v.table).len ∧
    v.e = (w.tbl v.table).getEntity v.row ∧
    f.matchesMask (w.arch (w.tbl v.table).arch).mask = true
  complete : ∀ i t r : Nat, 2 ≤ i → i ∉ fl → w.entities[i]? = some (t, r) → t ≠ maxU32 →
    f.matchesMask (w.arch (w.tbl t).arch).mask = true →
    ∃ v ∈ visits, v.e.id = i ∧ v.table = t ∧ v.row = r
  data : ∀ v ∈ visits, ∀ c : Comp, valOf w v.e.id c = (w.tbl v.table).getComp c v.row

theorem mem_rows {w : World} {ts : List Nat} {p : Nat × Nat} :
    p ∈ ts.flatMap (rowsOf w) ↔ p.1 ∈ ts ∧ p.2 < (w.tbl p.1).len := by
  simp only [List.mem_flatMap, rowsOf, List.mem_map, List.mem_range]
  constructor
  · rintro ⟨t, ht, r, hr, rfl⟩; exact ⟨ht, hr⟩
  · rintro ⟨h1, h2⟩; exact ⟨p.1, h1, p.2, h2, rfl⟩

/-- what the list of tables a query iterates over must satisfy (in the relation-free fragment):
    duplicate-free, only existing tables whose archetype mask the filter matches, and every
    NON-EMPTY such table (the cached walk skips empty tables, the uncached one lists them) -/
structure TablesOK (w : World) (f : Filter) (ts : List Nat) : Prop where
  nodup : ts.Nodup
  sound : ∀ t ∈ ts, t < w.tables.length ∧ f.matchesMask (w.arch (w.tbl t).arch).mask = true
  complete : ∀ t : Nat, t < w.tables.length → (w.tbl t).len ≠ 0 →
    f.matchesMask (w.arch (w.tbl t).arch).mask = true → t ∈ ts

/-- the tables the uncached walk selects from a good archetype list -/
theorem TablesOK.of_archs {w : World} {fl : List Nat} (h : CInv w fl) {f : Filter} {as : List Nat}
    (hok : ArchsOK w f as) : TablesOK w f (selTables w f as) where
  nodup := selTables_nodup h f hok.nodup hok.lt
  sound := by
    intro t ht
    obtain ⟨a, ha, hm, rfl⟩ := mem_selTables.mp ht
    obtain ⟨t0, ht0, hlt, harch⟩ := h.oneTable (hok.lt a ha)
    rw [ht0]
    simp only [List.getD_cons_zero]
    exact ⟨hlt, by rw [harch]; exact hm⟩
  complete := by
    intro t ht _ hmatch
    obtain ⟨f1, f2⟩ := h.table_is_first ht
    exact mem_selTables.mpr ⟨_, hok.complete _ f1 hmatch, hmatch, f2.symm⟩

/-- **from rows to entities**: a visit list that enumerates the rows of a good table list and
    reports the handles stored there is exact -/
theorem exact_of_rows {w : World} {fl : List Nat} (h : CInv w fl) (f : Filter) (ts : List Nat)
    (hok : TablesOK w f ts) (visits : List Visit)
    (h3 : visits.map (fun v => (v.table, v.row)) = ts.flatMap (rowsOf w))
    (h4 : visits.map (·.e) = (ts.flatMap (rowsOf w)).map
      (fun p => (w.tbl p.1).getEntity p.2)) :
    ExactVisits w fl f visits := by
  have hfew := h.fewTables
  -- facts about one visit
  have hv : ∀ v ∈ visits, v.table ∈ ts ∧ v.row < (w.tbl v.table).len ∧
      v.e = (w.tbl v.table).getEntity v.row := by
    intro v hvm
    have hm : (v.table, v.row) ∈ ts.flatMap (rowsOf w) := by
      rw [← h3]; exact List.mem_map.mpr ⟨v, hvm, rfl⟩
    obtain ⟨m1, m2⟩ := mem_rows.mp hm
    exact ⟨m1, m2, map_pointwise visits (fun v => (v.table, v.row)) (·.e)
      (fun p => (w.tbl p.1).getEntity p.2) _ h3 h4 v hvm⟩
  have hsound : ∀ v ∈ visits, 2 ≤ v.e.id ∧ v.e.id ∉ fl ∧
      w.entities[v.e.id]? = some (v.table, v.row) ∧
      v.table ≠ maxU32 ∧ v.table < w.tables.length ∧ v.row < (w.tbl v.table).len ∧
      v.e = (w.tbl v.table).getEntity v.row ∧
      f.matchesMask (w.arch (w.tbl v.table).arch).mask = true := by
    intro v hvm
    obtain ⟨v1, v2, v3⟩ := hv v hvm
    obtain ⟨s1, s2⟩ := hok.sound _ v1
    obtain ⟨r1, r2, _, r4⟩ := h.row_live_id s1 v2
    rw [← v3] at r1 r2 r4
    exact ⟨r1, r2, r4, by omega, s1, v2, v3, s2⟩
  refine ⟨?_, hsound, ?_, ?_⟩
  · -- no ID twice
    have hnd : (visits.map (fun v => (v.table, v.row))).Nodup := by
      rw [h3]; exact rows_nodup w _ hok.nodup
    refine nodup_map_of_nodup_map visits _ _ hnd ?_
    intro a ha b hb heq
    have ea := (hsound a ha).2.2.1
    have eb := (hsound b hb).2.2.1
    rw [show a.e.id = b.e.id from heq, eb] at ea
    exact (Option.some.inj ea).symm
  · intro i t r _ _ hi htm hmatch
    obtain ⟨e1, e2, e3, e4, _, _⟩ := h.table_of_entry hi htm
    have hts : t ∈ ts := hok.complete t e1 (by omega) hmatch
    have hm : (t, r) ∈ visits.map (fun v => (v.table, v.row)) := by
      rw [h3]; exact mem_rows.mpr ⟨hts, e2⟩
    obtain ⟨v, hvm, hveq⟩ := List.mem_map.mp hm
    injection hveq with hvt hvr
    refine ⟨v, hvm, ?_, hvt, hvr⟩
    rw [(hv v hvm).2.2, hvt, hvr]; exact e3
  · intro v hvm c
    obtain ⟨_, _, s3, s4, s5, _⟩ := hsound v hvm
    simp only [valOf, s3, s4, if_false, get_of_lt s5, Option.bind_some]

/-! ## 4. the lock around a query -/

/-- `Lock()` on `L` hands out bit `b` and `Unlock(b)` then succeeds -/
structure LockCycle (L l1 : Lock) (b : Nat) (l2 : Lock) : Prop where
  lock : L.lock = some (l1, b)
  unlock : l1.unlock b = some l2

/-- the lock while the (only) query is open on a world whose lock was in its initial state -/
def lockDuringQuery : Lock := { pool := { length := 1 }, locks := 1#64 }

/-- the lock after a query on a world whose lock was in its initial state: the mask is zero
    again, the bit pool remembers that bit 0 was handed out and returned -/
def lockAfterQuery : Lock := { pool := { length := 1, available := 1 }, locks := 0#64 }

/-- on the initial lock state (the lock state of every world the history machine of
    `Ark.Refine` reaches): the bit pool remembers the bit, the mask is restored -/
theorem lockCycle_default : LockCycle {} lockDuringQuery 0 lockAfterQuery := by
  constructor <;> decide +kernel

theorem lockAfterQuery_ne : lockAfterQuery ≠ ({} : Lock) := by decide +kernel

theorem lockAfterQuery_unlocked : lockAfterQuery.isLocked = false := by decide +kernel

/-- a second query after the first: the same bit is handed out again and the lock returns to
    `lockAfterQuery` (so from the first query on the lock state is stable) -/
theorem lockCycle_again : LockCycle lockAfterQuery { pool := { length := 1 }, locks := 1#64 } 0 lockAfterQuery := by
  constructor <;> decide +kernel

/-- under the lock invariant with fewer than 64 outstanding bits a query's lock cycle goes
    through, and the 64-bit mask afterwards is the mask before -/
theorem LockCycle.of_linv {L : Lock} {out fl : List Nat} (g : Lock.LInv ⟨L, out⟩ fl)
    (h64 : out.length < 64) :
    ∃ l1 b l2 fl2, LockCycle L l1 b l2 ∧ l2.locks = L.locks ∧ Lock.LInv ⟨l2, out⟩ fl2 := by
  rcases Lock.lock_spec _ _ g with ⟨_, h⟩ | ⟨l1, b, hl, hb64, hbn, _, fl1, g1⟩
  · simp only at h; omega
  · rcases Lock.unlock_spec _ _ g1 b with ⟨_, hn⟩ | ⟨l2, hu, _, g2⟩
    · exact absurd List.mem_cons_self hn
    · have herase : (b :: out).erase b = out := by simp
      simp only [herase] at g2
      refine ⟨l1, b, l2, b :: fl1, ⟨hl, hu⟩, ?_, g2⟩
      apply BitVec.eq_of_getLsbD_eq
      intro i hi
      have h1 := g2.locks i hi
      have h2 := g.locks i hi
      simp only at h1 h2
      cases hx : l2.locks.getLsbD i with
      | true => exact (h2.mpr (h1.mp hx)).symm
      | false =>
        cases hy : L.locks.getLsbD i with
        | false => rfl
        | true => rw [h1.mpr (h2.mp hy)] at hx; cases hx

/-! ## 5. opening an uncached query -/

/-- the archetype list selector `Query()` computes: the rare component of a typed filter with
    type parameters, otherwise all archetypes -/
def rareOf (fo : FilterObj) (w : World) : Option Comp :=
  if (fo.typed && !fo.ids.isEmpty) = true then some (w.rareComponent fo.ids) else none

/-- the query object `Query()` returns for an unregistered filter, with lock bit `b` -/
def openedQ (fo : FilterObj) (w : World) (b : Nat) : QueryObj :=
  { filter := fo.filter, rels := fo.rels, cacheTables := none, rare := rareOf fo w, lockBit := b }

/-- `FilterN.Query()` / `UnsafeFilter.Query()` without per-call relations on an unregistered
    filter: no check can fail but the lock -/
theorem qOpen_uncached (fo : FilterObj) (w : World) (l1 : Lock) (b : Nat)
    (hc : fo.cache = none) (hl : w.locks.lock = some (l1, b)) :
    qOpen fo [] w = .ok (openedQ fo w b) { w with locks := l1 } := by
  have hpre : preCheckTyped fo.filter.mask [] w = .ok () w := rfl
  have heff : effRels fo [] = fo.rels := by simp [effRels, hc]
  unfold qOpen openedQ rareOf
  cases ht : fo.typed <;>
    simp [hc, hpre, heff, World.lock, hl, bind, M.bind, M.get, pure, M.pure]

/-! ## 6. the complete iteration -/

/-- the world with another lock state -/
def _root_.Ark.World.withLocks (w : World) (l : Lock) : World := { w with locks := l }

/-- everything C03 says about one query, on the world `w` before the query: the opened query
    `q` lives on the locked world `w1`; the iteration returns `visits` and leaves `w2`. -/
structure QueryExactOn (w : World) (fl : List Nat) (fo : FilterObj) (w1 : World) (q : QueryObj)
    (visits : List Visit) (w2 : World) : Prop where
  opened : qOpen fo [] w = .ok q w1
  drained : drain fo [] w = .ok visits w2
  exact : ExactVisits w fl fo.filter visits
  /-- `Count` equals the number of entities visited -/
  count : qCount w1 q = some visits.length
  /-- `EntityAt(i)` is the `i`-th visited entity … -/
  entityAt : ∀ (i : Nat) (hi : i < visits.length), qEntityAt w1 q i = some (some visits[i].e)
  /-- … and the out-of-bounds panic from `Count` on -/
  entityAtOut : ∀ i : Nat, visits.length ≤ i → qEntityAt w1 q i = some none

/-- **Layer A, generic in the opened query**: `Query()` returned `q` with lock bit `b` on the
    world `w` locked with `l1`; the counting walk of `q` selects a good table list.  Then `drain`
    visits exactly the matching alive entities, and changes nothing but the lock. -/
theorem drain_exact_of_selected {w : World} {fl : List Nat} (h : CInv w fl) (fo : FilterObj)
    {l1 l2 : Lock} {b : Nat} (hu : l1.unlock b = some l2) {q : QueryObj}
    (ho : qOpen fo [] w = .ok q (w.withLocks l1)) (hqb : q.lockBit = b) {ts : List Nat}
    (hsel : qSelected (w.withLocks l1) q = some ts) (hok : TablesOK w fo.filter ts) :
    ∃ visits, QueryExactOn w fl fo (w.withLocks l1) q visits (w.withLocks l2) := by
  obtain ⟨w1, hw1⟩ : ∃ w1 : World, w1 = w.withLocks l1 := ⟨_, rfl⟩
  rw [← hw1] at ho hsel ⊢
  have hrows : rowsOf w1 = rowsOf w := by rw [hw1]; rfl
  have hw2 : ({ w1 with locks := l2 } : World) = w.withLocks l2 := by rw [hw1]; rfl
  obtain ⟨visits, hd, h3, h4⟩ := drain_rows_monadic fo [] w w1 q _ l2 ho hsel hok.nodup
    (by rw [hqb, hw1]; exact hu)
  have hget : (fun p : Nat × Nat => (w1.tbl p.1).getEntity p.2) =
      (fun p : Nat × Nat => (w.tbl p.1).getEntity p.2) := by rw [hw1]; rfl
  rw [hrows] at h3 h4
  rw [hget] at h4
  rw [hw2] at hd
  have hexp : expected w1 q = some (ts.flatMap (rowsOf w)) := by
    simp [expected, hsel, hrows]
  have hlen : visits.length = (ts.flatMap (rowsOf w)).length := by
    rw [← h3, List.length_map]
  refine ⟨visits, ho, hd, exact_of_rows h fo.filter _ hok visits h3 h4, ?_, ?_, ?_⟩
  · simp only [qCount, hsel, Option.map_some]
    rw [hlen, flatMap_rowsOf_length, foldl_add_eq_sum, hw1]
    rfl
  · intro i hi
    have hi' : i < (ts.flatMap (rowsOf w)).length := by
      rw [← hlen]; exact hi
    rw [(entityAt_eq_visit w1 q _ i hexp).1 hi']
    have : visits[i].e = (visits.map (·.e))[i]'(by rw [List.length_map]; exact hi) := by
      rw [List.getElem_map]
    rw [this]
    simp only [h4, List.getElem_map]
    exact congrArg (fun x => some (some x)) (congrFun hget _)
  · intro i hi
    exact (entityAt_eq_visit w1 q _ i hexp).2 (by rw [← hlen]; exact hi)

/-- **Layer A, generic in the walked archetype list**: if the archetype list the query walks
    (`archList` of all archetypes, or of the rare component) is duplicate-free, consists of
    existing archetypes and contains every archetype the filter matches, `drain` visits exactly
    the matching alive entities, and changes nothing but the lock. -/
theorem drain_exact_of_archs {w : World} {fl : List Nat} (h : CInv w fl) (fo : FilterObj)
    (hc : fo.cache = none) {l1 l2 : Lock} {b : Nat} (hL : LockCycle w.locks l1 b l2)
    (hok : ArchsOK w fo.filter (w.archList (rareOf fo w))) :
    ∃ q visits, QueryExactOn w fl fo (w.withLocks l1) q visits (w.withLocks l2) := by
  have ho : qOpen fo [] w = .ok (openedQ fo w b) (w.withLocks l1) :=
    qOpen_uncached fo w l1 b hc hL.lock
  have hsel : qSelected (w.withLocks l1) (openedQ fo w b) =
      some (selTables w fo.filter (w.archList (rareOf fo w))) := by
    rw [qSelected_noRel (w.withLocks l1) (openedQ fo w b) rfl]
    · rfl
    · intro a ha
      exact h.noRelArch' (hok.lt a ha)
  obtain ⟨visits, Q⟩ := drain_exact_of_selected h fo hL.unlock ho rfl hsel (TablesOK.of_archs h hok)
  exact ⟨_, visits, Q⟩

/-- **Layer A.1 — the untyped walk** (`UnsafeFilter`, or a typed filter without type
    parameters): the query walks all archetypes. -/
theorem drain_exact_untyped {w : World} {fl : List Nat} (h : CInv w fl) (fo : FilterObj)
    (hc : fo.cache = none) (hu : fo.typed = false ∨ fo.ids = [])
    {l1 l2 : Lock} {b : Nat} (hL : LockCycle w.locks l1 b l2) :
    ∃ q visits, QueryExactOn w fl fo (w.withLocks l1) q visits (w.withLocks l2) := by
  apply drain_exact_of_archs h fo hc hL
  have : rareOf fo w = none := by
    rcases hu with hu | hu <;> simp [rareOf, hu]
  rw [this]
  exact ArchsOK.all w fo.filter

end QueryExact
end Ark
