/-
  Ark.Proofs.CallbacksOps — C08/C09 at world level, part 3: the single-entity operations with
  observers and a read-only callback runner.

  * Equations (`*_obs_eq`; no invariant of the world needed, only the observer setting `ObsOK`, a
    read-only runner and — for the removal operations — a lock that hands out a bit,
    `QueryExact.LockCycle`): each of `opAdd`, `opRemove` (`removeCore`), `opExchange`
    (`exchangeCore`), `opSet`, `opNewEntity`, `opNewEntity0`, `opRemoveEntity`, `opCopyEntity`,
    `opEmit` equals the pure state change the observer-free proofs use (`addMove`, `placedW`,
    `removeRowOf`, `writeValsW`, `copiedW`) with the log extended by
    `notifyAll rec e (firing …) seen`, where `seen` is the world at the moment of the dispatch:
    AFTER the change for creation / addition / set (`seenAfter`: with the typed paths the values
    already written, with `Unsafe` not yet), BEFORE the row is moved or removed and with the lock
    held for the removals (`w1.withLocks l1`).
  * Under the joint invariant (`*_callbacks`; `CInvObs w fl`): the operation succeeds exactly as
    on `w.noObs`, and its result is the observer-free result (with everything
    Ark/Proofs/RefineCore.lean / RefineOps.lean prove about it: `AddPost`, `RemovePost`, …) with
    the observers of `w` put back, the log extended as above and — for the removals — the lock's
    bit pool after one `Lock()`/`Unlock()` cycle (`lockAfter`).
  * `Looked w fl w1` — what the table lookup of `Remove`/`Exchange` leaves: the removal callbacks
    see `w1`, in which the destination archetype/table may already exist (empty) and every entity
    is as in `w`.

  Kernel-only proofs, core Lean only.
-/
import Ark.Proofs.Callbacks
import Ark.Proofs.CallbacksFrame
import Ark.Proofs.QueryExact

set_option autoImplicit false

namespace Ark

open World Spec Ark.Props.C01World QueryExact

namespace World

/-- the world the callbacks of `Add` / `NewEntity` / `Exchange` (addition part) see, given the
    world `w1` after the structural change: with the typed paths (`Map`, `MapN`) the values are
    already written, with `Unsafe` they are not (the caller writes them after the call) -/
def seenAfter (p : Path) (w1 : World) (e : Ent) (vals : List (Comp × Val)) : World :=
  if p = .unsafe_ then w1 else writeValsW w1 e vals

theorem seenAfter_obs (p : Path) (w1 : World) (e : Ent) (vals : List (Comp × Val)) :
    (seenAfter p w1 e vals).obs = w1.obs := by
  unfold seenAfter; split <;> rfl

theorem writeValsW_addLog (w : World) (e : Ent) (vals : List (Comp × Val)) (lg : List LogEv) :
    writeValsW (w.addLog lg) e vals = (writeValsW w e vals).addLog lg := rfl

end World

section Ops

variable {run : ProbeRunner} {S : Probe → Prop} {rec : World → Nat → Ent → Probe → List LogEv}

/-- **`Add` with observers** (equation): `World.add`, the writes of the typed paths, then the
    `OnAddComponents` observers the documented rule selects are notified on the world `seenAfter`
    (after the change), then the writes of the `Unsafe` path. -/
theorem opAdd_obs_eq (hro : ReadOnly run S rec) (p : Path) (e : Ent) (ids : List Comp)
    (vals : List (Comp × Val)) (w : World) (hs : ScriptsIn w.obs S) (hok : ObsOK w.obs)
    (ha : w.alive e = true) {old new : Mask} {w1 : World}
    (hcore : addCore e ids [] w = .ok (old, new) w1) :
    opAdd run p e ids vals [] w = .ok () ((writeValsW w1 e vals).addLog
      (notifyAll rec e (firing w.obs Ev.onAddComponents (.add old new)) (seenAfter p w1 e vals))) := by
  have hobs : w1.obs = w.obs := by
    have := ((framesOL_addCore e ids []).state_frame w).1
    rw [hcore] at this; exact this
  have hs1 : ScriptsIn w1.obs S := by rw [hobs]; exact hs
  have hok1 : ObsOK w1.obs := by rw [hobs]; exact hok
  have hfire : ∀ (x : World), x.obs = w1.obs →
      fireAddIfHas run Ev.onAddComponents e old new x = .ok () (x.addLog
        (notifyAll rec e (firing w.obs Ev.onAddComponents (.add old new)) x)) := by
    intro x hx
    rw [fireAddIfHas_readOnly hro x (by rw [hx]; exact hs1) (by rw [hx]; exact hok1) _ (by decide),
      hx, hobs]
  cases p <;>
  simp [opAdd, preCheck_nil, bind, M.bind, M.get, M.assert, ha,
    hcore, writeVals_eq, hfire w1 rfl, hfire (writeValsW w1 e vals) rfl, seenAfter,
    writeValsW_addLog, pure, M.pure]

/-! ### the lock around removal callbacks -/

theorem lock_of_cycle {w : World} {l1 l2 : Lock} {b : Nat} (hL : LockCycle w.locks l1 b l2) :
    World.lock w = .ok b (w.withLocks l1) := by
  simp only [World.lock, hL.lock]; rfl

theorem unlock_of_cycle {w : World} {L l1 l2 : Lock} {b : Nat} (hL : LockCycle L l1 b l2)
    (hw : w.locks = l1) : World.unlock b w = .ok () (w.withLocks l2) := by
  simp only [World.unlock, hw, hL.unlock]; rfl

/-- the lock is held between `Lock()` and `Unlock()` -/
theorem LockCycle.locked {L l1 l2 : Lock} {b : Nat} (hL : LockCycle L l1 b l2) :
    l1.isLocked = true := by
  have h := hL.unlock
  simp only [Lock.unlock] at h
  split at h
  · rename_i hb
    simp only [Lock.isLocked, bne_iff_ne, ne_eq]
    intro h0
    rw [h0] at hb
    simp at hb
  · cases h

/-- the part of `storage.RemoveEntity` after the events (verbatim) -/
def removeEntityTail (e : Ent) (t row : Nat) : W Unit := do
  M.modify fun w =>
    let (T', swapped) := (w.tbl t).remove row
    let w := w.setTbl t T'
    let w := { w with pool := w.pool.recycle e }
    let w := if swapped then
        let se := T'.getEntity row
        { w with entities := w.entities.modify se.id fun (tt, _) => (tt, row) }
      else w
    { w with entities := w.entities.modify e.id fun (_, r) => (maxU32, r) }
  let w ← M.get
  if w.isTarget.getD e.id false then
    cleanupArchetypes e
    M.modify fun w => { w with isTarget := w.isTarget.set e.id false }

theorem removeEntityTail_eq (e : Ent) (t row : Nat) (X : World)
    (hnt : X.isTarget.getD e.id false = false) :
    removeEntityTail e t row X = .ok () (removeRowOf X e t row) := by
  cases hsw : ((X.tbl t).remove row).2 <;>
  simp only [removeEntityTail, bind, M.bind, M.get, M.modify, hsw, removeRowOf, setTbl, hnt,
    Bool.false_eq_true, if_false, if_true, pure, M.pure]

/-- `storage.RemoveEntity` after its checks, for an entity without relation components
    (`T.hasRelations = false`): the event block, then the removal -/
def removeEntityBody (run : ProbeRunner) (e : Ent) (mask : Mask) (t row : Nat) : W Unit := do
  let w ← M.get
  if w.obs.hasObservers Ev.onRemoveEntity then
    let l ← lock
    let _ ← fireRemoveEntity run e mask true
    unlock l
  removeEntityTail e t row

theorem opRemoveEntity_split (run : ProbeRunner) (w : World) (e : Ent) (hl : w.isLocked = false)
    (ha : w.alive e = true) {t row : Nat} (hix : w.index e.id = (t, row))
    (hrel : (w.tbl t).hasRelations = false) :
    opRemoveEntity run e w = removeEntityBody run e (w.arch (w.tbl t).arch).mask t row w := by
  cases hh : w.obs.hasObservers Ev.onRemoveEntity <;>
  simp only [opRemoveEntity, bind, M.bind, checkLocked_unlocked w hl, M.get, M.assert, ha, if_true,
    hix, hrel, hh, Bool.false_and, Bool.or_false, Bool.false_eq_true, if_false, removeEntityBody,
    removeEntityTail, pure]

/-- **`RemoveEntity` with observers** (equation, entity without relation components that is not
    a relation target): if `OnRemoveEntity` observers are registered the world is locked, the
    observers the documented rule selects are notified on the LOCKED, otherwise unchanged world
    `w.withLocks l1` (before the change), the lock is released, and then the row is removed. -/
theorem opRemoveEntity_obs_eq (hro : ReadOnly run S rec) (w : World) (e : Ent)
    (hs : ScriptsIn w.obs S) (hok : ObsOK w.obs) (hl : w.isLocked = false)
    (ha : w.alive e = true) {t row : Nat} (hix : w.index e.id = (t, row))
    (hrel : (w.tbl t).hasRelations = false) (hnt : w.isTarget.getD e.id false = false)
    {l1 l2 : Lock} {b : Nat} (hL : LockCycle w.locks l1 b l2) :
    opRemoveEntity run e w = .ok ()
      ((removeRowOf w e t row).reframe w.obs
        (notifyAll rec e (firing w.obs Ev.onRemoveEntity (.entity (w.arch (w.tbl t).arch).mask))
          (w.withLocks l1) ++ w.log)
        (if w.obs.hasObservers Ev.onRemoveEntity then l2 else w.locks)) := by
  rw [opRemoveEntity_split run w e hl ha hix hrel]
  cases hh : w.obs.hasObservers Ev.onRemoveEntity with
  | false =>
    rw [firing_nil_of_no_observers (hok.agg _) hh]
    simp only [removeEntityBody, bind, M.bind, M.get, hh, Bool.false_eq_true, if_false,
      removeEntityTail_eq e t row w hnt, notifyAll, List.nil_append]
    rw [← removeRowOf_reframe, reframe_self]
  | true =>
    have hfire := fireRemoveEntity_readOnly hro (w.withLocks l1) hs hok e
      (w.arch (w.tbl t).arch).mask true
    have hun : ∀ lg, World.unlock b ((w.withLocks l1).addLog lg)
        = .ok () (((w.withLocks l1).addLog lg).withLocks l2) :=
      fun lg => unlock_of_cycle hL rfl
    simp only [removeEntityBody, bind, M.bind, M.get, hh, if_true, lock_of_cycle hL, hfire, hun]
    rw [removeEntityTail_eq e t row (((w.withLocks l1).addLog _).withLocks l2) hnt]
    exact congrArg (Res.ok ()) (removeRowOf_reframe w e t row _ _ _)

/-- the lock state after the event block of a removal: one `Lock()`/`Unlock()` cycle if there
    are observers of the event type, untouched otherwise -/
def lockAfter (w : World) (evt : Nat) (l2 : Lock) : Lock :=
  if w.obs.hasObservers evt then l2 else w.locks

/-- **`World.remove` with observers** (equation, no relation removed): after the table lookup
    (`w1`; it may have created the destination archetype and table), if `OnRemoveComponents`
    observers are registered, the world is locked, the observers the documented rule selects are
    notified on the locked world `w1.withLocks l1` — the entity still in its old row — the lock is
    released, and then the row is moved. -/
theorem removeCore_obs_eq (hro : ReadOnly run S rec) (e : Ent) (rem : List Comp) (w : World)
    (hs : ScriptsIn w.obs S) (hok : ObsOK w.obs)
    (hl : w.isLocked = false) (ha : w.alive e = true) (hne : rem ≠ []) {oldT row : Nat}
    (hix : w.index e.id = (oldT, row)) {t a : Nat} {m : Mask} {w1 : World}
    (hfoc : findOrCreateTableRemove oldT (w.arch (w.tbl oldT).arch).mask rem w = .ok (t, a, m, false) w1)
    {l1 l2 : Lock} {b : Nat} (hL : LockCycle w.locks l1 b l2) :
    removeCore run e rem w = .ok ()
      ((addMove w1 e oldT row t m).reframe w.obs
        (notifyAll rec e
          (firing w.obs Ev.onRemoveComponents (.remove (w.arch (w.tbl oldT).arch).mask m))
          (w1.withLocks l1) ++ w.log)
        (lockAfter w Ev.onRemoveComponents l2)) := by
  have hemp : rem.isEmpty = false := by
    cases rem with
    | nil => exact absurd rfl hne
    | cons _ _ => rfl
  obtain ⟨hobs, hlog, hlocks⟩ : w1.obs = w.obs ∧ w1.log = w.log ∧ w1.locks = w.locks := by
    have := (frames_findOrCreateTableRemove oldT (w.arch (w.tbl oldT).arch).mask rem).state_frame w
    rw [hfoc] at this; exact this
  have hL1 : LockCycle w1.locks l1 b l2 := by rw [hlocks]; exact hL
  have hs1 : ScriptsIn w1.obs S := by rw [hobs]; exact hs
  have hok1 : ObsOK w1.obs := by rw [hobs]; exact hok
  unfold lockAfter
  cases hh : w.obs.hasObservers Ev.onRemoveComponents with
  | false =>
    have hh1 : w1.obs.hasObservers Ev.onRemoveComponents = false := by rw [hobs]; exact hh
    rw [firing_nil_of_no_observers (hok.agg _) hh]
    simp only [removeCore, bind, M.bind, checkLocked_unlocked w hl, M.get, M.assert, ha, if_true, hemp,
      Bool.not_false, hix, hfoc, hh1, Bool.false_and, Bool.or_false, Bool.false_eq_true, if_false,
      moveRow_eq, notifyAll, List.nil_append]
    show Res.ok () (addMove w1 e oldT row t m) = _
    rw [← hobs, ← hlog, ← hlocks, ← addMove_reframe, reframe_self]
  | true =>
    have hh1 : w1.obs.hasObservers Ev.onRemoveComponents = true := by rw [hobs]; exact hh
    have hfire := fireRemove_readOnly hro (w1.withLocks l1) hs1 hok1 Ev.onRemoveComponents
      (by decide) e (w.arch (w.tbl oldT).arch).mask m true
    have hun : ∀ lg, World.unlock b ((w1.withLocks l1).addLog lg)
        = .ok () (((w1.withLocks l1).addLog lg).withLocks l2) :=
      fun lg => unlock_of_cycle hL1 rfl
    simp only [removeCore, bind, M.bind, checkLocked_unlocked w hl, M.get, M.assert, ha, if_true, hemp,
      Bool.not_false, hix, hfoc, hh1, Bool.false_and, Bool.or_false, Bool.false_eq_true, if_false,
      lock_of_cycle hL1, hfire, hun, moveRow_eq]
    show Res.ok () (addMove (((w1.withLocks l1).addLog _).withLocks l2) e oldT row t m) = _
    rw [← hobs, ← hlog]
    exact congrArg (Res.ok ()) (addMove_reframe w1 e oldT row t m _ _ _)

/-- `Remove` through any path is `World.remove` (after the `Alive` check of the untyped paths) -/
theorem opRemove_obs_eq (hro : ReadOnly run S rec) (p : Path) (e : Ent) (rem : List Comp) (w : World)
    (hs : ScriptsIn w.obs S) (hok : ObsOK w.obs)
    (hl : w.isLocked = false) (ha : w.alive e = true) (hne : rem ≠ []) {oldT row : Nat}
    (hix : w.index e.id = (oldT, row)) {t a : Nat} {m : Mask} {w1 : World}
    (hfoc : findOrCreateTableRemove oldT (w.arch (w.tbl oldT).arch).mask rem w = .ok (t, a, m, false) w1)
    {l1 l2 : Lock} {b : Nat} (hL : LockCycle w.locks l1 b l2) :
    opRemove run p e rem w = .ok ()
      ((addMove w1 e oldT row t m).reframe w.obs
        (notifyAll rec e
          (firing w.obs Ev.onRemoveComponents (.remove (w.arch (w.tbl oldT).arch).mask m))
          (w1.withLocks l1) ++ w.log)
        (lockAfter w Ev.onRemoveComponents l2)) := by
  rw [opRemove_eq run p e rem w ha]
  exact removeCore_obs_eq hro e rem w hs hok hl ha hne hix hfoc hL

/-- the lock state after the event block of `World.exchange` -/
def lockAfterX (w : World) (rem : List Comp) (l2 : Lock) : Lock :=
  if rem.isEmpty then w.locks else lockAfter w Ev.onRemoveComponents l2

/-- the observers notified by the removal part of `World.exchange`: none if nothing is removed -/
def firingX (w : World) (rem : List Comp) (old new : Mask) : List Nat :=
  if rem.isEmpty then [] else firing w.obs Ev.onRemoveComponents (.remove old new)

/-- **`World.exchange` with observers** (equation, no relation removed): as `World.remove`, the
    removal observers being notified only if `rem` is not empty, with the masks before and after
    the complete exchange. -/
theorem exchangeCore_obs_eq (hro : ReadOnly run S rec) (e : Ent) (add rem : List Comp) (w : World)
    (hs : ScriptsIn w.obs S) (hok : ObsOK w.obs)
    (hl : w.isLocked = false) (ha : w.alive e = true) (hne : ¬ (add = [] ∧ rem = []))
    {oldT row : Nat} (hix : w.index e.id = (oldT, row)) {t a : Nat} {m : Mask} {w1 : World}
    (hfoc : findOrCreateTable oldT (w.arch (w.tbl oldT).arch).mask add rem [] w
      = .ok (t, a, m, false) w1)
    {l1 l2 : Lock} {b : Nat} (hL : LockCycle w.locks l1 b l2) :
    exchangeCore run e add rem [] w =
      .ok ((w.arch (w.tbl oldT).arch).mask, ((addMove w1 e oldT row t m).arch a).mask)
        ((addMove w1 e oldT row t m).reframe w.obs
          (notifyAll rec e (firingX w rem (w.arch (w.tbl oldT).arch).mask m) (w1.withLocks l1)
            ++ w.log)
          (lockAfterX w rem l2)) := by
  have hemp : (add.isEmpty && rem.isEmpty) = false := by
    cases add with
    | nil =>
      cases rem with
      | nil => exact absurd ⟨rfl, rfl⟩ hne
      | cons _ _ => rfl
    | cons _ _ => rfl
  obtain ⟨hobs, hlog, hlocks⟩ : w1.obs = w.obs ∧ w1.log = w.log ∧ w1.locks = w.locks := by
    have := (frames_findOrCreateTable oldT (w.arch (w.tbl oldT).arch).mask add rem []).state_frame w
    rw [hfoc] at this; exact this
  have hL1 : LockCycle w1.locks l1 b l2 := by rw [hlocks]; exact hL
  have hs1 : ScriptsIn w1.obs S := by rw [hobs]; exact hs
  have hok1 : ObsOK w1.obs := by rw [hobs]; exact hok
  have hself : (addMove w1 e oldT row t m).reframe w.obs w.log w.locks = addMove w1 e oldT row t m := by
    rw [← hobs, ← hlog, ← hlocks, ← addMove_reframe, reframe_self]
  have harch : ∀ (o : ObsMgr) (lg : List LogEv) (lk : Lock),
      ((addMove (w1.reframe o lg lk) e oldT row t m).arch a).mask
        = ((addMove w1 e oldT row t m).arch a).mask := by
    intro o lg lk; rw [addMove_reframe]; rfl
  unfold lockAfterX firingX lockAfter
  cases hre : rem.isEmpty with
  | true =>
    have hae : add.isEmpty = false := by rw [hre, Bool.and_true] at hemp; exact hemp
    simp only [exchangeCore, bind, M.bind, checkLocked_unlocked w hl, M.get, M.assert, ha, if_true,
      hre, hae, Bool.not_false, Bool.not_true, hix, hfoc, Bool.and_true,
      Bool.false_eq_true, if_false, moveRow_eq, registerTargets, M.modify,
      List.foldl_nil, pure, M.pure, notifyAll, List.nil_append, hself]
    rfl
  | false =>
    cases hh : w.obs.hasObservers Ev.onRemoveComponents with
    | false =>
      have hh1 : w1.obs.hasObservers Ev.onRemoveComponents = false := by rw [hobs]; exact hh
      rw [firing_nil_of_no_observers (hok.agg _) hh]
      simp only [exchangeCore, bind, M.bind, checkLocked_unlocked w hl, M.get, M.assert, ha, if_true,
        hre, Bool.not_false, hix, hfoc, hh1, Bool.false_and, Bool.and_false, Bool.or_false,
        Bool.false_eq_true, if_false, moveRow_eq, registerTargets, M.modify, List.foldl_nil, pure,
        M.pure, notifyAll, List.nil_append, hself]
      rfl
    | true =>
      have hh1 : w1.obs.hasObservers Ev.onRemoveComponents = true := by rw [hobs]; exact hh
      have hfire := fireRemove_readOnly hro (w1.withLocks l1) hs1 hok1 Ev.onRemoveComponents
        (by decide) e (w.arch (w.tbl oldT).arch).mask m true
      have hun : ∀ lg, World.unlock b ((w1.withLocks l1).addLog lg)
          = .ok () (((w1.withLocks l1).addLog lg).withLocks l2) :=
        fun lg => unlock_of_cycle hL1 rfl
      simp only [exchangeCore, bind, M.bind, checkLocked_unlocked w hl, M.get, M.assert, ha, if_true,
        hre, Bool.not_false, hix, hfoc, hh1, Bool.false_and, Bool.and_false, Bool.or_false,
        Bool.false_eq_true, if_false, lock_of_cycle hL1, hfire, hun, moveRow_eq, registerTargets, M.modify,
        List.foldl_nil, pure, M.pure]
      show Res.ok (_, ((addMove (w1.reframe _ _ _) e oldT row t m).arch a).mask)
        (addMove (w1.reframe _ _ _) e oldT row t m) = _
      rw [harch, addMove_reframe, ← hobs, ← hlog]
      rfl

/-- the observers notified by the addition part of `Exchange`: the `Unsafe` path skips the event
    when nothing is added -/
def firingAddX (m : ObsMgr) (p : Path) (add : List Comp) (old new : Mask) : List Nat :=
  if p = .unsafe_ ∧ add = [] then [] else firing m Ev.onAddComponents (.add old new)

/-- **`Exchange` with observers** (equation), given `World.exchange`: the writes of the typed
    path, then the `OnAddComponents` observers on the world after the change. -/
theorem opExchange_obs_eq (hro : ReadOnly run S rec) (p : Path) (e : Ent) (add : List Comp)
    (vals : List (Comp × Val)) (rem : List Comp) (w : World) (ha : w.alive e = true)
    {old new : Mask} {w1 : World}
    (hcore : exchangeCore run e add rem [] w = .ok (old, new) w1)
    (hs1 : ScriptsIn w1.obs S) (hok1 : ObsOK w1.obs) :
    opExchange run p e add vals rem [] w = .ok () ((writeValsW w1 e vals).addLog
      (notifyAll rec e (firingAddX w1.obs p add old new) (seenAfter p w1 e vals))) := by
  have hfire : ∀ (x : World), x.obs = w1.obs →
      fireAddIfHas run Ev.onAddComponents e old new x = .ok () (x.addLog
        (notifyAll rec e (firing w1.obs Ev.onAddComponents (.add old new)) x)) := by
    intro x hx
    rw [fireAddIfHas_readOnly hro x (by rw [hx]; exact hs1) (by rw [hx]; exact hok1) _ (by decide),
      hx]
  unfold firingAddX
  cases p <;> cases add <;>
  simp [opExchange, preCheck, preCheckMap, preCheckTyped, M.forM', bind, M.bind, M.get, M.assert, ha,
    hcore, writeVals_eq, hfire w1 rfl, hfire (writeValsW w1 e vals) rfl, seenAfter,
    writeValsW_addLog, notifyAll, pure, M.pure]

/-- **`NewEntity(ids…)` with observers** (equation), given `World.newEntity`: the writes of the
    typed paths, then the `OnCreateEntity` observers on the world after the creation, then the
    writes of the `Unsafe` path. -/
theorem opNewEntity_obs_eq (hro : ReadOnly run S rec) (p : Path) (ids : List Comp)
    (vals : List (Comp × Val)) (w : World) (hs : ScriptsIn w.obs S) (hok : ObsOK w.obs)
    {e : Ent} {mask : Mask} {w1 : World}
    (hcore : newEntityCore ids [] w = .ok (e, mask) w1) :
    opNewEntity run p ids vals [] w = .ok e ((writeValsW w1 e vals).addLog
      (notifyAll rec e (firing w.obs Ev.onCreateEntity (.entity mask)) (seenAfter p w1 e vals))) := by
  have hobs : w1.obs = w.obs := by
    have := ((framesOL_newEntityCore ids []).state_frame w).1
    rw [hcore] at this; exact this
  have hfire : ∀ (x : World), x.obs = w1.obs →
      fireCreateEntityIfHas run e mask x = .ok () (x.addLog
        (notifyAll rec e (firing w.obs Ev.onCreateEntity (.entity mask)) x)) := by
    intro x hx
    rw [fireCreateEntityIfHas_readOnly hro x (by rw [hx, hobs]; exact hs) (by rw [hx, hobs]; exact hok),
      hx, hobs]
  cases p <;>
  simp [opNewEntity, preCheck, preCheckMap, preCheckTyped, M.forM', bind, M.bind, hcore,
    writeVals_eq, hfire w1 rfl, hfire (writeValsW w1 e vals) rfl, seenAfter, writeValsW_addLog, pure,
    M.pure]

/-- **`NewEntity()` with observers** (equation): the entity is placed into the root table, then
    the `OnCreateEntity` observers are notified on that world. -/
theorem opNewEntity0_obs_eq (hro : ReadOnly run S rec) (w : World) (hs : ScriptsIn w.obs S)
    (hok : ObsOK w.obs) (hl : w.isLocked = false) :
    opNewEntity0 run w = .ok (w.pool.get).2 ((placedW w 0 true).addLog
      (notifyAll rec (w.pool.get).2 (firing w.obs Ev.onCreateEntity (.entity (w.arch 0).mask))
        (placedW w 0 true))) := by
  have hobs := placedW_obs w 0 true
  have harch : (placedW w 0 true).arch 0 = w.arch 0 := by
    rw [placedW_flat]; rfl
  simp only [opNewEntity0, bind, M.bind, checkLocked_unlocked w hl, placeNew_eq, M.get,
    fireCreateEntityIfHas_readOnly hro (placedW w 0 true) (by rw [hobs]; exact hs)
      (by rw [hobs]; exact hok), pure, M.pure, hobs, harch]

/-- **`Set` with observers** (equation): the values are written, then the `OnSetComponents`
    observers are notified on that world, in the caller's lock state. -/
theorem opSet_obs_eq (hro : ReadOnly run S rec) (w : World) (hs : ScriptsIn w.obs S)
    (hok : ObsOK w.obs) (e : Ent) (ids : List Comp) (vals : List (Comp × Val))
    (ha : w.alive e = true)
    (hhas : (ids.all fun c => (w.tbl (w.index e.id).1).has c) = true) :
    opSet run e ids vals w = .ok () ((writeValsW w e vals).addLog
      (notifyAll rec e
        (firing w.obs Ev.onSetComponents (.set (Mask.ofList ids) ((writeValsW w e vals).maskOf e)))
        (writeValsW w e vals))) := by
  have hfire := fireSet_readOnly hro (writeValsW w e vals) hs hok Ev.onSetComponents (by decide) e
    (Mask.ofList ids) ((writeValsW w e vals).maskOf e) true
  cases hh : w.obs.hasObservers Ev.onSetComponents with
  | false =>
    have hh2 : (writeValsW w e vals).obs.hasObservers Ev.onSetComponents = false := hh
    rw [firing_nil_of_no_observers (hok.agg _) hh]
    simp only [opSet, bind, M.bind, M.get, M.assert, ha, if_true, hhas, writeVals_eq, hh2,
      Bool.false_eq_true, if_false, pure, M.pure, notifyAll, addLog_nil]
  | true =>
    have hh2 : (writeValsW w e vals).obs.hasObservers Ev.onSetComponents = true := hh
    simp only [opSet, bind, M.bind, M.get, M.assert, ha, if_true, hhas, writeVals_eq, hh2, hfire, pure,
      M.pure]
    rfl

/-- **`Event.Emit` with observers** (equation, for a custom event type, an alive entity — or the
    zero entity with no components — that has the event's components): the observers of the event
    type the documented rule selects are notified on the unchanged world. -/
theorem opEmit_obs_eq (hro : ReadOnly run S rec) (w : World) (hs : ScriptsIn w.obs S)
    (hok : ObsOK w.obs) (evt : Nat) (comps : List Comp) (e : Ent) (hevt : evt ≤ Ev.custom)
    (hent : if e.isZero then (Mask.ofList comps).isZero = true else w.alive e = true)
    (hcont : ((if e.isZero then (w.arch 0).mask else w.maskOf e).contains (Mask.ofList comps)) = true) :
    opEmit run evt comps e w = .ok () (w.addLog
      (notifyAll rec e
        (firing w.obs evt (.set (Mask.ofList comps) (if e.isZero then (w.arch 0).mask else w.maskOf e)))
        w)) := by
  have hev : evt ≠ Ev.onCreateEntity ∧ evt ≠ Ev.onRemoveEntity := by
    simp only [Ev.custom, Ev.onCreateEntity, Ev.onRemoveEntity] at hevt ⊢
    omega
  cases hh : w.obs.hasObservers evt with
  | false =>
    rw [firing_nil_of_no_observers (hok.agg _) hh]
    simp only [opEmit, bind, M.bind, M.assert, hevt, decide_true, if_true, M.get, hh, Bool.not_false,
      pure, M.pure, notifyAll, addLog_nil]
  | true =>
    cases hz : e.isZero with
    | true =>
      rw [hz] at hent hcont
      simp only [if_true] at hent hcont
      simp only [opEmit, bind, M.bind, M.assert, hevt, decide_true, if_true, M.get, hh, Bool.not_true,
        Bool.false_eq_true, if_false, hz, hent, hcont, pure, M.pure,
        fireSet_readOnly hro w hs hok evt hev]
    | false =>
      rw [hz] at hent hcont
      simp only [Bool.false_eq_true, if_false] at hent hcont
      simp only [opEmit, bind, M.bind, M.assert, hevt, decide_true, if_true, M.get, hh, Bool.not_true,
        Bool.false_eq_true, if_false, hz, hent, hcont, pure, M.pure,
        fireSet_readOnly hro w hs hok evt hev]

/-- **`CopyEntity` with observers** (equation, source without relation components): the copy is
    placed and filled, then the `OnCreateEntity` observers are notified on that world. -/
theorem opCopyEntity_obs_eq (hro : ReadOnly run S rec) (w : World) (hs : ScriptsIn w.obs S)
    (hok : ObsOK w.obs) (src : Ent) (hl : w.isLocked = false) (ha : w.alive src = true)
    {t row : Nat} (hix : w.index src.id = (t, row))
    (hrel : ((copiedW (placedW w t false) t row (w.tbl t).len).arch
      ((copiedW (placedW w t false) t row (w.tbl t).len).tbl t).arch).hasRelations = false) :
    opCopyEntity run src w = .ok (w.pool.get).2
      ((copiedW (placedW w t false) t row (w.tbl t).len).addLog
        (notifyAll rec (w.pool.get).2
          (firing w.obs Ev.onCreateEntity (.entity
            ((copiedW (placedW w t false) t row (w.tbl t).len).arch
              ((copiedW (placedW w t false) t row (w.tbl t).len).tbl t).arch).mask))
          (copiedW (placedW w t false) t row (w.tbl t).len))) := by
  have hobs : (copiedW (placedW w t false) t row (w.tbl t).len).obs = w.obs := placedW_obs w t false
  have hfire := fireCreateEntityIfHas_readOnly hro (copiedW (placedW w t false) t row (w.tbl t).len)
    (by rw [hobs]; exact hs) (by rw [hobs]; exact hok) (w.pool.get).2
    ((copiedW (placedW w t false) t row (w.tbl t).len).arch
      ((copiedW (placedW w t false) t row (w.tbl t).len).tbl t).arch).mask
  rw [hobs] at hfire
  simp only [copiedW] at hfire hrel ⊢
  simp only [opCopyEntity, bind, M.bind, checkLocked_unlocked w hl, M.get, M.assert, ha, if_true,
    hix, placeNew_eq, M.modify, hfire, hrel, Bool.false_eq_true, if_false, pure, M.pure]

/-! ## the operations under the joint invariant: callbacks + the observer-free result -/

/-- **`Add` with observers under the invariant** (C08 + C09 for `Add`).  `w1` is the world after
    `World.add` on the world without observers, `w0 = writeValsW w1 e vals` the result of the
    complete observer-free operation (with everything `addCore_spec` / `opAdd_spec` say about
    them).  With observers the operation succeeds as well; its result is `w0` with the observers
    of `w` and the log extended by the notifications of the `OnAddComponents` observers selected by
    the documented rule, each run on the world `seen` — the world after the structural change, with
    the values written for the typed paths and not yet written for `Unsafe`. -/
theorem opAdd_callbacks (hro : ReadOnly run S rec) (run0 : ProbeRunner) (p : Path) {w : World}
    {fl : List Nat} (hs : ScriptsIn w.obs S) (hok : ObsOK w.obs) (h : CInvObs w fl)
    (hl : w.isLocked = false) {e : Ent} (h2 : 2 ≤ e.id) (hnf : e.id ∉ fl) (ha : w.alive e = true)
    (hin : e.id < w.pool.ents.length) {add : List Comp} (hne : add ≠ []) (hnd : add.Nodup)
    (hreg : ∀ (c : Comp), c ∈ add → c < w.kinds.length)
    (hnew : ∀ (c : Comp), c ∈ add → (w.maskOf e).get c = false) (vals : List (Comp × Val))
    (hfew : w.tables.length < maxU32) (hrows : ∀ t : Nat, (w.tbl t).len + 1 < 2 ^ 32) :
    ∃ w1 : World,
      addCore e add [] w.noObs = .ok (w.maskOf e, add.foldl Mask.set (w.maskOf e)) w1 ∧
      AddPost w.noObs fl e add w1 ∧
      opAdd run0 p e add vals [] w.noObs = .ok () (writeValsW w1 e vals) ∧
      OpAddPost w.noObs fl e add vals (writeValsW w1 e vals) ∧
      opAdd run p e add vals [] w = .ok () ((writeValsW w1 e vals).relog w.obs
        (notifyAll rec e
          (firing w.obs Ev.onAddComponents (.add (w.maskOf e) (add.foldl Mask.set (w.maskOf e))))
          ((seenAfter p w1 e vals).relog w.obs w.log) ++ w.log)) := by
  obtain ⟨w1, hcore0, ap⟩ := addCore_spec h hl h2 hnf ha hin hne hnd hreg hnew hfew hrows
  obtain ⟨w0, hop0, oap⟩ := opAdd_spec run0 p h hl h2 hnf ha hin hne hnd hreg hnew vals hfew hrows
  have hw0 : w0 = writeValsW w1 e vals := by
    have := opAdd_eq run0 p e add vals w.noObs ha hcore0 ap.cinv.noObs
    rw [hop0] at this
    injection this with _ h'
  subst hw0
  refine ⟨w1, hcore0, ap, hop0, oap, ?_⟩
  have hcore : addCore e add [] w = .ok (w.maskOf e, add.foldl Mask.set (w.maskOf e))
      (w1.relog w.obs w.log) := by
    have := framesOL_addCore e add [] w.noObs w.obs w.log
    rw [hcore0] at this
    exact this
  rw [opAdd_obs_eq hro p e add vals w hs hok ha hcore]
  congr 1
  unfold seenAfter
  split <;> rfl

/-- **`RemoveEntity` with observers under the invariant** (C08 + C09 for `RemoveEntity`).  `w0` is
    the result of the observer-free operation (with everything `opRemoveEntity_spec` says).  With
    observers the operation succeeds as well; its result is `w0` with the observers of `w`, the log
    extended by the notifications of the `OnRemoveEntity` observers selected by the documented rule
    — each run on `w.withLocks l1`: the world BEFORE the removal, locked — and the lock state after
    one `Lock()`/`Unlock()` cycle (if there are such observers at all). -/
theorem opRemoveEntity_callbacks (hro : ReadOnly run S rec) (run0 : ProbeRunner) {w : World}
    {fl : List Nat} (hs : ScriptsIn w.obs S) (hok : ObsOK w.obs) (h : CInvObs w fl)
    (hl : w.isLocked = false) {e : Ent} (h2 : 2 ≤ e.id) (hnf : e.id ∉ fl) (ha : w.alive e = true)
    (hin : e.id < w.pool.ents.length) {l1 l2 : Lock} {b : Nat} (hL : LockCycle w.locks l1 b l2) :
    ∃ w0 : World,
      opRemoveEntity run0 e w.noObs = .ok () w0 ∧ RemovedPost w.noObs fl e w0 ∧
      opRemoveEntity run e w = .ok () (w0.reframe w.obs
        (notifyAll rec e (firing w.obs Ev.onRemoveEntity (.entity (w.maskOf e))) (w.withLocks l1)
          ++ w.log)
        (if w.obs.hasObservers Ev.onRemoveEntity then l2 else w.locks)) := by
  obtain ⟨t, row, hix, rp⟩ := CInv.removed h h2 hnf ha hin
  have hix' : w.index e.id = (t, row) := hix
  have hop0 := opRemoveEntity_eq run0 w.noObs e hl ha hix h.noObs (h.noTargets _)
  refine ⟨_, hop0, rp, ?_⟩
  obtain ⟨t', row', he, ht, _⟩ := CInv.live_entry h h2 hnf ha hin
  have hix2 := index_of_get he
  rw [hix] at hix2
  obtain ⟨rfl, rfl⟩ := Prod.mk.inj hix2
  obtain ⟨hlt, _⟩ := CInv.table_of_entry h he ht
  have hrel : (w.tbl t).hasRelations = false := by
    have := CInv.relIDs_nil h hlt
    show (!(w.tbl t).relIDs.isEmpty) = false
    rw [show (w.tbl t).relIDs = [] from this]; rfl
  have hm : w.maskOf e = (w.arch (w.tbl t).arch).mask := by simp only [maskOf, hix']
  rw [opRemoveEntity_obs_eq hro w e hs hok hl ha hix' hrel (h.noTargets _) hL, hm]
  congr 1
  rw [noObs_eq_reframe, removeRowOf_reframe]
  rfl

/-- `w1` is `w` after the table lookup of an operation: the destination archetype and table
    exist (one of each may have been created, empty); the entity index, the pool, the registry,
    every row of every table that existed before — hence every entity — are as in `w`. -/
structure Looked (w : World) (fl : List Nat) (w1 : World) : Prop where
  cinv : CInv w1 fl
  entities : w1.entities = w.entities
  pool : w1.pool = w.pool
  kinds : w1.kinds = w.kinds
  untouched : Untouched w w1
  tables : ∀ (t : Nat), t < w.tables.length → w1.tables[t]? = w.tables[t]?
  tablesLen : w.tables.length ≤ w1.tables.length ∧ w1.tables.length ≤ w.tables.length + 1
  same : ∀ j : Nat, SameEnt w w1 j
  alive : ∀ x : Ent, w1.alive x = w.alive x
  /-- the archetypes that existed keep their masks -/
  masks : ∀ (a : Nat), a < w.archetypes.length → (w1.arch a).mask = (w.arch a).mask

theorem Looked.of_found {w w1 : World} {fl : List Nat} (h : CInv w fl) {mask : Mask} {t a : Nat}
    (fc : FoundOrCreated w w1 mask t a) (hu : Untouched w w1)
    (hsame : ∀ (t' : Nat), t' < w.tables.length → w1.tables[t']? = w.tables[t']?)
    (hlen1 : w1.tables.length ≤ w.tables.length + 1) (hfew : w.tables.length < maxU32) :
    Looked w fl w1 where
  cinv := h.transfer (fc.idx h.idx) fc.sinv fc.pool
    ⟨by rw [fc.entities], fun i => Or.inl (by rw [fc.entities])⟩ fc.kinds hu (by omega)
  entities := fc.entities
  pool := fc.pool
  kinds := fc.kinds
  untouched := hu
  tables := hsame
  tablesLen := ⟨fc.tablesLen, hlen1⟩
  same := same_of_prefix h.idx fc.entities hsame
  alive := fun x => by simp only [World.alive, fc.pool]
  masks := fc.masks

/-- **`Remove` with observers under the invariant** (C08 + C09 for `Remove`).  `w1` is the world
    without observers after the table lookup (every entity as before), `w0` the result of the
    observer-free operation.  With observers the operation succeeds as well; its result is `w0`
    with the observers of `w`, the log extended by the notifications of the `OnRemoveComponents`
    observers selected by the documented rule — each run on `w1` LOCKED, i.e. before the entity is
    moved — and the lock state after one `Lock()`/`Unlock()` cycle. -/
theorem opRemove_callbacks (hro : ReadOnly run S rec) (run0 : ProbeRunner) (p : Path) {w : World}
    {fl : List Nat} (hs : ScriptsIn w.obs S) (hok : ObsOK w.obs) (h : CInvObs w fl)
    (hl : w.isLocked = false) {e : Ent} (h2 : 2 ≤ e.id) (hnf : e.id ∉ fl) (ha : w.alive e = true)
    (hin : e.id < w.pool.ents.length) {rem : List Comp} (hne : rem ≠ []) (hnd : rem.Nodup)
    (hpres : ∀ (c : Comp), c ∈ rem → (w.maskOf e).get c = true)
    (hfew : w.tables.length < maxU32) (hrows : ∀ t : Nat, (w.tbl t).len + 1 < 2 ^ 32)
    {l1 l2 : Lock} {b : Nat} (hL : LockCycle w.locks l1 b l2) :
    ∃ w1 w0 : World, Looked w.noObs fl w1 ∧
      opRemove run0 p e rem w.noObs = .ok () w0 ∧ RemovePost w.noObs fl e rem w0 ∧
      opRemove run p e rem w = .ok () (w0.reframe w.obs
        (notifyAll rec e
          (firing w.obs Ev.onRemoveComponents
            (.remove (w.maskOf e) (rem.foldl Mask.clear (w.maskOf e))))
          (w1.reframe w.obs w.log l1) ++ w.log)
        (lockAfter w Ev.onRemoveComponents l2)) := by
  obtain ⟨oldT, row, he, ht, _⟩ := CInv.live_entry h h2 hnf ha hin
  have hix : w.index e.id = (oldT, row) := index_of_get he
  have hm : w.maskOf e = (w.arch (w.tbl oldT).arch).mask := by simp only [maskOf, hix]
  obtain ⟨holdlt, _, _, halt, _, _⟩ := CInv.table_of_entry h he ht
  obtain ⟨t, a, w1, hfoc0, fc, _, hu, hsame, hneT⟩ :=
    h.sinv.findOrCreateTableRemove_spec h.idx h.noRelKinds holdlt (startMask := w.maskOf e) hm
      hnd hpres
  have hlen1 : w1.tables.length ≤ w.tables.length + 1 := by
    have hrel0 : (w.noObs.tbl oldT).relIDs = [] := CInv.relIDs_nil h holdlt
    have hg := graphFindRemove_ok (w.maskOf e) rem w.noObs hpres hnd
    have hok' := hfoc0
    rw [findOrCreateTableRemove_eq_add oldT _ _ rem w.noObs hg hrel0] at hok'
    cases hadd : findOrCreateTableAdd oldT (rem.foldl Mask.clear (w.maskOf e)) [] [] w.noObs with
    | panic k s => rw [hadd] at hok'; cases hok'
    | ok r s =>
      rw [hadd] at hok'
      injection hok' with _ hs'
      subst hs'
      exact (findOrCreateTableAdd_tables_len hadd : _ ≤ w.noObs.tables.length + 1)
  have hlk : Looked w.noObs fl w1 := Looked.of_found h fc hu hsame hlen1 hfew
  obtain ⟨w0, hop0, rp⟩ := opRemove_spec run0 p h hl h2 hnf ha hin hne hnd hpres hfew hrows
  have hfoc0' : findOrCreateTableRemove oldT (w.noObs.arch (w.noObs.tbl oldT).arch).mask rem w.noObs
      = .ok (t, a, rem.foldl Mask.clear (w.maskOf e), false) w1 := by
    rw [← show w.maskOf e = (w.noObs.arch (w.noObs.tbl oldT).arch).mask from hm]; exact hfoc0
  have hw0 : w0 = addMove w1 e oldT row t (rem.foldl Mask.clear (w.maskOf e)) := by
    have h1 := removeCore_eq run0 e rem w.noObs hl ha hne hix hfoc0' (by rw [hu.obs]; exact h.noObs)
    rw [opRemove_eq run0 p e rem w.noObs ha, h1] at hop0
    injection hop0 with _ h'
    exact h'.symm
  refine ⟨w1, w0, hlk, hop0, rp, ?_⟩
  have hfoc : findOrCreateTableRemove oldT (w.arch (w.tbl oldT).arch).mask rem w
      = .ok (t, a, rem.foldl Mask.clear (w.maskOf e), false) (w1.reframe w.obs w.log w.locks) := by
    have := frames_findOrCreateTableRemove oldT (w.noObs.arch (w.noObs.tbl oldT).arch).mask rem
      w.noObs w.obs w.log w.locks
    rw [hfoc0'] at this
    exact this
  rw [opRemove_obs_eq hro p e rem w hs hok hl ha hne hix hfoc hL, hw0, ← hm, addMove_reframe]
  rfl

/-- **`Exchange` with observers under the invariant** (C08 + C09 for `Exchange`): the removal
    observers are notified on the locked world before the move (only if something is removed),
    the addition observers afterwards on the world `seenAfter` (the `Unsafe` path only if something
    is added). -/
theorem opExchange_callbacks (hro : ReadOnly run S rec) (run0 : ProbeRunner) (p : Path) {w : World}
    {fl : List Nat} (hs : ScriptsIn w.obs S) (hok : ObsOK w.obs) (h : CInvObs w fl)
    (hl : w.isLocked = false) {e : Ent} (h2 : 2 ≤ e.id) (hnf : e.id ∉ fl) (ha : w.alive e = true)
    (hin : e.id < w.pool.ents.length)
    {add rem : List Comp} (hne : ¬ (add = [] ∧ rem = [])) (hrnd : rem.Nodup)
    (hpres : ∀ (c : Comp), c ∈ rem → (w.maskOf e).get c = true) (hand : add.Nodup)
    (hreg : ∀ (c : Comp), c ∈ add → c < w.kinds.length)
    (hnew : ∀ (c : Comp), c ∈ add → (w.maskOf e).get c = false) (vals : List (Comp × Val))
    (hfew : w.tables.length < maxU32) (hrows : ∀ t : Nat, (w.tbl t).len + 1 < 2 ^ 32)
    {l1 l2 : Lock} {b : Nat} (hL : LockCycle w.locks l1 b l2) :
    ∃ w1 w2 : World, Looked w.noObs fl w1 ∧
      exchangeCore run0 e add rem [] w.noObs =
        .ok (w.maskOf e, add.foldl Mask.set (rem.foldl Mask.clear (w.maskOf e))) w2 ∧
      ExchangePost w.noObs fl e add rem w2 ∧
      opExchange run0 p e add vals rem [] w.noObs = .ok () (writeValsW w2 e vals) ∧
      OpExchangePost w.noObs fl e add rem vals (writeValsW w2 e vals) ∧
      opExchange run p e add vals rem [] w = .ok () ((writeValsW w2 e vals).reframe w.obs
        (notifyAll rec e
            (firingAddX w.obs p add (w.maskOf e)
              (add.foldl Mask.set (rem.foldl Mask.clear (w.maskOf e))))
            ((seenAfter p w2 e vals).reframe w.obs
              (notifyAll rec e
                (firingX w rem (w.maskOf e) (add.foldl Mask.set (rem.foldl Mask.clear (w.maskOf e))))
                (w1.reframe w.obs w.log l1) ++ w.log)
              (lockAfterX w rem l2)) ++
          (notifyAll rec e
            (firingX w rem (w.maskOf e) (add.foldl Mask.set (rem.foldl Mask.clear (w.maskOf e))))
            (w1.reframe w.obs w.log l1) ++ w.log))
        (lockAfterX w rem l2)) := by
  obtain ⟨oldT, row, he, ht, _⟩ := CInv.live_entry h h2 hnf ha hin
  have hix : w.index e.id = (oldT, row) := index_of_get he
  have hm : w.maskOf e = (w.arch (w.tbl oldT).arch).mask := by simp only [maskOf, hix]
  obtain ⟨holdlt, _, _, halt, _, _⟩ := CInv.table_of_entry h he ht
  have hb256 : ∀ (c : Comp), c ∈ add → c < 256 := fun c hc => CInv.reg_lt_256 h (hreg c hc)
  have hrel0 : (w.noObs.tbl oldT).relIDs = [] := CInv.relIDs_nil h holdlt
  have hg := graphFind_ok (w.maskOf e) add rem w.noObs hb256 hrnd hpres hand hnew
  have hget : ∀ c : Nat, (add.foldl Mask.set (rem.foldl Mask.clear (w.maskOf e))).get c =
      (((w.maskOf e).get c && !decide (c ∈ rem)) || decide (c < 256) && decide (c ∈ add)) := by
    intro c; rw [Mask.get_ofList_foldl, Mask.get_foldl_clear]
  have hregM : ∀ c : Nat,
      (add.foldl Mask.set (rem.foldl Mask.clear (w.maskOf e))).get c = true →
        c < w.noObs.kinds.length := by
    intro c hc
    rw [hget] at hc
    cases hs' : (w.maskOf e).get c with
    | true => exact (CInv.comps_of_live h h2 hnf ha hin).2 c hs'
    | false =>
      rw [hs'] at hc
      simp at hc
      exact hreg c hc.2
  obtain ⟨t, a, w1, hok1, fc, _, hsame⟩ := h.sinv.foc_nil_spec h.idx h.noRelKinds hrel0 hregM
  have hu := findOrCreateTableAdd_untouched hok1
  have hlen1 := findOrCreateTableAdd_tables_len hok1
  have hfoc0 : findOrCreateTable oldT (w.noObs.arch (w.noObs.tbl oldT).arch).mask add rem [] w.noObs =
      .ok (t, a, add.foldl Mask.set (rem.foldl Mask.clear (w.maskOf e)), false) w1 := by
    rw [← show w.maskOf e = (w.noObs.arch (w.noObs.tbl oldT).arch).mask from hm,
      findOrCreateTable_eq_add oldT _ _ add rem w.noObs hg hrel0, hok1]
  have hlk : Looked w.noObs fl w1 := Looked.of_found h fc hu hsame hlen1 hfew
  obtain ⟨w2, hcore0, ep⟩ :=
    exchangeCore_spec run0 h hl h2 hnf ha hin hne hrnd hpres hand hreg hnew hfew hrows
  obtain ⟨w0, hop0, oep⟩ :=
    opExchange_spec run0 p h hl h2 hnf ha hin hne hrnd hpres hand hreg hnew vals hfew hrows
  have hw0 : w0 = writeValsW w2 e vals := by
    have := opExchange_eq run0 p e add vals rem w.noObs ha hcore0 ep.cinv.noObs
    rw [hop0] at this
    injection this with _ h'
  subst hw0
  have hw2 : w2 = addMove w1 e oldT row t (add.foldl Mask.set (rem.foldl Mask.clear (w.maskOf e))) := by
    have h1 := exchangeCore_eq run0 e add rem w.noObs hl ha hne hix hfoc0
      (by rw [hu.obs]; exact h.noObs)
    rw [h1] at hcore0
    injection hcore0 with _ h'
    exact h'.symm
  refine ⟨w1, w2, hlk, hcore0, ep, hop0, oep, ?_⟩
  have hfoc : findOrCreateTable oldT (w.arch (w.tbl oldT).arch).mask add rem [] w
      = .ok (t, a, add.foldl Mask.set (rem.foldl Mask.clear (w.maskOf e)), false)
          (w1.reframe w.obs w.log w.locks) := by
    have := frames_findOrCreateTable oldT (w.noObs.arch (w.noObs.tbl oldT).arch).mask add rem []
      w.noObs w.obs w.log w.locks
    rw [hfoc0] at this
    exact this
  have hcore := exchangeCore_obs_eq hro e add rem w hs hok hl ha hne hix hfoc hL
  have hnew' : ((addMove (w1.reframe w.obs w.log w.locks) e oldT row t
      (add.foldl Mask.set (rem.foldl Mask.clear (w.maskOf e)))).arch a).mask
      = add.foldl Mask.set (rem.foldl Mask.clear (w.maskOf e)) := by
    have h1 := exchangeCore_eq run0 e add rem w.noObs hl ha hne hix hfoc0
      (by rw [hu.obs]; exact h.noObs)
    rw [hcore0] at h1
    injection h1 with h1 _
    have := (Prod.mk.inj h1).2
    rw [addMove_reframe]
    exact this.symm
  rw [hnew', addMove_reframe, ← hw2, ← hm] at hcore
  rw [opExchange_obs_eq hro p e add vals rem w ha hcore hs hok]
  congr 1
  unfold seenAfter
  split <;> rfl

theorem reframe_eq_self {X : World} {o : ObsMgr} {lg : List LogEv} {lk : Lock} (ho : X.obs = o)
    (hlg : X.log = lg) (hlk : X.locks = lk) : X.reframe o lg lk = X := by
  subst ho hlg hlk; rfl

theorem placedW_log (w : World) (t : Nat) (rt : Bool) : (placedW w t rt).log = w.log := by
  rw [placedW_flat]; rfl

/-- placing on the world without observers, then putting the frame back, is placing -/
theorem placedW_noObs (w : World) (t : Nat) (rt : Bool) :
    (placedW w.noObs t rt).reframe w.obs w.log w.locks = placedW w t rt := by
  rw [noObs_eq_reframe, placedW_reframe]
  exact reframe_eq_self (placedW_obs w t rt) (placedW_log w t rt) (placedW_locks w t rt)

theorem set_getD_self {α : Type} (l : List α) (i : Nat) (d : α) : l.set i (l.getD i d) = l := by
  induction l generalizing i with
  | nil => rfl
  | cons x xs ih =>
    cases i with
    | zero => rfl
    | succ n => simp only [List.set_cons_succ, List.getD_cons_succ, ih]

/-- writing no values changes nothing -/
theorem writeValsW_nil (w : World) (e : Ent) : writeValsW w e [] = w := by
  show ({ w with tables := w.tables.set (w.index e.id).1 (w.tables.getD (w.index e.id).1 default) }
    : World) = w
  rw [set_getD_self]

/-- **`NewEntity(ids…)` with observers under the invariant** (C08 + C09 for `NewEntity`): `w1` is
    the observer-free world after `World.newEntity` (the entity exists with zeroed components),
    `writeValsW w1 e vals` the complete observer-free result.  With observers: the same world, the
    log extended by the notifications of the `OnCreateEntity` observers selected by the documented
    rule for the mask of `ids`, each run on the world `seenAfter` (after the creation). -/
theorem opNewEntity_callbacks (hro : ReadOnly run S rec) (run0 : ProbeRunner) (p : Path) {w : World}
    {fl : List Nat} (hs : ScriptsIn w.obs S) (hok : ObsOK w.obs) (h : CInvObs w fl)
    (hl : w.isLocked = false) {ids : List Comp} (hnd : ids.Nodup)
    (hreg : ∀ (c : Comp), c ∈ ids → c < w.kinds.length) (vals : List (Comp × Val))
    (hfew : w.tables.length < maxU32) (hrows : ∀ t : Nat, (w.tbl t).len + 1 < 2 ^ 32) :
    ∃ w1 : World,
      newEntityCore ids [] w.noObs = .ok ((w.pool.get).2, Mask.ofList ids) w1 ∧
      NewPost w.noObs fl ids [] (w.pool.get).2 w1 ∧
      opNewEntity run0 p ids vals [] w.noObs = .ok (w.pool.get).2 (writeValsW w1 (w.pool.get).2 vals) ∧
      NewPost w.noObs fl ids vals (w.pool.get).2 (writeValsW w1 (w.pool.get).2 vals) ∧
      opNewEntity run p ids vals [] w = .ok (w.pool.get).2
        ((writeValsW w1 (w.pool.get).2 vals).relog w.obs
          (notifyAll rec (w.pool.get).2 (firing w.obs Ev.onCreateEntity (.entity (Mask.ofList ids)))
            ((seenAfter p w1 (w.pool.get).2 vals).relog w.obs w.log) ++ w.log)) := by
  obtain ⟨t, a, wf, hfoc, fc, _, _, _⟩ :=
    h.sinv.findOrCreateTableAdd_spec_new h.idx hnd hreg (fun c _ => h.noRelKinds c)
  have hu := findOrCreateTableAdd_untouched hfoc
  have hpool : wf.pool = w.pool := fc.pool
  have hcore0 : newEntityCore ids [] w.noObs
      = .ok ((w.pool.get).2, Mask.ofList ids) (placedW wf t false) := by
    have harch : ((placedW wf t false).arch a).mask = Mask.ofList ids := by
      rw [placedW_flat]; exact fc.archMask
    simp only [newEntityCore, bind, M.bind, checkLocked_unlocked w.noObs hl, hfoc, placeNew_eq,
      registerTargets, M.modify, List.foldl_nil, M.get, pure, M.pure, hpool]
    exact congrArg (fun m => Res.ok ((w.pool.get).2, m) _) harch
  obtain ⟨w0, hop0, np⟩ := opNewEntity_spec run0 p h hl hnd hreg vals hfew hrows
  obtain ⟨w0', hop0', np'⟩ := opNewEntity_spec run0 p h hl hnd hreg [] hfew hrows
  have heq : ∀ vs, opNewEntity run0 p ids vs [] w.noObs
      = .ok (w.pool.get).2 (writeValsW (placedW wf t false) (w.pool.get).2 vs) := by
    intro vs
    have := opNewEntity_eq run0 p ids vs w.noObs hl hfoc (by rw [hu.obs]; exact h.noObs)
    rw [hpool] at this
    exact this
  have hw0 : w0 = writeValsW (placedW wf t false) (w.pool.get).2 vals := by
    rw [heq vals] at hop0; injection hop0 with _ h'; exact h'.symm
  have hw0' : w0' = placedW wf t false := by
    rw [heq [], writeValsW_nil] at hop0'; injection hop0' with _ h'; exact h'.symm
  subst hw0 hw0'
  refine ⟨placedW wf t false, hcore0, np', hop0, np, ?_⟩
  have hcore : newEntityCore ids [] w = .ok ((w.pool.get).2, Mask.ofList ids)
      ((placedW wf t false).relog w.obs w.log) := by
    have := framesOL_newEntityCore ids [] w.noObs w.obs w.log
    rw [hcore0] at this
    exact this
  rw [opNewEntity_obs_eq hro p ids vals w hs hok hcore]
  congr 1
  unfold seenAfter
  split <;> rfl

/-- **`NewEntity()` with observers under the invariant**: the observer-free result
    `placedW w.noObs 0 true`, with the `OnCreateEntity` observers selected for the empty mask
    notified on it. -/
theorem opNewEntity0_callbacks (hro : ReadOnly run S rec) (run0 : ProbeRunner) {w : World}
    {fl : List Nat} (hs : ScriptsIn w.obs S) (hok : ObsOK w.obs) (h : CInvObs w fl)
    (hl : w.isLocked = false) (hb : (w.tbl 0).len + 1 < 2 ^ 32) :
    ∃ w0 : World,
      opNewEntity0 run0 w.noObs = .ok (w.pool.get).2 w0 ∧
      PlacedPost w.noObs fl 0 (w.pool.get).2 w0 ∧ compsOf w0 (w.pool.get).2.id = some [] ∧
      opNewEntity0 run w = .ok (w.pool.get).2 (w0.relog w.obs
        (notifyAll rec (w.pool.get).2 (firing w.obs Ev.onCreateEntity (.entity Mask.empty))
          (w0.relog w.obs w.log) ++ w.log)) := by
  obtain ⟨w0, hop0, pp, hc⟩ := opNewEntity0_spec run0 h hl hb
  have hw0 : w0 = placedW w.noObs 0 true := by
    rw [opNewEntity0_eq run0 w.noObs hl (h.noObs _)] at hop0
    injection hop0 with _ h'; exact h'.symm
  refine ⟨w0, hop0, pp, hc, ?_⟩
  have hm : (w.arch 0).mask = Mask.empty := h.sinv.root.2.2
  have hlk : (placedW w.noObs 0 true).locks = w.locks := placedW_locks w.noObs 0 true
  rw [opNewEntity0_obs_eq hro w hs hok hl, hm, hw0, ← placedW_noObs w 0 true, relog_eq_reframe,
    relog_eq_reframe, hlk]
  rfl

/-- `writeVals` does not change the entity's mask -/
theorem maskOf_writeValsW (w : World) (e x : Ent) (vals : List (Comp × Val)) :
    (writeValsW w e vals).maskOf x = w.maskOf x := by
  have harch : ∀ t : Nat, ((writeValsW w e vals).tbl t).arch = (w.tbl t).arch := by
    intro t
    by_cases ht : t < w.tables.length
    · by_cases hte : t = (w.index e.id).1
      · subst hte
        have : (writeValsW w e vals).tbl (w.index e.id).1 =
            vals.foldl (fun T (cv : Comp × Val) => T.setComp cv.1 (w.index e.id).2 cv.2)
              (w.tbl (w.index e.id).1) := by
          simp only [writeValsW, modTbl]
          exact setTbl_tbl_self _ ht
        rw [this]
        exact (writeFold_sameMeta _ vals _).arch
      · simp only [writeValsW, modTbl]
        rw [setTbl_tbl_ne _ _ (Ne.symm hte)]
    · have h1 : (writeValsW w e vals).tbl t = default := by
        simp only [writeValsW, modTbl, setTbl, tbl, List.getD_eq_getElem?_getD]
        rw [List.getElem?_eq_none (by rw [List.length_set]; omega)]
        rfl
      have h2 : w.tbl t = default := by
        simp only [tbl, List.getD_eq_getElem?_getD]
        rw [List.getElem?_eq_none (by omega)]
        rfl
      rw [h1, h2]
  show ((writeValsW w e vals).arch ((writeValsW w e vals).tbl (w.index x.id).1).arch).mask = _
  rw [harch]
  rfl

/-- **`Set` with observers under the invariant** (C08 + C09 for `Set`; no lock requirement: the
    callbacks run in the caller's lock state): the values are written, then the `OnSetComponents`
    observers selected by the documented rule (`ids` as changed components, the entity's mask)
    are notified on the world with the new values. -/
theorem opSet_callbacks (hro : ReadOnly run S rec) (run0 : ProbeRunner) {w : World}
    {fl : List Nat} (hs : ScriptsIn w.obs S) (hok : ObsOK w.obs) (h : CInvObs w fl) {e : Ent}
    (h2 : 2 ≤ e.id) (hnf : e.id ∉ fl) (ha : w.alive e = true)
    (hin : e.id < w.pool.ents.length) {ids : List Comp}
    (hhas : ∀ (c : Comp), c ∈ ids → (w.maskOf e).get c = true) (vals : List (Comp × Val)) :
    opSet run0 e ids vals w.noObs = .ok () (writeValsW w.noObs e vals) ∧
    WritePost w.noObs fl e vals (writeValsW w.noObs e vals) ∧
    opSet run e ids vals w = .ok () ((writeValsW w.noObs e vals).relog w.obs
      (notifyAll rec e (firing w.obs Ev.onSetComponents (.set (Mask.ofList ids) (w.maskOf e)))
        ((writeValsW w.noObs e vals).relog w.obs w.log) ++ w.log)) := by
  have hall : (ids.all fun c => (w.tbl (w.index e.id).1).has c) = true := by
    rw [List.all_eq_true]
    intro c hc
    exact (CInv.has_iff h h2 hnf ha hin c).mpr (hhas c hc)
  refine ⟨opSet_eq run0 w.noObs e ids vals ha hall (h.noObs _), CInv.writeVals h h2 hnf ha hin vals, ?_⟩
  rw [opSet_obs_eq hro w hs hok e ids vals ha hall, maskOf_writeValsW]
  rfl

/-- **`CopyEntity` with observers under the invariant**: the observer-free result, with the
    `OnCreateEntity` observers selected for the source's mask notified on it (the copy exists and
    carries the source's values). -/
theorem opCopyEntity_callbacks (hro : ReadOnly run S rec) (run0 : ProbeRunner) {w : World}
    {fl : List Nat} (hs : ScriptsIn w.obs S) (hok : ObsOK w.obs) (h : CInvObs w fl)
    (hl : w.isLocked = false) {src : Ent} (h2 : 2 ≤ src.id) (hnf : src.id ∉ fl)
    (ha : w.alive src = true) (hin : src.id < w.pool.ents.length)
    (hrows : ∀ t : Nat, (w.tbl t).len + 1 < 2 ^ 32) :
    ∃ w0 : World,
      opCopyEntity run0 src w.noObs = .ok (w.pool.get).2 w0 ∧
      CopyPost w.noObs fl src (w.pool.get).2 w0 ∧
      opCopyEntity run src w = .ok (w.pool.get).2 (w0.relog w.obs
        (notifyAll rec (w.pool.get).2 (firing w.obs Ev.onCreateEntity (.entity (w.maskOf src)))
          (w0.relog w.obs w.log) ++ w.log)) := by
  obtain ⟨t, row, hix, cp⟩ := CInv.copied h h2 hnf ha hin hrows
  have hix' : w.index src.id = (t, row) := hix
  refine ⟨_, opCopyEntity_eq run0 w.noObs src hl ha hix h.noObs, cp, ?_⟩
  obtain ⟨t', row', he, ht, _⟩ := CInv.live_entry h h2 hnf ha hin
  have hix2 := index_of_get he
  rw [hix] at hix2
  obtain ⟨rfl, rfl⟩ := Prod.mk.inj hix2
  obtain ⟨hlt, _, _, halt, _, _⟩ := CInv.table_of_entry h he ht
  -- the table of the source keeps its archetype; the archetypes are untouched
  have hW : copiedW (placedW w t false) t row (w.tbl t).len
      = (copiedW (placedW w.noObs t false) t row (w.noObs.tbl t).len).reframe w.obs w.log w.locks := by
    rw [← placedW_noObs w t false]
    rfl
  have hlt0 : t < (copiedW (placedW w.noObs t false) t row (w.noObs.tbl t).len).tables.length := by
    rw [cp.tablesLen]; exact hlt
  obtain ⟨A, hA, e1, _⟩ := cp.cinv.sinv.tblArch t _ (get_of_lt hlt0)
  have hAr := arch_of_get hA
  have hnr := cp.cinv.noRelArch hA
  have harchs : (copiedW (placedW w.noObs t false) t row (w.noObs.tbl t).len).archetypes
      = w.archetypes := by
    show (placedW w.noObs t false).archetypes = _
    rw [placedW_flat]; rfl
  have hta : ((copiedW (placedW w.noObs t false) t row (w.noObs.tbl t).len).tbl t).arch
      = (w.tbl t).arch := by
    have h1 : (copiedW (placedW w.noObs t false) t row (w.noObs.tbl t).len).tbl t =
        (List.range ((placedW w.noObs t false).tbl t).ids.length).foldl
          (fun T i => T.setCell i (w.noObs.tbl t).len (T.cell i row)) ((placedW w.noObs t false).tbl t) := by
      simp only [copiedW, modTbl]
      exact setTbl_tbl_self _ (by
        have : (placedW w.noObs t false).tables.length = w.noObs.tables.length := by
          rw [placedW_flat]; simp only [setTbl, List.length_set]
        rw [this]; exact hlt)
    rw [h1]
    have hm := (Table.foldl_sameMeta (fun T i => T.setCell i (w.noObs.tbl t).len (T.cell i row))
      (fun T i => Table.setCell_sameMeta T i _ _)
      (List.range ((placedW w.noObs t false).tbl t).ids.length) ((placedW w.noObs t false).tbl t)).arch
    rw [hm]
    have h2 : (placedW w.noObs t false).tbl t = ((w.noObs.tbl t).add (w.noObs.pool.get).2).1 := by
      rw [placedW_flat]
      exact setTbl_tbl_self _ hlt
    rw [h2]
    exact (Table.add_sameMeta _ _).arch
  have hmask : ((copiedW (placedW w t false) t row (w.tbl t).len).arch
      ((copiedW (placedW w t false) t row (w.tbl t).len).tbl t).arch).mask = w.maskOf src := by
    rw [hW]
    show ((copiedW (placedW w.noObs t false) t row (w.noObs.tbl t).len).arch
      ((copiedW (placedW w.noObs t false) t row (w.noObs.tbl t).len).tbl t).arch).mask = _
    rw [hta]
    simp only [maskOf, hix', arch, harchs]
  have hrel : ((copiedW (placedW w t false) t row (w.tbl t).len).arch
      ((copiedW (placedW w t false) t row (w.tbl t).len).tbl t).arch).hasRelations = false := by
    rw [hW]
    show ((copiedW (placedW w.noObs t false) t row (w.noObs.tbl t).len).arch
      ((copiedW (placedW w.noObs t false) t row (w.noObs.tbl t).len).tbl t).arch).hasRelations = _
    rw [hAr]; exact hnr
  have hlk : (copiedW (placedW w.noObs t false) t row (w.noObs.tbl t).len).locks = w.locks :=
    placedW_locks w.noObs t false
  rw [opCopyEntity_obs_eq hro w hs hok src hl ha hix' hrel, hmask, hW, relog_eq_reframe,
    relog_eq_reframe, hlk]
  rfl

end Ops

end Ark
