/-
  Ark.Proofs.CallbacksRelRemove — C08/C09 at world level for RELATION events, part 4: the
  relation rounds of `Remove(e, ids…)` (removing relation components) and `RemoveEntity(e)` (of an
  entity that has relation components): `OnRemoveRelations` after `OnRemoveComponents` /
  `OnRemoveEntity`, both under ONE lock, before the change.

  * `remRounds` — what the two rounds append to the log; `lockAfter2` — the lock state afterwards.
  * `removeCore_rel_obs_eq` — the equation for `World.remove` (any `relRemoved`).
  * `removeCore_transfer_*`, `opRemove_rel_callbacks` — transfer from the observer-free call and
    the statement under `TInvObs`: the relation round happens exactly when some removed component
    is a relation component of the entity (`removesRel`).
  * `frames_cleanupArchetypes` — the clean-up of the relation tables of a removed target neither
    reads nor writes observers, log and lock.
  * `opRemoveEntity_rel_obs_eq`, `opRemoveEntity_transfer`, `opRemoveEntity_rel_callbacks` — the
    same for `RemoveEntity`: the relation round happens exactly when the entity's table has
    relation columns (`hasRelComps`).

  Kernel-only proofs, core Lean only.
-/
import Ark.Proofs.CallbacksRelAdd
import Ark.Proofs.RelRemove
import Ark.Proofs.TargetsRemove

set_option autoImplicit false

namespace Ark

open World Spec Ark.Props.C01World QueryExact

/-- the `OnRemoveRelations` observers a removal notifies: none unless a relation is removed -/
def firingRemRel (m : ObsMgr) (rr : Bool) (ev : EvInst) : List Nat :=
  if rr then firing m Ev.onRemoveRelations ev else []

/-- what the two rounds of a removal append to the log (newest first): the observers of event
    type `evt1` selected for `ev1`, run on `seen`; then the `OnRemoveRelations` observers selected
    for `ev2` (if a relation is removed: `rr`), run on `seen` with the records of the first round
    logged -/
def remRounds (rec : World → Nat → Ent → Probe → List LogEv) (m : ObsMgr) (e : Ent) (evt1 : Nat)
    (ev1 : EvInst) (rr : Bool) (ev2 : EvInst) (seen : World) : List LogEv :=
  notifyAll rec e (firingRemRel m rr ev2) (seen.addLog (notifyAll rec e (firing m evt1 ev1) seen))
    ++ notifyAll rec e (firing m evt1 ev1) seen

/-- the lock state after the event block of a removal with a relation round: one
    `Lock()`/`Unlock()` cycle if there are observers of `evt1`, or a relation is removed and there
    are `OnRemoveRelations` observers; untouched otherwise -/
def lockAfter2 (w : World) (evt1 : Nat) (rr : Bool) (l2 : Lock) : Lock :=
  if w.obs.hasObservers evt1 || (rr && w.obs.hasObservers Ev.onRemoveRelations) then l2 else w.locks

section Ops

variable {run : ProbeRunner} {S : Probe → Prop} {rec : World → Nat → Ent → Probe → List LogEv}

theorem cbsOf_remRounds (hn : NoCb rec) (m : ObsMgr) (e : Ent) (evt1 : Nat) (ev1 : EvInst)
    (rr : Bool) (ev2 : EvInst) (seen : World) (lg : List LogEv) :
    cbsOf (remRounds rec m e evt1 ev1 rr ev2 seen ++ lg) =
      ((firingRemRel m rr ev2).map fun l => (l, e)).reverse ++
        (((firing m evt1 ev1).map fun l => (l, e)).reverse ++ cbsOf lg) := by
  unfold remRounds
  rw [List.append_assoc, cbsOf_round hn, cbsOf_round hn]

set_option linter.unusedSimpArgs false in
/-- **`World.remove` with observers** (equation, relations or not): after the table lookup (`w1`),
    if there are `OnRemoveComponents` observers, or a relation is removed and there are
    `OnRemoveRelations` observers, the world is locked ONCE, the `OnRemoveComponents` observers the
    documented rule selects are notified, then — if a relation is removed — the
    `OnRemoveRelations` observers, all on the locked world with the entity still in its old row;
    the lock is released and the row is moved. -/
theorem removeCore_rel_obs_eq (hro : ReadOnly run S rec) (e : Ent) (rem : List Comp) (w : World)
    (hs : ScriptsIn w.obs S) (hok : ObsOK w.obs)
    (hl : w.isLocked = false) (ha : w.alive e = true) (hne : rem ≠ []) {oldT row : Nat}
    (hix : w.index e.id = (oldT, row)) {t a : Nat} {m : Mask} {rr : Bool} {w1 : World}
    (hfoc : findOrCreateTableRemove oldT (w.arch (w.tbl oldT).arch).mask rem w = .ok (t, a, m, rr) w1)
    {l1 l2 : Lock} {b : Nat} (hL : LockCycle w.locks l1 b l2) :
    removeCore run e rem w = .ok ()
      ((addMove w1 e oldT row t m).reframe w.obs
        (remRounds rec w.obs e Ev.onRemoveComponents
          (.remove (w.arch (w.tbl oldT).arch).mask m) rr
          (.remove (w.arch (w.tbl oldT).arch).mask m) (w1.withLocks l1) ++ w.log)
        (lockAfter2 w Ev.onRemoveComponents rr l2)) := by
  have hemp : rem.isEmpty = false := by
    cases rem with
    | nil => exact absurd rfl hne
    | cons _ _ => rfl
  obtain ⟨hobs, hlog, hlocks⟩ : w1.obs = w.obs ∧ w1.log = w.log ∧ w1.locks = w.locks := by
    have := (frames_findOrCreateTableRemove oldT (w.arch (w.tbl oldT).arch).mask rem).state_frame w
    rw [hfoc] at this; exact this
  have hL1 : LockCycle w1.locks l1 b l2 := by rw [hlocks]; exact hL
  have hs1 : ScriptsIn w1.obs S := by rw [hobs]; exact hs
  have hok1 : ObsOK w1.obs := by rw [hobs]; exact hok
  have hfire : ∀ (evt : Nat), evt ≠ Ev.onCreateEntity ∧ evt ≠ Ev.onRemoveEntity →
      ∀ (x : World), x.obs = w1.obs →
      fireRemove run evt e (w.arch (w.tbl oldT).arch).mask m true x =
        .ok (!(firing w.obs evt (.remove (w.arch (w.tbl oldT).arch).mask m)).isEmpty) (x.addLog
          (notifyAll rec e (firing w.obs evt (.remove (w.arch (w.tbl oldT).arch).mask m)) x)) := by
    intro evt hevt x hx
    rw [fireRemove_readOnly hro x (by rw [hx]; exact hs1) (by rw [hx]; exact hok1) evt hevt, hx, hobs]
  have hun : ∀ (x : World), x.locks = l1 → World.unlock b x = .ok () (x.withLocks l2) :=
    fun x hx => unlock_of_cycle hL1 hx
  have hself : (addMove w1 e oldT row t m).reframe w.obs w.log w.locks = addMove w1 e oldT row t m := by
    rw [← hobs, ← hlog, ← hlocks, ← addMove_reframe, reframe_self]
  have h1 := hfire Ev.onRemoveComponents (by decide) (w1.withLocks l1) rfl
  have h2a := hfire Ev.onRemoveRelations (by decide) (w1.withLocks l1) rfl
  have h2b := hfire Ev.onRemoveRelations (by decide) ((w1.withLocks l1).addLog
    (notifyAll rec e (firing w.obs Ev.onRemoveComponents
      (.remove (w.arch (w.tbl oldT).arch).mask m)) (w1.withLocks l1))) rfl
  have hfin : ∀ (lg : List LogEv) (lk : Lock),
      addMove (w1.reframe w1.obs lg lk) e oldT row t m
        = (addMove w1 e oldT row t m).reframe w.obs lg lk := by
    intro lg lk; rw [addMove_reframe, hobs]
  have hF1 : w.obs.hasObservers Ev.onRemoveComponents = false →
      firing w.obs Ev.onRemoveComponents (.remove (w.arch (w.tbl oldT).arch).mask m) = [] :=
    fun h => firing_nil_of_no_observers (hok.agg _) h _
  have hF2 : w.obs.hasObservers Ev.onRemoveRelations = false →
      firing w.obs Ev.onRemoveRelations (.remove (w.arch (w.tbl oldT).arch).mask m) = [] :=
    fun h => firing_nil_of_no_observers (hok.agg _) h _
  unfold remRounds firingRemRel lockAfter2
  cases hc : w.obs.hasObservers Ev.onRemoveComponents <;> cases rr <;>
    cases hr : w.obs.hasObservers Ev.onRemoveRelations <;>
  simp only [removeCore, bind, M.bind, checkLocked_unlocked w hl, M.get, M.assert, ha, if_true, hemp,
    Bool.not_false, hix, hfoc, hobs, hc, hr, Bool.false_and, Bool.true_and, Bool.and_false,
    Bool.and_true, Bool.or_false, Bool.or_true, Bool.false_or, Bool.true_or, Bool.false_eq_true,
    if_false, lock_of_cycle hL1, h1, h2a, h2b, moveRow_eq, notifyAll, List.nil_append, List.append_nil,
    addLog_nil, hF1, hF2]
  all_goals first
    | (rw [hself]; rfl)
    | (rw [hun _ rfl]
       simp only [List.append_assoc]
       rw [← hlog]
       exact congrArg (Res.ok ()) (hfin _ _))

/-! ### transfer from the observer-free `Remove` -/

theorem removeCore_dead (run : ProbeRunner) (e : Ent) (rem : List Comp) (w : World)
    (hl : w.isLocked = false) (ha : w.alive e = false) :
    removeCore run e rem w = .panic .deadEntity w := by
  simp only [removeCore, bind, M.bind, checkLocked_unlocked w hl, M.get, M.assert, ha,
    Bool.false_eq_true, if_false]

theorem removeCore_empty (run : ProbeRunner) (e : Ent) (w : World)
    (hl : w.isLocked = false) (ha : w.alive e = true) :
    removeCore run e [] w = .panic .noComponents w := by
  simp only [removeCore, bind, M.bind, checkLocked_unlocked w hl, M.get, M.assert, ha, if_true,
    List.isEmpty_nil, Bool.not_true, Bool.false_eq_true, if_false]

theorem removeCore_foc_panic (run : ProbeRunner) (e : Ent) (rem : List Comp) (w : World)
    (hl : w.isLocked = false) (ha : w.alive e = true) (hne : rem ≠ []) {oldT row : Nat}
    (hix : w.index e.id = (oldT, row)) {k : PanicKind} {s : World}
    (hfoc : findOrCreateTableRemove oldT (w.arch (w.tbl oldT).arch).mask rem w = .panic k s) :
    removeCore run e rem w = .panic k s := by
  have hemp : rem.isEmpty = false := by
    cases rem with
    | nil => exact absurd rfl hne
    | cons _ _ => rfl
  simp only [removeCore, bind, M.bind, checkLocked_unlocked w hl, M.get, M.assert, ha, if_true, hemp,
    Bool.not_false, hix, hfoc]

theorem findOrCreateTableRemove_of_noObs (oldT : Nat) (mask : Mask) (rem : List Comp) (w : World) :
    findOrCreateTableRemove oldT mask rem w
      = (findOrCreateTableRemove oldT mask rem w.noObs).mapS fun s => s.reframe w.obs w.log w.locks :=
  frames_findOrCreateTableRemove oldT mask rem w.noObs w.obs w.log w.locks

theorem frames_noObs_hasObservers {α : Type} {m : W α} (hm : Frames m) {w : World} {a : α}
    {w1 : World} (h : m w.noObs = .ok a w1) (evt : Nat) : w1.obs.hasObservers evt = false := by
  have := (hm.state_frame w.noObs).1
  rw [h] at this
  simp only [Res.state] at this
  rw [this]; rfl

/-- **every rejection of the observer-free `World.remove` is a rejection with observers** -/
theorem removeCore_transfer_panic (run run0 : ProbeRunner) (e : Ent) (rem : List Comp) (w : World)
    {k : PanicKind} {s : World} (h0 : removeCore run0 e rem w.noObs = .panic k s) :
    removeCore run e rem w = .panic k (s.reframe w.obs w.log w.locks) := by
  cases hl : w.isLocked with
  | true =>
    rw [removeCore_locked run0 w.noObs hl] at h0
    injection h0 with e1 e2; subst e1; subst e2
    exact removeCore_locked run w hl e rem
  | false =>
  cases ha : w.alive e with
  | false =>
    rw [removeCore_dead run0 e rem w.noObs hl ha] at h0
    injection h0 with e1 e2; subst e1; subst e2
    exact removeCore_dead run e rem w hl ha
  | true =>
  cases rem with
  | nil =>
    rw [removeCore_empty run0 e w.noObs hl ha] at h0
    injection h0 with e1 e2; subst e1; subst e2
    exact removeCore_empty run e w hl ha
  | cons c cs =>
  cases hix : w.index e.id with
  | mk oldT row =>
  have hfw := findOrCreateTableRemove_of_noObs oldT (w.arch (w.tbl oldT).arch).mask (c :: cs) w
  cases hf : findOrCreateTableRemove oldT (w.arch (w.tbl oldT).arch).mask (c :: cs) w.noObs with
  | panic k' s' =>
    rw [removeCore_foc_panic run0 e (c :: cs) w.noObs hl ha (by simp) hix hf] at h0
    injection h0 with e1 e2; subst e1; subst e2
    rw [hf] at hfw
    exact removeCore_foc_panic run e (c :: cs) w hl ha (by simp) hix hfw
  | ok r w1 =>
    obtain ⟨t, a, m, rr⟩ := r
    rw [removeCore_eq run0 e (c :: cs) w.noObs hl ha (by simp) hix hf
      (frames_noObs_hasObservers (frames_findOrCreateTableRemove _ _ _) hf)] at h0
    cases h0

/-- **every accepted observer-free `World.remove` is accepted with observers** (given a lock
    that hands out a bit): with `w1` the world (without observers) after the table lookup, `m` the
    new mask and `rr` whether a relation is removed, the result is the observer-free result `w0`
    with the observers of `w` put back, the log extended by the two rounds (`remRounds`) run on `w1`
    LOCKED, and the lock state `lockAfter2` -/
theorem removeCore_transfer_ok (hro : ReadOnly run S rec) (run0 : ProbeRunner) (e : Ent)
    (rem : List Comp) (w : World) (hs : ScriptsIn w.obs S) (hok : ObsOK w.obs)
    {l1 l2 : Lock} {b : Nat} (hL : LockCycle w.locks l1 b l2) {w0 : World}
    (h0 : removeCore run0 e rem w.noObs = .ok () w0) :
    ∃ (t a : Nat) (m : Mask) (rr : Bool) (w1 : World),
      findOrCreateTableRemove (w.index e.id).1 (w.maskOf e) rem w.noObs = .ok (t, a, m, rr) w1 ∧
      w0 = addMove w1 e (w.index e.id).1 (w.index e.id).2 t m ∧
      removeCore run e rem w = .ok () (w0.reframe w.obs
        (remRounds rec w.obs e Ev.onRemoveComponents (.remove (w.maskOf e) m) rr
          (.remove (w.maskOf e) m) (w1.reframe w.obs w.log l1) ++ w.log)
        (lockAfter2 w Ev.onRemoveComponents rr l2)) := by
  cases hl : w.isLocked with
  | true => rw [removeCore_locked run0 w.noObs hl] at h0; cases h0
  | false =>
  cases ha : w.alive e with
  | false => rw [removeCore_dead run0 e rem w.noObs hl ha] at h0; cases h0
  | true =>
  cases rem with
  | nil => rw [removeCore_empty run0 e w.noObs hl ha] at h0; cases h0
  | cons c cs =>
  cases hix : w.index e.id with
  | mk oldT row =>
  have hmo : w.maskOf e = (w.arch (w.tbl oldT).arch).mask := by simp only [maskOf, hix]
  simp only [hmo]
  have hfw := findOrCreateTableRemove_of_noObs oldT (w.arch (w.tbl oldT).arch).mask (c :: cs) w
  cases hf : findOrCreateTableRemove oldT (w.arch (w.tbl oldT).arch).mask (c :: cs) w.noObs with
  | panic k' s' =>
    rw [removeCore_foc_panic run0 e (c :: cs) w.noObs hl ha (by simp) hix hf] at h0; cases h0
  | ok r w1 =>
    obtain ⟨t, a, m, rr⟩ := r
    rw [removeCore_eq run0 e (c :: cs) w.noObs hl ha (by simp) hix hf
      (frames_noObs_hasObservers (frames_findOrCreateTableRemove _ _ _) hf)] at h0
    injection h0 with _ e2
    rw [hf, Res.mapS_ok] at hfw
    refine ⟨t, a, m, rr, w1, rfl, e2.symm, ?_⟩
    rw [removeCore_rel_obs_eq hro e (c :: cs) w hs hok hl ha (by simp) hix hfw hL, addMove_reframe,
      ← e2]
    rfl

theorem opRemove_eq_core (run : ProbeRunner) (p : Path) (e : Ent) (rem : List Comp) (w : World)
    (h : p = .typed ∨ w.alive e = true) : opRemove run p e rem w = removeCore run e rem w := by
  rcases h with rfl | ha
  · simp [opRemove]
  · exact opRemove_eq run p e rem w ha

theorem opRemove_dead (run : ProbeRunner) (p : Path) (e : Ent) (rem : List Comp) (w : World)
    (hp : p ≠ .typed) (ha : w.alive e = false) : opRemove run p e rem w = .panic .deadEntity w := by
  cases p <;> simp [opRemove, bind, M.bind, M.get, M.assert, ha] at hp ⊢

/-- **every rejection of the observer-free `Remove` is a rejection with observers** -/
theorem opRemove_rel_transfer_panic (run run0 : ProbeRunner) (p : Path) (e : Ent) (rem : List Comp)
    (w : World) {k : PanicKind} {s : World} (h0 : opRemove run0 p e rem w.noObs = .panic k s) :
    opRemove run p e rem w = .panic k (s.reframe w.obs w.log w.locks) := by
  by_cases hb : p = .typed ∨ w.alive e = true
  · rw [opRemove_eq_core run0 p e rem w.noObs hb] at h0
    rw [opRemove_eq_core run p e rem w hb]
    exact removeCore_transfer_panic run run0 e rem w h0
  · have hp : p ≠ .typed := fun h => hb (Or.inl h)
    have ha : w.alive e = false := by
      cases hh : w.alive e with
      | false => rfl
      | true => exact absurd (Or.inr hh) hb
    rw [opRemove_dead run0 p e rem w.noObs hp ha] at h0
    injection h0 with e1 e2; subst e1; subst e2
    exact opRemove_dead run p e rem w hp ha

/-! ### `Remove` under the invariant -/

/-- **whether `Remove(e, rem…)` removes a relation**: some removed component is a relation
    component of the entity -/
def removesRel (w : World) (e : Ent) (rem : List Comp) : Bool :=
  rem.any fun c => (targetOf w e.id c).isSome

/-- the table lookup of `World.remove` under the invariant: the new mask, whether a relation is
    removed, and every entity as before -/
theorem removeCore_looked {w : World} {fl : List Nat} (h : TInv w fl) {e : Ent} (h2 : 2 ≤ e.id)
    (hnf : e.id ∉ fl) (ha : w.alive e = true) (hsl : e.id < w.pool.ents.length)
    {rem : List Comp} (hnd : rem.Nodup)
    (hpres : ∀ (c : Comp), c ∈ rem → (w.maskOf e).get c = true)
    {t a : Nat} {m : Mask} {rr : Bool} {w1 : World}
    (hf : findOrCreateTableRemove (w.index e.id).1 (w.maskOf e) rem w = .ok (t, a, m, rr) w1) :
    m = rem.foldl Mask.clear (w.maskOf e) ∧ rr = removesRel w e rem ∧
    (∀ (j : Nat), SameEnt w w1 j ∧ ∀ (c : Comp), targetOf w1 j c = targetOf w j c) ∧
    (∀ (x : Ent), w1.alive x = w.alive x) := by
  obtain ⟨oldT, row, he, htm, _⟩ := h.link.live_entry h2 hnf ha hsl
  have hix := index_of_get he
  have hI := h.link.idx
  obtain ⟨hT, hrow, hid⟩ := hI.indexed he htm
  have hSS := h.rel.sinv
  have hS := hSS.toSInvMid
  have hTf : (w.tbl oldT).isFree = false := by
    cases hf' : (w.tbl oldT).isFree with
    | false => rfl
    | true => have := h.freeEmpty oldT _ hT hf'; omega
  obtain ⟨A, hA, i1, i2, i3, _⟩ := hS.tblArch oldT _ hT
  have hAe := arch_of_get hA
  have hTex := h.rel.aux.rels oldT _ hT hTf
  have hmo : w.maskOf e = (w.arch (w.tbl oldT).arch).mask := by simp only [maskOf, hix]
  rw [hix] at hf
  simp only [] at hf
  have hg := graphFindRemove_ok (w.maskOf e) rem w hpres hnd
  have hroot : (w.tbl 0).relIDs = [] :=
    hS.relIDs_nil (get_of_lt hSS.root.1) (by rw [hSS.root.2.1]; exact hS.root_noRel)
  have mget : ∀ (c : Comp), (rem.foldl Mask.clear (w.maskOf e)).get c =
      (A.mask.get c && !decide (c ∈ rem)) := by
    intro c; rw [Mask.get_foldl_clear, hmo, hAe]
  have hmreg : ∀ (c : Nat), (rem.foldl Mask.clear (w.maskOf e)).get c = true →
      c < w.kinds.length := by
    intro c hc
    rw [mget] at hc
    simp only [Bool.and_eq_true] at hc
    exact hS.maskReg _ A hA c hc.1
  rw [findOrCreateTableRemove_eq_add_rel oldT _ _ rem w hg hroot] at hf
  cases hadd : findOrCreateTableAdd 0 (rem.foldl Mask.clear (w.maskOf e)) []
      ((w.tbl oldT).relIDs.filter fun r => (rem.foldl Mask.clear (w.maskOf e)).get r.comp) w with
  | panic k s => rw [hadd] at hf; cases hf
  | ok res w1' =>
    rw [hadd] at hf
    obtain ⟨t', a', m'⟩ := res
    injection hf with h1 h2'
    subst h2'
    obtain ⟨e1, e2, e3, e4⟩ : t' = t ∧ a' = a ∧ m' = m ∧
        ((w.tbl oldT).relIDs.any fun r => !(rem.foldl Mask.clear (w.maskOf e)).get r.comp) = rr := by
      simp only [Prod.mk.injEq] at h1
      exact h1
    subst e1 e2 e3
    obtain ⟨hm, ar⟩ := h.rel.findOrCreateTableAdd' h.flags h.freeEmpty hmreg
      (fun c hc => by cases hc) hSS.root.1 hS.root_notFree
      (by
        rw [hroot, List.nil_append]
        exact (hTex.nodup).sublist (List.Sublist.map _ List.filter_sublist)) hadd
    refine ⟨hm, ?_, ar.frame hI h.freeEmpty, fun x => by simp only [World.alive, ar.foc.pool]⟩
    -- a relation is removed iff some removed component is a relation column of the table
    rw [← e4]
    unfold removesRel
    rw [Bool.eq_iff_iff, List.any_eq_true, List.any_eq_true]
    constructor
    · rintro ⟨r, hr, hb⟩
      obtain ⟨i, k1, k2, k3⟩ := hTex.sound r hr
      have hcm : A.mask.get r.comp = true :=
        (hS.mem_comps hA r.comp).1 (by rw [← i1]; exact List.mem_of_getElem? k1)
      have hin : r.comp ∈ rem := by
        rw [mget, hcm] at hb
        simpa using hb
      refine ⟨r.comp, hin, ?_⟩
      have hci : (w.tbl oldT).colIdx r.comp = some i :=
        Table.colIdx_of_get (hS.ids_nodup hT) k1
      rw [targetOf_of_entry he htm hT, Table.targetAt_of_col hci k2]
      rfl
    · rintro ⟨c, hc, hs⟩
      obtain ⟨t0, r0, k, T, g1, _, g3, g4, g5⟩ := targetOf_isSome hs
      rw [he] at g1
      obtain ⟨rfl, rfl⟩ := Prod.mk.inj (Option.some.inj g1)
      rw [hT] at g3
      obtain rfl := Option.some.inj g3
      have hget := Table.colIdx_get g4
      refine ⟨⟨c, (w.tbl oldT).targets.getD k Ent.zero⟩, hTex.complete k c hget g5, ?_⟩
      rw [mget]
      simp [hc]

/-- **`Remove(e, rem…)` with observers under the invariant, relation components included**
    (C08 + C09 for the relation round of `Remove`).  `w1` is the world without observers after the
    table lookup — every entity as before the call —, `w0` the result of the observer-free call
    (`RemRelPost`).  With observers the call succeeds as well; its result is `w0` with the
    observers of `w`, the log extended by the `OnRemoveComponents` observers the documented rule
    selects for `.remove (maskOf e) (maskOf e ∖ rem)` and then — exactly when some removed
    component is a relation component of `e` (`removesRel`) — the `OnRemoveRelations` observers
    selected for the same instance, all run on `w1` LOCKED (one lock for both rounds), i.e. before
    the entity is moved. -/
theorem opRemove_rel_callbacks (hro : ReadOnly run S rec) (run0 : ProbeRunner) (p : Path)
    {w : World} {fl : List Nat} (hs : ScriptsIn w.obs S) (h : TInvObs w fl)
    (hl : w.isLocked = false) {e : Ent} (h2 : 2 ≤ e.id) (hnf : e.id ∉ fl) (ha : w.alive e = true)
    (hsl : e.id < w.pool.ents.length) {rem : List Comp} (hne : rem ≠ []) (hnd : rem.Nodup)
    (hpres : ∀ (c : Comp), c ∈ rem → (w.maskOf e).get c = true)
    (hfew : w.tables.length < maxU32) (hrows : w.entities.length + 1 < 2 ^ 32)
    {l1 l2 : Lock} {b : Nat} (hL : LockCycle w.locks l1 b l2) :
    ∃ (w1 w0 : World),
      (∀ (j : Nat), SameEnt w.noObs w1 j ∧ ∀ (c : Comp), targetOf w1 j c = targetOf w.noObs j c) ∧
      (∀ (x : Ent), w1.alive x = w.alive x) ∧
      opRemove run0 p e rem w.noObs = .ok () w0 ∧ RemRelPost w.noObs fl e rem w0 ∧
      opRemove run p e rem w = .ok () (w0.reframe w.obs
        (remRounds rec w.obs e Ev.onRemoveComponents
          (.remove (w.maskOf e) (rem.foldl Mask.clear (w.maskOf e))) (removesRel w e rem)
          (.remove (w.maskOf e) (rem.foldl Mask.clear (w.maskOf e)))
          (w1.reframe w.obs w.log l1) ++ w.log)
        (lockAfter2 w Ev.onRemoveComponents (removesRel w e rem) l2)) := by
  obtain ⟨w0, hop0, post⟩ := opRemove_rel_spec run0 p h.tinv hl (noObs_hasObservers w) h2 hnf ha
    hsl hne hnd hpres hfew hrows
  have hc0 : removeCore run0 e rem w.noObs = .ok () w0 := by
    rw [← opRemove_eq run0 p e rem w.noObs ha]; exact hop0
  obtain ⟨t, a, m, rr, w1, hf, _, hop⟩ := removeCore_transfer_ok hro run0 e rem w hs h.obs hL hc0
  obtain ⟨em, err, hframe, hal⟩ := removeCore_looked h.tinv h2 hnf ha hsl hnd hpres hf
  have em' : m = rem.foldl Mask.clear (w.maskOf e) := em
  have err' : rr = removesRel w e rem := err
  subst em' err'
  refine ⟨w1, w0, hframe, hal, hop0, post, ?_⟩
  rw [opRemove_eq run p e rem w ha]
  exact hop

/-- **C08 for `Remove` with relation components** -/
theorem removeRel_cbs {w : World} {fl : List Nat} (st : SettingRel run S rec w fl)
    (run0 : ProbeRunner) (p : Path) (hl : w.isLocked = false) {e : Ent} (he : Live w fl e)
    {rem : List Comp} (hne : rem ≠ []) (hnd : rem.Nodup)
    (hpres : ∀ (c : Comp), c ∈ rem → (w.maskOf e).get c = true)
    (hfew : w.tables.length < maxU32) (hrows : w.entities.length + 1 < 2 ^ 32)
    {l1 l2 : Lock} {b : Nat} (hL : LockCycle w.locks l1 b l2) :
    ∃ (w0 w' : World),
      opRemove run0 p e rem w.noObs = .ok () w0 ∧ RemRelPost w.noObs fl e rem w0 ∧
      opRemove run p e rem w = .ok () w' ∧ FrameOf w0 w w' ∧
      w'.locks = lockAfter2 w Ev.onRemoveComponents (removesRel w e rem) l2 ∧
      cbsOf w'.log =
        ((firingRemRel w.obs (removesRel w e rem)
            (.remove (w.maskOf e) (rem.foldl Mask.clear (w.maskOf e)))).map fun l => (l, e)).reverse ++
        (((firing w.obs Ev.onRemoveComponents
            (.remove (w.maskOf e) (rem.foldl Mask.clear (w.maskOf e)))).map fun l => (l, e)).reverse
          ++ cbsOf w.log) := by
  obtain ⟨w1, w0, _, _, h3, h4, h5⟩ := opRemove_rel_callbacks st.ro run0 p st.scripts st.inv hl
    he.ge2 he.notFree he.alive he.inPool hne hnd hpres hfew hrows hL
  exact ⟨_, _, h3, h4, h5, frameOf_reframe _ _ _ _, rfl, cbsOf_remRounds st.noCb _ _ _ _ _ _ _ _⟩

end Ops

/-! ## `RemoveEntity`: the clean-up is a frame -/

namespace World

theorem Frames.forM' {α : Type} {f : α → W Unit} (hf : ∀ (x : α), Frames (f x)) :
    ∀ (xs : List α), Frames (M.forM' xs f)
  | [] => Frames.pure ()
  | x :: rest => by
    show Frames (f x >>= fun _ => M.forM' rest f)
    exact Frames.bind (hf x) fun _ => Frames.forM' hf rest

theorem Frames.modify {f : World → World}
    (hf : ∀ (w : World) o lg lk, f (w.reframe o lg lk) = (f w).reframe o lg lk) :
    Frames (M.modify f) := by
  intro w o lg lk
  simp only [M.modify_apply, hf, Res.mapS_ok]

theorem moveEntities_fold_reframe (dst oldLen : Nat) (o : ObsMgr) (lg : List LogEv) (lk : Lock) :
    ∀ (ks : List Nat) (w : World),
      ks.foldl (fun (w : World) k =>
        { w with entities := w.entities.set ((w.tbl dst).getEntity (oldLen + k)).id (dst, oldLen + k) })
        (w.reframe o lg lk) =
      (ks.foldl (fun (w : World) k =>
        { w with entities := w.entities.set ((w.tbl dst).getEntity (oldLen + k)).id (dst, oldLen + k) })
        w).reframe o lg lk
  | [], _ => rfl
  | k :: ks, w => by
    simp only [List.foldl_cons]
    exact moveEntities_fold_reframe dst oldLen o lg lk ks
      ({ w with entities := w.entities.set ((w.tbl dst).getEntity (oldLen + k)).id (dst, oldLen + k) } : World)

theorem moveEntitiesW_reframe (w : World) (src dst count : Nat) (o : ObsMgr) (lg : List LogEv)
    (lk : Lock) :
    moveEntitiesW (w.reframe o lg lk) src dst count = (moveEntitiesW w src dst count).reframe o lg lk := by
  unfold moveEntitiesW
  simp only []
  have := moveEntities_fold_reframe dst (w.tbl dst).len o lg lk
    (List.range (((w.modTbl dst fun D => D.addAll (w.tbl src) count).tbl dst).len - (w.tbl dst).len))
    (w.modTbl dst fun D => D.addAll (w.tbl src) count)
  exact congrArg (fun (x : World) => x.modTbl src Table.reset) this

theorem freeW_reframe (w : World) (a tid : Nat) (o : ObsMgr) (lg : List LogEv) (lk : Lock) :
    freeW (w.reframe o lg lk) a tid = (freeW w a tid).reframe o lg lk := rfl

theorem frames_cleanTable (g : Ent) (a tid : Nat) : Frames (cleanTable g a tid) := by
  intro w o lg lk
  rw [cleanTable_eq, cleanTable_eq]
  have h1 : (w.reframe o lg lk).tbl tid = w.tbl tid := rfl
  have h2 : cleanRels (w.reframe o lg lk) g (w.tbl tid) = cleanRels w g (w.tbl tid) := rfl
  rw [h1, h2]
  split
  · cases getExchangeTargetsUnchecked (w.tbl tid) (cleanRels w g (w.tbl tid)) with
    | none => rfl
    | some all =>
      simp only []
      rw [frames_getOrCreate a all w o lg lk]
      cases getOrCreate a all w with
      | panic k s => rfl
      | ok nt w1 =>
        simp only [Res.mapS_ok]
        rw [moveEntitiesW_reframe, freeW_reframe]
  · rfl

theorem frames_cleanArch (g : Ent) (a : Nat) : Frames (cleanArch g a) := by
  intro w o lg lk
  rw [cleanArch_eq, cleanArch_eq]
  have h1 : (w.reframe o lg lk).arch a = w.arch a := rfl
  rw [h1]
  cases AL.find? (w.arch a).targetTables g.id with
  | none => rfl
  | some tables =>
    simp only []
    rw [Frames.forM' (frames_cleanTable g a) tables.tables.reverse w o lg lk]
    cases M.forM' tables.tables.reverse (cleanTable g a) w with
    | panic k s => rfl
    | ok u s => rfl

/-- **the clean-up of the relation tables of a removed target neither reads nor writes observers,
    log and lock** -/
theorem frames_cleanupArchetypes (g : Ent) : Frames (cleanupArchetypes g) := by
  intro w o lg lk
  rw [cleanupArchetypes_eq, cleanupArchetypes_eq]
  exact Frames.forM' (frames_cleanArch g) w.relationArchetypes w o lg lk

/-- the part of `storage.RemoveEntity` after the events is a frame -/
theorem frames_removeEntityTail (e : Ent) (t row : Nat) : Frames (removeEntityTail e t row) := by
  unfold removeEntityTail
  refine Frames.bind (Frames.modify fun w o lg lk => ?_) fun _ => ?_
  · show removeRowOf (w.reframe o lg lk) e t row = (removeRowOf w e t row).reframe o lg lk
    exact removeRowOf_reframe w e t row o lg lk
  · refine Frames.get_bind (fun w => ?_) (fun w o lg lk => rfl)
    split
    · exact Frames.bind (frames_cleanupArchetypes e) fun _ => Frames.modify fun _ _ _ _ => rfl
    · exact Frames.pure ()

end World

section Ops2

variable {run : ProbeRunner} {S : Probe → Prop} {rec : World → Nat → Ent → Probe → List LogEv}

/-- without observers `storage.RemoveEntity` is the removal and the clean-up -/
theorem opRemoveEntity_noObs_eq (run : ProbeRunner) (w : World) (e : Ent) (hl : w.isLocked = false)
    (ha : w.alive e = true) {t row : Nat} (hix : w.index e.id = (t, row))
    (hno : ∀ (evt : Nat), w.obs.hasObservers evt = false) :
    opRemoveEntity run e w = removeEntityTail e t row w := by
  simp only [opRemoveEntity, bind, M.bind, checkLocked_unlocked w hl, M.get, M.assert, ha, if_true,
    hix, hno, Bool.and_false, Bool.or_false, Bool.false_eq_true, if_false, removeEntityTail, pure]

set_option linter.unusedSimpArgs false in
/-- **`RemoveEntity` with observers** (equation, any entity): if there are `OnRemoveEntity`
    observers, or the entity's table has relation columns and there are `OnRemoveRelations`
    observers, the world is locked ONCE, the `OnRemoveEntity` observers the documented rule
    selects are notified, then — if the table has relation columns — the `OnRemoveRelations`
    observers, all on the locked, otherwise unchanged world; the lock is released; then the row
    is removed and, if the entity is a relation target, its relation tables are cleaned up. -/
theorem opRemoveEntity_rel_obs_eq (hro : ReadOnly run S rec) (w : World) (e : Ent)
    (hs : ScriptsIn w.obs S) (hok : ObsOK w.obs) (hl : w.isLocked = false)
    (ha : w.alive e = true) {t row : Nat} (hix : w.index e.id = (t, row))
    {l1 l2 : Lock} {b : Nat} (hL : LockCycle w.locks l1 b l2) :
    opRemoveEntity run e w = removeEntityTail e t row
      (w.reframe w.obs
        (remRounds rec w.obs e Ev.onRemoveEntity (.entity (w.arch (w.tbl t).arch).mask)
          (w.tbl t).hasRelations (.entityRel (w.arch (w.tbl t).arch).mask) (w.withLocks l1) ++ w.log)
        (lockAfter2 w Ev.onRemoveEntity (w.tbl t).hasRelations l2)) := by
  have h1 := fireRemoveEntity_readOnly hro (w.withLocks l1) hs hok e (w.arch (w.tbl t).arch).mask true
  have h2a := fireRemoveEntityRel_readOnly hro (w.withLocks l1) hs hok e
    (w.arch (w.tbl t).arch).mask true
  have h2b := fireRemoveEntityRel_readOnly hro ((w.withLocks l1).addLog
    (notifyAll rec e (firing w.obs Ev.onRemoveEntity (.entity (w.arch (w.tbl t).arch).mask))
      (w.withLocks l1))) hs hok e (w.arch (w.tbl t).arch).mask true
  have hun : ∀ (x : World), x.locks = l1 → World.unlock b x = .ok () (x.withLocks l2) :=
    fun x hx => unlock_of_cycle hL hx
  have hF1 : w.obs.hasObservers Ev.onRemoveEntity = false →
      firing w.obs Ev.onRemoveEntity (.entity (w.arch (w.tbl t).arch).mask) = [] :=
    fun h => firing_nil_of_no_observers (hok.agg _) h _
  have hF2 : w.obs.hasObservers Ev.onRemoveRelations = false →
      firing w.obs Ev.onRemoveRelations (.entityRel (w.arch (w.tbl t).arch).mask) = [] :=
    fun h => firing_nil_of_no_observers (hok.agg _) h _
  have ho1 : (w.withLocks l1).obs = w.obs := rfl
  rw [ho1] at h1 h2a
  have ho2 : ∀ lg, ((w.withLocks l1).addLog lg).obs = w.obs := fun _ => rfl
  rw [ho2] at h2b
  unfold remRounds firingRemRel lockAfter2
  cases hc : w.obs.hasObservers Ev.onRemoveEntity <;> cases hrr : (w.tbl t).hasRelations <;>
    cases hr : w.obs.hasObservers Ev.onRemoveRelations <;>
  simp only [opRemoveEntity, bind, M.bind, checkLocked_unlocked w hl, M.get, M.assert, ha, if_true,
    hix, hc, hr, hrr, Bool.false_and, Bool.true_and, Bool.and_false,
    Bool.and_true, Bool.or_false, Bool.or_true, Bool.false_or, Bool.true_or, Bool.false_eq_true,
    if_false, lock_of_cycle hL, h1, h2a, h2b, notifyAll, List.nil_append, List.append_nil,
    addLog_nil, hF1, hF2, removeEntityTail, pure]
  all_goals first
    | rfl
    | (rw [hun _ rfl]
       simp only [List.append_assoc]
       rfl)

/-- **`RemoveEntity` with observers, from the observer-free call** (unlocked world, alive entity,
    a lock that hands out a bit): whatever the observer-free call does — success or a panic of the
    clean-up — the call with observers does, on the world with the observers of `w` put back, the
    log extended by the two rounds (run on `w` LOCKED) and the lock state `lockAfter2`. -/
theorem opRemoveEntity_transfer (hro : ReadOnly run S rec) (run0 : ProbeRunner) (w : World) (e : Ent)
    (hs : ScriptsIn w.obs S) (hok : ObsOK w.obs) (hl : w.isLocked = false)
    (ha : w.alive e = true) {l1 l2 : Lock} {b : Nat} (hL : LockCycle w.locks l1 b l2) :
    opRemoveEntity run e w = (opRemoveEntity run0 e w.noObs).mapS fun s => s.reframe w.obs
      (remRounds rec w.obs e Ev.onRemoveEntity (.entity (w.maskOf e))
        (w.tbl (w.index e.id).1).hasRelations (.entityRel (w.maskOf e)) (w.withLocks l1) ++ w.log)
      (lockAfter2 w Ev.onRemoveEntity (w.tbl (w.index e.id).1).hasRelations l2) := by
  cases hix : w.index e.id with
  | mk t row =>
  have hm : w.maskOf e = (w.arch (w.tbl t).arch).mask := by simp only [maskOf, hix]
  rw [opRemoveEntity_rel_obs_eq hro w e hs hok hl ha hix hL,
    opRemoveEntity_noObs_eq run0 w.noObs e hl ha hix (noObs_hasObservers w), hm]
  exact frames_removeEntityTail e t row w.noObs _ _ _

/-- locked or dead: rejected exactly as without observers -/
theorem opRemoveEntity_transfer_reject (run run0 : ProbeRunner) (w : World) (e : Ent)
    (h : w.isLocked = true ∨ w.alive e = false) :
    opRemoveEntity run e w
      = (opRemoveEntity run0 e w.noObs).mapS fun s => s.reframe w.obs w.log w.locks := by
  cases hl : w.isLocked with
  | true =>
    rw [opRemoveEntity_locked run w hl, opRemoveEntity_locked run0 w.noObs hl]
    rfl
  | false =>
    rcases h with h | ha
    · rw [hl] at h; cases h
    · have d : ∀ (r : ProbeRunner) (x : World), x.isLocked = false → x.alive e = false →
          opRemoveEntity r e x = .panic .deadEntity x := by
        intro r x hx hax
        simp only [opRemoveEntity, bind, M.bind, checkLocked_unlocked x hx, M.get, M.assert, hax,
          Bool.false_eq_true, if_false]
      rw [d run w hl ha, d run0 w.noObs hl ha]
      rfl

/-- **whether the entity has relation components**: its table has relation columns -/
def hasRelComps (w : World) (e : Ent) : Bool := (w.tbl (w.index e.id).1).hasRelations

/-- under the invariant: the entity has a relation component iff some component has a target -/
theorem hasRelComps_iff {w : World} {fl : List Nat} (h : TInv w fl) {e : Ent} (h2 : 2 ≤ e.id)
    (hnf : e.id ∉ fl) (ha : w.alive e = true) (hsl : e.id < w.pool.ents.length) :
    hasRelComps w e = true ↔ ∃ (c : Comp), (targetOf w e.id c).isSome = true := by
  obtain ⟨oldT, row, he, htm, _⟩ := h.link.live_entry h2 hnf ha hsl
  have hix := index_of_get he
  obtain ⟨hT, hrow, hid⟩ := h.link.idx.indexed he htm
  have hS := h.rel.sinv.toSInvMid
  have hTf : (w.tbl oldT).isFree = false := by
    cases hf' : (w.tbl oldT).isFree with
    | false => rfl
    | true => have := h.freeEmpty oldT _ hT hf'; omega
  have hTex := h.rel.aux.rels oldT _ hT hTf
  simp only [hasRelComps, hix, Table.hasRelations]
  constructor
  · intro hne
    cases hr : (w.tbl oldT).relIDs with
    | nil => rw [hr] at hne; cases hne
    | cons r rs =>
      obtain ⟨i, k1, k2, _⟩ := hTex.sound r (by rw [hr]; exact List.mem_cons_self)
      refine ⟨r.comp, ?_⟩
      rw [targetOf_of_entry he htm hT,
        Table.targetAt_of_col (Table.colIdx_of_get (hS.ids_nodup hT) k1) k2]
      rfl
  · rintro ⟨c, hs⟩
    obtain ⟨t0, r0, k, T, g1, _, g3, g4, g5⟩ := targetOf_isSome hs
    rw [he] at g1
    obtain ⟨rfl, rfl⟩ := Prod.mk.inj (Option.some.inj g1)
    rw [hT] at g3
    obtain rfl := Option.some.inj g3
    have hm := hTex.complete k c (Table.colIdx_get g4) g5
    cases hr : (w.tbl oldT).relIDs with
    | nil => rw [hr] at hm; cases hm
    | cons r rs => rfl

/-- **`RemoveEntity` with observers under the invariant, relation components and relation
    targets included** (C08 + C09 for the relation round of `RemoveEntity`).  `w0` is the result of
    the observer-free call (`RemovedRelPost`: the entity is dead, its relation tables cleaned up).
    With observers the call succeeds as well; its result is `w0` with the observers of `w`, the log
    extended by the `OnRemoveEntity` observers the documented rule selects for
    `.entity (maskOf e)` and then — exactly when `e` has a relation component (`hasRelComps`) — the
    `OnRemoveRelations` observers selected for `.entityRel (maskOf e)`, all run on `w` LOCKED (one
    lock for both rounds): the world before the removal. -/
theorem opRemoveEntity_rel_callbacks (hro : ReadOnly run S rec) (run0 : ProbeRunner) {w : World}
    {fl : List Nat} (hs : ScriptsIn w.obs S) (h : TInvObs w fl) (hl : w.isLocked = false)
    {e : Ent} (h2 : 2 ≤ e.id) (hnf : e.id ∉ fl) (ha : w.alive e = true)
    (hsl : e.id < w.pool.ents.length)
    (hfew : w.tables.length + w.relationArchetypes.length + 1 ≤ maxU32)
    (hrows : 2 * w.entities.length < 2 ^ 32)
    {l1 l2 : Lock} {b : Nat} (hL : LockCycle w.locks l1 b l2) :
    ∃ (w0 : World),
      opRemoveEntity run0 e w.noObs = .ok () w0 ∧ RemovedRelPost w.noObs fl e w0 ∧
      opRemoveEntity run e w = .ok () (w0.reframe w.obs
        (remRounds rec w.obs e Ev.onRemoveEntity (.entity (w.maskOf e)) (hasRelComps w e)
          (.entityRel (w.maskOf e)) (w.withLocks l1) ++ w.log)
        (lockAfter2 w Ev.onRemoveEntity (hasRelComps w e) l2)) := by
  obtain ⟨w0, hop0, post⟩ := opRemoveEntity_rel_spec run0 h.tinv hl (noObs_hasObservers w) h2 hnf ha
    hsl hfew hrows
  refine ⟨w0, hop0, post, ?_⟩
  rw [opRemoveEntity_transfer hro run0 w e hs h.obs hl ha hL, hop0]
  rfl

/-- **C08 for `RemoveEntity` of an entity with relation components** -/
theorem removeEntityRel_cbs {w : World} {fl : List Nat} (st : SettingRel run S rec w fl)
    (run0 : ProbeRunner) (hl : w.isLocked = false) {e : Ent} (he : Live w fl e)
    (hfew : w.tables.length + w.relationArchetypes.length + 1 ≤ maxU32)
    (hrows : 2 * w.entities.length < 2 ^ 32)
    {l1 l2 : Lock} {b : Nat} (hL : LockCycle w.locks l1 b l2) :
    ∃ (w0 w' : World),
      opRemoveEntity run0 e w.noObs = .ok () w0 ∧ RemovedRelPost w.noObs fl e w0 ∧
      opRemoveEntity run e w = .ok () w' ∧ FrameOf w0 w w' ∧
      w'.locks = lockAfter2 w Ev.onRemoveEntity (hasRelComps w e) l2 ∧
      cbsOf w'.log =
        ((firingRemRel w.obs (hasRelComps w e) (.entityRel (w.maskOf e))).map
            fun l => (l, e)).reverse ++
        (((firing w.obs Ev.onRemoveEntity (.entity (w.maskOf e))).map fun l => (l, e)).reverse
          ++ cbsOf w.log) := by
  obtain ⟨w0, h1, h2, h3⟩ := opRemoveEntity_rel_callbacks st.ro run0 st.scripts st.inv hl he.ge2
    he.notFree he.alive he.inPool hfew hrows hL
  exact ⟨_, _, h1, h2, h3, frameOf_reframe _ _ _ _, rfl, cbsOf_remRounds st.noCb _ _ _ _ _ _ _ _⟩

end Ops2

end Ark
