/-
  Ark.Proofs.LoadHist — property C17 over histories of the machine `Ark.Refine`, part 1:
  `Unsafe.DumpEntities` after any history, `Unsafe.LoadEntities` into the reset world or into a
  new world, liveness of every handle issued before the dump, and the handles of later creations.

  * `opDump` — `Unsafe.DumpEntities` as the Go code and the driver run it: a `Filter0` query is
    iterated to the end (`World.drain`), then the pool core is copied.
    `opDump_spec`: under `CInv w fl` (and a lock bit available) it succeeds, leaves the world
    unchanged up to the lock's bit pool, records the pool core, and `alive` is the duplicate-free
    list of EXACTLY the live IDs (`2 ≤ i`, `i ∉ fl`, `i < len(entities)`).
  * `loadW` — the pure function `opLoad` computes (`opLoad_eq`); its frame (`loadW_locks`, …).
  * `newN` — `n` consecutive `World.NewEntity()` calls; `newN_eq`: on an unlocked world without
    observers they succeed and return `pool.getN n`.  `createAll` — any sequence of creations
    with or without components; `createOne_handle`, `createAll_handles`: whenever they succeed
    they return the next handles of the pool.
  * `dump_load` — **state level**: dump at a state satisfying `HInv`, load into ANY unlocked
    world with an empty pool: succeeds; every issued handle has the `Alive` answer it had at
    dump time; `n` creations return the same handles in the source and in the loaded world.
  * `EmptySt` (the reset world / a new world with any registrations), `reach_dump_load`,
    `reach_dump_load_creations`, `reach_dump_reset` — the same along histories.

  Kernel-only proofs, core Lean only.
-/
import Ark.Proofs.QueryHist
import Ark.Proofs.ResetInv
import Ark.Proofs.DumpLoad

set_option autoImplicit false

namespace Ark

open World Ark.Props.C01World QueryExact

namespace World

/-! ## 1. `DumpEntities` -/

/-- `Unsafe.DumpEntities`: iterate a `Filter0` query to the end collecting the IDs, then copy
    the pool's `entities`, `next`, `available` (unsafe.go; the driver's `dump` line). -/
def opDump : W Dump := do
  let vs ← drain ({} : FilterObj) []
  let w ← M.get
  pure { entities := w.pool.ents, alive := vs.map (·.e.id), next := w.pool.next,
         available := w.pool.available }

theorem matchesMask_default (m : Mask) : ({} : FilterObj).filter.matchesMask m = true := by
  show (({} : Filter).matchesMask m) = true
  simp [Filter.matchesMask, Mask.contains, Mask.empty]

/-- **`DumpEntities` at a state satisfying the joint invariant**: succeeds, changes only the bit
    pool of the lock, records the pool core, and lists exactly the live IDs, each once. -/
theorem opDump_spec {w : World} {fl : List Nat} (h : CInv w fl) {l1 l2 : Lock} {b : Nat}
    (hL : LockCycle w.locks l1 b l2) :
    ∃ (d : Dump), opDump w = .ok d (w.withLocks l2) ∧
      d.entities = w.pool.ents ∧ d.next = w.pool.next ∧ d.available = w.pool.available ∧
      d.alive.Nodup ∧
      ∀ (i : Nat), i ∈ d.alive ↔ 2 ≤ i ∧ i ∉ fl ∧ i < w.pool.ents.length := by
  obtain ⟨q, visits, Q⟩ := drain_exact_untyped h ({} : FilterObj) rfl (Or.inr rfl) hL
  refine ⟨{ entities := w.pool.ents, alive := visits.map (·.e.id), next := w.pool.next,
            available := w.pool.available }, ?_, rfl, rfl, rfl, ?_, ?_⟩
  · simp only [opDump, bind, M.bind, Q.drained, M.get, pure, M.pure]
    rfl
  · simpa only [List.map_map] using Q.exact.nodup
  · intro i
    constructor
    · intro hi
      obtain ⟨v, hv, rfl⟩ := List.mem_map.mp hi
      obtain ⟨s1, s2, s3, _⟩ := Q.exact.sound v hv
      refine ⟨s1, s2, ?_⟩
      rw [← h.lenEq]
      exact (List.getElem?_eq_some_iff.mp s3).1
    · rintro ⟨h2, hnf, hlt⟩
      obtain ⟨t, r, hi, ht⟩ := h.liveIndexed i h2 (by rw [h.lenEq]; exact hlt) hnf
      obtain ⟨v, hv, hvid, _, _⟩ := Q.exact.complete i t r h2 hnf hi ht (matchesMask_default _)
      exact List.mem_map.mpr ⟨v, hv, hvid⟩

/-! ## 2. `LoadEntities` as a pure function -/

/-- one iteration of the loop of `LoadEntities` -/
def loadStep (w : World) (idx : Nat) : World :=
  { (w.setTbl 0 ((w.tbl 0).add (w.pool.ents.getD idx default)).1) with
    entities := w.entities.set (w.pool.ents.getD idx default).id
      (0, ((w.tbl 0).add (w.pool.ents.getD idx default)).2) }

/-- the world before the loop of `LoadEntities`: pool installed, index and target flags
    re-made, table 0 extended -/
def loadPre (d : Dump) (w : World) : World :=
  let w := if d.entities.length > 0 then
      { w with pool := { ents := d.entities, stale := [], next := d.next, available := d.available } }
    else w
  let w := { w with entities := List.replicate d.entities.length (0, 0),
                    isTarget := List.replicate d.entities.length false }
  w.modTbl 0 fun T => T.extend d.alive.length

/-- what `LoadEntities` computes -/
def loadW (d : Dump) (w : World) : World := d.alive.foldl loadStep (loadPre d w)

/-- **`LoadEntities` on an unlocked world with an empty pool succeeds**, and its result is
    `loadW` (through the monadic `for` loop). -/
theorem opLoad_eq (d : Dump) (w : World) (hl : w.isLocked = false)
    (he : w.pool.ents.length ≤ 2 ∧ w.pool.available = 0) :
    opLoad d w = .ok () (loadW d w) := by
  have h1 : ¬ w.pool.ents.length > 2 := by omega
  unfold opLoad
  by_cases hc : d.entities.length > 0
  · simp only [M.bind_apply, checkLocked, hl, M.get_apply, M.assert_apply, h1, he.2, hc,
      Bool.false_eq_true, if_false, if_true, decide_false, Bool.or_self, Bool.not_false,
      Nat.lt_irrefl, M.modify_apply, forIn_modify_apply, M.pure_apply]
    simp only [loadW, loadPre, hc, if_true]
    rfl
  · simp only [M.bind_apply, checkLocked, hl, M.get_apply, M.assert_apply, h1, he.2, hc,
      Bool.false_eq_true, if_false, decide_false, Bool.or_self, Bool.not_false,
      Nat.lt_irrefl, M.modify_apply, forIn_modify_apply, M.pure_apply]
    simp only [loadW, loadPre, hc, if_false]
    rfl

theorem loadW_proj {β : Type} (p : World → β)
    (hT : ∀ (w : World) (t : Nat) (T : Table), p (w.setTbl t T) = p w)
    (hE : ∀ (w : World) (l : List (Nat × Nat)), p { w with entities := l } = p w)
    (d : Dump) (w : World) : p (loadW d w) = p (loadPre d w) := by
  unfold loadW
  generalize loadPre d w = w0
  induction d.alive generalizing w0 with
  | nil => rfl
  | cons x xs ih =>
    rw [List.foldl_cons, ih]
    show p { (w0.setTbl 0 _) with entities := _ } = p w0
    rw [hE, hT]

theorem loadW_locks (d : Dump) (w : World) : (loadW d w).locks = w.locks := by
  rw [loadW_proj (·.locks) (fun _ _ _ => rfl) (fun _ _ => rfl)]
  simp only [loadPre]; split <;> rfl

theorem loadW_obs (d : Dump) (w : World) : (loadW d w).obs = w.obs := by
  rw [loadW_proj (·.obs) (fun _ _ _ => rfl) (fun _ _ => rfl)]
  simp only [loadPre]; split <;> rfl

theorem loadW_archetypes (d : Dump) (w : World) : (loadW d w).archetypes = w.archetypes := by
  rw [loadW_proj (·.archetypes) (fun _ _ _ => rfl) (fun _ _ => rfl)]
  simp only [loadPre]; split <;> rfl

theorem loadW_kinds (d : Dump) (w : World) : (loadW d w).kinds = w.kinds := by
  rw [loadW_proj (·.kinds) (fun _ _ _ => rfl) (fun _ _ => rfl)]
  simp only [loadPre]; split <;> rfl

theorem loadW_pool (d : Dump) (w : World) (hc : d.entities.length > 0) :
    (loadW d w).pool =
      { ents := d.entities, stale := [], next := d.next, available := d.available } := by
  rw [loadW_proj (·.pool) (fun _ _ _ => rfl) (fun _ _ => rfl)]
  simp only [loadPre, hc, if_true]
  rfl

/-! ## 3. consecutive creations -/

/-- `n` consecutive `World.NewEntity()` calls; the handles returned, in order -/
def newN (run : ProbeRunner) : Nat → W (List Ent)
  | 0 => pure []
  | n + 1 => do
    let e ← opNewEntity0 run
    let es ← newN run n
    pure (e :: es)

/-- on an unlocked world without observers, `n` creations succeed and return the next `n`
    handles of the pool -/
theorem newN_eq (run : ProbeRunner) : ∀ (n : Nat) (w : World), w.isLocked = false →
    w.obs.hasObservers Ev.onCreateEntity = false →
    ∃ (w' : World), newN run n w = .ok (w.pool.getN n) w' ∧ w'.pool = w.pool.afterN n
  | 0, w, _, _ => ⟨w, rfl, rfl⟩
  | n + 1, w, hl, hno => by
    have h1 := opNewEntity0_eq run w hl hno
    obtain ⟨w', h2, h3⟩ := newN_eq run n (placedW w 0 true)
      (by simp only [World.isLocked, placedW_locks]; exact hl)
      (by rw [placedW_obs]; exact hno)
    refine ⟨w', ?_, ?_⟩
    · simp only [newN, bind, M.bind, h1, h2, pure, M.pure, placedW_pool, Pool.getN]
    · rw [h3, placedW_pool]; rfl

/-- a creation request: `none` = `World.NewEntity()`, `some (p, ids, vals)` = `NewEntity` with
    the components `ids` through the access path `p`, writing `vals` -/
abbrev CreateReq := Option (Path × List Comp × List (Comp × Val))

def createOne (run : ProbeRunner) : CreateReq → W Ent
  | none => opNewEntity0 run
  | some (p, ids, vals) => opNewEntity run p ids vals []

/-- a sequence of creations; the handles returned, in order -/
def createAll (run : ProbeRunner) : List CreateReq → W (List Ent)
  | [] => pure []
  | q :: qs => do
    let e ← createOne run q
    let es ← createAll run qs
    pure (e :: es)

theorem opNewEntity_lookup_panic (run : ProbeRunner) (p : Path) (ids : List Comp)
    (vals : List (Comp × Val)) (w : World) (hl : w.isLocked = false) {k : PanicKind} {w1 : World}
    (hfoc : findOrCreateTableAdd 0 Mask.empty ids [] w = .panic k w1) :
    opNewEntity run p ids vals [] w = .panic k w1 := by
  cases p <;>
  simp [opNewEntity, newEntityCore, preCheck, preCheckMap, preCheckTyped, M.forM', bind, M.bind,
    checkLocked_unlocked w hl, hfoc, pure, M.pure]

/-- **the handle of ANY successful creation is the next handle of the pool** (with or without
    components; on an unlocked world without observers), and the pool makes one `Get` -/
theorem createOne_handle (run : ProbeRunner) (q : CreateReq) (w : World) (hl : w.isLocked = false)
    (hno : ∀ (evt : Nat), w.obs.hasObservers evt = false) {e : Ent} {w' : World}
    (h : createOne run q w = .ok e w') :
    e = (w.pool.get).2 ∧ w'.pool = (w.pool.get).1 ∧ w'.isLocked = false ∧
      ∀ (evt : Nat), w'.obs.hasObservers evt = false := by
  cases q with
  | none =>
    have h1 := opNewEntity0_eq run w hl (hno _)
    simp only [createOne] at h
    rw [h1] at h
    injection h with h2 h3
    subst h2; subst h3
    exact ⟨rfl, placedW_pool w 0 true, by simp only [World.isLocked, placedW_locks]; exact hl,
      fun evt => by rw [placedW_obs]; exact hno evt⟩
  | some q =>
    obtain ⟨p, ids, vals⟩ := q
    simp only [createOne] at h
    cases hfoc : findOrCreateTableAdd 0 Mask.empty ids [] w with
    | panic k w1 =>
      rw [opNewEntity_lookup_panic run p ids vals w hl hfoc] at h; cases h
    | ok r1 w1 =>
      obtain ⟨t, a, m⟩ := r1
      have hu := findOrCreateTableAdd_untouched hfoc
      have hp : w1.pool = w.pool := (findOrCreateTableAdd_keeps hfoc).pool
      have hno1 : ∀ (evt : Nat), w1.obs.hasObservers evt = false := by rw [hu.obs]; exact hno
      rw [opNewEntity_eq run p ids vals w hl hfoc hno1] at h
      injection h with h2 h3
      subst h2; subst h3
      refine ⟨by rw [hp], ?_, ?_, ?_⟩
      · show (placedW w1 t false).pool = _
        rw [placedW_pool, hp]
      · show (placedW w1 t false).locks.isLocked = false
        rw [placedW_locks, hu.locks]; exact hl
      · intro evt
        show (placedW w1 t false).obs.hasObservers evt = false
        rw [placedW_obs]; exact hno1 evt

/-- **any sequence of creations that succeeds returns the next handles of the pool** -/
theorem createAll_handles (run : ProbeRunner) : ∀ (qs : List CreateReq) (w : World),
    w.isLocked = false → (∀ (evt : Nat), w.obs.hasObservers evt = false) →
    ∀ {es : List Ent} {w' : World}, createAll run qs w = .ok es w' →
      es = w.pool.getN qs.length ∧ w'.pool = w.pool.afterN qs.length
  | [], w, _, _, es, w', h => by
    injection h with h1 h2
    subst h1; subst h2
    exact ⟨rfl, rfl⟩
  | q :: qs, w, hl, hno, es, w', h => by
    simp only [createAll, bind, M.bind] at h
    cases h1 : createOne run q w with
    | panic k w1 => rw [h1] at h; cases h
    | ok e w1 =>
      rw [h1] at h
      simp only at h
      obtain ⟨he, hp, hl1, hno1⟩ := createOne_handle run q w hl hno h1
      cases h2 : createAll run qs w1 with
      | panic k w2 => rw [h2] at h; cases h
      | ok es2 w2 =>
        rw [h2] at h
        simp only [pure, M.pure] at h
        injection h with h3 h4
        subst h3; subst h4
        obtain ⟨i1, i2⟩ := createAll_handles run qs w1 hl1 hno1 h2
        rw [hp] at i1 i2
        exact ⟨by rw [i1, he]; rfl, by rw [i2]; rfl⟩

end World

/-! ## 4. dump, then load: state level -/

namespace Refine

/-- **Dump at a state satisfying the machine invariant, load into any unlocked world with an
    empty pool** (a reset world, a new world): both succeed; every handle issued so far — and
    more generally every handle whose ID lies in the source's pool slice — has the same `Alive`
    answer in the loaded world as in the source at dump time; beyond the slice the loaded world
    answers `false`; the loaded pool hands out the same handles as the source's. -/
theorem dump_load {s : St} {fl : List Nat} (H : HInv s fl) {l1 l2 : Lock} {b : Nat}
    (hL : LockCycle s.w.locks l1 b l2) (wT : World) (hTl : wT.isLocked = false)
    (hTe : wT.pool.ents.length ≤ 2 ∧ wT.pool.available = 0) :
    ∃ (d : Dump), opDump s.w = .ok d (s.w.withLocks l2) ∧
      opLoad d wT = .ok () (loadW d wT) ∧
      (∀ (e : Ent), e ∈ s.issued → (loadW d wT).alive e = s.w.alive e) ∧
      (∀ (e : Ent), e.id < s.w.pool.ents.length → (loadW d wT).alive e = s.w.alive e) ∧
      (∀ (e : Ent), s.w.pool.ents.length ≤ e.id → (loadW d wT).alive e = false) ∧
      (loadW d wT).pool.Core = s.w.pool.Core ∧
      (∀ (n : Nat), (loadW d wT).pool.getN n = s.w.pool.getN n) := by
  obtain ⟨d, hd, he, hn, ha, _, _⟩ := opDump_spec H.cinv hL
  have hc : d.entities.length > 0 := by
    rw [he]; have := H.cinv.pool.len2; omega
  have hpool := loadW_pool d wT hc
  have hcore : (loadW d wT).pool.Core = s.w.pool.Core := by
    simp only [hpool, Pool.Core, he, hn, ha]
  have hlen : (loadW d wT).pool.ents.length = s.w.pool.ents.length := by rw [hpool, ← he]
  have hin : ∀ (e : Ent), e.id < s.w.pool.ents.length → (loadW d wT).alive e = s.w.alive e :=
    fun e hid => Pool.alive_core hcore e (by rw [hlen]; exact hid)
  refine ⟨d, hd, opLoad_eq d wT hTl hTe, ?_, hin, ?_, hcore, fun n => Pool.gets_agree hcore n⟩
  · intro e hi
    obtain ⟨_, x, hx, _⟩ := H.ginv.issued_bound e hi
    exact hin e (List.getElem?_eq_some_iff.mp hx).1
  · intro e hid
    exact Pool.alive_beyond (by rw [hpool]) e (by rw [hlen]; exact hid)

/-! ## 5. the worlds `LoadEntities` accepts -/

/-- the invariant of the entity machine does not read the lock's bit pool -/
theorem HInv.withLocks {s : St} {fl : List Nat} (H : HInv s fl) (l : Lock)
    (hl : l.isLocked = false) : HInv ⟨s.w.withLocks l, s.issued, s.ss⟩ fl where
  cinv :=
    { idx := H.cinv.idx.congr rfl rfl
      sinv := H.cinv.sinv.congr rfl rfl rfl
      pool := H.cinv.pool
      stale := H.cinv.stale
      lenEq := H.cinv.lenEq
      tgtLen := H.cinv.tgtLen
      freeUnindexed := H.cinv.freeUnindexed
      reservedUnindexed := H.cinv.reservedUnindexed
      liveIndexed := H.cinv.liveIndexed
      fewTables := H.cinv.fewTables
      noRelKinds := H.cinv.noRelKinds
      kindsLe := H.cinv.kindsLe
      noTargets := H.cinv.noTargets
      noObs := H.cinv.noObs }
  ginv := H.ginv
  unlocked := hl
  nodup := H.nodup
  zstEq := H.zstEq
  maxc := H.maxc
  ok := fun e cs hm =>
    (H.ok e cs hm).frame ⟨fun c => valOf_congr rfl rfl _ c, compsOf_congr rfl rfl _⟩

/-- **a machine state without entities and with an empty pool**: what `LoadEntities` accepts
    ("an empty or reset world") -/
structure EmptySt (t : St) : Prop where
  inv : ∃ (fl : List Nat), HInv t fl
  pool : t.w.pool.ents.length = 2

theorem EmptySt.facts {t : St} (E : EmptySt t) :
    HInv t [] ∧ t.ss.ents = [] ∧ t.w.pool.available = 0 ∧ t.w.isLocked = false := by
  obtain ⟨fl, H⟩ := E.inv
  have hcount := H.ginv.count
  simp only [St.ps, List.length_map] at hcount
  have hp := E.pool
  have hfl : fl = [] := List.eq_nil_of_length_eq_zero (by omega)
  have he : t.ss.ents = [] := List.eq_nil_of_length_eq_zero (by omega)
  subst hfl
  have ha := H.cinv.pool.avail
  exact ⟨H, he, by simpa using ha.symm, H.unlocked⟩

/-- the world after `Reset` (from any state satisfying the invariant) -/
theorem emptySt_reset (run : ProbeRunner) {s : St} {fl : List Nat} (H : HInv s fl) :
    step run s .reset = ⟨resetW s.w, [], ⟨[], s.ss.zst⟩⟩ ∧ EmptySt (step run s .reset) := by
  have hg : guard s .reset = true := rfl
  have hex : exec run s.w .reset = .ok none (resetW s.w) := by
    simp only [exec, opReset_eq s.w H.unlocked]
  have hstep : step run s .reset = ⟨resetW s.w, [], ⟨[], s.ss.zst⟩⟩ := by
    rw [step_of_guard hg, hex]
    simp only [Res.state, issuedAfter, Op.isReset, if_true, specStep]
  obtain ⟨⟨fl', H'⟩, _⟩ := step_reset run H
  refine ⟨hstep, ⟨fl', H'⟩, ?_⟩
  rw [hstep]
  show (resetW s.w).pool.ents.length = 2
  rw [resetW_pool]
  show (s.w.pool.ents.take 2).length = 2
  rw [List.length_take]
  have := H.cinv.pool.len2
  omega

/-- a history that only registers component types -/
def OnlyRegs (ops : List Op) : Prop := ∀ (op : Op), op ∈ ops → ∃ (size : Nat) (z : Bool), op = .reg size z

theorem step_reg_pool (run : ProbeRunner) (s : St) (size : Nat) (z : Bool) :
    (step run s (.reg size z)).w.pool = s.w.pool := by
  have hg : guard s (.reg size z) = true := rfl
  rw [step_of_guard hg]
  show (exec run s.w (.reg size z)).state.pool = _
  cases hr : World.registerComponent { isRel := false, zst := z, size := size } s.w with
  | panic k w1 =>
    simp only [exec, hr, Res.state]
    rw [registerComponent_panic hr]
  | ok n w1 =>
    simp only [exec, hr, Res.state]
    exact (registerComponent_ok hr).2.2.2.2.2.1

theorem runOps_regs_pool (run : ProbeRunner) : ∀ (ops : List Op) (s : St), OnlyRegs ops →
    (runOps run s ops).w.pool = s.w.pool := by
  intro ops
  induction ops with
  | nil => intro s _; rfl
  | cons op ops ih =>
    intro s h
    obtain ⟨size, z, rfl⟩ := h op (by simp)
    show (runOps run (step run s (.reg size z)) ops).w.pool = _
    rw [ih _ (fun o ho => h o (by simp [ho])), step_reg_pool]

/-- **a new world with any registrations** (`NewWorld(cap, rel)` followed by component
    registrations only) -/
theorem emptySt_regs (run : ProbeRunner) (cap rel : Nat) (regs : List Op) (hr : OnlyRegs regs)
    (hlen : regs.length < 2 ^ 32 - 2) : EmptySt (reach run cap rel regs) :=
  ⟨reach_hinv run cap rel regs hlen, by
    show (runOps run (St.init cap rel) regs).w.pool.ents.length = 2
    rw [runOps_regs_pool run regs _ hr]; rfl⟩

/-! ## 6. dump, load, create: along histories -/

/-- **C17 over histories.**  After ANY history `pre` of the entity machine: `DumpEntities`
    succeeds (changing only the bit pool of the lock); `LoadEntities` of the dump into any empty
    machine state `t` (the reset world, a new world with any registrations) succeeds; every handle
    issued in `pre` has the same `Alive` answer in the loaded world as at dump time; and any
    number of consecutive creations return the same handles in the source world and in the loaded
    world. -/
theorem reach_dump_load (run : ProbeRunner) (cap rel : Nat) (pre : List Op)
    (hlen : pre.length < 2 ^ 32 - 2) {t : St} (E : EmptySt t) :
    ∃ (d : Dump),
      opDump (reach run cap rel pre).w =
        .ok d ((reach run cap rel pre).w.withLocks lockAfterQuery) ∧
      opLoad d t.w = .ok () (loadW d t.w) ∧
      (∀ (e : Ent), e ∈ (reach run cap rel pre).issued →
        (loadW d t.w).alive e = (reach run cap rel pre).w.alive e) ∧
      (∀ (run' : ProbeRunner) (n : Nat), ∃ (w1 w2 : World),
        newN run' n ((reach run cap rel pre).w.withLocks lockAfterQuery) =
          .ok ((reach run cap rel pre).w.pool.getN n) w1 ∧
        newN run' n (loadW d t.w) = .ok ((reach run cap rel pre).w.pool.getN n) w2) := by
  obtain ⟨fl, H⟩ := reach_hinv run cap rel pre hlen
  have X := reach_xinv run cap rel pre hlen
  have hL : LockCycle (reach run cap rel pre).w.locks lockDuringQuery 0 lockAfterQuery := by
    rw [X.locks]; exact lockCycle_default
  obtain ⟨Ht, _, hta, htl⟩ := E.facts
  obtain ⟨d, hd, hload, hal, _, _, _, hget⟩ :=
    dump_load H hL t.w htl ⟨by rw [E.pool]; exact Nat.le_refl _, hta⟩
  refine ⟨d, hd, hload, hal, ?_⟩
  intro run' n
  have HL := H.withLocks lockAfterQuery lockAfterQuery_unlocked
  obtain ⟨w1, h1, _⟩ := newN_eq run' n ((reach run cap rel pre).w.withLocks lockAfterQuery)
    HL.unlocked (HL.cinv.noObs _)
  obtain ⟨w2, h2, _⟩ := newN_eq run' n (loadW d t.w)
    (by simp only [World.isLocked, loadW_locks]; exact htl)
    (by rw [loadW_obs]; exact Ht.cinv.noObs _)
  rw [hget n] at h2
  exact ⟨w1, w2, h1, h2⟩

/-- **any sequence of creations — with or without components — that succeeds in the source
    world and in the loaded world returns the same handles** (the next handles of the source's
    pool).  (`reach_dump_load` shows that `NewEntity()` sequences do succeed in both.) -/
theorem reach_dump_load_creations (run : ProbeRunner) (cap rel : Nat) (pre : List Op)
    (hlen : pre.length < 2 ^ 32 - 2) {t : St} (E : EmptySt t) :
    ∃ (d : Dump),
      opDump (reach run cap rel pre).w =
        .ok d ((reach run cap rel pre).w.withLocks lockAfterQuery) ∧
      opLoad d t.w = .ok () (loadW d t.w) ∧
      ∀ (run' : ProbeRunner) (qs : List CreateReq) (es1 es2 : List Ent) (w1 w2 : World),
        createAll run' qs ((reach run cap rel pre).w.withLocks lockAfterQuery) = .ok es1 w1 →
        createAll run' qs (loadW d t.w) = .ok es2 w2 →
        es1 = (reach run cap rel pre).w.pool.getN qs.length ∧ es2 = es1 := by
  obtain ⟨fl, H⟩ := reach_hinv run cap rel pre hlen
  have X := reach_xinv run cap rel pre hlen
  have hL : LockCycle (reach run cap rel pre).w.locks lockDuringQuery 0 lockAfterQuery := by
    rw [X.locks]; exact lockCycle_default
  obtain ⟨Ht, _, hta, htl⟩ := E.facts
  obtain ⟨d, hd, hload, _, _, _, _, hget⟩ :=
    dump_load H hL t.w htl ⟨by rw [E.pool]; exact Nat.le_refl _, hta⟩
  refine ⟨d, hd, hload, ?_⟩
  intro run' qs es1 es2 w1 w2 h1 h2
  have HL := H.withLocks lockAfterQuery lockAfterQuery_unlocked
  obtain ⟨a1, _⟩ := createAll_handles run' qs _ HL.unlocked HL.cinv.noObs h1
  obtain ⟨a2, _⟩ := createAll_handles run' qs (loadW d t.w)
    (by simp only [World.isLocked, loadW_locks]; exact htl)
    (by intro evt; rw [loadW_obs]; exact Ht.cinv.noObs evt) h2
  rw [hget] at a2
  exact ⟨a1, by rw [a2, a1]; rfl⟩

/-- the real sequence `d := DumpEntities(); Reset(); LoadEntities(d)`: the world `Reset` leaves
    is an empty machine state -/
theorem reach_dump_reset (run : ProbeRunner) (cap rel : Nat) (pre : List Op)
    (hlen : pre.length < 2 ^ 32 - 2) :
    opReset ((reach run cap rel pre).w.withLocks lockAfterQuery) =
      .ok () (resetW ((reach run cap rel pre).w.withLocks lockAfterQuery)) ∧
    EmptySt ⟨resetW ((reach run cap rel pre).w.withLocks lockAfterQuery), [],
      ⟨[], (reach run cap rel pre).ss.zst⟩⟩ := by
  obtain ⟨fl, H⟩ := reach_hinv run cap rel pre hlen
  have HL := H.withLocks lockAfterQuery lockAfterQuery_unlocked
  obtain ⟨h1, h2⟩ := emptySt_reset run HL
  rw [h1] at h2
  exact ⟨opReset_eq _ HL.unlocked, h2⟩

end Refine

end Ark
