/-
  Ark.Proofs.Pool — the free-list invariant of `entityPool` and what follows from it:
  handles are fresh, liveness is exact, the count is exact.  Kernel-only proofs.
-/
import Ark.Model.Pool

namespace Ark
namespace Pool

/-- Follow the implicit free list: `chain ents s n` is the list of the `n` slots reached from
    `s` through the `id` fields. -/
def chain (ents : List Ent) : Nat → Nat → Option (List Nat)
  | _, 0 => some []
  | s, n + 1 =>
    match ents[s]? with
    | none => none
    | some e =>
      match chain ents e.id n with
      | none => none
      | some l => some (s :: l)

theorem chain_length (ents : List Ent) : ∀ (n s : Nat) (l : List Nat),
    chain ents s n = some l → l.length = n := by
  intro n
  induction n with
  | zero => intro s l h; simp [chain] at h; subst h; rfl
  | succ n ih =>
    intro s l h
    simp only [chain] at h
    split at h
    · contradiction
    · rename_i e he
      split at h
      · contradiction
      · rename_i l' hl'
        injection h with h; subst h
        simp [ih _ _ hl']

/-- Overwriting a slot that is not on the chain does not change the chain. -/
theorem chain_set (ents : List Ent) (i : Nat) (v : Ent) :
    ∀ (n s : Nat) (l : List Nat), chain ents s n = some l → i ∉ l →
      chain (ents.set i v) s n = some l := by
  intro n
  induction n with
  | zero => intro s l h _; simpa [chain] using h
  | succ n ih =>
    intro s l h hi
    simp only [chain] at h ⊢
    split at h
    · contradiction
    · rename_i e he
      split at h
      · contradiction
      · rename_i l' hl'
        injection h with h; subst h
        have hsi : i ≠ s := fun hh => hi (by simp [hh])
        have hil : i ∉ l' := fun hh => hi (by simp [hh])
        rw [List.getElem?_set_ne hsi, he]
        simp only
        rw [ih _ _ hl' hil]

/-- Appending a slot does not change the chain. -/
theorem chain_append (ents : List Ent) (v : Ent) :
    ∀ (n s : Nat) (l : List Nat), chain ents s n = some l → chain (ents ++ [v]) s n = some l := by
  intro n
  induction n with
  | zero => intro s l h; simpa [chain] using h
  | succ n ih =>
    intro s l h
    simp only [chain] at h ⊢
    split at h
    · contradiction
    · rename_i e he
      split at h
      · contradiction
      · rename_i l' hl'
        injection h with h; subst h
        have hs : s < ents.length := by
          have := List.getElem?_eq_some_iff.mp he
          exact this.1
        rw [List.getElem?_append_left hs, he]
        simp only
        rw [ih _ _ hl']

/-- The pool invariant (I1): the free list `fl` is the chain of length `available` from `next`,
    it is duplicate free, contains only non-reserved existing slots, and every other slot holds
    its own ID. -/
structure PInv (p : Pool) (fl : List Nat) : Prop where
  ch : chain p.ents p.next p.available = some fl
  nodup : fl.Nodup
  res : ∀ i ∈ fl, 2 ≤ i ∧ i < p.ents.length
  self : ∀ i e, p.ents[i]? = some e → i ∉ fl → e.id = i
  len2 : 2 ≤ p.ents.length

theorem pinv_init : PInv Pool.init [] := by
  refine ⟨rfl, List.nodup_nil, ?_, ?_, ?_⟩
  · intro i hi; cases hi
  · intro i e h _
    match i with
    | 0 => simp [Pool.init] at h; subst h; rfl
    | 1 => simp [Pool.init] at h; subst h; rfl
    | n + 2 => simp [Pool.init] at h
  · simp [Pool.init]

theorem PInv.avail (p : Pool) (fl : List Nat) (h : PInv p fl) : fl.length = p.available :=
  chain_length _ _ _ _ h.ch

/-- `getNew` preserves the invariant, returns a handle with a fresh ID. -/
theorem getNew_inv (p : Pool) (fl : List Nat) (h : PInv p fl) :
    PInv p.getNew.1 fl ∧ p.getNew.2 = ⟨p.ents.length, 0⟩ := by
  refine ⟨⟨?_, h.nodup, ?_, ?_, ?_⟩, rfl⟩
  · simpa [getNew] using chain_append p.ents _ _ _ _ h.ch
  · intro i hi
    have := h.res i hi
    simp [getNew]; omega
  · intro i e he hnot
    simp only [getNew] at he
    by_cases hlt : i < p.ents.length
    · rw [List.getElem?_append_left hlt] at he; exact h.self i e he hnot
    · rw [List.getElem?_append_right (by omega)] at he
      have hi : i - p.ents.length = 0 := by
        cases hh : i - p.ents.length with
        | zero => rfl
        | succ k => rw [hh] at he; simp at he
      rw [hi] at he
      simp at he
      subst he
      simp; omega
  · simp [getNew]; have := h.len2; omega

/-- `recycle e` pushes `e.id` on the free list. -/
theorem recycle_inv (p : Pool) (fl : List Nat) (e : Ent) (h : PInv p fl)
    (hlt : e.id < p.ents.length) (hres : 2 ≤ e.id) (halive : e.id ∉ fl) :
    PInv (p.recycle e) (e.id :: fl) := by
  refine ⟨?_, ?_, ?_, ?_, ?_⟩
  · -- chain
    simp only [recycle, chain]
    rw [List.getElem?_set_self hlt]
    simp only
    rw [chain_set p.ents e.id _ _ _ _ h.ch halive]
  · exact List.nodup_cons.mpr ⟨halive, h.nodup⟩
  · intro i hi
    simp only [recycle, List.length_set]
    rcases List.mem_cons.mp hi with rfl | hi
    · exact ⟨hres, hlt⟩
    · exact h.res i hi
  · intro i e' he hnot
    simp only [recycle] at he
    have hne : i ≠ e.id := fun hh => hnot (by simp [hh])
    have hnot' : i ∉ fl := fun hh => hnot (by simp [hh])
    rw [List.getElem?_set_ne (Ne.symm hne)] at he
    exact h.self i e' he hnot'
  · simpa [recycle] using h.len2

/-- The recycling branch of `Get` pops the head of the free list and returns it with the
    slot's (already bumped) generation. -/
theorem getRecycled_inv (p : Pool) (x : Nat) (fl : List Nat) (h : PInv p (x :: fl)) :
    PInv p.getRecycled.1 fl ∧ p.getRecycled.2.id = x ∧ x ∉ fl ∧
    (∃ e, p.ents[x]? = some e ∧ p.getRecycled.2.gen = e.gen) := by
  have hch := h.ch
  have hav : p.available = fl.length + 1 := by
    have := h.avail; simp at this; omega
  rw [hav] at hch
  simp only [chain] at hch
  split at hch
  · contradiction
  · rename_i e he
    split at hch
    · contradiction
    · rename_i l' hl'
      injection hch with hch
      injection hch with hx hl
      subst hl
      have hxlt : p.next < p.ents.length := (List.getElem?_eq_some_iff.mp he).1
      have hxfl : x ∉ l' := (List.nodup_cons.mp h.nodup).1
      have hgetD : p.ents.getD p.next default = e := by
        rw [List.getD_eq_getElem?_getD, he]; rfl
      refine ⟨⟨?_, (List.nodup_cons.mp h.nodup).2, ?_, ?_, ?_⟩, ?_, hxfl, ⟨e, hx ▸ he, ?_⟩⟩
      · -- chain
        simp only [getRecycled, hgetD, hav, Nat.add_sub_cancel]
        exact chain_set p.ents p.next _ _ _ _ hl' (hx ▸ hxfl)
      · intro i hi
        have := h.res i (by simp [hi])
        simpa [getRecycled] using this
      · intro i e' he' hnot
        simp only [getRecycled] at he'
        by_cases hix : i = p.next
        · subst hix
          rw [List.getElem?_set_self hxlt] at he'
          injection he' with he'; subst he'; rfl
        · rw [List.getElem?_set_ne (Ne.symm hix)] at he'
          exact h.self i e' he' (by
            intro hm
            rcases List.mem_cons.mp hm with hm | hm
            · exact hix (hm.trans hx.symm)
            · exact hnot hm)
      · simpa [getRecycled] using h.len2
      · simp only [getRecycled]
        rw [List.getD_eq_getElem?_getD, List.getElem?_set_self hxlt]
        exact hx
      · show ((p.ents.set p.next { p.ents.getD p.next default with id := p.next }).getD p.next default).gen = e.gen
        rw [List.getD_eq_getElem?_getD, List.getElem?_set_self hxlt, hgetD]
        rfl

end Pool
end Ark
