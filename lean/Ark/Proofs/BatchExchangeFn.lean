/-
  Ark.Proofs.BatchExchangeFn — C06 at world level, part 3 (callback): the add / remove / exchange
  batches with a callback that writes values into every moved row, and what the callback records.
-/
import Ark.Proofs.BatchExchangeSpec
set_option autoImplicit false
namespace Ark
open World Ark.Props.C01World
namespace World

/-! ## 9. the callback of the exchange batches -/

/-- the written value: a zero-size component keeps what it reads, otherwise the last write wins -/
def written (w : World) (vs : List (Comp × Val)) (c : Comp) (v : Val) : Val :=
  if (w.kinds.getD c {}).zst = true then v else applyVals v vs c

theorem written_nil (w : World) (c : Comp) (v : Val) : written w [] c v = v := by
  simp only [written, applyVals, List.foldl_nil, ite_self]

/-- what writing `vs` into the rows `start … start+n-1` of table `t` guarantees -/
structure RowsWrittenPost (X : World) (fl : List Nat) (t start n : Nat) (vs : List (Comp × Val))
    (X' : World) : Prop where
  cinv : CInv X' fl
  rowsLive : RowsLive X'
  pool : X'.pool = X.pool
  kinds : X'.kinds = X.kinds
  maxComps : X'.maxComps = X.maxComps
  archetypes : X'.archetypes = X.archetypes
  entities : X'.entities = X.entities
  tablesLen : X'.tables.length = X.tables.length
  locks : X'.locks = X.locks
  log : X'.log = X.log
  ents : ∀ t' : Nat, (X'.tbl t').ents = (X.tbl t').ents ∧ (X'.tbl t').len = (X.tbl t').len ∧
    (X'.tbl t').ids = (X.tbl t').ids
  others : ∀ t' : Nat, t' ≠ t → X'.tbl t' = X.tbl t'
  wrote : ∀ i : Nat, i < n →
    compsOf X' ((X.tbl t).getEntity (start + i)).id = compsOf X ((X.tbl t).getEntity (start + i)).id ∧
    ∀ c : Comp, valOf X' ((X.tbl t).getEntity (start + i)).id c =
      (valOf X ((X.tbl t).getEntity (start + i)).id c).map (written X vs c)
  frame : ∀ j : Nat, (∀ i : Nat, i < n → ((X.tbl t).getEntity (start + i)).id ≠ j) → SameEnt X X' j

theorem writeRows_post {X : World} {fl : List Nat} (h : CInv X fl) (hR : RowsLive X) {t start : Nat}
    (ht : t < X.tables.length) (vs : List (Comp × Val)) : ∀ n : Nat, start + n ≤ (X.tbl t).len →
    RowsWrittenPost X fl t start n vs (writeRows X t start n vs)
  | 0, _ =>
    { cinv := h, rowsLive := hR, pool := rfl, kinds := rfl, maxComps := rfl, archetypes := rfl,
      entities := rfl, tablesLen := rfl, locks := rfl, log := rfl,
      ents := fun _ => ⟨rfl, rfl, rfl⟩, others := fun _ _ => rfl,
      wrote := (fun i hi => absurd hi (Nat.not_lt_zero _)),
      frame := fun _ _ => ⟨fun _ => rfl, rfl⟩ }
  | n + 1, hn => by
    have ip := writeRows_post (start := start) h hR ht vs n (by omega)
    rw [writeRows_succ]
    generalize hY : writeRows X t start n vs = Y at ip
    have htY : t < Y.tables.length := by rw [ip.tablesLen]; exact ht
    have hrowY : start + n < (Y.tbl t).len := by rw [(ip.ents t).2.1]; omega
    -- the entity of the row
    have hge : (Y.tbl t).getEntity (start + n) = (X.tbl t).getEntity (start + n) := by
      simp only [Table.getEntity, (ip.ents t).1]
    obtain ⟨a1, a2, a3, a4, a5⟩ := row_handle_live ip.cinv ip.rowsLive htY hrowY
    rw [hge] at a1 a2 a3 a4 a5
    have hWR : writeRow Y t (start + n) vs =
        writeValsW Y ((X.tbl t).getEntity (start + n)) vs := by
      simp only [writeValsW, index_of_get a4, writeRow]
    have wp := ip.cinv.writeVals a1 a2 a3 a5 vs
    rw [← hWR] at wp
    have hwrel := writeVals_writeRel (Y.tbl t) (start + n) vs hrowY
    have htblt : (writeRow Y t (start + n) vs).tbl t =
        vs.foldl (fun T (cv : Comp × Val) => T.setComp cv.1 (start + n) cv.2) (Y.tbl t) :=
      writeRow_tbl_self htY _ _
    have hents : ∀ t' : Nat, ((writeRow Y t (start + n) vs).tbl t').ents = (X.tbl t').ents ∧
        ((writeRow Y t (start + n) vs).tbl t').len = (X.tbl t').len ∧
        ((writeRow Y t (start + n) vs).tbl t').ids = (X.tbl t').ids := by
      intro t'
      by_cases htt : t' = t
      · subst htt
        rw [htblt, hwrel.ents, hwrel.len, hwrel.ids]; exact ip.ents t'
      · rw [writeRow_tbl_ne Y (Ne.symm htt)]; exact ip.ents t'
    -- IDs of different rows differ
    have hrowne : ∀ i : Nat, i < n →
        ((X.tbl t).getEntity (start + i)).id ≠ ((X.tbl t).getEntity (start + n)).id := by
      intro i hi heq
      have := h.idx.row_inj (get_of_lt ht) (get_of_lt ht) (by omega) (by omega) heq
      omega
    exact
      { cinv := wp.cinv
        rowsLive := by
          intro t' r ht' hr
          rw [wp.tablesLen] at ht'
          have he' := hents t'
          have hy := ip.ents t'
          have hr' : r < (Y.tbl t').len := by rw [hy.2.1, ← he'.2.1]; exact hr
          have := ip.rowsLive t' r ht' hr'
          simp only [Table.getEntity, he'.1, hy.1] at this ⊢
          rw [wp.pool]; exact this
        pool := wp.pool.trans ip.pool
        kinds := wp.kinds.trans ip.kinds
        maxComps := wp.maxComps.trans ip.maxComps
        archetypes := ip.archetypes
        entities := ip.entities
        tablesLen := wp.tablesLen.trans ip.tablesLen
        locks := ip.locks
        log := ip.log
        ents := hents
        others := fun t' ht' => by rw [writeRow_tbl_ne Y (Ne.symm ht')]; exact ip.others t' ht'
        wrote := by
          intro i hi
          rcases Nat.lt_succ_iff_lt_or_eq.mp hi with hi' | rfl
          · obtain ⟨w1, w2⟩ := ip.wrote i hi'
            have hfr := wp.frame _ (hrowne i hi')
            exact ⟨hfr.2.trans w1, fun c => by rw [hfr.1 c]; exact w2 c⟩
          · have hfr := ip.frame _ (fun i' hi' heq => hrowne i' hi' heq)
            refine ⟨wp.comps.trans hfr.2, fun c => ?_⟩
            cases hv : valOf X ((X.tbl t).getEntity (start + i)).id c with
            | none =>
              rw [wp.absent c (by rw [hfr.1 c]; exact hv)]; rfl
            | some v =>
              rw [wp.vals c v (by rw [hfr.1 c]; exact hv), ip.kinds]; rfl
        frame := by
          intro j hj
          have h1 := ip.frame j (fun i hi => hj i (Nat.lt_succ_of_lt hi))
          exact h1.trans (wp.frame j (fun heq => hj n (Nat.lt_succ_self n) heq.symm)) }

/-- the values a batch callback writes (`none`: no callback) -/
def valsOf : Option (List (Comp × Val)) → List (Comp × Val)
  | none => []
  | some vs => vs

/-- the callback records of one table move, newest first -/
def stepEvents (W : World) (b : BatchTable) : Option (List (Comp × Val)) → List LogEv
  | none => []
  | some vs => fnEvents (exchangeTableW W b.oldT b.newT) b.newT (W.tbl b.newT).len vs (W.tbl b.oldT).len

theorem rowsLive_tableMoved {W W' : World} {fl : List Nat} {oldT newT : Nat} (hR : RowsLive W)
    (ho : oldT < W.tables.length) (hn : newT < W.tables.length)
    (tp : TableMovedPost W fl oldT newT W') : RowsLive W' := by
  intro t r ht hr
  rw [tp.tablesLen] at ht
  rw [tp.pool]
  by_cases h1 : t = oldT
  · subst h1; rw [tp.srcEmpty] at hr; exact absurd hr (Nat.not_lt_zero _)
  · by_cases h2 : t = newT
    · subst h2
      rw [tp.dstLen] at hr
      rw [tp.dstRows r hr]
      split
      · rename_i hlt; exact hR t r hn hlt
      · exact hR oldT _ ho (by omega)
    · rw [tp.others t h1 h2] at hr ⊢
      exact hR t r ht hr

/-- what one iteration of the move loop guarantees (`vs` the values the callback writes) -/
structure TableStepPost (W : World) (fl : List Nat) (oldT newT : Nat) (vs : List (Comp × Val))
    (W' : World) : Prop where
  cinv : CInv W' fl
  rowsLive : RowsLive W'
  pool : W'.pool = W.pool
  kinds : W'.kinds = W.kinds
  maxComps : W'.maxComps = W.maxComps
  archetypes : W'.archetypes = W.archetypes
  tablesLen : W'.tables.length = W.tables.length
  entitiesLen : W'.entities.length = W.entities.length
  locks : W'.locks = W.locks
  moved : ∀ k : Nat, k < (W.tbl oldT).len →
    compsOf W' ((W.tbl oldT).getEntity k).id = some (W.tbl newT).ids ∧
    ∀ c : Comp, c ∈ (W.tbl newT).ids →
      valOf W' ((W.tbl oldT).getEntity k).id c =
        (if c ∈ (W.tbl oldT).ids then valOf W ((W.tbl oldT).getEntity k).id c else some 0).map
          (written W vs c)
  frame : ∀ j : Nat, (∀ k : Nat, k < (W.tbl oldT).len → ((W.tbl oldT).getEntity k).id ≠ j) →
    SameEnt W W' j
  others : ∀ t : Nat, t ≠ oldT → t ≠ newT → W'.tbl t = W.tbl t

/-- **one iteration of the move loop**: move the table, then the callback on the moved rows -/
theorem CInv.tableStep {W : World} {fl : List Nat} (h : CInv W fl) (hR : RowsLive W)
    {b : BatchTable} (hne : b.oldT ≠ b.newT) (ho : b.oldT < W.tables.length)
    (hn : b.newT < W.tables.length) (hb : (W.tbl b.newT).len + (W.tbl b.oldT).len < 2 ^ 32)
    (vals : Option (List (Comp × Val))) :
    TableStepPost W fl b.oldT b.newT (valsOf vals) (moveStep vals W b) ∧
    (moveStep vals W b).log = stepEvents W b vals ++ W.log := by
  have tp := CInv.tableMoved h hne ho hn hb
  have hR1 := rowsLive_tableMoved hR ho hn tp
  have hlog1 := (exchangeTableW_rest W b.oldT b.newT).2.2.2.2.2
  cases vals with
  | none =>
    refine ⟨?_, hlog1⟩
    exact
      { cinv := tp.cinv, rowsLive := hR1, pool := tp.pool, kinds := tp.kinds, maxComps := tp.maxComps,
        archetypes := tp.archetypes, tablesLen := tp.tablesLen, entitiesLen := tp.entitiesLen,
        locks := exchangeTableW_locks W _ _,
        moved := by
          intro k hk
          obtain ⟨_, m2, m3⟩ := tp.moved k hk
          refine ⟨m2, fun c hc => ?_⟩
          show valOf (exchangeTableW W b.oldT b.newT) _ c = _
          rw [m3 c hc]
          have : written W (valsOf none) c = id := by
            funext v; exact written_nil W c v
          rw [this, Option.map_id]; rfl
        frame := fun j hj => (tp.frame j hj).1
        others := tp.others }
  | some vs =>
    have hnX : b.newT < (exchangeTableW W b.oldT b.newT).tables.length := by
      rw [tp.tablesLen]; exact hn
    have wp := writeRows_post tp.cinv hR1 hnX vs (start := (W.tbl b.newT).len) (W.tbl b.oldT).len
      (by rw [tp.dstLen]; exact Nat.le_refl _)
    have hclosed := batchFnW_closed (exchangeTableW W b.oldT b.newT) b.newT (W.tbl b.newT).len vs
      (W.tbl b.oldT).len
    have hms : moveStep (some vs) W b =
        { writeRows (exchangeTableW W b.oldT b.newT) b.newT (W.tbl b.newT).len (W.tbl b.oldT).len vs with
          log := fnEvents (exchangeTableW W b.oldT b.newT) b.newT (W.tbl b.newT).len vs
            (W.tbl b.oldT).len ++ (exchangeTableW W b.oldT b.newT).log } := hclosed
    -- the rows written are the moved entities
    have hrow : ∀ k : Nat, k < (W.tbl b.oldT).len →
        ((exchangeTableW W b.oldT b.newT).tbl b.newT).getEntity ((W.tbl b.newT).len + k) =
          (W.tbl b.oldT).getEntity k := by
      intro k hk
      rw [tp.dstRows _ (by omega), if_neg (by omega)]
      congr 1; omega
    rw [hms]
    refine ⟨?_, by rw [hlog1]; rfl⟩
    have hv : ∀ (j : Nat) (c : Comp), valOf ({ writeRows (exchangeTableW W b.oldT b.newT) b.newT
        (W.tbl b.newT).len (W.tbl b.oldT).len vs with
        log := fnEvents (exchangeTableW W b.oldT b.newT) b.newT (W.tbl b.newT).len vs
          (W.tbl b.oldT).len ++ (exchangeTableW W b.oldT b.newT).log } : World) j c =
        valOf (writeRows (exchangeTableW W b.oldT b.newT) b.newT (W.tbl b.newT).len
          (W.tbl b.oldT).len vs) j c := fun j c => valOf_congr rfl rfl j c
    have hcm : ∀ j : Nat, compsOf ({ writeRows (exchangeTableW W b.oldT b.newT) b.newT
        (W.tbl b.newT).len (W.tbl b.oldT).len vs with
        log := fnEvents (exchangeTableW W b.oldT b.newT) b.newT (W.tbl b.newT).len vs
          (W.tbl b.oldT).len ++ (exchangeTableW W b.oldT b.newT).log } : World) j =
        compsOf (writeRows (exchangeTableW W b.oldT b.newT) b.newT (W.tbl b.newT).len
          (W.tbl b.oldT).len vs) j := fun j => compsOf_congr rfl rfl j
    exact
      { cinv := cinv_withLocks wp.cinv _ _
        rowsLive := wp.rowsLive
        pool := wp.pool.trans tp.pool
        kinds := wp.kinds.trans tp.kinds
        maxComps := wp.maxComps.trans tp.maxComps
        archetypes := wp.archetypes.trans tp.archetypes
        tablesLen := wp.tablesLen.trans tp.tablesLen
        entitiesLen := by
          show (writeRows _ _ _ _ _).entities.length = _
          rw [wp.entities, tp.entitiesLen]
        locks := wp.locks.trans (exchangeTableW_locks W _ _)
        moved := by
          intro k hk
          obtain ⟨_, m2, m3⟩ := tp.moved k hk
          obtain ⟨w1, w2⟩ := wp.wrote k hk
          rw [hrow k hk] at w1 w2
          refine ⟨by rw [hcm, w1, m2], fun c hc => ?_⟩
          rw [hv, w2 c, m3 c hc]
          have : written (exchangeTableW W b.oldT b.newT) vs c = written W (valsOf (some vs)) c := by
            funext v; simp only [written, tp.kinds, valsOf]
          rw [this]
        frame := by
          intro j hj
          have h1 := (tp.frame j hj).1
          have h2 := wp.frame j (fun i hi heq => hj i hi (by rw [← hrow i hi]; exact heq))
          exact ⟨fun c => by rw [hv]; exact (h1.trans h2).1 c, by rw [hcm]; exact (h1.trans h2).2⟩
        others := by
          intro t h1 h2
          show (writeRows _ _ _ _ _).tbl t = _
          rw [wp.others t h2]; exact tp.others t h1 h2 }

/-- the callback records of the move loop, newest first -/
def loopEvents (vals : Option (List (Comp × Val))) : World → List BatchTable → List LogEv
  | _, [] => []
  | W, b :: bts => loopEvents vals (moveStep vals W b) bts ++ stepEvents W b vals

/-- what the move loop with callback guarantees -/
structure MovedAllPost' (W : World) (fl : List Nat) (bts : List BatchTable) (vs : List (Comp × Val))
    (W' : World) : Prop where
  cinv : CInv W' fl
  rowsLive : RowsLive W'
  pool : W'.pool = W.pool
  kinds : W'.kinds = W.kinds
  maxComps : W'.maxComps = W.maxComps
  archetypes : W'.archetypes = W.archetypes
  tablesLen : W'.tables.length = W.tables.length
  entitiesLen : W'.entities.length = W.entities.length
  locks : W'.locks = W.locks
  moved : ∀ b ∈ bts, ∀ k : Nat, k < (W.tbl b.oldT).len →
    compsOf W' ((W.tbl b.oldT).getEntity k).id = some (W.tbl b.newT).ids ∧
    ∀ c : Comp, c ∈ (W.tbl b.newT).ids →
      valOf W' ((W.tbl b.oldT).getEntity k).id c =
        (if c ∈ (W.tbl b.oldT).ids then valOf W ((W.tbl b.oldT).getEntity k).id c else some 0).map
          (written W vs c)
  frame : ∀ j : Nat, j ∉ srcIds W bts → SameEnt W W' j

/-- **the move loop** with the callback -/
theorem moveLoop_post' {fl : List Nat} (vals : Option (List (Comp × Val))) :
    ∀ (bts : List BatchTable) {W : World}, CInv W fl → RowsLive W → MovesOK W bts →
    2 * W.entities.length < 2 ^ 32 →
    MovedAllPost' W fl bts (valsOf vals) (bts.foldl (moveStep vals) W) ∧
    (bts.foldl (moveStep vals) W).log = loopEvents vals W bts ++ W.log
  | [], W, h, hR, _, _ =>
    ⟨{ cinv := h, rowsLive := hR, pool := rfl, kinds := rfl, maxComps := rfl, archetypes := rfl,
       tablesLen := rfl, entitiesLen := rfl, locks := rfl, moved := (fun b hb => by cases hb),
       frame := fun _ _ => ⟨fun _ => rfl, rfl⟩ }, rfl⟩
  | b :: bts, W, h, hR, ok, hent => by
    have hsn : b.oldT ∉ bts.map (·.oldT) ∧ (bts.map (·.oldT)).Nodup := by
      have := ok.srcNodup; rw [List.map_cons] at this; exact List.nodup_cons.mp this
    have hdn : b.newT ∉ bts.map (·.newT) ∧ (bts.map (·.newT)).Nodup := by
      have := ok.dstNodup; rw [List.map_cons] at this; exact List.nodup_cons.mp this
    have hbo := ok.src b List.mem_cons_self
    have hbn := ok.dst b List.mem_cons_self
    have hne : b.oldT ≠ b.newT := fun hh => ok.disj b List.mem_cons_self b List.mem_cons_self hh.symm
    have hb : (W.tbl b.newT).len + (W.tbl b.oldT).len < 2 ^ 32 := by
      have h1 := h.idx.rows_le b.newT
      have h2 := h.idx.rows_le b.oldT
      omega
    obtain ⟨tp, hlogstep⟩ := CInv.tableStep h hR hne hbo hbn hb vals
    have hother : ∀ b' ∈ bts, b'.oldT ≠ b.oldT ∧ b'.oldT ≠ b.newT ∧ b'.newT ≠ b.oldT ∧
        b'.newT ≠ b.newT := by
      intro b' hb'
      refine ⟨?_, ?_, ?_, ?_⟩
      · intro hh; exact hsn.1 (List.mem_map.mpr ⟨b', hb', hh⟩)
      · intro hh; exact ok.disj b List.mem_cons_self b' (List.mem_cons_of_mem _ hb') hh.symm
      · exact ok.disj b' (List.mem_cons_of_mem _ hb') b List.mem_cons_self
      · intro hh; exact hdn.1 (List.mem_map.mpr ⟨b', hb', hh⟩)
    have hsrc' : ∀ b' ∈ bts, (moveStep vals W b).tbl b'.oldT = W.tbl b'.oldT :=
      fun b' hb' => tp.others _ (hother b' hb').1 (hother b' hb').2.1
    have hdst' : ∀ b' ∈ bts, (moveStep vals W b).tbl b'.newT = W.tbl b'.newT :=
      fun b' hb' => tp.others _ (hother b' hb').2.2.1 (hother b' hb').2.2.2
    have ok' : MovesOK (moveStep vals W b) bts :=
      ⟨hsn.2, hdn.2, fun b' hb' => by rw [tp.tablesLen]; exact ok.src b' (List.mem_cons_of_mem _ hb'),
        fun b' hb' => by rw [tp.tablesLen]; exact ok.dst b' (List.mem_cons_of_mem _ hb'),
        fun b1 h1 b2 h2 => ok.disj b1 (List.mem_cons_of_mem _ h1) b2 (List.mem_cons_of_mem _ h2)⟩
    obtain ⟨ip, hlogrest⟩ := moveLoop_post' vals bts tp.cinv tp.rowsLive ok'
      (by rw [tp.entitiesLen]; exact hent)
    have hsep : ∀ k : Nat, k < (W.tbl b.oldT).len →
        ((W.tbl b.oldT).getEntity k).id ∉ srcIds (moveStep vals W b) bts := by
      intro k hk hm
      obtain ⟨b', hb', k', hk', heq⟩ := mem_srcIds.mp hm
      rw [hsrc' b' hb'] at hk' heq
      have := h.idx.row_inj (get_of_lt (ok.src b' (List.mem_cons_of_mem _ hb'))) (get_of_lt hbo)
        hk' hk heq
      exact (hother b' hb').1 this.1
    have hsep' : ∀ j : Nat, j ∉ srcIds W (b :: bts) →
        (∀ k : Nat, k < (W.tbl b.oldT).len → ((W.tbl b.oldT).getEntity k).id ≠ j) ∧
        j ∉ srcIds (moveStep vals W b) bts := by
      intro j hj
      constructor
      · intro k hk heq
        exact hj (mem_srcIds.mpr ⟨b, List.mem_cons_self, k, hk, heq⟩)
      · intro hm
        obtain ⟨b', hb', k', hk', heq⟩ := mem_srcIds.mp hm
        rw [hsrc' b' hb'] at hk' heq
        exact hj (mem_srcIds.mpr ⟨b', List.mem_cons_of_mem _ hb', k', hk', heq⟩)
    have hwr : ∀ c : Comp, written (moveStep vals W b) (valsOf vals) c = written W (valsOf vals) c := by
      intro c; funext v; simp only [written, tp.kinds]
    constructor
    · show MovedAllPost' W fl (b :: bts) (valsOf vals) (bts.foldl (moveStep vals) (moveStep vals W b))
      exact
        { cinv := ip.cinv
          rowsLive := ip.rowsLive
          pool := ip.pool.trans tp.pool
          kinds := ip.kinds.trans tp.kinds
          maxComps := ip.maxComps.trans tp.maxComps
          archetypes := ip.archetypes.trans tp.archetypes
          tablesLen := ip.tablesLen.trans tp.tablesLen
          entitiesLen := ip.entitiesLen.trans tp.entitiesLen
          locks := ip.locks.trans tp.locks
          moved := by
            intro b1 hb1 k hk
            rcases List.mem_cons.mp hb1 with rfl | hb1
            · obtain ⟨m2, m3⟩ := tp.moved k hk
              have hs := ip.frame _ (hsep k hk)
              exact ⟨by rw [hs.2]; exact m2, fun c hc => by rw [hs.1 c]; exact m3 c hc⟩
            · have hk' : k < ((moveStep vals W b).tbl b1.oldT).len := by
                rw [hsrc' b1 hb1]; exact hk
              obtain ⟨m2, m3⟩ := ip.moved b1 hb1 k hk'
              rw [hsrc' b1 hb1, hdst' b1 hb1] at m2 m3
              have hnot : ∀ k' : Nat, k' < (W.tbl b.oldT).len →
                  ((W.tbl b.oldT).getEntity k').id ≠ ((W.tbl b1.oldT).getEntity k).id := by
                intro k' hk' heq
                have := h.idx.row_inj (get_of_lt hbo)
                  (get_of_lt (ok.src b1 (List.mem_cons_of_mem _ hb1))) hk' hk heq
                exact (hother b1 hb1).1 this.1.symm
              have hfr := tp.frame _ hnot
              exact ⟨m2, fun c hc => by rw [m3 c hc, hfr.1 c, hwr c]⟩
          frame := by
            intro j hj
            obtain ⟨h1, h2⟩ := hsep' j hj
            exact (tp.frame j h1).trans (ip.frame j h2) }
    · show (bts.foldl (moveStep vals) (moveStep vals W b)).log = _
      rw [hlogrest, hlogstep, loopEvents, List.append_assoc]


/-! ## 10. what the callback of the exchange batches records -/

/-- the writes into the rows before `start+i` do not change what the callback sees at row
    `start+i` -/
theorem fnEvents_pre {X : World} {t : Nat} (hlt : t < X.tables.length) (hS : (X.tbl t).Shape)
    (start : Nat) (vs : List (Comp × Val)) : ∀ n : Nat, start + n ≤ (X.tbl t).len →
    fnEvents X t start vs n = (List.range n).reverse.map fun i => fnEvent X t (start + i) vs
  | 0, _ => rfl
  | n + 1, hn => by
    have rel := writeRows_rel hlt hS start vs n (by omega)
    rw [List.range_succ, List.reverse_append, List.reverse_singleton, List.singleton_append,
      List.map_cons, ← fnEvents_pre hlt hS start vs n (by omega)]
    show fnEvent _ t (start + n) vs :: _ = _
    congr 1
    simp only [fnEvent, Table.getEntity, rel.ents]
    congr 1
    · show (writeRows X t start n vs).locks.isLocked = X.locks.isLocked
      rw [rel.locks]
    · apply List.map_congr_left
      intro cv _
      congr 2
      simp only [Table.getComp, Table.colIdx, rel.ids]
      split
      · simp only [Option.map_some]
        rw [rel.cells _ _ (Nat.le_refl _)]
      · rfl

/-- what the callback sees in a row is what `valOf` reads for the entity indexed to that row -/
theorem fnEvent_valOf {X : World} {t r : Nat} {e : Ent} (ht : t ≠ maxU32) (hlt : t < X.tables.length)
    (he : X.entities[e.id]? = some (t, r)) (hge : (X.tbl t).getEntity r = e)
    (vs : List (Comp × Val)) :
    fnEvent X t r vs = LogEv.fn e X.isLocked (vs.map fun cv => (cv.1, (valOf X e.id cv.1).getD 0)) := by
  simp only [fnEvent, hge]
  congr 1
  apply List.map_congr_left
  intro cv _
  simp only [valOf, he, ht, if_false, get_of_lt hlt, Option.bind_some]

/-- the value of component `c` the callback sees for row `k` of the source table of `b`, right
    after the move: the kept value, zero for an added component (and for a component the
    destination lacks) -/
def seenAfterFn (W : World) (b : BatchTable) (k : Nat) (c : Comp) : Val :=
  (if c ∈ (W.tbl b.newT).ids then
    (if c ∈ (W.tbl b.oldT).ids then valOf W ((W.tbl b.oldT).getEntity k).id c else some 0)
   else none).getD 0

/-- the callback records for one source table, oldest first -/
def tableEvents (W : World) (vs : List (Comp × Val)) (b : BatchTable) : List LogEv :=
  (List.range (W.tbl b.oldT).len).map fun k =>
    LogEv.fn ((W.tbl b.oldT).getEntity k) W.isLocked (vs.map fun cv => (cv.1, seenAfterFn W b k cv.1))

theorem stepEvents_eq {W : World} {fl : List Nat} (h : CInv W fl) {b : BatchTable}
    (hne : b.oldT ≠ b.newT) (ho : b.oldT < W.tables.length) (hn : b.newT < W.tables.length)
    (hb : (W.tbl b.newT).len + (W.tbl b.oldT).len < 2 ^ 32) (vs : List (Comp × Val)) :
    (stepEvents W b (some vs)).reverse = tableEvents W vs b := by
  have tp := CInv.tableMoved h hne ho hn hb
  have hnX : b.newT < (exchangeTableW W b.oldT b.newT).tables.length := by
    rw [tp.tablesLen]; exact hn
  have hXS := tp.cinv.idx.shape b.newT _ (get_of_lt hnX)
  have htm : b.newT ≠ maxU32 := by have := h.fewTables; omega
  simp only [stepEvents]
  rw [fnEvents_pre hnX hXS _ vs _ (by rw [tp.dstLen]; exact Nat.le_refl _), ← List.map_reverse,
    List.reverse_reverse, tableEvents]
  apply List.map_congr_left
  intro k hk
  have hk' := List.mem_range.mp hk
  obtain ⟨m1, m2, m3⟩ := tp.moved k hk'
  have hge : ((exchangeTableW W b.oldT b.newT).tbl b.newT).getEntity ((W.tbl b.newT).len + k) =
      (W.tbl b.oldT).getEntity k := by
    rw [tp.dstRows _ (by omega), if_neg (by omega)]
    congr 1; omega
  rw [fnEvent_valOf htm hnX m1 hge vs]
  congr 1
  · show (exchangeTableW W b.oldT b.newT).locks.isLocked = W.locks.isLocked
    rw [exchangeTableW_locks]
  · apply List.map_congr_left
    intro cv _
    congr 2
    show _ = (if cv.1 ∈ (W.tbl b.newT).ids then
      (if cv.1 ∈ (W.tbl b.oldT).ids then valOf W ((W.tbl b.oldT).getEntity k).id cv.1 else some 0)
      else none)
    by_cases hc : cv.1 ∈ (W.tbl b.newT).ids
    · rw [if_pos hc, m3 cv.1 hc]
    · rw [if_neg hc, valOf_none_of_comps m2 hc]

/-- **what the callback records**: for every source table in order, for every row in order, the
    handle of the row, "locked", and the values right after the move -/
theorem loopEvents_eq {fl : List Nat} (vs : List (Comp × Val)) : ∀ (bts : List BatchTable) {W : World},
    CInv W fl → RowsLive W → MovesOK W bts → 2 * W.entities.length < 2 ^ 32 →
    (loopEvents (some vs) W bts).reverse = bts.flatMap (tableEvents W vs)
  | [], _, _, _, _, _ => rfl
  | b :: bts, W, h, hR, ok, hent => by
    have hsn : b.oldT ∉ bts.map (·.oldT) ∧ (bts.map (·.oldT)).Nodup := by
      have := ok.srcNodup; rw [List.map_cons] at this; exact List.nodup_cons.mp this
    have hdn : b.newT ∉ bts.map (·.newT) ∧ (bts.map (·.newT)).Nodup := by
      have := ok.dstNodup; rw [List.map_cons] at this; exact List.nodup_cons.mp this
    have hbo := ok.src b List.mem_cons_self
    have hbn := ok.dst b List.mem_cons_self
    have hne : b.oldT ≠ b.newT := fun hh => ok.disj b List.mem_cons_self b List.mem_cons_self hh.symm
    have hb : (W.tbl b.newT).len + (W.tbl b.oldT).len < 2 ^ 32 := by
      have h1 := h.idx.rows_le b.newT
      have h2 := h.idx.rows_le b.oldT
      omega
    obtain ⟨tp, _⟩ := CInv.tableStep h hR hne hbo hbn hb (some vs)
    have hother : ∀ b' ∈ bts, b'.oldT ≠ b.oldT ∧ b'.oldT ≠ b.newT ∧ b'.newT ≠ b.oldT ∧
        b'.newT ≠ b.newT := by
      intro b' hb'
      refine ⟨?_, ?_, ?_, ?_⟩
      · intro hh; exact hsn.1 (List.mem_map.mpr ⟨b', hb', hh⟩)
      · intro hh; exact ok.disj b List.mem_cons_self b' (List.mem_cons_of_mem _ hb') hh.symm
      · exact ok.disj b' (List.mem_cons_of_mem _ hb') b List.mem_cons_self
      · intro hh; exact hdn.1 (List.mem_map.mpr ⟨b', hb', hh⟩)
    have ok' : MovesOK (moveStep (some vs) W b) bts :=
      ⟨hsn.2, hdn.2, fun b' hb' => by rw [tp.tablesLen]; exact ok.src b' (List.mem_cons_of_mem _ hb'),
        fun b' hb' => by rw [tp.tablesLen]; exact ok.dst b' (List.mem_cons_of_mem _ hb'),
        fun b1 h1 b2 h2 => ok.disj b1 (List.mem_cons_of_mem _ h1) b2 (List.mem_cons_of_mem _ h2)⟩
    have ih := loopEvents_eq vs bts tp.cinv tp.rowsLive ok' (by rw [tp.entitiesLen]; exact hent)
    show (loopEvents (some vs) (moveStep (some vs) W b) bts ++ stepEvents W b (some vs)).reverse = _
    rw [List.reverse_append, ih, stepEvents_eq h hne hbo hbn hb vs, List.flatMap_cons]
    congr 1
    apply flatMap_congr'
    intro b' hb'
    have e1 : (moveStep (some vs) W b).tbl b'.oldT = W.tbl b'.oldT :=
      tp.others _ (hother b' hb').1 (hother b' hb').2.1
    have e2 : (moveStep (some vs) W b).tbl b'.newT = W.tbl b'.newT :=
      tp.others _ (hother b' hb').2.2.1 (hother b' hb').2.2.2
    simp only [tableEvents, e1]
    apply List.map_congr_left
    intro k hk
    have hk' := List.mem_range.mp hk
    congr 1
    · show (moveStep (some vs) W b).locks.isLocked = W.locks.isLocked
      rw [tp.locks]
    · apply List.map_congr_left
      intro cv _
      congr 1
      simp only [seenAfterFn, e1, e2]
      have hnot : ∀ k' : Nat, k' < (W.tbl b.oldT).len →
          ((W.tbl b.oldT).getEntity k').id ≠ ((W.tbl b'.oldT).getEntity k).id := by
        intro k' hk'' heq
        have := h.idx.row_inj (get_of_lt hbo)
          (get_of_lt (ok.src b' (List.mem_cons_of_mem _ hb'))) hk'' hk' heq
        exact (hother b' hb').1 this.1.symm
      rw [(tp.frame _ hnot).1 cv.1]

/-- the value of component `c` of entity `e` that the callback of an exchange batch sees: the
    value of a component that stays; zero for an added (or absent) one -/
def seenVal (w : World) (rem : List Comp) (e : Ent) (c : Comp) : Val :=
  if (w.maskOf e).get c = true ∧ c ∉ rem then (valOf w e.id c).getD 0 else 0

/-- **what the callback of an exchange batch records** (newest first): one record per selected
    entity, in the batch's order, with the entity's handle, "world locked", and for every component
    the callback writes the value it sees there -/
def batchEvents (w : World) (f : Filter) (rem : List Comp) : Option (List (Comp × Val)) → List LogEv
  | none => []
  | some vs => ((selEnts w f).map fun e =>
      LogEv.fn e true (vs.map fun cv => (cv.1, seenVal w rem e cv.1))).reverse

theorem loopEvents_none : ∀ (W : World) (bts : List BatchTable), loopEvents none W bts = []
  | _, [] => rfl
  | W, b :: bts => by
    show loopEvents none (moveStep none W b) bts ++ stepEvents W b none = []
    rw [loopEvents_none]; rfl

/-- **the exchange batch with callback** on an unlocked world of the fragment with live rows: every
    selected entity gets `Exchange(add, rem)` and the values the callback writes; the rest is
    untouched; `log` grows by the callback records -/
theorem exchangeBatch_post' (run : ProbeRunner) {w : World} {fl : List Nat} (h : CInv w fl)
    (hR : RowsLive w) (hl : w.isLocked = false) (hL : LockFree w.locks) (fo : FilterObj) (extra : List RelID)
    (hc : fo.cache = none) {add rem : List Comp} (hne : ¬ (add = [] ∧ rem = []))
    (hok : ∀ t ∈ selTables w fo.filter, (w.tbl t).len ≠ 0 →
      ExchOK w.kinds.length add rem (tmask w t))
    (hfew : w.tables.length + (selTables w fo.filter).length < maxU32)
    (hent : 2 * w.entities.length < 2 ^ 32) (vals : Option (List (Comp × Val))) :
    ∃ Wf : World,
      exchangeBatch run fo extra add rem [] vals w = .ok () Wf ∧
      ExchangedAllPost w fl (selEnts w fo.filter) add rem (valsOf vals) Wf ∧ LockFree Wf.locks ∧
      Wf.log = batchEvents w fo.filter rem vals ++ w.log ∧ RowsLive Wf := by
  obtain ⟨l', b, l'', k1, k2, k3, k4, k5⟩ := hL.cycle
  have hwl : CInv { w with locks := l' } fl := cinv_withLocks h l' w.log
  have hts : getBatchTables fo extra { w with locks := l' } =
      .ok (selTables w fo.filter) { w with locks := l' } := by
    rw [getBatchTables_uncached fo extra _ hc, getCacheTables_noRel _ fo.filter _
      (fun A hA => by
        obtain ⟨a, ha⟩ := List.mem_iff_getElem?.1 hA
        exact h.noRelArch ha)]
    rfl
  have S := selTables_tableSet h fo.filter
  obtain ⟨bts, w1, i1, i2, i3, i4, i5, i6⟩ := findLoop_spec (w0 := { w with locks := l' }) hwl.sinv
    hne (selTables w fo.filter) (false, []) { w with locks := l' } hwl (Ext.refl _) S.lt hok hfew
  simp only [List.nil_append] at i1
  have hno1 : ∀ evt : Nat, w1.obs.hasObservers evt = false := by
    intro evt; rw [i3.untouched.obs]; exact h.noObs evt
  have hneB : (add.isEmpty && rem.isEmpty) = false := by
    cases add with
    | cons _ _ => rfl
    | nil =>
      cases rem with
      | cons _ _ => rfl
      | nil => exact absurd ⟨rfl, rfl⟩ hne
  have hbatch := exchangeBatch_eq run fo extra add rem vals w hl hneB k1 hts i1 hno1
  -- the sources
  have hsrcmem : ∀ b ∈ bts, b.oldT ∈ selTables w fo.filter ∧ (w.tbl b.oldT).len ≠ 0 := by
    intro b0 hb0
    have : b0.oldT ∈ bts.map (·.oldT) := List.mem_map_of_mem hb0
    rw [i4, List.mem_filter] at this
    refine ⟨this.1, ?_⟩
    have h2 := this.2
    simp only [bne_iff_ne, ne_eq] at h2
    exact h2
  have hokb : ∀ b ∈ bts, ExchOK w.kinds.length add rem (tmask w b.oldT) :=
    fun b0 hb0 => hok _ (hsrcmem b0 hb0).1 (hsrcmem b0 hb0).2
  have hsrcN : (bts.map (·.oldT)).Nodup := by
    rw [i4]; exact List.Pairwise.filter _ S.nodup
  have mok : MovesOK w1 bts := movesOK_of_dest hwl i3 hne hsrcN i5 hokb
  have hR1 : RowsLive w1 := by
    intro t r ht hr
    have hex : t < w.tables.length := by
      rcases Nat.lt_or_ge t w.tables.length with h1 | h1
      · exact h1
      · exfalso
        have hx := i2.idx.rowIdx t _ r (get_of_lt ht) hr
        rw [i3.entities] at hx
        have htm : t ≠ maxU32 := by have := i2.fewTables; omega
        obtain ⟨T, hT, _⟩ := h.idx.idxRow _ t r hx htm
        exact absurd (lt_of_get hT) (by omega)
    have : w1.tbl t = w.tbl t := i3.tbl hex
    rw [this] at hr ⊢
    rw [i3.pool]; exact hR t r hex hr
  obtain ⟨mp, hlogloop⟩ := moveLoop_post' vals bts i2 hR1 mok (by rw [i3.entities]; exact hent)
  have hlocks : (bts.foldl (moveStep vals) w1).locks = l' := by
    rw [foldl_moveStep_locks, i3.untouched.locks]
  have hlogs : (bts.foldl (moveStep vals) w1).log = loopEvents vals w1 bts ++ w.log := by
    rw [hlogloop, i3.log]
  rw [unlock_ok (by rw [hlocks]; exact k3)] at hbatch
  -- the world before the moves reads like `w`
  have hsw1 : ∀ j : Nat, SameEnt w w1 j := by
    intro j
    have := same_of_prefix hwl.idx i3.entities i3.tables j
    exact this
  have htbl1 : ∀ t : Nat, t < w.tables.length → w1.tbl t = w.tbl t := fun t ht => i3.tbl ht
  have hk1 : w1.kinds = w.kinds := i3.kinds
  -- an entity of the selection: its table, its row, its move
  have hsel : ∀ e ∈ selEnts w fo.filter, ∃ b ∈ bts, ∃ k, k < (w.tbl b.oldT).len ∧
      (w.tbl b.oldT).getEntity k = e ∧ b.oldT < w.tables.length ∧ w.maskOf e = tmask w b.oldT := by
    intro e he
    obtain ⟨t, k, ht, hk, rfl⟩ := mem_selEnts.mp he
    have : t ∈ bts.map (·.oldT) := by
      rw [i4, List.mem_filter]
      exact ⟨ht, by simp only [bne_iff_ne, ne_eq]; show ¬ (w.tbl t).len = 0; omega⟩
    obtain ⟨b0, hb0, rfl⟩ := List.mem_map.mp this
    refine ⟨b0, hb0, k, hk, rfl, S.lt _ ht, ?_⟩
    have hx := h.idx.rowIdx b0.oldT _ k (get_of_lt (S.lt _ ht)) hk
    simp only [maskOf, index_of_get hx, tmask]
  have hfin : ∀ (j : Nat) (c : Comp),
      valOf ({ bts.foldl (moveStep vals) w1 with locks := l'' } : World) j c =
        valOf (bts.foldl (moveStep vals) w1) j c := fun j c => valOf_congr rfl rfl j c
  have hfinC : ∀ j : Nat,
      compsOf ({ bts.foldl (moveStep vals) w1 with locks := l'' } : World) j =
        compsOf (bts.foldl (moveStep vals) w1) j := fun j => compsOf_congr rfl rfl j
  -- what the move gives for a selected entity
  have hmv : ∀ e ∈ selEnts w fo.filter,
      compsOf (bts.foldl (moveStep vals) w1) e.id =
        some ((xmask add rem (w.maskOf e)).toList w.kinds.length) ∧
      ∀ c : Comp, (xmask add rem (w.maskOf e)).get c = true → c < w.kinds.length →
        valOf (bts.foldl (moveStep vals) w1) e.id c =
          (if (w.maskOf e).get c = true then valOf w e.id c else some 0).map
            (written w (valsOf vals) c) := by
    intro e he
    obtain ⟨b0, hb0, k, hk, rfl, hlt, hm⟩ := hsel e he
    have hd := i5 b0 hb0
    have hk' : k < (w1.tbl b0.oldT).len := by rw [htbl1 _ hlt]; exact hk
    obtain ⟨m1, m2⟩ := mp.moved b0 hb0 k hk'
    rw [htbl1 _ hlt] at m1 m2
    have hids : (w1.tbl b0.newT).ids = (xmask add rem (tmask w b0.oldT)).toList w.kinds.length := by
      rw [cinv_tbl_ids i2 hd.dlt, hd.dmask, hk1]; rfl
    refine ⟨by rw [m1, hids, hm], ?_⟩
    intro c hc hcn
    rw [hm] at hc ⊢
    rw [m2 c (by rw [hids, Mask.mem_toList]; exact ⟨hcn, hc⟩), (hsw1 _).1 c]
    have hwr : written w1 (valsOf vals) c = written w (valsOf vals) c := by
      funext v; simp only [written, hk1]
    rw [hwr]
    have hmem : c ∈ (w.tbl b0.oldT).ids ↔ (tmask w b0.oldT).get c = true := by
      rw [cinv_tbl_ids h hlt, Mask.mem_toList]
      exact ⟨fun hh => hh.2, fun hh => ⟨tmask_reg h hlt hh, hh⟩⟩
    by_cases hcm : (tmask w b0.oldT).get c = true
    · rw [if_pos (hmem.mpr hcm), if_pos hcm]
    · rw [if_neg (fun hh => hcm (hmem.mp hh)), if_neg hcm]
  have hokE : ∀ e ∈ selEnts w fo.filter, ExchOK w.kinds.length add rem (w.maskOf e) := by
    intro e he
    obtain ⟨b0, hb0, k, hk, rfl, hlt, hm⟩ := hsel e he
    rw [hm]; exact hokb b0 hb0
  have hmreg : ∀ e ∈ selEnts w fo.filter, ∀ c : Nat, (w.maskOf e).get c = true →
      c < w.kinds.length := by
    intro e he c hc
    obtain ⟨b0, hb0, k, hk, rfl, hlt, hm⟩ := hsel e he
    rw [hm] at hc; exact tmask_reg h hlt hc
  refine ⟨_, hbatch, ?_, k5, ?_, mp.rowsLive⟩
  · exact
      { cinv := cinv_withLocks mp.cinv l'' _
        unlocked := by
          show l''.isLocked = w.isLocked
          rw [k4, hl]
        kinds := mp.kinds.trans hk1
        pool := mp.pool.trans i3.pool
        maxComps := mp.maxComps.trans i3.untouched.maxComps
        aliveSame := by
          intro x
          show (bts.foldl (moveStep vals) w1).pool.alive x = w.pool.alive x
          rw [mp.pool, i3.pool]
        comps := fun e he => by rw [hfinC]; exact (hmv e he).1
        kept := by
          intro e he c v hc hnr hv
          have hx : (xmask add rem (w.maskOf e)).get c = true := by
            rw [xmask_get, hc]; simp [hnr]
          rw [hfin, (hmv e he).2 c hx (hmreg e he c hc), if_pos hc, hv]
          rfl
        gone := by
          intro e he c hc
          rw [hfin]
          apply valOf_none_of_comps (hmv e he).1
          rw [Mask.mem_toList, xmask_get]
          have ok := hokE e he
          have hna : c ∉ add := fun hca => by
            have := ok.new c hca
            rw [ok.pres c hc] at this; cases this
          simp [hc, hna]
        added := by
          intro e he c hc
          have ok := hokE e he
          have hc256 : c < 256 := h.reg_lt_256 (ok.reg c hc)
          have hx : (xmask add rem (w.maskOf e)).get c = true := by
            rw [xmask_get]; simp [hc256, hc]
          rw [hfin, (hmv e he).2 c hx (ok.reg c hc), if_neg (by rw [ok.new c hc]; simp)]
          rfl
        frame := by
          intro j hj
          have hj1 : j ∉ srcIds w1 bts := by
            intro hm
            obtain ⟨b0, hb0, k, hk, heq⟩ := mem_srcIds.mp hm
            have hlt := S.lt _ (hsrcmem b0 hb0).1
            rw [htbl1 _ hlt] at hk heq
            exact hj (List.mem_map.mpr ⟨_, mem_selEnts.mpr ⟨b0.oldT, k, (hsrcmem b0 hb0).1, hk, rfl⟩, heq⟩)
          have := (hsw1 j).trans (mp.frame j hj1)
          exact ⟨fun c => by rw [hfin]; exact this.1 c, by rw [hfinC]; exact this.2⟩
        entitiesLen := by
          show (bts.foldl (moveStep vals) w1).entities.length = w.entities.length
          rw [mp.entitiesLen, i3.entities] }



  · -- the log
    rw [hlogs]
    congr 1
    cases vals with
    | none => exact loopEvents_none w1 bts
    | some vs =>
      have hrev := loopEvents_eq vs bts i2 hR1 mok (by rw [i3.entities]; exact hent)
      rw [← List.reverse_reverse (loopEvents (some vs) w1 bts), hrev]
      show _ = (List.map _ (selEnts w fo.filter)).reverse
      congr 1
      -- per table: the records in terms of `w`
      have htab : ∀ b0 ∈ bts, tableEvents w1 vs b0 = (rowsOf w b0.oldT).map (fun e =>
          LogEv.fn e true (vs.map fun cv => (cv.1, seenVal w rem e cv.1))) := by
        intro b0 hb0
        have hlt := S.lt _ (hsrcmem b0 hb0).1
        have hd := i5 b0 hb0
        have ok := hokb b0 hb0
        simp only [tableEvents, rowsOf, List.map_map, htbl1 _ hlt]
        apply List.map_congr_left
        intro k hk
        have hk' := List.mem_range.mp hk
        have hx := h.idx.rowIdx b0.oldT _ k (get_of_lt hlt) hk'
        have hm : w.maskOf ((w.tbl b0.oldT).getEntity k) = tmask w b0.oldT := by
          simp only [maskOf, index_of_get hx, tmask]
        have hlk : w1.isLocked = true := by
          show w1.locks.isLocked = true
          rw [i3.untouched.locks]; exact k2
        simp only [Function.comp, hlk]
        congr 1
        apply List.map_congr_left
        intro cv _
        congr 1
        have hids : (w1.tbl b0.newT).ids = (xmask add rem (tmask w b0.oldT)).toList w.kinds.length := by
          rw [cinv_tbl_ids i2 hd.dlt, hd.dmask, hk1]; rfl
        have hmemO : cv.1 ∈ (w.tbl b0.oldT).ids ↔ (tmask w b0.oldT).get cv.1 = true := by
          rw [cinv_tbl_ids h hlt, Mask.mem_toList]
          exact ⟨fun hh => hh.2, fun hh => ⟨tmask_reg h hlt hh, hh⟩⟩
        simp only [seenAfterFn, seenVal, htbl1 _ hlt, hids, hm, Mask.mem_toList, (hsw1 _).1 cv.1]
        by_cases hmc : (tmask w b0.oldT).get cv.1 = true
        · have hcn := tmask_reg h hlt hmc
          by_cases hr : cv.1 ∈ rem
          · have hx0 : (xmask add rem (tmask w b0.oldT)).get cv.1 = false := by
              rw [xmask_get]
              have hna : cv.1 ∉ add := fun hca => by
                have := ok.new cv.1 hca
                rw [hmc] at this; cases this
              simp [hr, hna]
            simp [hx0, hr]
          · have hx1 : (xmask add rem (tmask w b0.oldT)).get cv.1 = true := by
              rw [xmask_get, hmc]; simp [hr]
            simp [hx1, hcn, hmemO.mpr hmc, hmc, hr]
        · have hno : cv.1 ∉ (w.tbl b0.oldT).ids := fun hh => hmc (hmemO.mp hh)
          simp only [hmc, Bool.false_eq_true, false_and, if_false, hno]
          split <;> rfl
      rw [flatMap_congr' bts htab]
      -- the rows of the non-empty selected tables are the rows of the selected tables
      have hfm : ∀ (g : Ent → LogEv), bts.flatMap (fun b0 => (rowsOf w b0.oldT).map g) =
          ((bts.map (·.oldT)).flatMap (rowsOf w)).map g := by
        intro g
        rw [List.map_flatMap, List.flatMap_map]
      rw [hfm, i4, selEnts]
      congr 1
      have hfilt : ∀ (l : List Nat),
          (l.filter fun t => (w.tbl t).len != 0).flatMap (rowsOf w) = l.flatMap (rowsOf w) := by
        intro l
        induction l with
        | nil => rfl
        | cons t l ih =>
          rw [List.filter_cons]
          cases h0 : ((w.tbl t).len != 0) with
          | true => simp only [if_true, List.flatMap_cons, ih]
          | false =>
            have hz : (w.tbl t).len = 0 := by simpa using h0
            have : rowsOf w t = [] := by simp only [rowsOf, hz, List.range_zero, List.map_nil]
            simp only [Bool.false_eq_true, if_false, List.flatMap_cons, this, List.nil_append, ih]
      exact hfilt _
/-- **C06, the add / remove / exchange batches WITH callback**: the batch whose callback writes
    `vs` into every moved row, and `Exchange` writing `vs` applied to every selected entity, both
    succeed and satisfy `ExchangedAllPost … vs`: same pool, same liveness, same components and
    values of every entity.  The callback ran exactly once per selected entity, in the batch's
    order, with that entity's handle, on a locked world, and saw the entity's current values
    (`batchEvents`, pushed on `log`); the singles leave `log` alone. -/
theorem opExchangeBatchFn_eq_singles (run : ProbeRunner) (p : Path) {w : World} {fl : List Nat}
    (h : CInv w fl) (hR : RowsLive w) (hl : w.isLocked = false) (hL : LockFree w.locks)
    (fo : FilterObj) (extra : List RelID) (hc : fo.cache = none) {add rem : List Comp}
    (hne : ¬ (add = [] ∧ rem = []))
    (hok : ∀ t ∈ selTables w fo.filter, (w.tbl t).len ≠ 0 →
      ExchOK w.kinds.length add rem (tmask w t))
    (hfew : w.tables.length + (selTables w fo.filter).length + (selEnts w fo.filter).length < maxU32)
    (hent : 2 * w.entities.length < 2 ^ 32) (vals : Option (List (Comp × Val))) :
    ∃ Wb Ws : World,
      opExchangeBatch run p fo extra add rem [] vals w = .ok () Wb ∧
      exchangeSeq run p add rem (valsOf vals) (selEnts w fo.filter) w = .ok () Ws ∧
      ExchangedAllPost w fl (selEnts w fo.filter) add rem (valsOf vals) Wb ∧
      ExchangedAllPost w fl (selEnts w fo.filter) add rem (valsOf vals) Ws ∧
      Wb.pool = Ws.pool ∧ (∀ x : Ent, Wb.alive x = Ws.alive x) ∧
      (∀ (i : Nat) (c : Comp), valOf Wb i c = valOf Ws i c) ∧
      (∀ i : Nat, compsOf Wb i = compsOf Ws i) ∧ Wb.isLocked = Ws.isLocked ∧
      LockFree Wb.locks ∧ RowsLive Wb ∧ Wb.log = batchEvents w fo.filter rem vals ++ w.log := by
  have S := selTables_tableSet h fo.filter
  obtain ⟨Wb, hb, pb, hLb, hlogb, hRb⟩ := exchangeBatch_post' run h hR hl hL fo extra hc hne hok
    (by omega) hent vals
  have hlive : ∀ e ∈ selEnts w fo.filter, 2 ≤ e.id ∧ e.id ∉ fl ∧ w.alive e = true ∧
      e.id < w.pool.ents.length ∧ ExchOK w.kinds.length add rem (w.maskOf e) := by
    intro e he
    obtain ⟨a, b, c, d, _⟩ := (mem_selEnts_iff h hR fo.filter e).mp he
    obtain ⟨t, k, ht, hk, rfl⟩ := mem_selEnts.mp he
    have hx := h.idx.rowIdx t _ k (get_of_lt (S.lt t ht)) hk
    have hm : w.maskOf ((w.tbl t).getEntity k) = tmask w t := by
      simp only [maskOf, index_of_get hx, tmask]
    exact ⟨a, b, d, c, by rw [hm]; exact hok t ht (by omega)⟩
  obtain ⟨Ws, hs, ps⟩ := exchangeSeq_post run p hne (valsOf vals) (selEnts w fo.filter) h hl hlive
    (rows_ids_nodup h S) (by omega) (by omega)
  have hcomps : ∀ e ∈ selEnts w fo.filter,
      compsOf w e.id = some ((w.maskOf e).toList w.kinds.length) := by
    intro e he
    obtain ⟨a, b, c, d, _⟩ := hlive e he
    exact (h.comps_of_live a b c d).1
  obtain ⟨o1, o2, o3, o4, o5, _⟩ := pb.obs_eq ps (fun _ => Iff.rfl) hcomps
  exact ⟨Wb, Ws, by rw [opExchangeBatch_eq_exchangeBatch]; exact hb, hs, pb, ps, o1, o2, o3,
    o4, o5, hLb, hRb, hlogb⟩

end World
end Ark
