/-
  Ark.Proofs.RelRefine2Reset — `Reset` in a world WITH relation components (properties C16 / C05
  / C01): `Reset` is a step of the machine of `Ark.Proofs.RelRefine2Machine`.

  The joint invariant `TInv` of the relation fragment (`Ark.Proofs.TargetsInv`) does not demand
  that the memory behind the pool slice is empty: `PLink.stale` only says that the handles kept
  there carry the sentinel generation `maxU32` — which is what `Pool.reset` (the model of
  `entityPool.Reset` after the repair of defect D14) establishes: it truncates the slice and KEEPS
  the invalidated handles behind it.  (Until this was weakened — `PLink.stale` read
  `pool.stale = []` — `TInv` was false after `new; reset`.)

  PROVED (`step2_reset_spec`): on every state satisfying `HInv2`, `Reset` succeeds, the step of
  the machine is `⟨resetW w, [], ⟨[], zst, isRel⟩⟩` (specification emptied, nothing issued: a new
  epoch, as in `Ark.Refine`), and in that state
  * `TInv (resetW w) []` (`tinv_reset`) — `SInv`, `RInv`, targets, relation lists, relation
    archetypes, `CacheRelsOK`, flags, free-empty, the index invariant, the pool invariant, the
    index ↔ pool link with the stale handles invalidated, the registry bound;
  * the ghost pool state of a new epoch, unlocked, no observers, the registry agreement;
  * `FInvR (resetW w)` (`finvR_reset`) — the WHOLE filter-side invariant: the cache is empty (so
    `CacheInv`), every filter object of the heap is unregistered and otherwise unchanged, `CIdx`,
    `RowsAlive`, the lock's bit pool and the cache's ID pool start afresh;
  * hence `HInv2 (step2 run s .reset) []` — `step2_reset`, the step lemma in the form of the
    other steps (with `Grows`: no table, relation archetype or index slot is created);
  * no handle of the ended epoch is alive (`ResetStepPost.dead`).
  Kernel-only proofs, core Lean only.
-/
import Ark.Proofs.RelRefine2Shrink

set_option autoImplicit false

namespace Ark
namespace RelRefine2

open World Ark.Props.C01World QueryRel QueryExact RelRefine

/-! ## 1. the world after `Reset` -/

theorem cacheReset_relationArchetypes (w : World) :
    w.cacheReset.relationArchetypes = w.relationArchetypes := by
  unfold cacheReset; split <;> rfl

theorem cacheReset_componentIndex (w : World) : w.cacheReset.componentIndex = w.componentIndex := by
  unfold cacheReset; split <;> rfl

theorem resetW_relationArchetypes (w : World) :
    (resetW w).relationArchetypes = w.relationArchetypes :=
  (resetW_proj (·.relationArchetypes) (fun _ _ _ => rfl) (fun _ _ _ => rfl) (fun _ _ => rfl) w).trans
    (cacheReset_relationArchetypes _)

theorem resetW_componentIndex (w : World) : (resetW w).componentIndex = w.componentIndex :=
  (resetW_proj (·.componentIndex) (fun _ _ _ => rfl) (fun _ _ _ => rfl) (fun _ _ => rfl) w).trans
    (cacheReset_componentIndex _)

/-- a table that is not free after `Reset` was not free before, and belongs to an archetype
    without relation columns -/
theorem resetW_nonFree {w : World} (hS : SInv w) {t : Nat} {T' : Table}
    (hT : (resetW w).tables[t]? = some T') (hf : T'.isFree = false) :
    ∃ (T : Table), w.tables[t]? = some T ∧ T' = resetTblOf w T ∧ T.isFree = false ∧
      (w.arch T.arch).hasRelations = false := by
  obtain ⟨T, hT0, rfl⟩ := resetW_tget hS hT
  rw [resetTblOf_isFree, Bool.or_eq_false_iff] at hf
  exact ⟨T, hT0, rfl, hf.1, hf.2⟩

/-- … so it has no relation column -/
theorem noRelCol {w : World} (hS : SInv w) {t : Nat} {T : Table} (hT : w.tables[t]? = some T)
    (hr : (w.arch T.arch).hasRelations = false) (i : Nat) : T.isRel.getD i false ≠ true := by
  obtain ⟨A, hA, _, i2, _⟩ := hS.tblArch t T hT
  rw [arch_of_get hA] at hr
  have h0 : A.numRel = 0 := by simpa [Archetype.hasRelations] using hr
  rw [i2]
  exact (hS.astruct _ A hA).no_rel h0 i

/-- **`Reset` re-establishes the joint invariant** (free list empty; the handles of the ended
    epoch stay behind the pool slice, invalidated) -/
theorem tinv_reset {w : World} {fl : List Nat} (h : TInv w fl) (hC : CacheInv w) :
    TInv (resetW w) [] := by
  have hS := h.rel.sinv
  have hI := h.link.idx
  have hFE := h.freeEmpty
  have hlenP : 2 ≤ w.pool.ents.length := h.link.pool.len2
  have hEl : (resetW w).entities.length = 2 := by
    rw [resetW_entities, List.length_take, h.link.lenEq]; omega
  have hres : ∀ i : Nat, i < 2 → ∃ r, (resetW w).entities[i]? = some (maxU32, r) := by
    intro i hi
    obtain ⟨r, hr⟩ := h.link.reservedUnindexed i hi
    exact ⟨r, by rw [resetW_entities, List.getElem?_take_of_lt hi]; exact hr⟩
  have hnone : ∀ (i t r : Nat), (resetW w).entities[i]? = some (t, r) → t = maxU32 := by
    intro i t r hi
    rcases Nat.lt_or_ge i 2 with h1 | h1
    · obtain ⟨r', hr'⟩ := hres i h1
      rw [hr'] at hi
      exact (Prod.mk.inj (Option.some.inj hi)).1.symm
    · rw [List.getElem?_eq_none (by rw [hEl]; exact h1)] at hi; cases hi
  have hI' : IdxInv (resetW w) := by
    refine ⟨?_, ?_, ?_, ?_⟩
    · intro t T' hT'
      obtain ⟨T, hT, rfl⟩ := resetW_tget hS hT'
      exact resetTblOf_shape w (hI.shape t T hT)
    · intro t T' hT'
      obtain ⟨T, hT, rfl⟩ := resetW_tget hS hT'
      rw [resetTblOf_id]; exact hI.tid t T hT
    · intro t T' r hT' hr
      obtain ⟨T, hT, rfl⟩ := resetW_tget hS hT'
      rw [(resetTblOf_zero w (hI.shape t T hT) (hFE t T hT)).1] at hr
      exact absurd hr (Nat.not_lt_zero _)
    · intro i t r hi ht
      exact absurd (hnone i t r hi) ht
  have hSr := SInv.resetW hS
  exact
    { rel :=
        { sinv := hSr
          rinv := RInv.resetW hS h.rel.rinv
          aux :=
            { targets := by
                intro t T' hT hf i hi
                obtain ⟨T, hT0, rfl, _, hnr⟩ := resetW_nonFree hS hT hf
                rw [resetTblOf_isRel] at hi
                exact absurd hi (noRelCol hS hT0 hnr i)
              rels := by
                intro t T' hT hf
                obtain ⟨T, hT0, rfl, hf0, _⟩ := resetW_nonFree hS hT hf
                have hex := h.rel.aux.rels t T hT0 hf0
                exact
                  { tlen := by rw [resetTblOf_targets, resetTblOf_ids]; exact hex.tlen
                    sound := by
                      rw [resetTblOf_relIDs, resetTblOf_ids, resetTblOf_isRel, resetTblOf_targets]
                      exact hex.sound
                    complete := by
                      rw [resetTblOf_relIDs, resetTblOf_ids, resetTblOf_isRel, resetTblOf_targets]
                      exact hex.complete
                    nodup := by rw [resetTblOf_relIDs]; exact hex.nodup }
              relArchs := by
                intro a A' hA' hrel
                rw [resetW_relationArchetypes]
                obtain ⟨A, hA, rfl⟩ := resetW_aget hS hA'
                rw [resetArchOf_hasRelations] at hrel
                exact h.rel.aux.relArchs a A hA hrel
              cacheRels := by
                intro e he
                rw [resetW_cache, (cacheReset_empty hC).2] at he
                cases he } }
      flags := by
        intro t T' hT hf i hi
        obtain ⟨T, hT0, rfl, _, hnr⟩ := resetW_nonFree hS hT hf
        rw [resetTblOf_isRel] at hi
        exact absurd hi (noRelCol hS hT0 hnr i)
      freeEmpty := FreeEmpty.resetW hS hI hFE
      link :=
        { idx := hI'
          pool := by rw [resetW_pool]; exact h.link.pool.reset
          stale := by
            rw [resetW_pool]
            exact pool_reset_stale _ h.link.stale
          lenEq := by
            rw [hEl, resetW_pool]
            show 2 = (w.pool.ents.take 2).length
            rw [List.length_take]; omega
          tgtLen := by
            rw [hEl, resetW_isTarget, List.length_take, h.link.tgtLen, h.link.lenEq]; omega
          freeUnindexed := fun i hi => by cases hi
          reservedUnindexed := hres
          liveIndexed := by intro i h2 hlt _; rw [hEl] at hlt; omega
          fewTables := by rw [resetW_tables hS, List.length_map]; exact h.link.fewTables }
      kindsLe := by rw [resetW_kinds, (resetW_caps w).2.2]; exact h.kindsLe }

/-- **after `Reset` no ID is indexed to a table**: no component set, no value, no relation
    target can be read through the index -/
theorem resetW_unindexed {w : World} {fl : List Nat} (h : TInv w fl) (i : Nat) :
    compsOf (resetW w) i = none ∧ (∀ (c : Comp), valOf (resetW w) i c = none) ∧
    ∀ (c : Comp), targetOf (resetW w) i c = none := by
  have hlenP : 2 ≤ w.pool.ents.length := h.link.pool.len2
  cases hx : (resetW w).entities[i]? with
  | none => simp only [compsOf, valOf, targetOf, hx]; exact ⟨trivial, fun _ => trivial, fun _ => trivial⟩
  | some p =>
    obtain ⟨t, r⟩ := p
    have hi : i < 2 := by
      have := (List.getElem?_eq_some_iff.mp hx).1
      rw [resetW_entities, List.length_take] at this; omega
    obtain ⟨r', hr'⟩ := h.link.reservedUnindexed i hi
    rw [resetW_entities, List.getElem?_take_of_lt hi, hr'] at hx
    obtain ⟨rfl, rfl⟩ := Prod.mk.inj (Option.some.inj hx)
    have hx' : (resetW w).entities[i]? = some (maxU32, r') := by
      rw [resetW_entities, List.getElem?_take_of_lt hi]; exact hr'
    simp only [compsOf, valOf, targetOf, hx', if_true]
    exact ⟨trivial, fun _ => trivial, fun _ => trivial⟩

/-! ## 2. the filter side after `Reset` -/

/-- what `cache.Reset` does to the filter heap when it agrees with the cache: every filter
    object is unregistered; nothing else about it changes -/
theorem cacheReset_heap {w : World} (hC : CacheInv w) (hH : HeapOK w) (f : Nat) (fo' : FilterObj)
    (hf : AL.find? w.cacheReset.filters f = some fo') :
    fo'.cache = none ∧ ∃ (fo : FilterObj), AL.find? w.filters f = some fo ∧
      fo'.typed = fo.typed ∧ fo'.ids = fo.ids ∧ fo'.filter = fo.filter ∧ fo'.rels = fo.rels := by
  unfold cacheReset at hf
  by_cases h0 : w.cache.indices.isEmpty = true
  · rw [if_pos h0] at hf
    refine ⟨?_, fo', hf, rfl, rfl, rfl, rfl⟩
    cases hc : fo'.cache with
    | none => rfl
    | some id =>
      obtain ⟨e, he, _⟩ := hH.reg f fo' id hf hc
      rw [hC.filters_nil_of_indices_nil (List.isEmpty_iff.1 h0)] at he
      cases he
  · rw [if_neg h0] at hf
    replace hf : AL.find? (AL.mapVals w.filters fun fo =>
        match fo.cache with
        | some id => if (w.cache.filters.map (·.id)).contains id then { fo with cache := none }
            else fo
        | none => fo) f = some fo' := hf
    rw [AL.find?_mapVals] at hf
    cases hfo : AL.find? w.filters f with
    | none => rw [hfo] at hf; cases hf
    | some fo =>
      rw [hfo] at hf
      simp only [Option.map_some, Option.some.injEq] at hf
      subst hf
      have hcache : ∀ (id : Nat), fo.cache = some id →
          (w.cache.filters.map (·.id)).contains id = true := by
        intro id hc
        obtain ⟨e, he, hid, _, _⟩ := hH.reg f fo id hfo hc
        rw [List.contains_iff_mem]; exact List.mem_map.2 ⟨e, he, hid⟩
      refine ⟨?_, fo, rfl, ?_, ?_, ?_, ?_⟩
      · cases hc : fo.cache with
        | none => simp only []; exact hc
        | some id => simp only [hcache id hc, if_true]
      all_goals
        cases hc : fo.cache with
        | none => simp only []
        | some id => simp only []; split <;> rfl

/-- **`Reset` re-establishes the whole filter-side invariant**: the cache is empty, every filter
    object is unregistered (and otherwise unchanged), every table is empty, the lock's bit pool
    and the cache's ID pool start afresh -/
theorem finvR_reset {w : World} {fl : List Nat} (h : FInvR w) (ht : TInv w fl) :
    FInvR (resetW w) where
  cache := cacheInv_of_empty (by rw [resetW_cache]; exact (cacheReset_empty h.cache).1)
    (by rw [resetW_cache]; exact (cacheReset_empty h.cache).2)
  heap := by
    refine ⟨?_, ?_, ?_, ?_⟩
    · intro f fo id hf hcid
      rw [resetW_filters] at hf
      rw [(cacheReset_heap h.cache h.heap f fo hf).1] at hcid; cases hcid
    · intro f g fo go id hf _ hcid _
      rw [resetW_filters] at hf
      rw [(cacheReset_heap h.cache h.heap f fo hf).1] at hcid; cases hcid
    · intro f fo hf htp c hcm
      rw [resetW_filters] at hf
      obtain ⟨_, fo0, hf0, e1, e2, e3, _⟩ := cacheReset_heap h.cache h.heap f fo hf
      rw [e3]
      exact h.heap.typed f fo0 hf0 (by rw [← e1]; exact htp) c (by rw [← e2]; exact hcm)
    · intro f fo hf
      rw [resetW_filters] at hf
      obtain ⟨_, fo0, hf0, _, _, e3, e4⟩ := cacheReset_heap h.cache h.heap f fo hf
      rw [e3, e4]
      intro r hr
      obtain ⟨k1, k2⟩ := h.heap.rels f fo0 hf0 r hr
      exact ⟨by simp only [World.isRelComp, resetW_kinds]; exact k1, k2⟩
  cidx := h.cidx.of_frame ⟨resetW_componentIndex w, resetW_kinds w,
    by rw [resetW_archetypes ht.rel.sinv, List.length_map],
    fun a => by rw [resetW_arch ht.rel.sinv a, resetArchOf_mask]⟩
  rows := by
    intro t T' r hT hr
    obtain ⟨T, hT0, rfl⟩ := resetW_tget ht.rel.sinv hT
    rw [(resetTblOf_zero w (ht.link.idx.shape t T hT0) (ht.freeEmpty t T hT0)).1] at hr
    exact absurd hr (Nat.not_lt_zero _)
  lock := by
    obtain ⟨lf, g⟩ := h.lock
    rw [resetW_locks]
    exact ⟨[], Lock.reset_inv ⟨w.locks, []⟩ lf g⟩
  pool := by
    have hcache := resetW_cache w
    by_cases h0 : w.cache.indices.isEmpty = true
    · have e : w.cacheReset = w := by unfold cacheReset; rw [if_pos h0]
      rw [e] at hcache
      exact ⟨by rw [hcache]; exact h.pool.avail, by rw [hcache]; exact h.pool.bound⟩
    · have e : w.cacheReset.cache =
          { indices := [], filters := [], pool := w.cache.pool.reset } := by
        unfold cacheReset; rw [if_neg h0]
      rw [e] at hcache
      exact ⟨by rw [hcache]; rfl, fun id i hf => by rw [hcache] at hf; cases hf⟩

/-! ## 3. `Reset` as a step -/

/-- what the step `Reset` of the machine establishes, all of it — see the header -/
structure ResetStepPost (s s' : St) : Prop where
  state : s' = ⟨resetW s.w, [], ⟨[], s.ss.zst, s.ss.isRel⟩⟩
  tinv : TInv s'.w []
  ginv : Pool.GInv s'.ps []
  unlocked : s'.w.isLocked = false
  noObs : ∀ (evt : Nat), s'.w.obs.hasObservers evt = false
  zstEq : s'.ss.zst = s'.w.kinds.map (·.zst)
  relEq : s'.ss.isRel = s'.w.kinds.map (·.isRel)
  maxc : s'.w.maxComps = 256
  finv : FInvR s'.w
  /-- every filter object is unregistered, the cache is empty -/
  unregistered : ∀ (f : Nat) (fo : FilterObj), AL.find? s'.w.filters f = some fo → fo.cache = none
  cacheEmpty : s'.w.cache.indices = [] ∧ s'.w.cache.filters = []
  /-- no ID is indexed to a table -/
  unindexed : ∀ (i : Nat), compsOf s'.w i = none ∧ (∀ (c : Comp), valOf s'.w i c = none) ∧
    ∀ (c : Comp), targetOf s'.w i c = none
  /-- no handle of the ended epoch is alive -/
  dead : ∀ (h : Ent), 2 ≤ h.id → h.gen ≠ maxU32 → s'.w.alive h = false
  /-- the invariant of the machine holds again, with an empty free list -/
  hinv : HInv2 s' []

/-- **`Reset` as a step of the relation machine**: the step, the world and the invariants
    afterwards -/
theorem step2_reset_spec (run : ProbeRunner) {s : St} {fl : List Nat} (H : HInv2 s fl) :
    ResetStepPost s (step2 run s .reset) := by
  have hl := H.base.unlocked
  have ht := H.base.tinv
  have hstep : step2 run s .reset = ⟨resetW s.w, [], ⟨[], s.ss.zst, s.ss.isRel⟩⟩ := by
    simp only [step2, opReset_eq s.w hl]
  rw [hstep]
  have hts := tinv_reset ht H.finv.cache
  have hfr := finvR_reset H.finv ht
  have hg : Pool.GInv (⟨resetW s.w, [], ⟨[], s.ss.zst, s.ss.isRel⟩⟩ : St).ps [] := by
    show Pool.GInv ⟨(resetW s.w).pool, [], []⟩ []
    rw [resetW_pool]; exact Refine.ginv_reset ht.link.pool
  have hul : (resetW s.w).isLocked = false := by
    show (resetW s.w).locks.isLocked = false
    rw [resetW_locks]; rfl
  have hno : ∀ (evt : Nat), (resetW s.w).obs.hasObservers evt = false := by
    intro evt
    show ((resetW s.w).obs.evt evt).hasObservers = false
    rw [resetW_obs]; exact ObsMgr.reset_noObs H.base.noObs evt
  have hz : s.ss.zst = (resetW s.w).kinds.map (·.zst) := by rw [resetW_kinds]; exact H.base.zstEq
  have hr : s.ss.isRel = (resetW s.w).kinds.map (·.isRel) := by
    rw [resetW_kinds]; exact H.base.relEq
  have hm : (resetW s.w).maxComps = 256 := by rw [(resetW_caps s.w).2.2]; exact H.base.maxc
  exact
    { state := rfl
      tinv := hts
      ginv := hg
      unlocked := hul
      noObs := hno
      zstEq := hz
      relEq := hr
      maxc := hm
      finv := hfr
      unregistered := by
        intro f fo hf
        replace hf : AL.find? (resetW s.w).filters f = some fo := hf
        rw [resetW_filters] at hf
        exact (cacheReset_heap H.finv.cache H.finv.heap f fo hf).1
      cacheEmpty := by
        show (resetW s.w).cache.indices = [] ∧ (resetW s.w).cache.filters = []
        rw [resetW_cache]; exact cacheReset_empty H.finv.cache
      unindexed := resetW_unindexed ht
      dead := by
        intro h h2 hgen
        show (resetW s.w).pool.alive h = false
        rw [resetW_pool]
        exact Ark.Props.C02.reset_kills s.w.pool ht.link.stale h h2
          hgen
      hinv :=
        ⟨{ tinv := hts
           ginv := hg
           unlocked := hul
           noObs := hno
           nodup := List.nodup_nil
           zstEq := hz
           relEq := hr
           maxc := hm
           ok := by intro e en hm'; cases hm'
           tgtsOK := by intro e en hm'; cases hm' }, hfr⟩ }

/-- the former name of `step2_reset_spec` (it used to be partial: `HInv2` afterwards only under
    `pool.stale = []`) -/
theorem step2_reset_partial (run : ProbeRunner) {s : St} {fl : List Nat} (H : HInv2 s fl) :
    ResetStepPost s (step2 run s .reset) := step2_reset_spec run H

/-- **`Reset` keeps the invariant of the machine** — the step lemma in the form of the other
    steps; `Reset` creates no table, no relation archetype and no index slot -/
theorem step2_reset (run : ProbeRunner) {s : St} {fl : List Nat} (H : HInv2 s fl) :
    (∃ fl', HInv2 (step2 run s .reset) fl') ∧ Grows s (step2 run s .reset) := by
  have post := step2_reset_spec run H
  refine ⟨⟨[], post.hinv⟩, ?_⟩
  have hS := H.base.tinv.rel.sinv
  rw [post.state]
  refine ⟨?_, ?_, ?_⟩
  · show (resetW s.w).tables.length ≤ _
    rw [resetW_tables hS, List.length_map]; omega
  · show (resetW s.w).relationArchetypes.length ≤ _
    rw [resetW_relationArchetypes]; exact Nat.le_succ _
  · show (resetW s.w).entities.length ≤ _
    rw [resetW_entities, List.length_take]; omega

/-! ## 4. a concrete history -/

/-- no callbacks -/
def noRun : ProbeRunner := fun _ _ _ => pure ()

/-- a history: one entity is created, then `Reset` -/
def resetDemo : List Op2 := [.base (.new .unsafe_ [] [] []), .reset]

/-- after the history `new; reset` the pool keeps the invalidated handle `2.MaxUint32` behind its
    slice -/
theorem reset_keeps_stale :
    (reach2 noRun 4 4 resetDemo).w.pool.stale = [⟨2, maxU32⟩] := by decide +kernel

end RelRefine2
end Ark
