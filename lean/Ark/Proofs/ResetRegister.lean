/-
  Ark.Proofs.ResetRegister — C16, last clause: "filters and observers that were registered before
  can be registered again" (model level, the full model with relations and observers).

  After `Reset` (`EmptyState`, Ark/Proofs/ResetInv.lean) no filter object is marked registered and
  no observer object has an ID, so the "already registered" checks of `FilterN.Register` and
  `Observer.Register` pass.  What else can make the two calls panic does not depend on `Reset`:

  * `Register` of a filter walks the archetypes (`getCacheTables`); the walk dereferences
    `relationTables[componentsMap[rels[0]]]` in every relation archetype the filter matches
    (`HeadColOK`).  `Reset` keeps archetypes, masks and columns, so the condition holds after
    `Reset` iff it held before (`HeadColOK.resetW`), and it held before whenever the walk did not
    panic before (`headColOK_of_walk`).  In the empty state it is also sufficient
    (`EmptyState.getCacheTables_some`).  Hence `filter_reregister`.
  * `Register` of an observer checks that it has a callback and computes its masks from its
    specification and the registry (`computeData`); `Reset` keeps both
    (`ObsMgr.reset_obj_spec`, `resetW_kinds`).  Hence `observer_reregister`; that a registration
    that succeeded at some time passed the two checks is `opObsRegister_ok_inv`.

  Kernel-only proofs, core Lean only.
-/
import Ark.Proofs.ResetInv
import Ark.Model.Ops

set_option autoImplicit false

namespace Ark

open World

/-! ## 1. the archetype walk -/

namespace World

/-- one step of the walk of `getCacheTables` -/
def walkStep (w : World) (f : Filter) (rels : List RelID) (acc : Option (List Nat))
    (a : Archetype) : Option (List Nat) :=
  match acc with
  | none => none
  | some acc =>
    if !f.matchesMask a.mask then some acc
    else if !a.hasRelations then some (acc ++ [a.tables.tables.getD 0 0])
    else
      match a.getTables rels with
      | none => none
      | some ts =>
        ts.foldl (fun acc t =>
          match acc with
          | none => none
          | some acc =>
            match (w.tbl t).matchesRels rels with
            | none => none
            | some true => some (acc ++ [t])
            | some false => some acc) (some acc)

theorem getCacheTables_eq_walk (w : World) (f : Filter) (rels : List RelID) :
    w.getCacheTables f rels = w.archetypes.foldl (w.walkStep f rels) (some []) := rfl

theorem walk_none (w : World) (f : Filter) (rels : List RelID) (l : List Archetype) :
    l.foldl (w.walkStep f rels) none = none := by
  induction l with
  | nil => rfl
  | cons A l ih => exact ih

/-- in every relation archetype the filter matches, the first given relation names a column (the
    Go code indexes `relationTables[componentsMap[rels[0].component]]`; `-1` is a runtime panic) -/
def HeadColOK (w : World) (f : Filter) (rels : List RelID) : Prop :=
  ∀ (a : Nat) (A : Archetype), w.archetypes[a]? = some A → f.matchesMask A.mask = true →
    A.hasRelations = true → ∀ (r : RelID), rels.head? = some r → (A.colIdx r.comp).isSome = true

/-- a walk that does not panic satisfies `HeadColOK` -/
theorem headColOK_of_walk {w : World} {f : Filter} {rels : List RelID} {ts : List Nat}
    (h : w.getCacheTables f rels = some ts) : HeadColOK w f rels := by
  rw [getCacheTables_eq_walk] at h
  intro a A hA hm hrel r hr
  suffices H : ∀ (l : List Archetype) (acc : List Nat) (ts : List Nat),
      l.foldl (w.walkStep f rels) (some acc) = some ts → A ∈ l → (A.colIdx r.comp).isSome = true from
    H _ _ _ h (List.mem_of_getElem? hA)
  intro l
  induction l with
  | nil => intro _ _ _ hmem; cases hmem
  | cons B l ih =>
    intro acc ts hf hmem
    rw [List.foldl_cons] at hf
    cases hstep : w.walkStep f rels (some acc) B with
    | none => rw [hstep, walk_none] at hf; cases hf
    | some acc' =>
      rw [hstep] at hf
      rcases List.mem_cons.mp hmem with rfl | hm'
      · cases hc : A.colIdx r.comp with
        | some i => rfl
        | none =>
          exfalso
          have hgt : A.getTables rels = none := by
            cases rels with
            | nil => cases hr
            | cons r' rest =>
              have : r' = r := by simpa using hr
              subst this
              simp only [Archetype.getTables, hrel, Bool.not_true, Bool.false_eq_true, if_false, hc]
          simp only [walkStep, hm, hrel, Bool.not_true, Bool.false_eq_true, if_false, hgt] at hstep
          cases hstep
      · exact ih acc' ts hf hm'

/-- `RelsOK` (the panic-freedom condition of the walk in ANY world, Ark/Proofs/CacheInv.lean;
    implied by what `relationSlice.ToRelations` checks for typed filters: every given relation
    component is a relation component in the filter's mask, `relsOK_of_mask`) implies `HeadColOK` -/
theorem HeadColOK.of_relsOK {w : World} {f : Filter} {rels : List RelID} (h : RelsOK w f rels) :
    HeadColOK w f rels := by
  intro a A hA hm hrel r hr
  obtain ⟨i, hi, _⟩ := (h a A hA hm hrel).2 r hr
  rw [hi]; rfl

/-- `Reset` keeps the archetypes' masks, columns and relation counts, so it keeps `HeadColOK` -/
theorem HeadColOK.resetW {w : World} (hS : SInv w) {f : Filter} {rels : List RelID}
    (h : HeadColOK w f rels) : HeadColOK (resetW w) f rels := by
  intro a A' hA' hm hrel r hr
  rw [resetW_archetypes hS, List.getElem?_map] at hA'
  cases hA : w.archetypes[a]? with
  | none => rw [hA] at hA'; cases hA'
  | some A =>
    rw [hA] at hA'
    have he : A' = resetArchOf A := (Option.some.inj hA').symm
    have hmask : A'.mask = A.mask := by rw [he]; unfold resetArchOf; split <;> rfl
    have hcomps : A'.comps = A.comps := by rw [he]; unfold resetArchOf; split <;> rfl
    have hnum : A'.hasRelations = A.hasRelations := by
      rw [he]; unfold resetArchOf; split <;> rfl
    have := h a A hA (by rw [← hmask]; exact hm) (by rw [← hnum]; exact hrel) r hr
    simpa only [Archetype.colIdx, hcomps] using this

/-- **the walk in the empty state**: it succeeds as soon as the first given relation names a
    column of every relation archetype the filter matches -/
theorem _root_.Ark.EmptyState.getCacheTables_some {w : World} (E : EmptyState w) {f : Filter}
    {rels : List RelID} (h : HeadColOK w f rels) : ∃ ts, w.getCacheTables f rels = some ts := by
  rw [getCacheTables_eq_walk]
  suffices H : ∀ (l : List Archetype) (acc : List Nat),
      (∀ A ∈ l, ∃ a, w.archetypes[a]? = some A) →
      ∃ ts, l.foldl (w.walkStep f rels) (some acc) = some ts from
    H _ _ (fun A hA => List.mem_iff_getElem?.mp hA)
  intro l
  induction l with
  | nil => intro acc _; exact ⟨acc, rfl⟩
  | cons A l ih =>
    intro acc hl
    rw [List.foldl_cons]
    obtain ⟨a, hA⟩ := hl A List.mem_cons_self
    have hl' : ∀ B ∈ l, ∃ b, w.archetypes[b]? = some B :=
      fun B hB => hl B (List.mem_cons_of_mem _ hB)
    suffices hs : ∃ acc', w.walkStep f rels (some acc) A = some acc' by
      obtain ⟨acc', hacc'⟩ := hs
      rw [hacc']; exact ih acc' hl'
    cases hm : f.matchesMask A.mask with
    | false => exact ⟨acc, by simp only [walkStep, hm, Bool.not_false, if_true]⟩
    | true =>
      cases hrel : A.hasRelations with
      | false =>
        exact ⟨acc ++ [A.tables.tables.getD 0 0], by simp only [walkStep, hm, hrel, Bool.not_true,
          Bool.not_false, Bool.false_eq_true, if_false, if_true]⟩
      | true =>
        obtain ⟨htabs, _, hrt, _⟩ := E.relArch a A hA hrel
        have hgt : A.getTables rels = some [] := by
          cases rels with
          | nil =>
            simp only [Archetype.getTables, hrel, Bool.not_true, Bool.false_eq_true, if_false, htabs]
          | cons r rest =>
            have hc := h a A hA hm hrel r rfl
            cases hci : A.colIdx r.comp with
            | none => rw [hci] at hc; cases hc
            | some i =>
              have hnil : A.relationTables.getD i [] = [] := by
                rw [List.getD_eq_getElem?_getD]
                cases hg : A.relationTables[i]? with
                | none => rfl
                | some m => exact hrt m (List.mem_of_getElem? hg)
              simp only [Archetype.getTables, hrel, Bool.not_true, Bool.false_eq_true, if_false, hci,
                hnil, AL.find?_nil]
        exact ⟨acc, by simp only [walkStep, hm, hrel, Bool.not_true, Bool.false_eq_true, if_false,
          hgt, List.foldl_nil]⟩

/-! ## 2. `FilterN.Register` after `Reset` -/

/-- the filter object behind a label -/
def filterObj (w : World) (f : Nat) : FilterObj := (AL.find? w.filters f).getD {}

/-- in the empty state no filter object is marked registered -/
theorem _root_.Ark.EmptyState.filterObj_cache {w : World} (E : EmptyState w) (f : Nat) :
    (w.filterObj f).cache = none := by
  unfold filterObj
  cases hf : AL.find? w.filters f with
  | none => rfl
  | some fo => exact E.filtersUnreg (f, fo) (AL.mem_of_find? _ _ _ hf)

/-- **`Register` of a filter in the empty state** succeeds (the "already registered" check passes,
    the walk does not panic) -/
theorem _root_.Ark.EmptyState.opFilterRegister_ok {w : World} (E : EmptyState w) (f : Nat)
    (h : HeadColOK w (w.filterObj f).filter (w.filterObj f).rels) :
    ∃ w', opFilterRegister f w = .ok () w' ∧ (w'.filterObj f).cache ≠ none := by
  obtain ⟨ts, hts⟩ := E.getCacheTables_some h
  have hc := E.filterObj_cache f
  have hreg := cacheRegister_eq w _ _ ts hts
  unfold filterObj at hc hreg
  have key : ∃ w', opFilterRegister f w = .ok () w' ∧
      w'.filters = AL.insert w.filters f
        { (AL.find? w.filters f).getD {} with cache := some (w.cache.pool.get).2 } := by
    simp only [opFilterRegister, bind, M.bind, M.get, M.assert, hc, Option.isNone_none, if_true,
      hreg, M.modify]
    exact ⟨_, rfl, rfl⟩
  obtain ⟨w', h1, h2⟩ := key
  refine ⟨w', h1, ?_⟩
  simp only [filterObj, h2, AL.find?_insert_self, Option.getD_some]
  intro hh; cases hh

/-- `find?` through a map that only changes the values -/
theorem find?_map_vals {ν : Type} (m : AL ν) (F : Nat × ν → Nat × ν) (g : ν → ν)
    (hF : ∀ x, F x = (x.1, g x.2)) (k : Nat) : AL.find? (m.map F) k = (AL.find? m k).map g := by
  induction m with
  | nil => rfl
  | cons x rest ih =>
    obtain ⟨a, b⟩ := x
    simp only [List.map_cons, hF, AL.find?]
    split
    · rfl
    · exact ih

theorem filterObj_map (m : AL FilterObj) (F : Nat × FilterObj → Nat × FilterObj)
    (g : FilterObj → FilterObj) (hF : ∀ x, F x = (x.1, g x.2))
    (hg : ∀ fo, (g fo).filter = fo.filter ∧ (g fo).rels = fo.rels) (k : Nat) :
    ((AL.find? (m.map F) k).getD {}).filter = ((AL.find? m k).getD {}).filter ∧
    ((AL.find? (m.map F) k).getD {}).rels = ((AL.find? m k).getD {}).rels := by
  rw [find?_map_vals m F g hF]
  cases AL.find? m k with
  | none => exact ⟨rfl, rfl⟩
  | some fo => exact hg fo

/-- `cache.Reset` keeps the filter and the relations of every filter object -/
theorem cacheReset_filterObj (w : World) (f : Nat) :
    (w.cacheReset.filterObj f).filter = (w.filterObj f).filter ∧
    (w.cacheReset.filterObj f).rels = (w.filterObj f).rels := by
  unfold cacheReset
  split
  · exact ⟨rfl, rfl⟩
  · refine filterObj_map w.filters _ (fun fo =>
      match fo.cache with
      | some id => if (w.cache.filters.map (·.id)).contains id then { fo with cache := none } else fo
      | none => fo) (fun x => rfl) ?_ f
    intro fo
    cases fo.cache with
    | none => exact ⟨rfl, rfl⟩
    | some id => simp only; split <;> exact ⟨rfl, rfl⟩

theorem resetW_filterObj (w : World) (f : Nat) :
    ((resetW w).filterObj f).filter = (w.filterObj f).filter ∧
    ((resetW w).filterObj f).rels = (w.filterObj f).rels := by
  have := cacheReset_filterObj w f
  simp only [filterObj] at this ⊢
  rw [resetW_filters]
  exact this

end World

/-- **filters can be registered again** — on an unlocked world satisfying the hypotheses of
    `reset_establishes`, `Reset` succeeds; afterwards every filter object has the filter and the
    relations it had, none is marked registered, and `Register` of any filter object whose walk
    did not panic before `Reset` (in particular: of any filter that was registered, or queried,
    with the archetypes present at the time of `Reset`) succeeds. -/
theorem filter_reregister (w : World) (hl : w.isLocked = false) (hS : SInv w) (hI : IdxInv w)
    (hR : RInv w) (hC : CacheInv w) (hFE : FreeEmpty w) (hRes : Reserved w) (hSt : StaleOK w)
    (hOB : ObsBound w) (hOR : ObsReg w) (hFR : FilterReg w) :
    ∃ (w' : World), opReset w = .ok () w' ∧
      ∀ f : Nat,
        (w'.filterObj f).filter = (w.filterObj f).filter ∧
        (w'.filterObj f).rels = (w.filterObj f).rels ∧
        (w'.filterObj f).cache = none ∧
        ((w.getCacheTables (w.filterObj f).filter (w.filterObj f).rels).isSome = true →
          ∃ w'', opFilterRegister f w' = .ok () w'' ∧ (w''.filterObj f).cache ≠ none) := by
  obtain ⟨w', hop, post⟩ := reset_establishes w hl hS hI hR hC hFE hRes hSt hOB hOR hFR
  have hw' : w' = resetW w := by
    rw [opReset_eq w hl] at hop
    injection hop with _ h; exact h.symm
  refine ⟨w', hop, fun f => ?_⟩
  obtain ⟨e1, e2⟩ := resetW_filterObj w f
  rw [← hw'] at e1 e2
  refine ⟨e1, e2, post.empty.filterObj_cache f, fun hsome => ?_⟩
  obtain ⟨ts, hts⟩ := Option.isSome_iff_exists.mp hsome
  have h1 : HeadColOK w' (w'.filterObj f).filter (w'.filterObj f).rels := by
    rw [e1, e2, hw']
    exact (headColOK_of_walk hts).resetW hS
  exact post.empty.opFilterRegister_ok f h1

/-! ## 3. `Observer.Register` after `Reset` -/

namespace ObsMgr

theorem ObjRel.spec {m m' : ObsMgr} (h : ObjRel m m') (x : Nat) : (m'.obj x).spec = (m.obj x).spec := by
  rcases h x with h | h <;> rw [h]

/-- `observerManager.Reset` keeps every observer object except for its ID -/
theorem reset_objRel (m : ObsMgr) : ObjRel m m.reset := by
  rw [reset_eq]
  split
  · exact fun _ => Or.inl rfl
  · exact resetSteps_rel _ m

/-- … in particular its specification (event type, components, callback) -/
theorem reset_obj_spec (m : ObsMgr) (l : Nat) : (m.reset.obj l).spec = (m.obj l).spec :=
  (reset_objRel m).spec l

end ObsMgr

namespace World

/-- **`Register` of an observer that has no ID** succeeds iff the two checks on its specification
    pass: it has a callback, and a relation observer names relation components only -/
theorem opObsRegister_ok_of {w : World} {l : Nat} (hid : (w.obs.obj l).oid = none)
    (hcb : (w.obs.obj l).spec.hasCallback = true) {d : ObsData}
    (hd : ObsMgr.computeData (w.obs.obj l).spec (fun c => w.isRelComp c) = some d) :
    ∃ w', opObsRegister l w = .ok () w' := by
  simp only [opObsRegister, bind, M.bind, M.get, M.assert, hid, Option.isNone_none, hcb, if_true, hd,
    M.set]
  exact ⟨_, rfl⟩

/-- a registration that succeeds passed the two checks -/
theorem opObsRegister_ok_inv {w w' : World} {l : Nat} (h : opObsRegister l w = .ok () w') :
    (w.obs.obj l).oid = none ∧ (w.obs.obj l).spec.hasCallback = true ∧
    ∃ d, ObsMgr.computeData (w.obs.obj l).spec (fun c => w.isRelComp c) = some d := by
  cases hid : (w.obs.obj l).oid with
  | some oid =>
    simp [opObsRegister, bind, M.bind, M.get, M.assert, hid] at h
  | none =>
    cases hcb : (w.obs.obj l).spec.hasCallback with
    | false =>
      simp [opObsRegister, bind, M.bind, M.get, M.assert, hid, hcb] at h
    | true =>
      cases hd : ObsMgr.computeData (w.obs.obj l).spec (fun c => w.isRelComp c) with
      | none =>
        simp [opObsRegister, bind, M.bind, M.get, M.assert, hid, hcb, hd, M.panic] at h
      | some d => exact ⟨rfl, rfl, d, rfl⟩

end World

/-- **observers can be registered again** — on an unlocked world satisfying the hypotheses of
    `reset_establishes`, `Reset` succeeds; afterwards every observer object has the specification
    it had and no ID, the registry is the same, and `Register` of any observer object succeeds
    iff its specification passes the two checks of `AddObserver` in the world before `Reset`
    (callback present; relation observers name relation components) — which it did whenever a
    registration of it succeeded (`opObsRegister_ok_inv`; the specification of an observer object
    never changes). -/
theorem observer_reregister (w : World) (hl : w.isLocked = false) (hS : SInv w) (hI : IdxInv w)
    (hR : RInv w) (hC : CacheInv w) (hFE : FreeEmpty w) (hRes : Reserved w) (hSt : StaleOK w)
    (hOB : ObsBound w) (hOR : ObsReg w) (hFR : FilterReg w) :
    ∃ (w' : World), opReset w = .ok () w' ∧
      (∀ c : Comp, w'.isRelComp c = w.isRelComp c) ∧
      ∀ l : Nat,
        (w'.obs.obj l).spec = (w.obs.obj l).spec ∧ (w'.obs.obj l).oid = none ∧
        ((∃ w'', opObsRegister l w' = .ok () w'') ↔
          ((w.obs.obj l).spec.hasCallback = true ∧
            ∃ d, ObsMgr.computeData (w.obs.obj l).spec (fun c => w.isRelComp c) = some d)) := by
  obtain ⟨w', hop, post⟩ := reset_establishes w hl hS hI hR hC hFE hRes hSt hOB hOR hFR
  have hw' : w' = resetW w := by
    rw [opReset_eq w hl] at hop
    injection hop with _ h; exact h.symm
  have hrel : ∀ c : Comp, w'.isRelComp c = w.isRelComp c := by
    intro c; simp only [isRelComp, post.kinds]
  have hrelf : (fun c => w'.isRelComp c) = fun c => w.isRelComp c := funext hrel
  refine ⟨w', hop, hrel, fun l => ?_⟩
  have hspec : (w'.obs.obj l).spec = (w.obs.obj l).spec := by
    rw [hw', resetW_obs]; exact ObsMgr.reset_obj_spec _ l
  refine ⟨hspec, post.empty.obsIds l, ?_⟩
  constructor
  · rintro ⟨w'', h⟩
    obtain ⟨_, h1, d, h2⟩ := opObsRegister_ok_inv h
    rw [hspec] at h1
    rw [hspec, hrelf] at h2
    exact ⟨h1, d, h2⟩
  · rintro ⟨h1, d, h2⟩
    exact opObsRegister_ok_of (post.empty.obsIds l) (by rw [hspec]; exact h1)
      (by rw [hspec, hrelf]; exact h2)

end Ark
