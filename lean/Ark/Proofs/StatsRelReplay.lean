/-
  Ark.Proofs.StatsRelReplay — property C19 for worlds WITH relation tables, part 6:
  "statistics that were updated incrementally over a history equal those of a world that replays
  the history and is asked once."

  * a complete query iteration neither reads nor writes the statistics object
    (`indep_drain`: `qOpen`, `qNext`, `qClose`, the cursor walks, `lock` / `unlock`);
  * `exec_setStats`, `step_setStats`, `step2_setStats`, `step3_setStats` — every step of the
    relation machines commutes with replacing the statistics object;
  * `strip` (the history without its `Stats()` calls, a history of `Ark.RelRefine3`), `replay`
    (it reaches the same world up to `w.stats`, the same handles, the same specification),
    `reach3_stats_empty` (the replaying world was never asked), `replay_stats` (**incremental =
    replay**).

  Kernel-only proofs, core Lean only.
-/
import Ark.Proofs.StatsRelHist

set_option autoImplicit false

namespace Ark

open World

/-! ## 1. queries do not read the statistics object -/

theorem Indep.ite {α : Type} {c : Prop} [Decidable c] {a b : W α} (ha : Indep a) (hb : Indep b) :
    Indep (if c then a else b) := by
  split
  · exact ha
  · exact hb

theorem Indep.panicK {α : Type} (k : PanicKind) : Indep (M.panic k : W α) := fun _ _ => rfl

namespace World

theorem indep_lock : Indep lock := fun w st => by
  show (match w.locks.lock with
      | none => Res.panic .outOfLocks (w.setStats st)
      | some (l, b) => .ok b (({ w with locks := l } : World).setStats st)) =
    liftS st (match w.locks.lock with
      | none => Res.panic .outOfLocks w
      | some (l, b) => .ok b { w with locks := l })
  cases w.locks.lock with
  | none => rfl
  | some p => rfl

theorem indep_unlock (b : Nat) : Indep (unlock b) := fun w st => by
  show (match w.locks.unlock b with
      | none => Res.panic .unbalancedUnlock (w.setStats st)
      | some l => .ok () (({ w with locks := l } : World).setStats st)) =
    liftS st (match w.locks.unlock b with
      | none => Res.panic .unbalancedUnlock w
      | some l => .ok () { w with locks := l })
  cases w.locks.unlock b with
  | none => rfl
  | some p => rfl

theorem qNextTable_go_setStats (w : World) (st : WorldStats) (tables : List Nat) :
    ∀ (fuel : Nat) (q : QueryObj),
      qNextTable.go (w.setStats st) tables q fuel = qNextTable.go w tables q fuel
  | 0, _ => rfl
  | fuel + 1, q => by
    simp only [qNextTable.go]
    have ht : ∀ (t : Nat), (w.setStats st).tbl t = w.tbl t := fun _ => rfl
    simp only [ht, qNextTable_go_setStats w st tables fuel]
    rfl

theorem qNextTable_setStats (w : World) (st : WorldStats) (q : QueryObj) (tables : List Nat) :
    qNextTable (w.setStats st) q tables = qNextTable w q tables :=
  qNextTable_go_setStats w st tables _ q

theorem qNextArchetype_go_setStats (w : World) (st : WorldStats) (archs : List Nat) :
    ∀ (fuel : Nat) (q : QueryObj),
      qNextArchetype.go (w.setStats st) archs q fuel = qNextArchetype.go w archs q fuel
  | 0, _ => rfl
  | fuel + 1, q => by
    simp only [qNextArchetype.go]
    have ht : ∀ (t : Nat), (w.setStats st).tbl t = w.tbl t := fun _ => rfl
    have ha : ∀ (a : Nat), (w.setStats st).arch a = w.arch a := fun _ => rfl
    simp only [ht, ha, qNextTable_setStats, qNextArchetype_go_setStats w st archs fuel]
    rfl

theorem qNextArchetype_setStats (w : World) (st : WorldStats) (q : QueryObj) :
    qNextArchetype (w.setStats st) q = qNextArchetype w q := by
  unfold qNextArchetype
  have h : (w.setStats st).archList q.rare = w.archList q.rare := rfl
  simp only [h]
  exact qNextArchetype_go_setStats w st _ _ _

theorem indep_qClose (q : QueryObj) : Indep (qClose q) := by
  unfold qClose
  apply Indep.ite
  · exact Indep.pure _
  · exact Indep.bind (indep_unlock _) fun _ => Indep.pure _

theorem indep_qNext (q : QueryObj) : Indep (qNext q) := by
  unfold qNext
  dsimp only
  have tailI : Indep (M.get >>= fun w =>
      match q.cacheTables with
      | some ts =>
        match qNextTable w q ts with
        | none => M.panic .runtime
        | some (q, true) => pure (q, true)
        | some (q, false) => do
          let q ← qClose q
          pure (q, false)
      | none =>
        match (if q.archetype ≥ 0 then qNextTable w q q.tables else some (q, false)) with
        | none => M.panic .runtime
        | some (q, true) => pure (q, true)
        | some (q, false) =>
          match qNextArchetype w q with
          | none => M.panic .runtime
          | some (q, true) => pure (q, true)
          | some (q, false) => do
            let q ← qClose q
            pure (q, false)) := by
    refine Indep.get_bind ?_ ?_
    · intro w st
      simp only [qNextTable_setStats, qNextArchetype_setStats]
    · intro w
      cases q.cacheTables with
      | some ts =>
        dsimp only
        cases qNextTable w q ts with
        | none => exact Indep.panicK _
        | some p =>
          obtain ⟨q1, b⟩ := p
          cases b with
          | true => exact Indep.pure _
          | false => exact Indep.bind (indep_qClose _) fun _ => Indep.pure _
      | none =>
        dsimp only
        cases (if q.archetype ≥ 0 then qNextTable w q q.tables else some (q, false)) with
        | none => exact Indep.panicK _
        | some p =>
          obtain ⟨q1, b⟩ := p
          cases b with
          | true => exact Indep.pure _
          | false =>
            dsimp only
            cases qNextArchetype w q1 with
            | none => exact Indep.panicK _
            | some p2 =>
              obtain ⟨q2, b2⟩ := p2
              cases b2 with
              | true => exact Indep.pure _
              | false => exact Indep.bind (indep_qClose _) fun _ => Indep.pure _
  apply Indep.ite
  · refine Indep.bind (Indep.panicK _) fun _ => ?_
    apply Indep.ite
    · exact Indep.pure _
    · exact tailI
  · apply Indep.ite
    · exact Indep.pure _
    · exact tailI

theorem rareComponent_go_setStats (w : World) (st : WorldStats) : ∀ (ids : List Comp) (best : Comp)
    (bc : Option Nat),
    rareComponent.go (w.setStats st) best bc ids = rareComponent.go w best bc ids
  | [], _, _ => rfl
  | c :: rest, best, bc => by
    simp only [rareComponent.go]
    have ha : (w.setStats st).archCount = w.archCount := rfl
    simp only [ha, rareComponent_go_setStats w st rest]

theorem rareComponent_setStats (w : World) (st : WorldStats) (ids : List Comp) :
    (w.setStats st).rareComponent ids = w.rareComponent ids :=
  rareComponent_go_setStats w st ids _ _

theorem indep_qOpen (fo : FilterObj) (extra : List RelID) : Indep (qOpen fo extra) := by
  unfold qOpen
  dsimp only
  have tailI : Indep (M.get >>= fun w =>
      match fo.cache with
      | some id =>
        match w.cacheEntry? id with
        | some ce => do
          let cacheTables ← (pure (some ce.tables.tables) : W (Option (List Nat)))
          let b ← lock
          pure ({ filter := fo.filter, rels := effRels fo extra, cacheTables,
                  rare := if fo.typed && !fo.ids.isEmpty then some (w.rareComponent fo.ids) else none,
                  lockBit := b } : QueryObj)
        | none => do
          let cacheTables ← (M.panic .runtime : W (Option (List Nat)))
          let b ← lock
          pure ({ filter := fo.filter, rels := effRels fo extra, cacheTables,
                  rare := if fo.typed && !fo.ids.isEmpty then some (w.rareComponent fo.ids) else none,
                  lockBit := b } : QueryObj)
      | none => do
        let cacheTables ← (pure none : W (Option (List Nat)))
        let b ← lock
        pure ({ filter := fo.filter, rels := effRels fo extra, cacheTables,
                rare := if fo.typed && !fo.ids.isEmpty then some (w.rareComponent fo.ids) else none,
                lockBit := b } : QueryObj)) := by
    refine Indep.get_bind ?_ fun w => ?_
    · intro w st
      have hc : ∀ (id : Nat), (w.setStats st).cacheEntry? id = w.cacheEntry? id := fun _ => rfl
      simp only [hc, rareComponent_setStats]
    cases fo.cache with
    | none => exact Indep.bind (Indep.pure _) fun _ => Indep.bind indep_lock fun _ => Indep.pure _
    | some id =>
      dsimp only
      cases w.cacheEntry? id with
      | none =>
        exact Indep.bind (Indep.panicK _) fun _ => Indep.bind indep_lock fun _ => Indep.pure _
      | some ce =>
        exact Indep.bind (Indep.pure _) fun _ => Indep.bind indep_lock fun _ => Indep.pure _
  apply Indep.ite
  · exact Indep.bind (indep_preCheckTyped _ _) fun _ => tailI
  · exact tailI

theorem indep_drainFrom : ∀ (fuel : Nat) (q : QueryObj), Indep (drainFrom q fuel)
  | 0, _ => Indep.pure _
  | fuel + 1, q => by
    unfold drainFrom
    refine Indep.bind (indep_qNext q) fun x => ?_
    obtain ⟨q1, more⟩ := x
    dsimp only
    apply Indep.ite
    · exact Indep.pure _
    · refine Indep.get_bind (fun _ _ => rfl) fun w => ?_
      refine Indep.bind (indep_drainFrom fuel q1) fun y => ?_
      obtain ⟨q2, rest⟩ := y
      exact Indep.pure _

/-- **a complete query iteration neither reads nor writes the statistics object** -/
theorem indep_drain (fo : FilterObj) (extra : List RelID) : Indep (drain fo extra) := by
  unfold drain
  refine Indep.bind (indep_qOpen fo extra) fun q => ?_
  refine Indep.get_bind (fun _ _ => rfl) fun w => ?_
  refine Indep.bind (indep_drainFrom _ q) fun y => ?_
  obtain ⟨q2, vs⟩ := y
  exact Indep.pure _

end World

/-! ## 2. every step of the relation machines commutes with replacing the statistics object -/

/-- the machine state with another statistics object -/
def RelRefine.St.setStats (s : RelRefine.St) (st : WorldStats) : RelRefine.St :=
  ⟨s.w.setStats st, s.issued, s.ss⟩

theorem RelRefine2.defFilter_setStats (f : Nat) (fo : FilterObj) (w : World) (st : WorldStats) :
    RelRefine2.defFilter f fo (w.setStats st) = (RelRefine2.defFilter f fo w).setStats st := by
  unfold RelRefine2.defFilter
  have hI : Indep (if fo.typed then preCheckTyped fo.filter.mask fo.rels else pure ()) := by
    split
    · exact indep_preCheckTyped _ _
    · exact Indep.pure ()
  rw [hI w st]
  cases (if fo.typed then preCheckTyped fo.filter.mask fo.rels else pure ()) w <;> rfl

namespace RelStats

open RelRefine RelRefine2 RelRefine3

/-- **no operation of `Ark.RelRefine` reads or writes the statistics object** (success and
    panic), on a world without observers, with any callback runner -/
theorem exec_setStats (run : ProbeRunner) {w : World} (hno : NoObs w) (op : Op) (st : WorldStats) :
    exec run (w.setStats st) op = liftS st (exec run w op) := by
  cases op with
  | reg size z ir =>
    simp only [exec]
    rw [indep_registerComponent _ w st]
    cases registerComponent { isRel := ir, zst := z, size := size } w <;> rfl
  | new p ids vals rels =>
    simp only [exec]
    rw [(fr_opNewEntity run p ids vals rels w hno).1 st]
    cases opNewEntity run p ids vals rels w <;> rfl
  | add p e ids vals rels =>
    simp only [exec]
    rw [(fr_opAdd run p e ids vals rels w hno).1 st]
    cases opAdd run p e ids vals rels w <;> rfl
  | rem p e ids =>
    simp only [exec]
    rw [(fr_opRemove run p e ids w hno).1 st]
    cases opRemove run p e ids w <;> rfl
  | setrel p e rels =>
    simp only [exec]
    rw [(fr_opSetRelations run p e _ rels w hno).1 st]
    cases opSetRelations run p e (rels.map (·.comp)) rels w <;> rfl
  | set e vals =>
    simp only [exec]
    rw [(fr_opSet run e _ vals w hno).1 st]
    cases opSet run e (Refine.keys vals) vals w <;> rfl
  | del e =>
    simp only [exec]
    rw [(fr_opRemoveEntity run e w hno).1 st]
    cases opRemoveEntity run e w <;> rfl

/-- every step of `Ark.RelRefine` commutes with `setStats` -/
theorem step_setStats (run : ProbeRunner) {s : St} (hno : NoObs s.w) (op : Op) (st : WorldStats) :
    step run (s.setStats st) op = (step run s op).setStats st := by
  have hgeq : guard (s.setStats st) op = guard s op := rfl
  by_cases hg : guard s op = true
  case neg =>
    have h1 : step run s op = s := by rw [step, if_neg hg]
    have h2 : step run (s.setStats st) op = s.setStats st := by
      rw [step, if_neg (by rw [hgeq]; exact hg)]
    rw [h1, h2]
  have hg' : guard (s.setStats st) op = true := by rw [hgeq]; exact hg
  rw [step_of_guard hg, step_of_guard hg']
  have hex : exec run (s.setStats st).w op = liftS st (exec run s.w op) :=
    exec_setStats run hno op st
  rw [hex]
  cases exec run s.w op <;> rfl

/-- every step of `Ark.RelRefine2` (also `Reset`) commutes with `setStats` -/
theorem step2_setStats (run : ProbeRunner) {s : St} (hno : NoObs s.w) (hl : s.w.isLocked = false)
    (op : Op2) (st : WorldStats) :
    step2 run (s.setStats st) op = (step2 run s op).setStats st := by
  have hl' : (s.w.setStats st).isLocked = false := hl
  cases op with
  | base op => exact step_setStats run hno op st
  | copy e =>
    by_cases hi : e ∈ s.issued
    case neg =>
      have hi' : e ∉ (s.setStats st).issued := hi
      simp only [step2, decide_eq_true_eq, if_neg hi, if_neg hi']
    have hi' : e ∈ (s.setStats st).issued := hi
    simp only [step2, decide_eq_true_eq, if_pos hi, if_pos hi']
    have hex : opCopyEntity run e (s.setStats st).w = liftS st (opCopyEntity run e s.w) :=
      (fr_opCopyEntity run e s.w hno).1 st
    rw [hex]
    cases opCopyEntity run e s.w <;> rfl
  | shrink bounded =>
    show ({ s.setStats st with w := (opShrink bounded (s.w.setStats st)).state } : St) =
      ({ s with w := (opShrink bounded s.w).state } : St).setStats st
    rw [opShrink_eq bounded _ hl', opShrink_eq bounded _ hl, shrinkPure_setStats]
    rfl
  | reset =>
    show (match opReset (s.w.setStats st) with
        | .ok _ w' => (⟨w', [], ⟨[], s.ss.zst, s.ss.isRel⟩⟩ : St)
        | .panic _ w' => { s.setStats st with w := w' }) =
      (match opReset s.w with
        | .ok _ w' => (⟨w', [], ⟨[], s.ss.zst, s.ss.isRel⟩⟩ : St)
        | .panic _ w' => { s with w := w' }).setStats st
    rw [opReset_eq _ hl', opReset_eq _ hl, resetW_setStats]
    rfl
  | fdef f fo =>
    show (if guardF (s.w.setStats st) fo = true then
        { s.setStats st with w := defFilter f fo (s.w.setStats st) } else s.setStats st) =
      (if guardF s.w fo = true then { s with w := defFilter f fo s.w } else s).setStats st
    have hgf : guardF (s.w.setStats st) fo = guardF s.w fo := rfl
    rw [hgf, defFilter_setStats]
    split <;> rfl
  | freg f =>
    show ({ s.setStats st with w := (opFilterRegister f (s.w.setStats st)).state } : St) = _
    rw [indep_opFilterRegister f s.w st, liftS_state]
    rfl
  | funreg f =>
    show ({ s.setStats st with w := (opFilterUnregister f (s.w.setStats st)).state } : St) = _
    rw [indep_opFilterUnregister f s.w st, liftS_state]
    rfl
  | query f extra =>
    show (if guardQ (s.w.setStats st) (RelRefine2.foAt (s.w.setStats st) f) extra = true then
        { s.setStats st with
          w := (drain (RelRefine2.foAt (s.w.setStats st) f) extra (s.w.setStats st)).state }
        else s.setStats st) =
      (if guardQ s.w (RelRefine2.foAt s.w f) extra = true then
        { s with w := (drain (RelRefine2.foAt s.w f) extra s.w).state } else s).setStats st
    have hfo : RelRefine2.foAt (s.w.setStats st) f = RelRefine2.foAt s.w f := rfl
    have hgq : guardQ (s.w.setStats st) (RelRefine2.foAt s.w f) extra =
        guardQ s.w (RelRefine2.foAt s.w f) extra := rfl
    rw [hfo, hgq, indep_drain _ extra s.w st, liftS_state]
    split <;> rfl

/-- every step of `Ark.RelRefine3` commutes with `setStats` -/
theorem step3_setStats (run : ProbeRunner) {s : St} (hno : NoObs s.w) (hl : s.w.isLocked = false)
    (op : Op3) (st : WorldStats) :
    step3 run (s.setStats st) op = (step3 run s op).setStats st := by
  cases op with
  | base2 op => exact step2_setStats run hno hl op st
  | xchg p e add vals rem rels =>
    show (if guardXchg (s.setStats st) p e add rels = true then
        (⟨(opExchange run p e add vals rem rels (s.w.setStats st)).state, s.issued,
          specXchg s.ss e add vals rem rels⟩ : St) else s.setStats st) =
      (if guardXchg s p e add rels = true then
        (⟨(opExchange run p e add vals rem rels s.w).state, s.issued,
          specXchg s.ss e add vals rem rels⟩ : St) else s).setStats st
    have hgx : guardXchg (s.setStats st) p e add rels = guardXchg s p e add rels := rfl
    rw [hgx, (fr_opExchange run p e add vals rem rels s.w hno).1 st, liftS_state]
    split <;> rfl

/-! ## 3. replay -/

/-- the history without its `Stats()` calls -/
def strip : List Op4 → List Op3
  | [] => []
  | .op o :: rest => o :: strip rest
  | .stats :: rest => strip rest

theorem strip_length_le : ∀ (ops : List Op4), (strip ops).length ≤ ops.length
  | [] => Nat.le_refl _
  | .op _ :: rest => by simp only [strip, List.length_cons]; have := strip_length_le rest; omega
  | .stats :: rest => by simp only [strip, List.length_cons]; have := strip_length_le rest; omega

theorem strip_noReset : ∀ (ops : List Op4), (∀ op ∈ ops, op.isReset = false) →
    ∀ o ∈ strip ops, o.isReset = false
  | [], _ => fun _ h => by cases h
  | .op o :: rest, h => by
    intro o' ho'
    simp only [strip, List.mem_cons] at ho'
    rcases ho' with rfl | ho'
    · exact h (.op o') List.mem_cons_self
    · exact strip_noReset rest (fun x hx => h x (List.mem_cons_of_mem _ hx)) o' ho'
  | .stats :: rest, h => by
    intro o' ho'
    exact strip_noReset rest (fun x hx => h x (List.mem_cons_of_mem _ hx)) o' ho'

/-- a `Stats()` step only replaces the statistics object -/
theorem step4_stats_setStats (run : ProbeRunner) (s : St) :
    step4 run s .stats = s.setStats (s.w.statsUpdate s.w.stats) := rfl

theorem run_replay (run : ProbeRunner) : ∀ (ops : List Op4) (s : St) (fl : List Nat)
    (st : WorldStats), HInv2 s fl →
    s.w.tables.length + ops.length * (s.w.relationArchetypes.length + ops.length) +
      s.w.relationArchetypes.length + ops.length + 1 ≤ maxU32 →
    2 * (s.w.entities.length + ops.length) < 2 ^ 32 →
    ∃ (st' : WorldStats),
      runOps4 run (s.setStats st) ops = (runOps3 run s (strip ops)).setStats st' := by
  intro ops
  induction ops with
  | nil => intro s fl st _ _ _; exact ⟨st, rfl⟩
  | cons op ops ih =>
    intro s fl st H hb1 hb2
    simp only [List.length_cons] at hb1 hb2
    have e1 : (ops.length + 1) * (s.w.relationArchetypes.length + (ops.length + 1)) =
        ops.length * (s.w.relationArchetypes.length + 1 + ops.length) +
          (s.w.relationArchetypes.length + 1 + ops.length) := by
      rw [Nat.succ_mul]
      have : s.w.relationArchetypes.length + (ops.length + 1) =
          s.w.relationArchetypes.length + 1 + ops.length := by omega
      rw [this]
    rw [e1] at hb1
    have hmono : ops.length * (s.w.relationArchetypes.length + ops.length) ≤
        ops.length * (s.w.relationArchetypes.length + 1 + ops.length) :=
      Nat.mul_le_mul_left _ (by omega)
    cases op with
    | stats =>
      show ∃ (st' : WorldStats), runOps4 run (step4 run (s.setStats st) .stats) ops = _
      rw [step4_stats_setStats]
      exact ih s fl _ H (by omega) (by omega)
    | op o =>
      show ∃ (st' : WorldStats), runOps4 run (step3 run (s.setStats st) o) ops =
        (runOps3 run (step3 run s o) (strip ops)).setStats st'
      rw [step3_setStats run H.base.noObs H.base.unlocked o st]
      obtain ⟨⟨fl1, h1⟩, g1, g2, g3⟩ := step3_inv run H (by omega) (by omega) o
      have hm : ops.length * ((step3 run s o).w.relationArchetypes.length + ops.length) ≤
          ops.length * (s.w.relationArchetypes.length + 1 + ops.length) :=
        Nat.mul_le_mul_left _ (by omega)
      exact ih _ fl1 st h1 (by omega) (by omega)

/-- **replay**: the state reached by a history with `Stats()` calls is the state reached by the
    same history without them (a history of `Ark.RelRefine3`), with another statistics object:
    same world up to `w.stats`, same handles, same specification -/
theorem replay (run : ProbeRunner) (cap rel : Nat) (ops : List Op4)
    (hlen : ops.length < 2 ^ 16) :
    ∃ (st : WorldStats),
      reach4 run cap rel ops = (reach3 run cap rel (strip ops)).setStats st := by
  have hsq : ops.length * ops.length ≤ 65535 * 65535 := Nat.mul_le_mul (by omega) (by omega)
  exact run_replay run ops (St.init cap rel) [] {} (hinv2_init cap rel)
    (by
      show 1 + ops.length * (0 + ops.length) + 0 + ops.length + 1 ≤ maxU32
      rw [Nat.zero_add]; simp only [maxU32]; omega)
    (by show 2 * (2 + ops.length) < 2 ^ 32; omega)

/-- the relation machine never touches the statistics object -/
theorem run3_stats (run : ProbeRunner) : ∀ (ops : List Op3) (s : St) (fl : List Nat),
    HInv2 s fl →
    s.w.tables.length + ops.length * (s.w.relationArchetypes.length + ops.length) +
      s.w.relationArchetypes.length + ops.length + 1 ≤ maxU32 →
    2 * (s.w.entities.length + ops.length) < 2 ^ 32 →
    (runOps3 run s ops).w.stats = s.w.stats := by
  intro ops
  induction ops with
  | nil => intro s fl _ _ _; rfl
  | cons op ops ih =>
    intro s fl H hb1 hb2
    simp only [List.length_cons] at hb1 hb2
    have e1 : (ops.length + 1) * (s.w.relationArchetypes.length + (ops.length + 1)) =
        ops.length * (s.w.relationArchetypes.length + 1 + ops.length) +
          (s.w.relationArchetypes.length + 1 + ops.length) := by
      rw [Nat.succ_mul]
      have : s.w.relationArchetypes.length + (ops.length + 1) =
          s.w.relationArchetypes.length + 1 + ops.length := by omega
      rw [this]
    rw [e1] at hb1
    obtain ⟨⟨fl1, h1⟩, g1, g2, g3⟩ := step3_inv run H (by omega) (by omega) op
    have hm : ops.length * ((step3 run s op).w.relationArchetypes.length + ops.length) ≤
        ops.length * (s.w.relationArchetypes.length + 1 + ops.length) :=
      Nat.mul_le_mul_left _ (by omega)
    have := ih (step3 run s op) fl1 h1 (by omega) (by omega)
    show (runOps3 run (step3 run s op) ops).w.stats = _
    rw [this]
    exact (step3_rstep run H (by omega) (by omega) op).sstep.stats

/-- the replaying world was never asked: its statistics object is the initial, empty one -/
theorem reach3_stats_empty (run : ProbeRunner) (cap rel : Nat) (ops : List Op3)
    (hlen : ops.length < 2 ^ 16) :
    (reach3 run cap rel ops).w.stats = {} := by
  have hsq : ops.length * ops.length ≤ 65535 * 65535 := Nat.mul_le_mul (by omega) (by omega)
  exact run3_stats run ops (St.init cap rel) [] (hinv2_init cap rel)
    (by
      show 1 + ops.length * (0 + ops.length) + 0 + ops.length + 1 ≤ maxU32
      rw [Nat.zero_add]; simp only [maxU32]; omega)
    (by show 2 * (2 + ops.length) < 2 ^ 32; omega)

/-- **incremental = replay**: `Stats()` after a history with interleaved `Stats()` calls returns
    what `Stats()` returns in a world that replays the history without those calls and is asked
    once — namely the fresh statistics of the replaying world. -/
theorem replay_stats (run : ProbeRunner) (cap rel : Nat) (ops : List Op4)
    (hlen : ops.length < 2 ^ 16) :
    opStats (reach4 run cap rel ops).w =
      .ok (statsFresh (reach3 run cap rel (strip ops)).w)
        ((reach3 run cap rel (strip ops)).w.setStats
          (statsFresh (reach3 run cap rel (strip ops)).w)) ∧
    opStats (reach3 run cap rel (strip ops)).w =
      .ok (statsFresh (reach3 run cap rel (strip ops)).w)
        ((reach3 run cap rel (strip ops)).w.setStats
          (statsFresh (reach3 run cap rel (strip ops)).w)) ∧
    (reach3 run cap rel (strip ops)).w.stats = {} := by
  obtain ⟨st, hr⟩ := replay run cap rel ops hlen
  have hlen2 : (strip ops).length < 2 ^ 16 := by
    have := strip_length_le ops; omega
  have hemp := reach3_stats_empty run cap rel (strip ops) hlen2
  have h1 := reach4_opStats run cap rel ops hlen
  rw [hr] at h1
  have h2 := opStats_eq (reach3 run cap rel (strip ops)).w
    (by rw [hemp]; exact compatible_empty _)
  exact ⟨by rw [hr]; exact h1, h2, hemp⟩

end RelStats

end Ark
