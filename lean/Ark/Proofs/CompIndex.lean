/-
  Ark.Proofs.CompIndex — the component index `storage.componentIndex` (Layer A.2 of the task).

  A typed filter with type parameters (`FilterN`, `N ≥ 1`) does not walk all archetypes: it picks
  the RARE component of its type parameters (`registry.rareComponent`: the one with the fewest
  archetypes) and walks `componentIndex[rare]`.  That this list contains every archetype the
  filter can match is the invariant

  * `CIdx w` — `componentIndex` has one entry per registered component; the entry of a registered
    component `c` is a duplicate-free list of exactly the IDs of the archetypes whose mask has
    bit `c`.

  Results.
  * `CIdx.init`; preservation by the primitives that touch the index or the archetype list:
    `CIdx.registerComponent` (needs "every mask bit is registered", `SInvMid.maskReg`),
    `CIdx.createArchetypeW`, `CIdx.findOrCreateArch`, `CIdx.createTable`, and by the table
    lookups `CIdx.findOrCreateTableAdd` / `CIdx.findOrCreateTableRemove` /
    `CIdx.findOrCreateTable` (on success, no further hypothesis; via `lookup_induct`); `CIFrame` — the frame condition under which `CIdx` is kept (index, registry and
    archetype masks unchanged), established for the row-moving world transformers `placedW`,
    `addMove`, `removeRowOf`, `writeValsW`.
  * `rareComponent_mem` — the rare component is one of the given IDs.
  * `ArchsOK.rare`, `drain_exact_typed` (Layer A.2) and `drain_exact` (every unregistered filter
    object whose type parameters are required by its mask: `FilterOK`; that they are registered
    is NOT needed).

  Kernel-only proofs, core Lean only.
-/
import Ark.Proofs.QueryExact
import Ark.Proofs.Lookups

set_option autoImplicit false

namespace Ark

open World

/-! ## 1. the invariant -/

/-- **the component index is exact** -/
structure CIdx (w : World) : Prop where
  /-- one entry per registered component -/
  len : w.componentIndex.length = w.kinds.length
  nodup : ∀ c : Nat, (w.componentIndex.getD c []).Nodup
  /-- the entry of a registered component lists exactly the archetypes having it -/
  mem : ∀ c a : Nat, c < w.kinds.length →
    (a ∈ w.componentIndex.getD c [] ↔ a < w.archetypes.length ∧ (w.arch a).mask.get c = true)

/-- frame condition for `CIdx`: index and registry unchanged, archetypes keep their number and
    their masks -/
structure CIFrame (w w' : World) : Prop where
  ci : w'.componentIndex = w.componentIndex
  kinds : w'.kinds = w.kinds
  alen : w'.archetypes.length = w.archetypes.length
  masks : ∀ a : Nat, (w'.arch a).mask = (w.arch a).mask

theorem CIFrame.refl (w : World) : CIFrame w w := ⟨rfl, rfl, rfl, fun _ => rfl⟩

theorem CIFrame.trans {a b c : World} (h1 : CIFrame a b) (h2 : CIFrame b c) : CIFrame a c :=
  ⟨h2.ci.trans h1.ci, h2.kinds.trans h1.kinds, h2.alen.trans h1.alen,
    fun x => (h2.masks x).trans (h1.masks x)⟩

/-- same archetype list, index and registry -/
theorem CIFrame.of_archs {w w' : World} (hci : w'.componentIndex = w.componentIndex)
    (hk : w'.kinds = w.kinds) (ha : w'.archetypes = w.archetypes) : CIFrame w w' :=
  ⟨hci, hk, by rw [ha], fun a => by simp only [arch, ha]⟩

theorem CIdx.of_frame {w w' : World} (h : CIdx w) (f : CIFrame w w') : CIdx w' where
  len := by rw [f.ci, f.kinds]; exact h.len
  nodup := by rw [f.ci]; exact h.nodup
  mem := by
    intro c a hc
    rw [f.ci, f.alen, f.masks]
    rw [f.kinds] at hc
    exact h.mem c a hc

theorem CIdx.init (cap rel : Nat) (maxComps : Nat := 256) : CIdx (World.init cap rel maxComps) where
  len := rfl
  nodup := by intro c; show (([] : List (List Nat)).getD c []).Nodup; simp
  mem := by
    intro c a hc
    have : (World.init cap rel maxComps).kinds.length = 0 := rfl
    omega

/-! ## 2. `registerComponent` -/

theorem CIdx.registerComponent {w w' : World} (h : CIdx w)
    (hreg : ∀ (a : Nat) (A : Archetype), w.archetypes[a]? = some A →
      ∀ (c : Nat), A.mask.get c = true → c < w.kinds.length)
    {k : CompKind} {n : Nat} (hr : World.registerComponent k w = .ok n w') : CIdx w' := by
  unfold World.registerComponent at hr
  simp only at hr
  split at hr
  · cases hr
  · split at hr
    · cases hr
    · injection hr with _ hw
      subst hw
      have hlen := h.len
      refine ⟨?_, ?_, ?_⟩
      · show (w.componentIndex ++ [[]]).length = (w.kinds ++ [k]).length
        simp [hlen]
      · intro c
        show ((w.componentIndex ++ [[]]).getD c []).Nodup
        rcases Nat.lt_or_ge c w.componentIndex.length with hc | hc
        · have := h.nodup c
          simp only [List.getD_eq_getElem?_getD] at this ⊢
          rw [List.getElem?_append_left hc]; exact this
        · simp only [List.getD_eq_getElem?_getD]
          rw [List.getElem?_append_right hc]
          cases c - w.componentIndex.length with
          | zero => simp
          | succ m => simp
      · intro c a hc
        show a ∈ (w.componentIndex ++ [[]]).getD c [] ↔
          a < w.archetypes.length ∧ (w.arch a).mask.get c = true
        have hc' : c < w.kinds.length + 1 := by
          have : (w.kinds ++ [k]).length = w.kinds.length + 1 := by simp
          rw [← this]; exact hc
        rcases Nat.lt_or_ge c w.kinds.length with hlt | hge
        · have := h.mem c a hlt
          simp only [List.getD_eq_getElem?_getD] at this ⊢
          rw [List.getElem?_append_left (by rw [hlen]; exact hlt)]; exact this
        · have hceq : c = w.kinds.length := by omega
          simp only [List.getD_eq_getElem?_getD]
          rw [List.getElem?_append_right (by rw [hlen]; exact hge)]
          have : c - w.componentIndex.length = 0 := by omega
          rw [this]
          simp only [List.getElem?_cons_zero, Option.getD_some, List.not_mem_nil, false_iff,
            not_and]
          intro ha hg
          have := hreg a _ (aget_of_lt ha) c hg
          omega

/-! ## 3. `createArchetype` -/

namespace World

/-- the `componentIndex` part of the registration loop of `createArchetype` -/
def ciStep (id : Nat) (ci : List (List Nat)) (c : Comp) : List (List Nat) :=
  ci.modify c (· ++ [id])

theorem foldl_caStep_ci (id : Nat) : ∀ (cs : List Comp) (w : World),
    (cs.foldl (caStep id) w).componentIndex = cs.foldl (ciStep id) w.componentIndex
  | [], _ => rfl
  | c :: cs, w => by rw [List.foldl_cons, List.foldl_cons, foldl_caStep_ci id cs]; rfl

theorem createArchetypeW_ci (w : World) (mask : Mask) :
    (createArchetypeW w mask).componentIndex =
      (mask.toList w.kinds.length).foldl (ciStep w.archetypes.length) w.componentIndex := by
  unfold createArchetypeW
  simp only
  split
  · exact foldl_caStep_ci _ _ _
  · exact foldl_caStep_ci _ _ _

theorem foldl_ciStep_length (id : Nat) : ∀ (cs : List Comp) (ci : List (List Nat)),
    (cs.foldl (ciStep id) ci).length = ci.length
  | [], _ => rfl
  | c :: cs, ci => by
    rw [List.foldl_cons, foldl_ciStep_length id cs]; simp only [ciStep, List.length_modify]

/-- what the registration loop leaves at position `c` -/
theorem foldl_ciStep_getD (id : Nat) : ∀ (cs : List Comp) (ci : List (List Nat)) (c : Nat),
    cs.Nodup → (cs.foldl (ciStep id) ci).getD c [] =
      if c ∈ cs ∧ c < ci.length then ci.getD c [] ++ [id] else ci.getD c [] := by
  intro cs
  induction cs with
  | nil => intro ci c _; simp
  | cons x cs ih =>
    intro ci c hnd
    obtain ⟨hx, hnd'⟩ := List.nodup_cons.mp hnd
    rw [List.foldl_cons, ih _ c hnd']
    have hlen : (ciStep id ci x).length = ci.length := by simp only [ciStep, List.length_modify]
    have hget : (ciStep id ci x).getD c [] =
        if x = c ∧ c < ci.length then ci.getD c [] ++ [id] else ci.getD c [] := by
      simp only [ciStep, List.getD_eq_getElem?_getD, List.getElem?_modify]
      by_cases hxc : x = c
      · subst hxc
        rcases Nat.lt_or_ge x ci.length with hlt | hge
        · simp [hlt]
        · simp [Nat.not_lt.mpr hge]
      · cases ci[c]? <;> simp [hxc]
    rw [hlen, hget]
    by_cases hc : c ∈ cs
    · have hxc : x ≠ c := fun hh => hx (hh ▸ hc)
      simp [hc, hxc]
    · by_cases hxc : x = c
      · subst hxc; simp [hc]
      · have : ¬ c = x := fun hh => hxc hh.symm
        simp [hc, hxc, this]

end World

theorem Mask.toList_nodup (m : Mask) (n : Nat) : (m.toList n).Nodup :=
  List.Pairwise.filter _ List.nodup_range

theorem CIdx.createArchetypeW {w : World} (h : CIdx w) (mask : Mask) :
    CIdx (World.createArchetypeW w mask) := by
  have harchs : (World.createArchetypeW w mask).archetypes = w.archetypes ++ [newArch w mask] :=
    createArchetypeW_proj (·.archetypes) (fun _ _ _ => rfl) (fun _ _ => rfl) w mask
  have hk : (World.createArchetypeW w mask).kinds = w.kinds :=
    createArchetypeW_proj (·.kinds) (fun _ _ _ => rfl) (fun _ _ => rfl) w mask
  have hci := createArchetypeW_ci w mask
  have hnd := Mask.toList_nodup mask w.kinds.length
  have hget : ∀ c : Nat, (World.createArchetypeW w mask).componentIndex.getD c [] =
      if c < w.kinds.length ∧ mask.get c = true then
        w.componentIndex.getD c [] ++ [w.archetypes.length] else w.componentIndex.getD c [] := by
    intro c
    rw [hci, foldl_ciStep_getD _ _ _ c hnd]
    simp only [Mask.mem_toList, h.len]
    by_cases h1 : c < w.kinds.length ∧ mask.get c = true
    · rw [if_pos ⟨h1, h1.1⟩, if_pos h1]
    · rw [if_neg (fun hh => h1 hh.1), if_neg h1]
  have hold : ∀ c a : Nat, a ∈ w.componentIndex.getD c [] → a < w.archetypes.length := by
    intro c a ha
    rcases Nat.lt_or_ge c w.kinds.length with hc | hc
    · exact ((h.mem c a hc).mp ha).1
    · have : w.componentIndex.getD c [] = [] := by
        simp only [List.getD_eq_getElem?_getD]
        rw [List.getElem?_eq_none (by rw [h.len]; exact hc)]; rfl
      rw [this] at ha; cases ha
  have harch_old : ∀ a : Nat, a < w.archetypes.length → (World.createArchetypeW w mask).arch a = w.arch a := by
    intro a ha
    simp only [arch, harchs, List.getD_eq_getElem?_getD, List.getElem?_append_left ha]
  have harch_new : ((World.createArchetypeW w mask).arch w.archetypes.length).mask = mask := by
    have : (World.createArchetypeW w mask).arch w.archetypes.length = newArch w mask := by
      apply arch_of_get; rw [harchs]; exact List.getElem?_concat_length
    rw [this]; rfl
  have halen : (World.createArchetypeW w mask).archetypes.length = w.archetypes.length + 1 := by
    rw [harchs]; simp
  refine ⟨?_, ?_, ?_⟩
  · rw [hci, foldl_ciStep_length, hk]; exact h.len
  · intro c
    rw [hget]
    split
    · rw [List.nodup_append]
      refine ⟨h.nodup c, by simp, ?_⟩
      intro a ha b hb hab
      simp only [List.mem_singleton] at hb
      have := hold c a ha
      omega
    · exact h.nodup c
  · intro c a hc
    rw [hk] at hc
    rw [hget, halen]
    by_cases hm : mask.get c = true
    · rw [if_pos ⟨hc, hm⟩, List.mem_append, List.mem_singleton, h.mem c a hc]
      constructor
      · rintro (⟨h1, h2⟩ | rfl)
        · exact ⟨by omega, by rw [harch_old a h1]; exact h2⟩
        · exact ⟨by omega, by rw [harch_new]; exact hm⟩
      · rintro ⟨h1, h2⟩
        rcases Nat.lt_or_ge a w.archetypes.length with hlt | hge
        · left; exact ⟨hlt, by rw [← harch_old a hlt]; exact h2⟩
        · right; omega
    · rw [if_neg (fun hh => hm hh.2), h.mem c a hc]
      constructor
      · rintro ⟨h1, h2⟩
        exact ⟨by omega, by rw [harch_old a h1]; exact h2⟩
      · rintro ⟨h1, h2⟩
        rcases Nat.lt_or_ge a w.archetypes.length with hlt | hge
        · exact ⟨hlt, by rw [← harch_old a hlt]; exact h2⟩
        · have : a = w.archetypes.length := by omega
          subst this
          rw [harch_new] at h2
          exact absurd h2 hm

theorem CIdx.findOrCreateArch {w w' : World} (h : CIdx w) {mask : Mask} {a : Nat}
    (ha : World.findOrCreateArch mask w = .ok a w') : CIdx w' := by
  unfold World.findOrCreateArch at ha
  split at ha
  · injection ha with _ h2; subst h2; exact h
  · rw [createArchetype_eq] at ha
    injection ha with _ h2; subst h2; exact h.createArchetypeW mask

/-! ## 4. frames: table creation and the row-moving transformers -/

namespace World

theorem setArch_ciFrame (w : World) (a : Nat) (A : Archetype) (hA : A.mask = (w.arch a).mask) :
    CIFrame w (w.setArch a A) := by
  refine ⟨rfl, rfl, by simp [setArch], ?_⟩
  intro b
  simp only [arch, setArch, List.getD_eq_getElem?_getD, List.getElem?_set]
  by_cases hab : a = b
  · subst hab
    rcases Nat.lt_or_ge a w.archetypes.length with hlt | hge
    · simp only [if_true, hlt, Option.getD_some]
      rw [hA]; simp only [arch, List.getD_eq_getElem?_getD]
    · simp [Nat.not_lt.mpr hge]
  · simp [hab]

theorem modArch_ciFrame (w : World) (a : Nat) (f : Archetype → Archetype)
    (hf : ∀ A : Archetype, (f A).mask = A.mask) : CIFrame w (w.modArch a f) :=
  setArch_ciFrame w a _ (hf _)

theorem setTbl_ciFrame (w : World) (t : Nat) (T : Table) : CIFrame w (w.setTbl t T) :=
  ⟨rfl, rfl, rfl, fun _ => rfl⟩

theorem modTbl_ciFrame (w : World) (t : Nat) (f : Table → Table) : CIFrame w (w.modTbl t f) :=
  ⟨rfl, rfl, rfl, fun _ => rfl⟩

theorem getFreeTable_mask {A A' : Archetype} {t : Nat} (h : A.getFreeTable = some (A', t)) :
    A'.mask = A.mask := by
  unfold Archetype.getFreeTable at h
  split at h
  · cases h
  · injection h with h; injection h with h1 _; subst h1; rfl

theorem createTableS_ciFrame (w : World) (a : Nat) (rels : List RelID) :
    CIFrame w (createTableS w a rels).1 := by
  unfold createTableS
  split
  · rename_i A' t hf
    refine ((setArch_ciFrame w a A' (getFreeTable_mask hf)).trans (modTbl_ciFrame _ _ _)).trans
      (modArch_ciFrame _ _ _ (fun A => Archetype.addTable_mask A _ _))
  · exact CIFrame.trans (b := { w with tables := w.tables ++
        [Table.new w.tables.length a (w.arch a).comps (w.arch a).isRel (w.arch a).zst
          (if (w.arch a).hasRelations then w.initCapRel else w.initCap)
          (ctTargets (w.arch a) rels) rels] }) (CIFrame.of_archs rfl rfl rfl)
      (modArch_ciFrame _ a (fun A => A.addTable w.tables.length (ctTargets (w.arch a) rels))
        (fun A => Archetype.addTable_mask A _ _))

theorem cacheAddTable_ciFrame {w w' : World} {T : Table} (h : w.cacheAddTable T = some w') :
    CIFrame w w' := by
  unfold cacheAddTable at h
  simp only at h
  split at h
  · cases h
  · injection h with h; subst h; exact ⟨rfl, rfl, rfl, fun _ => rfl⟩

theorem createTable_ciFrame {a : Nat} {rels : List RelID} {w w' : World} {t : Nat}
    (h : createTable a rels w = .ok t w') : CIFrame w w' := by
  obtain ⟨_, _, _, _, h5⟩ := createTable_ok h
  exact (createTableS_ciFrame w a rels).trans (cacheAddTable_ciFrame h5)

theorem placedW_ciFrame (w : World) (t : Nat) (rt : Bool) : CIFrame w (placedW w t rt) := by
  apply CIFrame.of_archs
  · simp only [placedW]; split <;> rfl
  · exact (placedW_fields w t rt).1
  · exact (placedW_fields w t rt).2.1

theorem addMove_ciFrame (w : World) (e : Ent) (oldT row newT : Nat) (keep : Mask) :
    CIFrame w (addMove w e oldT row newT keep) := by
  apply CIFrame.of_archs
  · simp only [addMove, moveRowW]; split <;> rfl
  · exact (addMove_fields w e oldT row newT keep).2.1
  · exact (addMove_fields w e oldT row newT keep).2.2.1

theorem removeRowOf_ciFrame (w : World) (e : Ent) (t row : Nat) :
    CIFrame w (removeRowOf w e t row) := by
  apply CIFrame.of_archs
  · simp only [removeRowOf]; split <;> rfl
  · exact (removeRowOf_fields w e t row).1
  · exact (removeRowOf_fields w e t row).2.1

theorem writeValsW_ciFrame (w : World) (e : Ent) (vals : List (Comp × Val)) :
    CIFrame w (writeValsW w e vals) := modTbl_ciFrame _ _ _

end World

theorem CIdx.createTable {w w' : World} (h : CIdx w) {a : Nat} {rels : List RelID} {t : Nat}
    (hct : World.createTable a rels w = .ok t w') : CIdx w' :=
  h.of_frame (createTable_ciFrame hct)

/-! ## 5. the table lookups -/

/-- all three lookups keep `CIdx` (by `lookup_induct`: `findOrCreateArch` and `createTable` do) -/
theorem CIdx.lookups :
    (∀ {oldT : Nat} {startMask : Mask} {add : List Comp} {rels : List RelID} {w w' : World}
        {r : Nat × Nat × Mask},
        World.findOrCreateTableAdd oldT startMask add rels w = .ok r w' → CIdx w → CIdx w') ∧
    (∀ {oldT : Nat} {startMask : Mask} {rem : List Comp} {w w' : World}
        {r : Nat × Nat × Mask × Bool},
        World.findOrCreateTableRemove oldT startMask rem w = .ok r w' → CIdx w → CIdx w') ∧
    (∀ {oldT : Nat} {startMask : Mask} {add rem : List Comp} {rels : List RelID} {w w' : World}
        {r : Nat × Nat × Mask × Bool},
        World.findOrCreateTable oldT startMask add rem rels w = .ok r w' → CIdx w → CIdx w') :=
  lookup_induct (fun w w' => CIdx w → CIdx w') (fun h1 h2 h => h2 (h1 h))
    (fun ha h => h.findOrCreateArch ha) (fun hct h => h.createTable hct)

theorem CIdx.findOrCreateTableAdd {w w' : World} (h : CIdx w) {oldT : Nat} {startMask : Mask}
    {add : List Comp} {rels : List RelID} {r : Nat × Nat × Mask}
    (hok : World.findOrCreateTableAdd oldT startMask add rels w = .ok r w') : CIdx w' :=
  CIdx.lookups.1 hok h

theorem CIdx.findOrCreateTableRemove {w w' : World} (h : CIdx w) {oldT : Nat} {startMask : Mask}
    {rem : List Comp} {r : Nat × Nat × Mask × Bool}
    (hok : World.findOrCreateTableRemove oldT startMask rem w = .ok r w') : CIdx w' :=
  CIdx.lookups.2.1 hok h

/-- the lookup of `exchange` (not used by the operations of the history machine) -/
theorem CIdx.findOrCreateTable {w w' : World} (h : CIdx w) {oldT : Nat} {startMask : Mask}
    {add rem : List Comp} {rels : List RelID} {r : Nat × Nat × Mask × Bool}
    (hok : World.findOrCreateTable oldT startMask add rem rels w = .ok r w') : CIdx w' :=
  CIdx.lookups.2.2 hok h

/-! ## 6. the rare component -/

namespace World

theorem rareComponent_go_mem (w : World) : ∀ (ids : List Comp) (best : Comp) (bc : Option Nat),
    rareComponent.go w best bc ids = best ∨ rareComponent.go w best bc ids ∈ ids := by
  intro ids
  induction ids with
  | nil => intro best bc; left; rfl
  | cons c rest ih =>
    intro best bc
    unfold rareComponent.go
    cases bc with
    | none =>
      simp only
      rcases ih c (some (w.archCount.getD c 0)) with h | h
      · right; rw [h]; exact List.mem_cons_self
      · right; exact List.mem_cons_of_mem _ h
    | some m =>
      simp only
      split
      · rcases ih c (some (w.archCount.getD c 0)) with h | h
        · right; rw [h]; exact List.mem_cons_self
        · right; exact List.mem_cons_of_mem _ h
      · rcases ih best (some m) with h | h
        · left; exact h
        · right; exact List.mem_cons_of_mem _ h

/-- `registry.rareComponent(ids)` is one of the `ids` -/
theorem rareComponent_mem (w : World) {ids : List Comp} (hne : ids ≠ []) :
    w.rareComponent ids ∈ ids := by
  cases ids with
  | nil => exact absurd rfl hne
  | cons c rest =>
    show rareComponent.go w 0 none (c :: rest) ∈ c :: rest
    unfold rareComponent.go
    simp only
    rcases rareComponent_go_mem w rest c (some (w.archCount.getD c 0)) with h | h
    · rw [h]; exact List.mem_cons_self
    · exact List.mem_cons_of_mem _ h

end World

/-! ## 7. Layer A.2: the typed walk -/

namespace QueryExact

/-- the filter requires each of the type parameters of the filter object (true of every `FilterN`
    by construction: `ids` are the type parameters and `mask` is built from them) -/
def FilterOK (fo : FilterObj) : Prop := ∀ c ∈ fo.ids, fo.filter.mask.get c = true

/-- the archetype list of a component the filter requires is good for the walk.  (For an
    unregistered component the list is empty, and so is the set of matching archetypes: every
    mask bit is a registered component, `SInvMid.maskReg`.) -/
theorem ArchsOK.rare {w : World} (hx : CIdx w)
    (hreg : ∀ (a : Nat) (A : Archetype), w.archetypes[a]? = some A →
      ∀ (c : Nat), A.mask.get c = true → c < w.kinds.length)
    (f : Filter) {c : Comp} (hreq : f.mask.get c = true) : ArchsOK w f (w.archList (some c)) where
  nodup := hx.nodup c
  lt := by
    intro a ha
    rcases Nat.lt_or_ge c w.kinds.length with hc | hc
    · exact ((hx.mem c a hc).mp ha).1
    · have : w.archList (some c) = [] := by
        show w.componentIndex.getD c [] = []
        simp only [List.getD_eq_getElem?_getD]
        rw [List.getElem?_eq_none (by rw [hx.len]; exact hc)]; rfl
      rw [this] at ha; cases ha
  complete := by
    intro a ha hm
    have hg := ((Filter.matchesMask_iff f _).mp hm).1 c hreq
    have hc := hreg a _ (aget_of_lt ha) c hg
    exact (hx.mem c a hc).mpr ⟨ha, hg⟩

/-- the archetype list `Query()` walks for a filter object satisfying `FilterOK` -/
theorem ArchsOK.of_filterOK {w : World} (hx : CIdx w)
    (hreg : ∀ (a : Nat) (A : Archetype), w.archetypes[a]? = some A →
      ∀ (c : Nat), A.mask.get c = true → c < w.kinds.length)
    (fo : FilterObj) (hok : FilterOK fo) :
    ArchsOK w fo.filter (w.archList (rareOf fo w)) := by
  unfold rareOf
  split
  · rename_i ht
    have hne : fo.ids ≠ [] := by
      intro hh; rw [hh] at ht; simp at ht
    exact ArchsOK.rare hx hreg fo.filter (hok _ (rareComponent_mem w hne))
  · exact ArchsOK.all w fo.filter

/-- **Layer A, all unregistered filter objects**: under `CInv` and `CIdx`, for a filter object
    whose mask requires its type parameters, `drain` visits exactly the matching alive entities,
    each once. -/
theorem drain_exact {w : World} {fl : List Nat} (h : CInv w fl) (hx : CIdx w) (fo : FilterObj)
    (hc : fo.cache = none) (hok : FilterOK fo) {l1 l2 : Lock} {b : Nat}
    (hL : LockCycle w.locks l1 b l2) :
    ∃ q visits, QueryExactOn w fl fo (w.withLocks l1) q visits (w.withLocks l2) :=
  drain_exact_of_archs h fo hc hL (ArchsOK.of_filterOK hx h.sinv.maskReg fo hok)

/-- **Layer A.2 — the typed walk with a rare component** (`fo.typed = true`, `fo.ids ≠ []`): the
    query walks `componentIndex[rare]`.  (That the type parameters are registered is not needed:
    see `ArchsOK.rare`.) -/
theorem drain_exact_typed {w : World} {fl : List Nat} (h : CInv w fl) (hx : CIdx w)
    (fo : FilterObj) (hc : fo.cache = none) (_ht : fo.typed = true) (_hne : fo.ids ≠ [])
    (hreq : ∀ c ∈ fo.ids, fo.filter.mask.get c = true)
    {l1 l2 : Lock} {b : Nat} (hL : LockCycle w.locks l1 b l2) :
    ∃ q visits, QueryExactOn w fl fo (w.withLocks l1) q visits (w.withLocks l2) :=
  drain_exact h hx fo hc hreq hL

end QueryExact
end Ark
