/-
  Ark.Proofs.SInv — the STRUCTURAL invariant tying archetypes and tables together (design
  invariants I4, I9, I10), its preservation by component registration, archetype creation and
  table creation / recycling, and the specification of `findOrCreateTableAdd`.
  Kernel-only proofs, core Lean only.

  Two layers:
  * `SInvMid w` — everything that holds at EVERY point of `storage.go`, including the moment
    between `createArchetype` and `createTable` inside `findOrCreateTable*`, when the new
    archetype has no table yet (`nonRelLe`: a non-relation archetype has AT MOST one table);
  * `SInv w` = `SInvMid w` + `settled`: every non-relation archetype has EXACTLY one table
    (what `getCacheTables`, `resetArchetype` rely on when they read `tables[0]` unguarded).
  `createArchetype` takes `SInv` to `SInvMid` (+ every other archetype settled), `createTable`
  on the unsettled archetype restores `SInv`.
-/
import Ark.Model.World
import Ark.Proofs.TableIDs
import Ark.Proofs.ArchIndex
import Ark.Proofs.Table
import Ark.Proofs.MaskLemmas
import Ark.Proofs.IdxInv

namespace Ark

open World

/-! ## the invariant -/

/-- The structural invariant that holds at every point of `storage.go`. -/
structure SInvMid (w : World) : Prop where
  /-- an archetype's `id` is its position -/
  archId : ∀ (a : Nat) (A : Archetype), w.archetypes[a]? = some A → A.id = a
  /-- no two archetypes have the same mask -/
  maskUniq : ∀ (a b : Nat) (A B : Archetype), w.archetypes[a]? = some A →
    w.archetypes[b]? = some B → A.mask = B.mask → a = b
  /-- every bit of an archetype's mask is a registered component (this is what makes `comps`
      stable under `registerComponent`) -/
  maskReg : ∀ (a : Nat) (A : Archetype), w.archetypes[a]? = some A →
    ∀ (c : Nat), A.mask.get c = true → c < w.kinds.length
  /-- the column list is the ascending list of mask bits; metadata lists have its length -/
  comps : ∀ (a : Nat) (A : Archetype), w.archetypes[a]? = some A →
    A.comps = A.mask.toList w.kinds.length ∧ A.isRel.length = A.comps.length ∧
      A.zst.length = A.comps.length
  /-- per-column metadata agrees with the registry -/
  kindsOf : ∀ (a : Nat) (A : Archetype) (i : Nat) (c : Comp), w.archetypes[a]? = some A →
    A.comps[i]? = some c →
      A.isRel.getD i false = (w.kinds.getD c {}).isRel ∧ A.zst.getD i false = (w.kinds.getD c {}).zst
  /-- a table belongs to an existing archetype and copies its layout; its `id` is its position -/
  tblArch : ∀ (t : Nat) (T : Table), w.tables[t]? = some T →
    ∃ (A : Archetype), w.archetypes[T.arch]? = some A ∧ T.ids = A.comps ∧ T.isRel = A.isRel ∧
      T.zst = A.zst ∧ T.id = t
  /-- every relation a table lists names one of its relation columns -/
  relCols : ∀ (t : Nat) (T : Table), w.tables[t]? = some T → ∀ (r : RelID), r ∈ T.relIDs →
    ∃ (i : Nat), T.ids[i]? = some r.comp ∧ T.isRel.getD i false = true
  /-- `isFree` is exactly membership in the owner's free list; otherwise the table is active -/
  member : ∀ (t : Nat) (T : Table), w.tables[t]? = some T →
    (T.isFree = false ↔ t ∈ (w.arch T.arch).tables.tables) ∧
    (T.isFree = true ↔ t ∈ (w.arch T.arch).freeTables)
  /-- tables listed by an archetype exist and point back at it -/
  owned : ∀ (a : Nat) (A : Archetype) (t : Nat), w.archetypes[a]? = some A →
    (t ∈ A.tables.tables ∨ t ∈ A.freeTables) → ∃ (T : Table), w.tables[t]? = some T ∧ T.arch = a
  /-- the archetype-local structure (table list well-formed, free list duplicate-free and
      disjoint from it, metadata lengths, `numRel`) -/
  astruct : ∀ (a : Nat) (A : Archetype), w.archetypes[a]? = some A → A.Struct
  /-- a non-relation archetype has at most one table and never a free one -/
  nonRelLe : ∀ (a : Nat) (A : Archetype), w.archetypes[a]? = some A → A.hasRelations = false →
    A.tables.tables.length ≤ 1 ∧ A.freeTables = []
  /-- table 0 is the table of archetype 0, the archetype of the empty mask -/
  root : 0 < w.tables.length ∧ (w.tbl 0).arch = 0 ∧ (w.arch 0).mask = Mask.empty

/-- archetype `a` (if it exists and has no relation column) has its one table -/
def SettledAt (w : World) (a : Nat) : Prop :=
  ∀ (A : Archetype), w.archetypes[a]? = some A → A.hasRelations = false →
    A.tables.tables.length = 1

/-- The structural invariant of a world between two storage operations. -/
structure SInv (w : World) : Prop extends SInvMid w where
  settled : ∀ (a : Nat), SettledAt w a

namespace World

/-! ### accessor lemmas for archetypes -/

theorem arch_of_get {w : World} {a : Nat} {A : Archetype} (h : w.archetypes[a]? = some A) :
    w.arch a = A := by
  simp [arch, List.getD_eq_getElem?_getD, h]

theorem aget_of_lt {w : World} {a : Nat} (h : a < w.archetypes.length) :
    w.archetypes[a]? = some (w.arch a) := by
  simp [arch, List.getD_eq_getElem?_getD, List.getElem?_eq_getElem h]

theorem alt_of_get {w : World} {a : Nat} {A : Archetype} (h : w.archetypes[a]? = some A) :
    a < w.archetypes.length := by
  rcases Nat.lt_or_ge a w.archetypes.length with h1 | h1
  · exact h1
  · rw [List.getElem?_eq_none h1] at h; cases h

end World

namespace SInvMid

/-- the invariant mentions only archetypes, tables and the registry -/
theorem congr {w w' : World} (h : SInvMid w) (ha : w'.archetypes = w.archetypes)
    (ht : w'.tables = w.tables) (hk : w'.kinds = w.kinds) : SInvMid w' := by
  have harch : ∀ a, w'.arch a = w.arch a := fun a => by simp only [arch, ha]
  have htbl : ∀ t, w'.tbl t = w.tbl t := fun t => by simp only [tbl, ht]
  refine ⟨?_, ?_, ?_, ?_, ?_, ?_, ?_, ?_, ?_, ?_, ?_, ?_⟩
  · rw [ha]; exact h.archId
  · rw [ha]; exact h.maskUniq
  · rw [ha, hk]; exact h.maskReg
  · rw [ha, hk]; exact h.comps
  · rw [ha, hk]; exact h.kindsOf
  · rw [ha, ht]; exact h.tblArch
  · rw [ht]; exact h.relCols
  · rw [ht]; intro t T hT; rw [harch]; exact h.member t T hT
  · rw [ha, ht]; exact h.owned
  · rw [ha]; exact h.astruct
  · rw [ha]; exact h.nonRelLe
  · rw [ht, htbl, harch]; exact h.root

end SInvMid

theorem SettledAt.congr {w w' : World} {a : Nat} (h : SettledAt w a)
    (ha : w'.archetypes = w.archetypes) : SettledAt w' a := by
  unfold SettledAt; rw [ha]; exact h

theorem SInv.congr {w w' : World} (h : SInv w) (ha : w'.archetypes = w.archetypes)
    (ht : w'.tables = w.tables) (hk : w'.kinds = w.kinds) : SInv w' :=
  { h.toSInvMid.congr ha ht hk with settled := fun a => (h.settled a).congr ha }

/-- the `nonRel` field in the form of the design: exactly one table, no free table -/
theorem SInv.nonRel {w : World} (h : SInv w) (a : Nat) (A : Archetype)
    (hA : w.archetypes[a]? = some A) (hr : A.hasRelations = false) :
    A.tables.tables.length = 1 ∧ A.freeTables = [] :=
  ⟨h.settled a A hA hr, (h.nonRelLe a A hA hr).2⟩

theorem getElem?_singleton_some {α : Type} {x y : α} {i : Nat} (h : [x][i]? = some y) :
    i = 0 ∧ y = x := by
  cases i with
  | zero => simp at h; exact ⟨rfl, h.symm⟩
  | succ n => simp at h

theorem sinvMid_init (cap rel maxComps : Nat) : SInvMid (World.init cap rel maxComps) := by
  have hA : (World.init cap rel maxComps).archetypes = [Archetype.new 0 Mask.empty [] [] [] [0]] := rfl
  have hT : (World.init cap rel maxComps).tables = [Table.new 0 0 [] [] [] cap [] []] := rfl
  have hK : (World.init cap rel maxComps).kinds = [] := rfl
  have harch0 : (World.init cap rel maxComps).arch 0 = Archetype.new 0 Mask.empty [] [] [] [0] := rfl
  refine ⟨?_, ?_, ?_, ?_, ?_, ?_, ?_, ?_, ?_, ?_, ?_, ?_⟩
  · intro a A h; rw [hA] at h
    obtain ⟨rfl, rfl⟩ := getElem?_singleton_some h; rfl
  · intro a b A B h1 h2 _; rw [hA] at h1 h2
    obtain ⟨rfl, _⟩ := getElem?_singleton_some h1
    obtain ⟨rfl, _⟩ := getElem?_singleton_some h2; rfl
  · intro a A h c hc; rw [hA] at h
    obtain ⟨rfl, rfl⟩ := getElem?_singleton_some h
    simp [Archetype.new] at hc
  · intro a A h; rw [hA] at h
    obtain ⟨rfl, rfl⟩ := getElem?_singleton_some h
    rw [hK]; exact ⟨rfl, rfl, rfl⟩
  · intro a A i c h hc; rw [hA] at h
    obtain ⟨rfl, rfl⟩ := getElem?_singleton_some h
    simp [Archetype.new] at hc
  · intro t T h; rw [hT] at h
    obtain ⟨rfl, rfl⟩ := getElem?_singleton_some h
    exact ⟨_, by rw [hA]; rfl, rfl, rfl, rfl, rfl⟩
  · intro t T h r hr; rw [hT] at h
    obtain ⟨rfl, rfl⟩ := getElem?_singleton_some h
    simp [Table.new] at hr
  · intro t T h; rw [hT] at h
    obtain ⟨rfl, rfl⟩ := getElem?_singleton_some h
    show (false = false ↔ 0 ∈ ((World.init cap rel maxComps).arch 0).tables.tables) ∧
      (false = true ↔ 0 ∈ ((World.init cap rel maxComps).arch 0).freeTables)
    rw [harch0]
    simp [Archetype.new, TableIDs.ofList]
  · intro a A t h ht; rw [hA] at h
    obtain ⟨rfl, rfl⟩ := getElem?_singleton_some h
    simp [Archetype.new, TableIDs.ofList] at ht
    subst ht
    exact ⟨_, by rw [hT]; rfl, rfl⟩
  · intro a A h; rw [hA] at h
    obtain ⟨rfl, rfl⟩ := getElem?_singleton_some h
    exact ⟨TableIDs.wf_ofList [0] (by simp), List.nodup_nil, by intro t _ h; simp [Archetype.new] at h,
      rfl, rfl, rfl⟩
  · intro a A h _; rw [hA] at h
    obtain ⟨rfl, rfl⟩ := getElem?_singleton_some h
    simp [Archetype.new, TableIDs.ofList]
  · exact ⟨by rw [hT]; simp, rfl, rfl⟩

theorem sinv_init (cap rel : Nat) (maxComps : Nat := 256) : SInv (World.init cap rel maxComps) :=
  { sinvMid_init cap rel maxComps with
    settled := by
      intro a A h _
      have hA : (World.init cap rel maxComps).archetypes = [Archetype.new 0 Mask.empty [] [] [] [0]] := rfl
      rw [hA] at h
      obtain ⟨rfl, rfl⟩ := getElem?_singleton_some h
      simp [Archetype.new, TableIDs.ofList] }

theorem Mask.toList_succ_of_not (m : Mask) (n : Nat) (h : m.get n = false) :
    m.toList (n + 1) = m.toList n := by
  simp [Mask.toList, List.range_succ, List.filter_append, h]

theorem getD_append_left' {α : Type} (l : List α) (x d : α) (i : Nat) (h : i < l.length) :
    (l ++ [x]).getD i d = l.getD i d := by
  simp [List.getD_eq_getElem?_getD, List.getElem?_append_left h]

namespace SInvMid

/-- registering one more component type keeps the invariant -/
theorem kinds_append {w w' : World} (h : SInvMid w) (k : CompKind)
    (ha : w'.archetypes = w.archetypes) (ht : w'.tables = w.tables)
    (hk : w'.kinds = w.kinds ++ [k]) : SInvMid w' := by
  have harch : ∀ a, w'.arch a = w.arch a := fun a => by simp only [arch, ha]
  have htbl : ∀ t, w'.tbl t = w.tbl t := fun t => by simp only [tbl, ht]
  refine ⟨?_, ?_, ?_, ?_, ?_, ?_, ?_, ?_, ?_, ?_, ?_, ?_⟩
  · rw [ha]; exact h.archId
  · rw [ha]; exact h.maskUniq
  · rw [ha, hk]; intro a A hA c hc
    have := h.maskReg a A hA c hc
    simp only [List.length_append, List.length_singleton]; omega
  · rw [ha, hk]; intro a A hA
    obtain ⟨h1, h2, h3⟩ := h.comps a A hA
    refine ⟨?_, h2, h3⟩
    simp only [List.length_append, List.length_singleton]
    rw [Mask.toList_succ_of_not _ _ ?_]; exact h1
    cases hg : A.mask.get w.kinds.length with
    | false => rfl
    | true => exact absurd (h.maskReg a A hA _ hg) (Nat.lt_irrefl _)
  · rw [ha, hk]; intro a A i c hA hc
    have hmem : c ∈ A.comps := List.mem_of_getElem? hc
    rw [(h.comps a A hA).1, Mask.mem_toList] at hmem
    rw [getD_append_left' _ _ _ _ hmem.1]
    exact h.kindsOf a A i c hA hc
  · rw [ha, ht]; exact h.tblArch
  · rw [ht]; exact h.relCols
  · rw [ht]; intro t T hT; rw [harch]; exact h.member t T hT
  · rw [ha, ht]; exact h.owned
  · rw [ha]; exact h.astruct
  · rw [ha]; exact h.nonRelLe
  · rw [ht, htbl, harch]; exact h.root

end SInvMid

namespace World

theorem registerComponent_ok {k : CompKind} {w w' : World} {n : Nat}
    (h : registerComponent k w = .ok n w') :
    n = w.kinds.length ∧ w'.kinds = w.kinds ++ [k] ∧ w'.archetypes = w.archetypes ∧
      w'.tables = w.tables ∧ w'.entities = w.entities ∧ w'.pool = w.pool ∧ w'.cache = w.cache := by
  unfold registerComponent at h
  simp only at h
  split at h
  · cases h
  · split at h
    · cases h
    · injection h with h1 h2
      subst h2
      exact ⟨h1.symm, rfl, rfl, rfl, rfl, rfl, rfl⟩

/-- the two ways `registerComponent` fails leave the state unchanged -/
theorem registerComponent_panic {k : CompKind} {w w' : World} {p : PanicKind}
    (h : registerComponent k w = .panic p w') : w' = w := by
  unfold registerComponent at h
  simp only at h
  split at h
  · injection h with _ h2; exact h2.symm
  · split at h
    · injection h with _ h2; exact h2.symm
    · cases h

end World

/-- **2a** `registerComponent` (on success) keeps the structural invariant. -/
theorem SInv.registerComponent {w w' : World} (h : SInv w) {k : CompKind} {n : Nat}
    (hr : World.registerComponent k w = .ok n w') : SInv w' := by
  obtain ⟨_, hk, ha, ht, _⟩ := registerComponent_ok hr
  exact { h.toSInvMid.kinds_append k ha ht hk with settled := fun a => (h.settled a).congr ha }

theorem IdxInv.registerComponent {w w' : World} (h : IdxInv w) {k : CompKind} {n : Nat}
    (hr : World.registerComponent k w = .ok n w') : IdxInv w' := by
  obtain ⟨_, _, _, ht, he, _⟩ := registerComponent_ok hr
  exact h.congr he ht

end Ark
