/-
  Ark.Proofs.SInv — the STRUCTURAL invariant tying archetypes and tables together (design
  invariants I4, I9, I10), its preservation by component registration, archetype creation and
  table creation / recycling, and the specification of `findOrCreateTableAdd`.
  Kernel-only proofs, core Lean only.

  Two layers:
  * `SInvMid w` — everything that holds at EVERY point of `storage.go`, including the moment
    between `createArchetype` and `createTable` inside `findOrCreateTable*`, when the new
    archetype has no table yet (`nonRelLe`: a non-relation archetype has AT MOST one table);
  * `SInv w` = `SInvMid w` + `settled`: every non-relation archetype has EXACTLY one table
    (what `getCacheTables`, `resetArchetype` rely on when they read `tables[0]` unguarded).
  `createArchetype` takes `SInv` to `SInvMid` (+ every other archetype settled), `createTable`
  on the unsettled archetype restores `SInv`.
-/
import Ark.Model.World
import Ark.Proofs.TableIDs
import Ark.Proofs.ArchIndex
import Ark.Proofs.Table
import Ark.Proofs.MaskLemmas
import Ark.Proofs.IdxInv

namespace Ark

open World

/-! ## the invariant -/

/-- The structural invariant that holds at every point of `storage.go`. -/
structure SInvMid (w : World) : Prop where
  /-- an archetype's `id` is its position -/
  archId : ∀ (a : Nat) (A : Archetype), w.archetypes[a]? = some A → A.id = a
  /-- no two archetypes have the same mask -/
  maskUniq : ∀ (a b : Nat) (A B : Archetype), w.archetypes[a]? = some A →
    w.archetypes[b]? = some B → A.mask = B.mask → a = b
  /-- every bit of an archetype's mask is a registered component (this is what makes `comps`
      stable under `registerComponent`) -/
  maskReg : ∀ (a : Nat) (A : Archetype), w.archetypes[a]? = some A →
    ∀ (c : Nat), A.mask.get c = true → c < w.kinds.length
  /-- the column list is the ascending list of mask bits; metadata lists have its length -/
  comps : ∀ (a : Nat) (A : Archetype), w.archetypes[a]? = some A →
    A.comps = A.mask.toList w.kinds.length ∧ A.isRel.length = A.comps.length ∧
      A.zst.length = A.comps.length
  /-- per-column metadata agrees with the registry -/
  kindsOf : ∀ (a : Nat) (A : Archetype) (i : Nat) (c : Comp), w.archetypes[a]? = some A →
    A.comps[i]? = some c →
      A.isRel.getD i false = (w.kinds.getD c {}).isRel ∧ A.zst.getD i false = (w.kinds.getD c {}).zst
  /-- a table belongs to an existing archetype and copies its layout; its `id` is its position -/
  tblArch : ∀ (t : Nat) (T : Table), w.tables[t]? = some T →
    ∃ (A : Archetype), w.archetypes[T.arch]? = some A ∧ T.ids = A.comps ∧ T.isRel = A.isRel ∧
      T.zst = A.zst ∧ T.id = t
  /-- every relation a table lists names one of its relation columns -/
  relCols : ∀ (t : Nat) (T : Table), w.tables[t]? = some T → ∀ (r : RelID), r ∈ T.relIDs →
    ∃ (i : Nat), T.ids[i]? = some r.comp ∧ T.isRel.getD i false = true
  /-- `isFree` is exactly membership in the owner's free list; otherwise the table is active -/
  member : ∀ (t : Nat) (T : Table), w.tables[t]? = some T →
    (T.isFree = false ↔ t ∈ (w.arch T.arch).tables.tables) ∧
    (T.isFree = true ↔ t ∈ (w.arch T.arch).freeTables)
  /-- tables listed by an archetype exist and point back at it -/
  owned : ∀ (a : Nat) (A : Archetype) (t : Nat), w.archetypes[a]? = some A →
    (t ∈ A.tables.tables ∨ t ∈ A.freeTables) → ∃ (T : Table), w.tables[t]? = some T ∧ T.arch = a
  /-- the archetype-local structure (table list well-formed, free list duplicate-free and
      disjoint from it, metadata lengths, `numRel`) -/
  astruct : ∀ (a : Nat) (A : Archetype), w.archetypes[a]? = some A → A.Struct
  /-- a non-relation archetype has at most one table and never a free one -/
  nonRelLe : ∀ (a : Nat) (A : Archetype), w.archetypes[a]? = some A → A.hasRelations = false →
    A.tables.tables.length ≤ 1 ∧ A.freeTables = []
  /-- table 0 is the table of archetype 0, the archetype of the empty mask -/
  root : 0 < w.tables.length ∧ (w.tbl 0).arch = 0 ∧ (w.arch 0).mask = Mask.empty

/-- archetype `a` (if it exists and has no relation column) has its one table -/
def SettledAt (w : World) (a : Nat) : Prop :=
  ∀ (A : Archetype), w.archetypes[a]? = some A → A.hasRelations = false →
    A.tables.tables.length = 1

/-- The structural invariant of a world between two storage operations. -/
structure SInv (w : World) : Prop extends SInvMid w where
  settled : ∀ (a : Nat), SettledAt w a

namespace World

/-! ### accessor lemmas for archetypes -/

theorem arch_of_get {w : World} {a : Nat} {A : Archetype} (h : w.archetypes[a]? = some A) :
    w.arch a = A := by
  simp [arch, List.getD_eq_getElem?_getD, h]

theorem aget_of_lt {w : World} {a : Nat} (h : a < w.archetypes.length) :
    w.archetypes[a]? = some (w.arch a) := by
  simp [arch, List.getD_eq_getElem?_getD, List.getElem?_eq_getElem h]

theorem alt_of_get {w : World} {a : Nat} {A : Archetype} (h : w.archetypes[a]? = some A) :
    a < w.archetypes.length := by
  rcases Nat.lt_or_ge a w.archetypes.length with h1 | h1
  · exact h1
  · rw [List.getElem?_eq_none h1] at h; cases h

end World

namespace SInvMid

/-- the invariant mentions only archetypes, tables and the registry -/
theorem congr {w w' : World} (h : SInvMid w) (ha : w'.archetypes = w.archetypes)
    (ht : w'.tables = w.tables) (hk : w'.kinds = w.kinds) : SInvMid w' := by
  have harch : ∀ a, w'.arch a = w.arch a := fun a => by simp only [arch, ha]
  have htbl : ∀ t, w'.tbl t = w.tbl t := fun t => by simp only [tbl, ht]
  refine ⟨?_, ?_, ?_, ?_, ?_, ?_, ?_, ?_, ?_, ?_, ?_, ?_⟩
  · rw [ha]; exact h.archId
  · rw [ha]; exact h.maskUniq
  · rw [ha, hk]; exact h.maskReg
  · rw [ha, hk]; exact h.comps
  · rw [ha, hk]; exact h.kindsOf
  · rw [ha, ht]; exact h.tblArch
  · rw [ht]; exact h.relCols
  · rw [ht]; intro t T hT; rw [harch]; exact h.member t T hT
  · rw [ha, ht]; exact h.owned
  · rw [ha]; exact h.astruct
  · rw [ha]; exact h.nonRelLe
  · rw [ht, htbl, harch]; exact h.root

end SInvMid

theorem SettledAt.congr {w w' : World} {a : Nat} (h : SettledAt w a)
    (ha : w'.archetypes = w.archetypes) : SettledAt w' a := by
  unfold SettledAt; rw [ha]; exact h

theorem SInv.congr {w w' : World} (h : SInv w) (ha : w'.archetypes = w.archetypes)
    (ht : w'.tables = w.tables) (hk : w'.kinds = w.kinds) : SInv w' :=
  { h.toSInvMid.congr ha ht hk with settled := fun a => (h.settled a).congr ha }

/-- the `nonRel` field in the form of the design: exactly one table, no free table -/
theorem SInv.nonRel {w : World} (h : SInv w) (a : Nat) (A : Archetype)
    (hA : w.archetypes[a]? = some A) (hr : A.hasRelations = false) :
    A.tables.tables.length = 1 ∧ A.freeTables = [] :=
  ⟨h.settled a A hA hr, (h.nonRelLe a A hA hr).2⟩

theorem getElem?_singleton_some {α : Type} {x y : α} {i : Nat} (h : [x][i]? = some y) :
    i = 0 ∧ y = x := by
  cases i with
  | zero => simp at h; exact ⟨rfl, h.symm⟩
  | succ n => simp at h

theorem sinvMid_init (cap rel maxComps : Nat) : SInvMid (World.init cap rel maxComps) := by
  have hA : (World.init cap rel maxComps).archetypes = [Archetype.new 0 Mask.empty [] [] [] [0]] := rfl
  have hT : (World.init cap rel maxComps).tables = [Table.new 0 0 [] [] [] cap [] []] := rfl
  have hK : (World.init cap rel maxComps).kinds = [] := rfl
  have harch0 : (World.init cap rel maxComps).arch 0 = Archetype.new 0 Mask.empty [] [] [] [0] := rfl
  refine ⟨?_, ?_, ?_, ?_, ?_, ?_, ?_, ?_, ?_, ?_, ?_, ?_⟩
  · intro a A h; rw [hA] at h
    obtain ⟨rfl, rfl⟩ := getElem?_singleton_some h; rfl
  · intro a b A B h1 h2 _; rw [hA] at h1 h2
    obtain ⟨rfl, _⟩ := getElem?_singleton_some h1
    obtain ⟨rfl, _⟩ := getElem?_singleton_some h2; rfl
  · intro a A h c hc; rw [hA] at h
    obtain ⟨rfl, rfl⟩ := getElem?_singleton_some h
    simp [Archetype.new] at hc
  · intro a A h; rw [hA] at h
    obtain ⟨rfl, rfl⟩ := getElem?_singleton_some h
    rw [hK]; exact ⟨rfl, rfl, rfl⟩
  · intro a A i c h hc; rw [hA] at h
    obtain ⟨rfl, rfl⟩ := getElem?_singleton_some h
    simp [Archetype.new] at hc
  · intro t T h; rw [hT] at h
    obtain ⟨rfl, rfl⟩ := getElem?_singleton_some h
    exact ⟨_, by rw [hA]; rfl, rfl, rfl, rfl, rfl⟩
  · intro t T h r hr; rw [hT] at h
    obtain ⟨rfl, rfl⟩ := getElem?_singleton_some h
    simp [Table.new] at hr
  · intro t T h; rw [hT] at h
    obtain ⟨rfl, rfl⟩ := getElem?_singleton_some h
    show (false = false ↔ 0 ∈ ((World.init cap rel maxComps).arch 0).tables.tables) ∧
      (false = true ↔ 0 ∈ ((World.init cap rel maxComps).arch 0).freeTables)
    rw [harch0]
    simp [Archetype.new, TableIDs.ofList]
  · intro a A t h ht; rw [hA] at h
    obtain ⟨rfl, rfl⟩ := getElem?_singleton_some h
    simp [Archetype.new, TableIDs.ofList] at ht
    subst ht
    exact ⟨_, by rw [hT]; rfl, rfl⟩
  · intro a A h; rw [hA] at h
    obtain ⟨rfl, rfl⟩ := getElem?_singleton_some h
    exact ⟨TableIDs.wf_ofList [0] (by simp), List.nodup_nil, by intro t _ h; simp [Archetype.new] at h,
      rfl, rfl, rfl⟩
  · intro a A h _; rw [hA] at h
    obtain ⟨rfl, rfl⟩ := getElem?_singleton_some h
    simp [Archetype.new, TableIDs.ofList]
  · exact ⟨by rw [hT]; simp, rfl, rfl⟩

theorem sinv_init (cap rel : Nat) (maxComps : Nat := 256) : SInv (World.init cap rel maxComps) :=
  { sinvMid_init cap rel maxComps with
    settled := by
      intro a A h _
      have hA : (World.init cap rel maxComps).archetypes = [Archetype.new 0 Mask.empty [] [] [] [0]] := rfl
      rw [hA] at h
      obtain ⟨rfl, rfl⟩ := getElem?_singleton_some h
      simp [Archetype.new, TableIDs.ofList] }

theorem Mask.toList_succ_of_not (m : Mask) (n : Nat) (h : m.get n = false) :
    m.toList (n + 1) = m.toList n := by
  simp [Mask.toList, List.range_succ, List.filter_append, h]

theorem getD_append_left' {α : Type} (l : List α) (x d : α) (i : Nat) (h : i < l.length) :
    (l ++ [x]).getD i d = l.getD i d := by
  simp [List.getD_eq_getElem?_getD, List.getElem?_append_left h]

namespace SInvMid

/-- registering one more component type keeps the invariant -/
theorem kinds_append {w w' : World} (h : SInvMid w) (k : CompKind)
    (ha : w'.archetypes = w.archetypes) (ht : w'.tables = w.tables)
    (hk : w'.kinds = w.kinds ++ [k]) : SInvMid w' := by
  have harch : ∀ a, w'.arch a = w.arch a := fun a => by simp only [arch, ha]
  have htbl : ∀ t, w'.tbl t = w.tbl t := fun t => by simp only [tbl, ht]
  refine ⟨?_, ?_, ?_, ?_, ?_, ?_, ?_, ?_, ?_, ?_, ?_, ?_⟩
  · rw [ha]; exact h.archId
  · rw [ha]; exact h.maskUniq
  · rw [ha, hk]; intro a A hA c hc
    have := h.maskReg a A hA c hc
    simp only [List.length_append, List.length_singleton]; omega
  · rw [ha, hk]; intro a A hA
    obtain ⟨h1, h2, h3⟩ := h.comps a A hA
    refine ⟨?_, h2, h3⟩
    simp only [List.length_append, List.length_singleton]
    rw [Mask.toList_succ_of_not _ _ ?_]; exact h1
    cases hg : A.mask.get w.kinds.length with
    | false => rfl
    | true => exact absurd (h.maskReg a A hA _ hg) (Nat.lt_irrefl _)
  · rw [ha, hk]; intro a A i c hA hc
    have hmem : c ∈ A.comps := List.mem_of_getElem? hc
    rw [(h.comps a A hA).1, Mask.mem_toList] at hmem
    rw [getD_append_left' _ _ _ _ hmem.1]
    exact h.kindsOf a A i c hA hc
  · rw [ha, ht]; exact h.tblArch
  · rw [ht]; exact h.relCols
  · rw [ht]; intro t T hT; rw [harch]; exact h.member t T hT
  · rw [ha, ht]; exact h.owned
  · rw [ha]; exact h.astruct
  · rw [ha]; exact h.nonRelLe
  · rw [ht, htbl, harch]; exact h.root

end SInvMid

namespace World

theorem registerComponent_ok {k : CompKind} {w w' : World} {n : Nat}
    (h : registerComponent k w = .ok n w') :
    n = w.kinds.length ∧ w'.kinds = w.kinds ++ [k] ∧ w'.archetypes = w.archetypes ∧
      w'.tables = w.tables ∧ w'.entities = w.entities ∧ w'.pool = w.pool ∧ w'.cache = w.cache := by
  unfold registerComponent at h
  simp only at h
  split at h
  · cases h
  · split at h
    · cases h
    · injection h with h1 h2
      subst h2
      exact ⟨h1.symm, rfl, rfl, rfl, rfl, rfl, rfl⟩

/-- the two ways `registerComponent` fails leave the state unchanged -/
theorem registerComponent_panic {k : CompKind} {w w' : World} {p : PanicKind}
    (h : registerComponent k w = .panic p w') : w' = w := by
  unfold registerComponent at h
  simp only at h
  split at h
  · injection h with _ h2; exact h2.symm
  · split at h
    · injection h with _ h2; exact h2.symm
    · cases h

end World

/-- **2a** `registerComponent` (on success) keeps the structural invariant. -/
theorem SInv.registerComponent {w w' : World} (h : SInv w) {k : CompKind} {n : Nat}
    (hr : World.registerComponent k w = .ok n w') : SInv w' := by
  obtain ⟨_, hk, ha, ht, _⟩ := registerComponent_ok hr
  exact { h.toSInvMid.kinds_append k ha ht hk with settled := fun a => (h.settled a).congr ha }

theorem IdxInv.registerComponent {w w' : World} (h : IdxInv w) {k : CompKind} {n : Nat}
    (hr : World.registerComponent k w = .ok n w') : IdxInv w' := by
  obtain ⟨_, _, _, ht, he, _⟩ := registerComponent_ok hr
  exact h.congr he ht

/-! ## (2b) `createArchetype` -/

theorem getElem?_concat_cases {α : Type} {l : List α} {x y : α} {i : Nat}
    (h : (l ++ [x])[i]? = some y) : (i < l.length ∧ l[i]? = some y) ∨ (i = l.length ∧ y = x) := by
  rcases Nat.lt_or_ge i l.length with hlt | hge
  · rw [List.getElem?_append_left hlt] at h; exact Or.inl ⟨hlt, h⟩
  · rw [List.getElem?_append_right hge] at h
    obtain ⟨h0, hy⟩ := getElem?_singleton_some h
    exact Or.inr ⟨by omega, hy⟩

theorem foldl_keep {α β : Type} (f : World → α → World) (p : World → β)
    (hf : ∀ (w : World) (x : α), p (f w x) = p w) :
    ∀ (l : List α) (w : World), p (l.foldl f w) = p w
  | [], _ => rfl
  | x :: l, w => by rw [List.foldl_cons, foldl_keep f p hf l, hf]

namespace World

/-- the archetype `createArchetype mask` appends -/
def newArch (w : World) (mask : Mask) : Archetype :=
  Archetype.new w.archetypes.length mask (mask.toList w.kinds.length)
    ((mask.toList w.kinds.length).map fun c => (w.kinds.getD c {}).isRel)
    ((mask.toList w.kinds.length).map fun c => (w.kinds.getD c {}).zst) []

/-- one step of the `componentIndex` / registry update loop of `createArchetype` -/
def caStep (id : Nat) (w : World) (c : Comp) : World :=
  { w with componentIndex := w.componentIndex.modify c (· ++ [id])
           archCount := w.archCount.modify c (· + 1)
           version := w.version + 1 }

/-- the state `createArchetype mask` produces -/
def createArchetypeW (w : World) (mask : Mask) : World :=
  let w2 := (mask.toList w.kinds.length).foldl (caStep w.archetypes.length)
    { w with archetypes := w.archetypes ++ [newArch w mask] }
  if (newArch w mask).hasRelations then
    { w2 with relationArchetypes := w2.relationArchetypes ++ [w.archetypes.length] }
  else w2

theorem createArchetype_eq (mask : Mask) (w : World) :
    createArchetype mask w = .ok w.archetypes.length (createArchetypeW w mask) := rfl

theorem createArchetypeW_proj {β : Type} (p : World → β)
    (h1 : ∀ (w : World) (id : Nat) (c : Comp), p (caStep id w c) = p w)
    (h2 : ∀ (w : World) (l : List Nat), p { w with relationArchetypes := l } = p w)
    (w : World) (mask : Mask) :
    p (createArchetypeW w mask) = p { w with archetypes := w.archetypes ++ [newArch w mask] } := by
  unfold createArchetypeW
  simp only
  split
  · rw [h2]; exact foldl_keep _ p (fun w c => h1 w _ c) _ _
  · exact foldl_keep _ p (fun w c => h1 w _ c) _ _

/-- `createArchetype` always succeeds, appends `newArch` and touches neither tables, registry,
    entity index, pool nor cache (it updates `componentIndex`, `archCount`, `version`,
    `relationArchetypes`). -/
theorem createArchetype_ok (mask : Mask) (w : World) :
    ∃ (w' : World), createArchetype mask w = .ok w.archetypes.length w' ∧
      w'.archetypes = w.archetypes ++ [newArch w mask] ∧ w'.tables = w.tables ∧
      w'.kinds = w.kinds ∧ w'.entities = w.entities ∧ w'.pool = w.pool ∧ w'.cache = w.cache :=
  ⟨_, createArchetype_eq mask w,
    createArchetypeW_proj (·.archetypes) (fun _ _ _ => rfl) (fun _ _ => rfl) w mask,
    createArchetypeW_proj (·.tables) (fun _ _ _ => rfl) (fun _ _ => rfl) w mask,
    createArchetypeW_proj (·.kinds) (fun _ _ _ => rfl) (fun _ _ => rfl) w mask,
    createArchetypeW_proj (·.entities) (fun _ _ _ => rfl) (fun _ _ => rfl) w mask,
    createArchetypeW_proj (·.pool) (fun _ _ _ => rfl) (fun _ _ => rfl) w mask,
    createArchetypeW_proj (·.cache) (fun _ _ _ => rfl) (fun _ _ => rfl) w mask⟩

theorem findArch_none {w : World} {mask : Mask} (h : w.findArch mask = none) :
    ∀ (a : Nat) (A : Archetype), w.archetypes[a]? = some A → A.mask ≠ mask := by
  intro a A hA he
  unfold findArch at h
  rw [Option.map_eq_none_iff, List.find?_eq_none] at h
  have := h A (List.mem_of_getElem? hA)
  simp [he] at this

theorem newArch_hasRelations_numRel (w : World) (mask : Mask) :
    (newArch w mask).tables.tables = [] ∧ (newArch w mask).freeTables = [] ∧
    (newArch w mask).mask = mask ∧ (newArch w mask).id = w.archetypes.length := ⟨rfl, rfl, rfl, rfl⟩

end World

theorem getD_map_of_get {α β : Type} (l : List α) (f : α → β) (d : β) {i : Nat} {x : α}
    (h : l[i]? = some x) : (l.map f).getD i d = f x := by
  simp [List.getD_eq_getElem?_getD, List.getElem?_map, h]

/-- appending the archetype of a new mask (all of whose bits are registered) keeps `SInvMid` -/
theorem SInvMid.append_arch {w w' : World} (h : SInvMid w) (mask : Mask)
    (hnone : w.findArch mask = none) (hreg : ∀ (c : Nat), mask.get c = true → c < w.kinds.length)
    (ha : w'.archetypes = w.archetypes ++ [newArch w mask]) (ht : w'.tables = w.tables)
    (hk : w'.kinds = w.kinds) : SInvMid w' := by
  have harch : ∀ a, a < w.archetypes.length → w'.arch a = w.arch a := by
    intro a hlt
    simp only [arch, ha, List.getD_eq_getElem?_getD, List.getElem?_append_left hlt]
  have htbl : ∀ t, w'.tbl t = w.tbl t := fun t => by simp only [tbl, ht]
  have hold : ∀ {a : Nat} {A : Archetype}, w.archetypes[a]? = some A → w'.archetypes[a]? = some A := by
    intro a A hA
    rw [ha, List.getElem?_append_left (alt_of_get hA)]; exact hA
  have hne := findArch_none hnone
  refine ⟨?_, ?_, ?_, ?_, ?_, ?_, ?_, ?_, ?_, ?_, ?_, ?_⟩
  · intro a A hA; rw [ha] at hA
    rcases getElem?_concat_cases hA with ⟨_, h1⟩ | ⟨rfl, rfl⟩
    · exact h.archId a A h1
    · rfl
  · intro a b A B hA hB hm; rw [ha] at hA hB
    rcases getElem?_concat_cases hA with ⟨_, h1⟩ | ⟨rfl, rfl⟩
    · rcases getElem?_concat_cases hB with ⟨_, h2⟩ | ⟨rfl, rfl⟩
      · exact h.maskUniq a b A B h1 h2 hm
      · exact absurd hm (hne a A h1)
    · rcases getElem?_concat_cases hB with ⟨_, h2⟩ | ⟨rfl, rfl⟩
      · exact absurd hm.symm (hne b B h2)
      · rfl
  · intro a A hA c hc; rw [ha] at hA; rw [hk]
    rcases getElem?_concat_cases hA with ⟨_, h1⟩ | ⟨rfl, rfl⟩
    · exact h.maskReg a A h1 c hc
    · exact hreg c hc
  · intro a A hA; rw [ha] at hA; rw [hk]
    rcases getElem?_concat_cases hA with ⟨_, h1⟩ | ⟨rfl, rfl⟩
    · exact h.comps a A h1
    · exact ⟨rfl, by simp [newArch, Archetype.new], by simp [newArch, Archetype.new]⟩
  · intro a A i c hA hc; rw [ha] at hA; rw [hk]
    rcases getElem?_concat_cases hA with ⟨_, h1⟩ | ⟨rfl, rfl⟩
    · exact h.kindsOf a A i c h1 hc
    · exact ⟨getD_map_of_get _ _ _ hc, getD_map_of_get _ _ _ hc⟩
  · intro t T hT; rw [ht] at hT
    obtain ⟨A, h1, h2⟩ := h.tblArch t T hT
    exact ⟨A, hold h1, h2⟩
  · rw [ht]; exact h.relCols
  · intro t T hT; rw [ht] at hT
    obtain ⟨A, h1, _⟩ := h.tblArch t T hT
    rw [harch _ (alt_of_get h1)]; exact h.member t T hT
  · intro a A t hA hmem; rw [ha] at hA; rw [ht]
    rcases getElem?_concat_cases hA with ⟨_, h1⟩ | ⟨rfl, rfl⟩
    · exact h.owned a A t h1 hmem
    · rcases hmem with hm | hm <;> simp [newArch, Archetype.new, TableIDs.ofList] at hm
  · intro a A hA; rw [ha] at hA
    rcases getElem?_concat_cases hA with ⟨_, h1⟩ | ⟨rfl, rfl⟩
    · exact h.astruct a A h1
    · exact Archetype.struct_new _ _ _ _ _ (by simp)
  · intro a A hA hr; rw [ha] at hA
    rcases getElem?_concat_cases hA with ⟨_, h1⟩ | ⟨rfl, rfl⟩
    · exact h.nonRelLe a A h1 hr
    · exact ⟨by simp [newArch, Archetype.new, TableIDs.ofList], rfl⟩
  · obtain ⟨h0, h1, h2⟩ := h.root
    obtain ⟨A, hA, _⟩ := h.tblArch 0 _ (get_of_lt h0)
    rw [h1] at hA
    rw [ht, htbl, harch 0 (alt_of_get hA)]; exact ⟨h0, h1, h2⟩

/-- **2b** `createArchetype mask` for a mask that has no archetype yet and whose bits are all
    registered components: succeeds with the next archetype ID; the new archetype has the mask
    and no table yet, so the world is `SInvMid` with every OTHER archetype settled; tables,
    registry, entity index and pool are unchanged. -/
theorem SInv.createArchetype {w : World} (h : SInv w) (mask : Mask)
    (hnone : w.findArch mask = none) (hreg : ∀ (c : Nat), mask.get c = true → c < w.kinds.length) :
    ∃ (w' : World), World.createArchetype mask w = .ok w.archetypes.length w' ∧
      SInvMid w' ∧ (∀ (a : Nat), a ≠ w.archetypes.length → SettledAt w' a) ∧
      w'.archetypes = w.archetypes ++ [newArch w mask] ∧
      (w'.arch w.archetypes.length).mask = mask ∧
      (w'.arch w.archetypes.length).tables.tables = [] ∧
      (w'.arch w.archetypes.length).freeTables = [] ∧
      w'.tables = w.tables ∧ w'.kinds = w.kinds ∧ w'.entities = w.entities ∧ w'.pool = w.pool ∧
      w'.cache = w.cache := by
  obtain ⟨w', hok, ha, ht, hk, he, hp, hc⟩ := createArchetype_ok mask w
  have hnew : w'.arch w.archetypes.length = newArch w mask := by
    apply arch_of_get; rw [ha]; exact List.getElem?_concat_length
  refine ⟨w', hok, h.toSInvMid.append_arch mask hnone hreg ha ht hk, ?_, ha, ?_, ?_, ?_, ht, hk, he, hp, hc⟩
  · intro a hne A hA hr
    rw [ha] at hA
    rcases getElem?_concat_cases hA with ⟨_, h1⟩ | ⟨h1, _⟩
    · exact h.settled a A h1 hr
    · exact absurd h1 hne
  · rw [hnew]; rfl
  · rw [hnew]; rfl
  · rw [hnew]; rfl

theorem IdxInv.createArchetype {w w' : World} (h : IdxInv w) {mask : Mask} {a : Nat}
    (hr : World.createArchetype mask w = .ok a w') : IdxInv w' := by
  obtain ⟨w1, hok, _, ht, _, he, _⟩ := createArchetype_ok mask w
  rw [hok] at hr
  injection hr with _ h2
  subst h2
  exact h.congr he ht

/-! ## (2d) `createTable`: decomposition into checks, storage part, cache part -/

namespace World

/-- `targets[idx] = rel.target` for all given relations -/
def ctTargets (A : Archetype) (rels : List RelID) : List Ent :=
  rels.foldl (fun (ts : List Ent) r =>
    match A.colIdx r.comp with
    | some i => ts.set i r.target
    | none => ts) (List.replicate A.comps.length Ent.zero)

/-- the per-relation check loop body of `createTable` -/
def relCheck (r : RelID) : W Unit :=
  M.bind (checkRelationComponent r.comp) fun _ => checkRelationTarget r.target

/-- what the check loop of `createTable` demands: relation components, targets alive or zero -/
def RelsValid (w : World) (rels : List RelID) : Prop :=
  ∀ (r : RelID), r ∈ rels → w.isRelComp r.comp = true ∧ (r.target.isZero = true ∨ w.alive r.target = true)

instance (w : World) (rels : List RelID) : Decidable (RelsValid w rels) := by
  unfold RelsValid; exact inferInstance

theorem relCheck_cases (r : RelID) (w : World) :
    (w.isRelComp r.comp = true ∧ (r.target.isZero = true ∨ w.alive r.target = true) ∧
      relCheck r w = .ok () w) ∨
    (¬ (w.isRelComp r.comp = true ∧ (r.target.isZero = true ∨ w.alive r.target = true)) ∧
      ∃ (k : PanicKind), relCheck r w = .panic k w) := by
  unfold relCheck checkRelationComponent checkRelationTarget M.bind
  cases h1 : w.isRelComp r.comp
  · exact Or.inr ⟨by simp [h1], .notRelation, by simp [h1]⟩
  · cases h2 : r.target.isZero
    · cases h3 : w.alive r.target
      · exact Or.inr ⟨by simp [h2, h3], .deadTarget, by simp [h1, h2, h3]⟩
      · exact Or.inl ⟨rfl, Or.inr rfl, by simp [h1, h2, h3]⟩
    · exact Or.inl ⟨rfl, Or.inl rfl, by simp [h1, h2]⟩

/-- the check loop never changes the state; it succeeds exactly when all relations are valid -/
theorem relChecks_cases (rels : List RelID) (w : World) :
    (RelsValid w rels ∧ M.forM' rels relCheck w = .ok () w) ∨
    (¬ RelsValid w rels ∧ ∃ (k : PanicKind), M.forM' rels relCheck w = .panic k w) := by
  induction rels with
  | nil => exact Or.inl ⟨(by intro r hr; cases hr), rfl⟩
  | cons r rest ih =>
    rcases relCheck_cases r w with ⟨h1, h2, h3⟩ | ⟨h1, k, h3⟩
    · rcases ih with ⟨h4, h5⟩ | ⟨h4, k, h5⟩
      · refine Or.inl ⟨?_, ?_⟩
        · intro r' hr'
          rcases List.mem_cons.1 hr' with rfl | hm
          · exact ⟨h1, h2⟩
          · exact h4 r' hm
        · simp only [M.forM', bind, M.bind, h3, h5]
      · refine Or.inr ⟨fun hv => h4 fun r' hr' => hv r' (List.mem_cons_of_mem _ hr'), k, ?_⟩
        simp only [M.forM', bind, M.bind, h3, h5]
    · refine Or.inr ⟨fun hv => h1 (hv r List.mem_cons_self), k, ?_⟩
      simp only [M.forM', bind, M.bind, h3]

/-- the storage part of `createTable` (everything between the checks and `cache.addTable`):
    the new world and the table ID -/
def createTableS (w : World) (a : Nat) (rels : List RelID) : World × Nat :=
  match (w.arch a).getFreeTable with
  | some (A', t) =>
    (((w.setArch a A').modTbl t fun T => T.recycle (ctTargets (w.arch a) rels) rels).modArch a
      fun A => A.addTable t (ctTargets (w.arch a) rels), t)
  | none =>
    (({ w with tables := w.tables ++
        [Table.new w.tables.length a (w.arch a).comps (w.arch a).isRel (w.arch a).zst
          (if (w.arch a).hasRelations then w.initCapRel else w.initCap)
          (ctTargets (w.arch a) rels) rels] } : World).modArch a
      fun A => A.addTable w.tables.length (ctTargets (w.arch a) rels), w.tables.length)

theorem createTableS_none {w : World} {a : Nat} {rels : List RelID}
    (h : (w.arch a).getFreeTable = none) :
    createTableS w a rels =
      (({ w with tables := w.tables ++
        [Table.new w.tables.length a (w.arch a).comps (w.arch a).isRel (w.arch a).zst
          (if (w.arch a).hasRelations then w.initCapRel else w.initCap)
          (ctTargets (w.arch a) rels) rels] } : World).modArch a
      fun A => A.addTable w.tables.length (ctTargets (w.arch a) rels), w.tables.length) := by
  simp only [createTableS, h]

theorem createTableS_some {w : World} {a : Nat} {rels : List RelID} {A' : Archetype} {t : Nat}
    (h : (w.arch a).getFreeTable = some (A', t)) :
    createTableS w a rels =
      (((w.setArch a A').modTbl t fun T => T.recycle (ctTargets (w.arch a) rels) rels).modArch a
        fun A => A.addTable t (ctTargets (w.arch a) rels), t) := by
  simp only [createTableS, h]

/-- the panic class the check loop ends with (when it does) -/
def relPanic (w : World) (rels : List RelID) : PanicKind :=
  match M.forM' rels relCheck w with
  | .panic k _ => k
  | .ok _ _ => .other

/-- the cache part of `createTable` -/
def ctFinish (p : World × Nat) : Res World Nat :=
  match p.1.cacheAddTable (p.1.tbl p.2) with
  | none => .panic .runtime p.1
  | some w' => .ok p.2 w'

theorem ct_tail (X : World) (n : Nat) :
    (match X.cacheAddTable (X.tbl n) with
     | none => (M.panic PanicKind.runtime : W Unit).bind fun _ => (M.pure n : W Nat)
     | some w' => (M.set w').bind fun _ => M.pure n) X = ctFinish (X, n) := by
  unfold ctFinish
  cases X.cacheAddTable (X.tbl n) <;> rfl

/-- `createTable` = argument checks; relation checks; storage part; cache part. -/
theorem createTable_eq (a : Nat) (rels : List RelID) (w : World) :
    createTable a rels w =
      if rels.length < (w.arch a).numRel then .panic .relUnspecified w
      else if (rels.all fun r => ((w.arch a).colIdx r.comp).isSome) = false then .panic .runtime w
      else if RelsValid w rels then ctFinish (createTableS w a rels)
      else .panic (relPanic w rels) w := by
  unfold createTable
  simp only [bind, M.bind, M.get, M.assert, pure]
  by_cases h1 : rels.length < (w.arch a).numRel
  · simp [h1]
  · simp only [h1, decide_false, Bool.not_false, if_true, if_false]
    cases h2 : (rels.all fun r => ((w.arch a).colIdx r.comp).isSome)
    · simp
    · simp only [if_true, Bool.true_eq_false, if_false]
      rcases relChecks_cases rels w with ⟨h3, h4⟩ | ⟨h3, k, h4⟩
      · rw [if_pos h3]
        have h4' : M.forM' rels (fun r => M.bind (checkRelationComponent r.comp) fun _ =>
            checkRelationTarget r.target) w = .ok () w := h4
        rw [h4']
        cases hf : (w.arch a).getFreeTable with
        | none =>
          rw [createTableS_none hf]
          simp only [hf, M.set, M.bind, M.pure, M.modify, M.get]
          exact ct_tail _ _
        | some p =>
          obtain ⟨A', t⟩ := p
          rw [createTableS_some hf]
          simp only [hf, M.set, M.bind, M.pure, M.modify, M.get]
          exact ct_tail _ _
      · rw [if_neg h3]
        have h4' : M.forM' rels (fun r => M.bind (checkRelationComponent r.comp) fun _ =>
            checkRelationTarget r.target) w = .panic k w := h4
        rw [h4']; simp only [relPanic, h4]

/-- on success: the arguments passed all checks and the result is the storage part followed by
    the cache part -/
theorem createTable_ok {a : Nat} {rels : List RelID} {w w' : World} {t : Nat}
    (h : createTable a rels w = .ok t w') :
    (w.arch a).numRel ≤ rels.length ∧ (∀ (r : RelID), r ∈ rels → ((w.arch a).colIdx r.comp).isSome = true) ∧
    RelsValid w rels ∧ t = (createTableS w a rels).2 ∧
    (createTableS w a rels).1.cacheAddTable ((createTableS w a rels).1.tbl t) = some w' := by
  rw [createTable_eq] at h
  split at h
  · cases h
  · rename_i h1
    split at h
    · cases h
    · rename_i h2
      split at h
      · rename_i h3
        refine ⟨by omega, ?_, h3, ?_⟩
        · intro r hr
          have : (rels.all fun r => ((w.arch a).colIdx r.comp).isSome) = true := by
            cases hh : (rels.all fun r => ((w.arch a).colIdx r.comp).isSome)
            · exact absurd hh h2
            · rfl
          exact List.all_eq_true.1 this r hr
        · unfold ctFinish at h
          split at h
          · cases h
          · rename_i w1 hc
            injection h with h5 h6
            subst h5; subst h6
            exact ⟨rfl, hc⟩
      · cases h

/-- conversely, with all checks passing `createTable` is the storage part then the cache part -/
theorem createTable_of_valid {a : Nat} {rels : List RelID} {w : World}
    (h1 : (w.arch a).numRel ≤ rels.length)
    (h2 : ∀ (r : RelID), r ∈ rels → ((w.arch a).colIdx r.comp).isSome = true)
    (h3 : RelsValid w rels) : createTable a rels w = ctFinish (createTableS w a rels) := by
  rw [createTable_eq, if_neg (by omega), if_neg, if_pos h3]
  rw [Bool.not_eq_false]
  exact List.all_eq_true.2 h2

/-- `cache.addTable` changes only the cache -/
theorem cacheAddTable_frame {w w' : World} {T : Table} (h : w.cacheAddTable T = some w') :
    w'.archetypes = w.archetypes ∧ w'.tables = w.tables ∧ w'.kinds = w.kinds ∧
      w'.entities = w.entities ∧ w'.pool = w.pool := by
  unfold cacheAddTable at h
  simp only at h
  split at h
  · cases h
  · injection h with h; subst h; exact ⟨rfl, rfl, rfl, rfl, rfl⟩

end World

/-! ## archetype-level facts about `AddTable` / `GetFreeTable` beyond `ArchIndex` -/

namespace Archetype

theorem afoldl_keep {α β : Type} (f : Archetype → α → Archetype) (p : Archetype → β)
    (hf : ∀ (a : Archetype) (x : α), p (f a x) = p a) :
    ∀ (l : List α) (a : Archetype), p (l.foldl f a) = p a
  | [], _ => rfl
  | x :: l, a => by rw [List.foldl_cons, afoldl_keep f p hf l, hf]

theorem addStep_id (tid : Nat) (targets : List Ent) (a : Archetype) (k : Nat) :
    (addStep tid targets a k).id = a.id := by unfold addStep; split <;> rfl

theorem addStep_mask (tid : Nat) (targets : List Ent) (a : Archetype) (k : Nat) :
    (addStep tid targets a k).mask = a.mask := by unfold addStep; split <;> rfl

theorem addStep_zst (tid : Nat) (targets : List Ent) (a : Archetype) (k : Nat) :
    (addStep tid targets a k).zst = a.zst := by unfold addStep; split <;> rfl

theorem addFold_sameShape (tid : Nat) (targets : List Ent) (a : Archetype) (n : Nat) :
    SameShape a ((List.range n).foldl (addStep tid targets) a) := by
  induction n with
  | zero => exact SameShape.refl a
  | succ n ih =>
    rw [List.range_succ, List.foldl_append]
    exact ih.trans (addStep_sameShape _ _ _ _)

/-- `AddTable` = append to the table list, then edit only the two relation indices -/
theorem addTable_sameShape (a : Archetype) (tid : Nat) (targets : List Ent) :
    SameShape { a with tables := a.tables.append tid } (a.addTable tid targets) := by
  rw [addTable_eq]
  split
  · exact SameShape.refl _
  · exact addFold_sameShape _ _ _ _

theorem addTable_id (a : Archetype) (tid : Nat) (targets : List Ent) :
    (a.addTable tid targets).id = a.id := by
  rw [addTable_eq]; split
  · rfl
  · exact afoldl_keep _ (·.id) (addStep_id tid targets) _ _

theorem addTable_mask (a : Archetype) (tid : Nat) (targets : List Ent) :
    (a.addTable tid targets).mask = a.mask := by
  rw [addTable_eq]; split
  · rfl
  · exact afoldl_keep _ (·.mask) (addStep_mask tid targets) _ _

theorem addTable_zst (a : Archetype) (tid : Nat) (targets : List Ent) :
    (a.addTable tid targets).zst = a.zst := by
  rw [addTable_eq]; split
  · rfl
  · exact afoldl_keep _ (·.zst) (addStep_zst tid targets) _ _

theorem addTable_tables (a : Archetype) (tid : Nat) (targets : List Ent) :
    (a.addTable tid targets).tables.tables = a.tables.tables ++ [tid] := by
  rw [(addTable_sameShape a tid targets).tables]; rfl

theorem addTable_freeTables (a : Archetype) (tid : Nat) (targets : List Ent) :
    (a.addTable tid targets).freeTables = a.freeTables :=
  (addTable_sameShape a tid targets).freeTables

theorem addTable_comps (a : Archetype) (tid : Nat) (targets : List Ent) :
    (a.addTable tid targets).comps = a.comps := (addTable_sameShape a tid targets).comps

theorem addTable_isRel (a : Archetype) (tid : Nat) (targets : List Ent) :
    (a.addTable tid targets).isRel = a.isRel := (addTable_sameShape a tid targets).isRel

theorem addTable_numRel (a : Archetype) (tid : Nat) (targets : List Ent) :
    (a.addTable tid targets).numRel = a.numRel := (addTable_sameShape a tid targets).numRel

/-- `AddTable` of a table that is neither active nor free keeps the structural part -/
theorem Struct.addTable {a : Archetype} (h : Struct a) (tid : Nat) (targets : List Ent)
    (hact : tid ∉ a.tables.tables) (hfree : tid ∉ a.freeTables) :
    Struct (a.addTable tid targets) := by
  have hs0 : Struct { a with tables := a.tables.append tid } := by
    refine ⟨h.tablesWF.append hact, h.freeNodup, ?_, h.lenRel, h.lenIsRel, h.numRelEq⟩
    intro t ht
    rw [show ({ a with tables := a.tables.append tid } : Archetype).tables.tables
        = a.tables.tables ++ [tid] from rfl] at ht
    rcases List.mem_append.1 ht with h1 | h1
    · exact h.disjoint t h1
    · rw [List.mem_singleton.1 h1]; exact hfree
  exact hs0.of_sameShape (addTable_sameShape a tid targets)

/-- `GetFreeTable` at the structural level -/
theorem Struct.getFreeTable {a a' : Archetype} {t : Nat} (h : Struct a)
    (hg : a.getFreeTable = some (a', t)) :
    Struct a' ∧ a.freeTables = a'.freeTables ++ [t] ∧ a'.tables = a.tables ∧
      t ∉ a'.freeTables ∧ t ∉ a'.tables.tables ∧ a'.id = a.id ∧ a'.mask = a.mask ∧
      a'.comps = a.comps ∧ a'.isRel = a.isRel ∧ a'.zst = a.zst ∧ a'.numRel = a.numRel := by
  unfold Archetype.getFreeTable at hg
  cases hl : a.freeTables.getLast? with
  | none => rw [hl] at hg; cases hg
  | some x =>
    rw [hl] at hg
    injection hg with hg
    injection hg with ha ht
    subst ht
    subst ha
    have hsplit : a.freeTables = a.freeTables.dropLast ++ [x] :=
      eq_dropLast_append_of_getLast? _ x hl
    have hnd := h.freeNodup
    rw [hsplit] at hnd
    have hnd' := List.nodup_append.1 hnd
    have hxfree : x ∈ a.freeTables := by rw [hsplit]; simp
    refine ⟨?_, hsplit, rfl, ?_, ?_, rfl, rfl, rfl, rfl, rfl, rfl⟩
    · refine ⟨h.tablesWF, hnd'.1, ?_, h.lenRel, h.lenIsRel, h.numRelEq⟩
      intro t ht hm
      exact h.disjoint t ht (by rw [hsplit]; exact List.mem_append_left _ hm)
    · intro hm
      exact hnd'.2.2 x hm x (List.mem_singleton.2 rfl) rfl
    · intro hm
      exact h.disjoint x hm hxfree

theorem getFreeTable_none {a : Archetype} (h : a.getFreeTable = none) : a.freeTables = [] := by
  unfold Archetype.getFreeTable at h
  cases hl : a.freeTables.getLast? with
  | none => exact List.getLast?_eq_none_iff.1 hl
  | some x => rw [hl] at h; cases h

theorem getFreeTable_of_nil {a : Archetype} (h : a.freeTables = []) : a.getFreeTable = none := by
  unfold Archetype.getFreeTable; rw [h]; rfl

/-- a column index is a position of the component list -/
theorem colIdx_get {a : Archetype} {c : Comp} {i : Nat} (h : a.colIdx c = some i) :
    a.comps[i]? = some c := by
  unfold colIdx at h
  simp only at h
  split at h
  · rename_i hlt
    injection h with h; subst h
    rw [List.getElem?_eq_getElem hlt]
    congr 1
    exact List.getElem_idxOf hlt
  · cases h

end Archetype

/-! ## the abstract effect of `createTable` on archetypes and tables -/

/-- `w'` arises from `w` by putting table `Tn` into slot `tid` (a new slot at the end, or the
    slot of a free table of `a`) and replacing archetype `a` (`A`) by `A2`, which lists `tid` as
    active and no longer as free. -/
structure TableAdded (w w' : World) (a tid : Nat) (A A2 : Archetype) (Tn : Table) : Prop where
  hA : w.archetypes[a]? = some A
  archs : w'.archetypes = w.archetypes.set a A2
  tabs : ∀ (t : Nat), w'.tables[t]? = if t = tid then some Tn else w.tables[t]?
  kinds : w'.kinds = w.kinds
  id : A2.id = A.id
  mask : A2.mask = A.mask
  comps : A2.comps = A.comps
  isRel : A2.isRel = A.isRel
  zst : A2.zst = A.zst
  numRel : A2.numRel = A.numRel
  struct : A2.Struct
  tabsEq : A2.tables.tables = A.tables.tables ++ [tid]
  memT : ∀ (t : Nat), t ∈ A2.tables.tables ↔ t ∈ A.tables.tables ∨ t = tid
  memF : ∀ (t : Nat), t ∈ A2.freeTables ↔ t ∈ A.freeTables ∧ t ≠ tid
  tArch : Tn.arch = a
  tIds : Tn.ids = A.comps
  tIsRel : Tn.isRel = A.isRel
  tZst : Tn.zst = A.zst
  tId : Tn.id = tid
  tFree : Tn.isFree = false
  tRel : ∀ (r : RelID), r ∈ Tn.relIDs → ∃ (i : Nat), Tn.ids[i]? = some r.comp ∧ Tn.isRel.getD i false = true
  oldArch : ∀ (T : Table), w.tables[tid]? = some T → T.arch = a
  others : ∀ (b : Nat) (B : Archetype), b ≠ a → w.archetypes[b]? = some B →
    tid ∉ B.tables.tables ∧ tid ∉ B.freeTables
  nonRel : A2.hasRelations = false → A2.tables.tables.length = 1 ∧ A2.freeTables = []

namespace TableAdded

variable {w w' : World} {a tid : Nat} {A A2 : Archetype} {Tn : Table}

theorem aget (ta : TableAdded w w' a tid A A2 Tn) {b : Nat} {B : Archetype}
    (h : w'.archetypes[b]? = some B) :
    (b = a ∧ B = A2) ∨ (b ≠ a ∧ w.archetypes[b]? = some B) := by
  rw [ta.archs, List.getElem?_set] at h
  by_cases hb : a = b
  · subst hb
    rw [if_pos rfl, if_pos (alt_of_get ta.hA)] at h
    exact Or.inl ⟨rfl, (Option.some.inj h).symm⟩
  · rw [if_neg hb] at h
    exact Or.inr ⟨fun e => hb e.symm, h⟩

theorem aget_self (ta : TableAdded w w' a tid A A2 Tn) : w'.archetypes[a]? = some A2 := by
  rw [ta.archs, List.getElem?_set_self (alt_of_get ta.hA)]

theorem aget_ne (ta : TableAdded w w' a tid A A2 Tn) {b : Nat} (hb : b ≠ a) :
    w'.archetypes[b]? = w.archetypes[b]? := by
  rw [ta.archs, List.getElem?_set_ne (fun e => hb e.symm)]

theorem arch_self (ta : TableAdded w w' a tid A A2 Tn) : w'.arch a = A2 := arch_of_get ta.aget_self

theorem arch_ne (ta : TableAdded w w' a tid A A2 Tn) {b : Nat} (hb : b ≠ a) : w'.arch b = w.arch b := by
  simp only [arch, List.getD_eq_getElem?_getD, ta.aget_ne hb]

theorem tget (ta : TableAdded w w' a tid A A2 Tn) {t : Nat} {T : Table}
    (h : w'.tables[t]? = some T) : (t = tid ∧ T = Tn) ∨ (t ≠ tid ∧ w.tables[t]? = some T) := by
  rw [ta.tabs] at h
  by_cases ht : t = tid
  · rw [if_pos ht] at h; exact Or.inl ⟨ht, (Option.some.inj h).symm⟩
  · rw [if_neg ht] at h; exact Or.inr ⟨ht, h⟩

theorem tget_self (ta : TableAdded w w' a tid A A2 Tn) : w'.tables[tid]? = some Tn := by
  rw [ta.tabs, if_pos rfl]

theorem tget_ne (ta : TableAdded w w' a tid A A2 Tn) {t : Nat} (ht : t ≠ tid) :
    w'.tables[t]? = w.tables[t]? := by rw [ta.tabs, if_neg ht]

theorem hasRelations (ta : TableAdded w w' a tid A A2 Tn) : A2.hasRelations = A.hasRelations := by
  simp only [Archetype.hasRelations, ta.numRel]

end TableAdded

/-- adding / recycling a table keeps `SInvMid`, settles the archetype, keeps the others settled -/
theorem SInvMid.tableAdded {w w' : World} {a tid : Nat} {A A2 : Archetype} {Tn : Table}
    (h : SInvMid w) (ta : TableAdded w w' a tid A A2 Tn) :
    SInvMid w' ∧ SettledAt w' a ∧ ∀ (b : Nat), b ≠ a → SettledAt w b → SettledAt w' b := by
  refine ⟨⟨?_, ?_, ?_, ?_, ?_, ?_, ?_, ?_, ?_, ?_, ?_, ?_⟩, ?_, ?_⟩
  · intro b B hB
    rcases ta.aget hB with ⟨rfl, rfl⟩ | ⟨_, h1⟩
    · rw [ta.id]; exact h.archId _ A ta.hA
    · exact h.archId b B h1
  · intro b c B C hB hC hm
    rcases ta.aget hB with ⟨rfl, rfl⟩ | ⟨_, h1⟩
    · rcases ta.aget hC with ⟨rfl, rfl⟩ | ⟨_, h2⟩
      · rfl
      · exact h.maskUniq _ c A C ta.hA h2 (ta.mask ▸ hm)
    · rcases ta.aget hC with ⟨rfl, rfl⟩ | ⟨_, h2⟩
      · exact h.maskUniq b _ B A h1 ta.hA (by rw [hm, ta.mask])
      · exact h.maskUniq b c B C h1 h2 hm
  · intro b B hB c hc; rw [ta.kinds]
    rcases ta.aget hB with ⟨rfl, rfl⟩ | ⟨_, h1⟩
    · rw [ta.mask] at hc; exact h.maskReg _ A ta.hA c hc
    · exact h.maskReg b B h1 c hc
  · intro b B hB; rw [ta.kinds]
    rcases ta.aget hB with ⟨rfl, rfl⟩ | ⟨_, h1⟩
    · rw [ta.comps, ta.mask, ta.isRel, ta.zst]; exact h.comps _ A ta.hA
    · exact h.comps b B h1
  · intro b B i c hB hc; rw [ta.kinds]
    rcases ta.aget hB with ⟨rfl, rfl⟩ | ⟨_, h1⟩
    · rw [ta.comps] at hc; rw [ta.isRel, ta.zst]; exact h.kindsOf _ A i c ta.hA hc
    · exact h.kindsOf b B i c h1 hc
  · intro t T hT
    rcases ta.tget hT with ⟨rfl, rfl⟩ | ⟨_, h1⟩
    · refine ⟨A2, by rw [ta.tArch]; exact ta.aget_self, ?_, ?_, ?_, ta.tId⟩
      · rw [ta.tIds, ta.comps]
      · rw [ta.tIsRel, ta.isRel]
      · rw [ta.tZst, ta.zst]
    · obtain ⟨B, hB, e1, e2, e3, e4⟩ := h.tblArch t T h1
      by_cases hb : T.arch = a
      · have : B = A := by rw [hb, ta.hA] at hB; exact (Option.some.inj hB).symm
        subst this
        refine ⟨A2, by rw [hb]; exact ta.aget_self, ?_, ?_, ?_, e4⟩
        · rw [e1, ta.comps]
        · rw [e2, ta.isRel]
        · rw [e3, ta.zst]
      · exact ⟨B, by rw [ta.aget_ne hb]; exact hB, e1, e2, e3, e4⟩
  · intro t T hT
    rcases ta.tget hT with ⟨rfl, rfl⟩ | ⟨_, h1⟩
    · exact ta.tRel
    · exact h.relCols t T h1
  · intro t T hT
    rcases ta.tget hT with ⟨rfl, rfl⟩ | ⟨hne, h1⟩
    · rw [ta.tArch, ta.arch_self, ta.tFree, ta.memT, ta.memF]
      simp
    · have hm := h.member t T h1
      by_cases hb : T.arch = a
      · rw [hb, arch_of_get ta.hA] at hm
        rw [hb, ta.arch_self, ta.memT, ta.memF]
        simp only [hne, or_false, ne_eq, not_false_eq_true, and_true]
        exact hm
      · rw [ta.arch_ne hb]; exact hm
  · intro b B t hB hmem
    rcases ta.aget hB with ⟨rfl, rfl⟩ | ⟨hb, h1⟩
    · by_cases ht : t = tid
      · subst ht; exact ⟨Tn, ta.tget_self, ta.tArch⟩
      · rw [ta.memT, ta.memF] at hmem
        have hmem' : t ∈ A.tables.tables ∨ t ∈ A.freeTables := by
          rcases hmem with (h2 | h2) | h2
          · exact Or.inl h2
          · exact absurd h2 ht
          · exact Or.inr h2.1
        obtain ⟨T, hT, hTa⟩ := h.owned _ A t ta.hA hmem'
        exact ⟨T, by rw [ta.tget_ne ht]; exact hT, hTa⟩
    · have ht : t ≠ tid := by
        rintro rfl
        have := ta.others b B hb h1
        rcases hmem with h2 | h2
        · exact this.1 h2
        · exact this.2 h2
      obtain ⟨T, hT, hTa⟩ := h.owned b B t h1 hmem
      exact ⟨T, by rw [ta.tget_ne ht]; exact hT, hTa⟩
  · intro b B hB
    rcases ta.aget hB with ⟨rfl, rfl⟩ | ⟨_, h1⟩
    · exact ta.struct
    · exact h.astruct b B h1
  · intro b B hB hr
    rcases ta.aget hB with ⟨rfl, rfl⟩ | ⟨_, h1⟩
    · obtain ⟨h2, h3⟩ := ta.nonRel hr
      exact ⟨by omega, h3⟩
    · exact h.nonRelLe b B h1 hr
  · obtain ⟨h0, h1, h2⟩ := h.root
    have hT0 := get_of_lt h0
    refine ⟨?_, ?_, ?_⟩
    · by_cases ht : (0 : Nat) = tid
      · exact lt_of_get (ht ▸ ta.tget_self)
      · exact lt_of_get (by rw [ta.tget_ne ht]; exact hT0)
    · by_cases ht : (0 : Nat) = tid
      · subst ht
        rw [tbl_of_get ta.tget_self, ta.tArch, ← ta.oldArch _ hT0]; exact h1
      · rw [tbl_of_get (by rw [ta.tget_ne ht]; exact hT0)]; exact h1
    · by_cases hb : (0 : Nat) = a
      · subst hb
        rw [ta.arch_self, ta.mask]
        rw [arch_of_get ta.hA] at h2; exact h2
      · rw [ta.arch_ne hb]; exact h2
  · intro B hB hr
    rw [ta.aget_self] at hB
    have : B = A2 := (Option.some.inj hB).symm
    subst this
    exact (ta.nonRel hr).1
  · intro b hb hs B hB hr
    rw [ta.aget_ne hb] at hB
    exact hs B hB hr

theorem TableAdded.congr {w W w' : World} {a tid : Nat} {A A2 : Archetype} {Tn : Table}
    (ta : TableAdded w W a tid A A2 Tn) (ha : w'.archetypes = W.archetypes)
    (ht : w'.tables = W.tables) (hk : w'.kinds = W.kinds) : TableAdded w w' a tid A A2 Tn :=
  { ta with archs := ha.trans ta.archs, tabs := by intro t; rw [ht]; exact ta.tabs t,
            kinds := hk.trans ta.kinds }

theorem getElem?_concat_eq {α : Type} (l : List α) (x : α) (t : Nat) :
    (l ++ [x])[t]? = if t = l.length then some x else l[t]? := by
  by_cases h : t = l.length
  · subst h; rw [if_pos rfl]; exact List.getElem?_concat_length
  · rw [if_neg h]
    rcases Nat.lt_or_ge t l.length with h1 | h1
    · exact List.getElem?_append_left h1
    · rw [List.getElem?_eq_none h1, List.getElem?_eq_none]
      simp only [List.length_append, List.length_singleton]; omega

theorem getElem?_set_eq {α : Type} (l : List α) (x : α) (i t : Nat) (hi : i < l.length) :
    (l.set i x)[t]? = if t = i then some x else l[t]? := by
  by_cases h : t = i
  · subst h; rw [if_pos rfl]; exact List.getElem?_set_self hi
  · rw [if_neg h]; exact List.getElem?_set_ne (fun e => h e.symm)

/-- the relations handed to `createTable` name relation columns of the archetype -/
theorem SInvMid.rels_cols {w : World} (h : SInvMid w) {a : Nat} {A : Archetype}
    (hA : w.archetypes[a]? = some A) {rels : List RelID}
    (hcol : ∀ (r : RelID), r ∈ rels → (A.colIdx r.comp).isSome = true) (hval : RelsValid w rels) :
    ∀ (r : RelID), r ∈ rels → ∃ (i : Nat), A.comps[i]? = some r.comp ∧ A.isRel.getD i false = true := by
  intro r hr
  cases hc : A.colIdx r.comp with
  | none => have := hcol r hr; rw [hc] at this; cases this
  | some i =>
    have hg := Archetype.colIdx_get hc
    refine ⟨i, hg, ?_⟩
    rw [(h.kindsOf a A i r.comp hA hg).1]
    exact (hval r hr).1

/-- **the storage part of `createTable`** in the abstract form: a fresh table at the end when
    the archetype has no free table, otherwise the last free table recycled. -/
theorem SInvMid.createTableS_added {w : World} (h : SInvMid w) {a : Nat} {A : Archetype}
    (hA : w.archetypes[a]? = some A) {rels : List RelID}
    (hcol : ∀ (r : RelID), r ∈ rels → (A.colIdx r.comp).isSome = true) (hval : RelsValid w rels)
    (hnr : A.hasRelations = false → A.tables.tables = []) :
    ∃ (A2 : Archetype) (Tn : Table),
      TableAdded w (createTableS w a rels).1 a (createTableS w a rels).2 A A2 Tn ∧
      Tn.relIDs = rels ∧ Tn.targets = ctTargets A rels ∧
      ((A.freeTables = [] ∧ (createTableS w a rels).2 = w.tables.length ∧
          Tn = Table.new w.tables.length a A.comps A.isRel A.zst
            (if A.hasRelations then w.initCapRel else w.initCap) (ctTargets A rels) rels) ∨
       ((createTableS w a rels).2 < w.tables.length ∧ (createTableS w a rels).2 ∈ A.freeTables ∧
          Tn = (w.tbl (createTableS w a rels).2).recycle (ctTargets A rels) rels)) ∧
      (createTableS w a rels).1.entities = w.entities ∧ (createTableS w a rels).1.pool = w.pool ∧
      (createTableS w a rels).1.cache = w.cache := by
  have hAe : w.arch a = A := arch_of_get hA
  have halt := alt_of_get hA
  have hS := h.astruct a A hA
  cases hf : A.getFreeTable with
  | none =>
    have hfree : A.freeTables = [] := Archetype.getFreeTable_none hf
    rw [createTableS_none (by rw [hAe]; exact hf), hAe]
    have hnew : ∀ (b : Nat) (B : Archetype), w.archetypes[b]? = some B →
        w.tables.length ∉ B.tables.tables ∧ w.tables.length ∉ B.freeTables := by
      intro b B hB
      constructor
      · intro hm
        obtain ⟨T, hT, _⟩ := h.owned b B _ hB (Or.inl hm)
        exact absurd (lt_of_get hT) (Nat.lt_irrefl _)
      · intro hm
        obtain ⟨T, hT, _⟩ := h.owned b B _ hB (Or.inr hm)
        exact absurd (lt_of_get hT) (Nat.lt_irrefl _)
    refine ⟨A.addTable w.tables.length (ctTargets A rels), _, ?_, rfl, rfl,
      Or.inl ⟨hfree, rfl, rfl⟩, rfl, rfl, rfl⟩
    refine { hA := hA, archs := ?_, tabs := ?_, kinds := rfl,
             id := Archetype.addTable_id .., mask := Archetype.addTable_mask ..,
             comps := Archetype.addTable_comps .., isRel := Archetype.addTable_isRel ..,
             zst := Archetype.addTable_zst .., numRel := Archetype.addTable_numRel ..,
             struct := hS.addTable _ _ (hnew a A hA).1 (hnew a A hA).2,
             tabsEq := Archetype.addTable_tables ..,
             memT := ?_, memF := ?_, tArch := rfl, tIds := rfl, tIsRel := rfl, tZst := rfl,
             tId := rfl, tFree := rfl, tRel := h.rels_cols hA hcol hval, oldArch := ?_,
             others := fun b B _ hB => hnew b B hB, nonRel := ?_ }
    · show w.archetypes.set a ((w.arch a).addTable _ _) = _
      rw [hAe]
    · intro t; exact getElem?_concat_eq _ _ t
    · intro t; rw [Archetype.addTable_tables]; simp
    · intro t; rw [Archetype.addTable_freeTables, hfree]; simp
    · intro T hT; rw [List.getElem?_eq_none (Nat.le_refl _)] at hT; cases hT
    · intro hr
      have hr' : A.hasRelations = false := by
        simpa only [Archetype.hasRelations, Archetype.addTable_numRel] using hr
      rw [Archetype.addTable_tables, hnr hr', Archetype.addTable_freeTables]
      exact ⟨rfl, hfree⟩
  | some p =>
    obtain ⟨A', t⟩ := p
    rw [createTableS_some (by rw [hAe]; exact hf), hAe]
    obtain ⟨hS', hsplit, htabs, hnf, hnt, e1, e2, e3, e4, e5, e6⟩ := hS.getFreeTable hf
    have htfree : t ∈ A.freeTables := by rw [hsplit]; simp
    obtain ⟨T, hT, hTa⟩ := h.owned a A t hA (Or.inr htfree)
    have htlt := lt_of_get hT
    have hTe : w.tbl t = T := tbl_of_get hT
    obtain ⟨A0, hA0, i1, i2, i3, i4⟩ := h.tblArch t T hT
    have : A0 = A := by rw [hTa, hA] at hA0; exact (Option.some.inj hA0).symm
    subst this
    refine ⟨A'.addTable t (ctTargets A0 rels), (w.tbl t).recycle (ctTargets A0 rels) rels, ?_, rfl, rfl,
      Or.inr ⟨htlt, htfree, rfl⟩, rfl, rfl, rfl⟩
    refine { hA := hA, archs := ?_, tabs := ?_, kinds := rfl,
             id := (Archetype.addTable_id ..).trans e1, mask := (Archetype.addTable_mask ..).trans e2,
             comps := (Archetype.addTable_comps ..).trans e3,
             isRel := (Archetype.addTable_isRel ..).trans e4,
             zst := (Archetype.addTable_zst ..).trans e5,
             numRel := (Archetype.addTable_numRel ..).trans e6,
             struct := hS'.addTable _ _ hnt hnf,
             tabsEq := by rw [Archetype.addTable_tables, htabs],
             memT := ?_, memF := ?_, tArch := by rw [hTe]; exact hTa,
             tIds := by rw [hTe]; exact i1, tIsRel := by rw [hTe]; exact i2,
             tZst := by rw [hTe]; exact i3, tId := by rw [hTe]; exact i4, tFree := rfl,
             tRel := ?_, oldArch := ?_, others := ?_, nonRel := ?_ }
    · show (w.archetypes.set a A').set a ((((w.setArch a A').modTbl t _).arch a).addTable _ _) = _
      have : ((w.setArch a A').modTbl t fun T => T.recycle (ctTargets A0 rels) rels).arch a = A' := by
        show (w.archetypes.set a A').getD a default = A'
        simp [List.getD_eq_getElem?_getD, List.getElem?_set_self halt]
      rw [this, List.set_set]
    · intro t'
      show (w.tables.set t _)[t']? = _
      exact getElem?_set_eq _ _ t t' htlt
    · intro x; rw [Archetype.addTable_tables, htabs]; simp
    · intro x
      show x ∈ (A'.addTable t (ctTargets A0 rels)).freeTables ↔ x ∈ A0.freeTables ∧ x ≠ t
      rw [Archetype.addTable_freeTables, hsplit]
      constructor
      · intro hx; exact ⟨List.mem_append_left _ hx, fun e => hnf (e ▸ hx)⟩
      · rintro ⟨hx, hne⟩
        rcases List.mem_append.1 hx with h1 | h1
        · exact h1
        · exact absurd (List.mem_singleton.1 h1) hne
    · intro r hr
      obtain ⟨i, h1, h2⟩ := h.rels_cols hA hcol hval r hr
      refine ⟨i, ?_, ?_⟩
      · show (w.tbl t).ids[i]? = _
        rw [hTe, i1]; exact h1
      · show (w.tbl t).isRel.getD i false = true
        rw [hTe, i2]; exact h2
    · intro T' hT'; rw [hT] at hT'; rw [← Option.some.inj hT']; exact hTa
    · intro b B hb hB
      constructor
      · intro hm
        obtain ⟨T', hT', hTb⟩ := h.owned b B t hB (Or.inl hm)
        rw [hT] at hT'; rw [← Option.some.inj hT'] at hTb
        exact hb (hTb.symm.trans hTa)
      · intro hm
        obtain ⟨T', hT', hTb⟩ := h.owned b B t hB (Or.inr hm)
        rw [hT] at hT'; rw [← Option.some.inj hT'] at hTb
        exact hb (hTb.symm.trans hTa)
    · intro hr
      have hr' : A0.hasRelations = false := by
        simpa only [Archetype.hasRelations, Archetype.addTable_numRel, e6] using hr
      have := (h.nonRelLe a A0 hA hr').2
      rw [hsplit] at this
      simp at this

end Ark
